// Package c16types: the family of values the C16 harness feeds to the CQRS and reply
// marshalers, their canonical rendering, and direct calls of the serialisation libraries
// (= the oracle values of the Coq model).
package c16types

import (
	"encoding/hex"
	"encoding/json"
	"fmt"
	"math/rand"
	"reflect"
	"time"

	"github.com/davecgh/go-spew/spew"
	gogoproto "github.com/gogo/protobuf/proto"
	gogotypes "github.com/gogo/protobuf/types"
	stdproto "google.golang.org/protobuf/proto"
	"google.golang.org/protobuf/reflect/protoreflect"
	"google.golang.org/protobuf/types/known/durationpb"
	"google.golang.org/protobuf/types/known/emptypb"
	"google.golang.org/protobuf/types/known/fieldmaskpb"
	"google.golang.org/protobuf/types/known/structpb"
	"google.golang.org/protobuf/types/known/timestamppb"
	"google.golang.org/protobuf/types/known/wrapperspb"
)

type LibRes struct {
	Kind string  `json:"k"` // ok | err | panic | na
	B    *string `json:"b"` // hex: encoded bytes (null = nil slice) or rendering of the decoded value
}

type Flat struct {
	S  string `json:"s"`
	I  int64  `json:"i"`
	B  bool   `json:"b"`
	Bs []byte `json:"bs"`
	U  uint8
}

type Nested struct {
	Name  string
	Inner *Flat
	List  []Flat
	M     map[string]string
	Tags  []string `json:"tags,omitempty"`
}

type Named struct {
	N string
	V string
}

func (n Named) Name() string { return "named:" + n.N }

type Unmarshalable struct{ C chan int }

type Generic[T any] struct{ X T }

// OnlyV2 implements google.golang.org/protobuf's proto.Message (ProtoReflect) and nothing else:
// in particular not gogo's proto.Message (Reset/String/ProtoMessage).
type OnlyV2 struct{ Inner *wrapperspb.StringValue }

func (o *OnlyV2) ProtoReflect() protoreflect.Message { return o.Inner.ProtoReflect() }

type StrFn func(allowInvalid bool) string

func GenFlat(r *rand.Rand, s StrFn) *Flat {
	f := &Flat{S: s(false), I: r.Int63() - r.Int63(), B: r.Intn(2) == 0, U: uint8(r.Intn(256))}
	switch r.Intn(4) {
	case 0:
	case 1:
		f.Bs = []byte{}
	default:
		f.Bs = make([]byte, r.Intn(40))
		r.Read(f.Bs)
	}
	if r.Intn(6) == 0 {
		f.I = []int64{0, -1, 1 << 53, -(1 << 63), 1<<63 - 1}[r.Intn(5)]
	}
	return f
}

func GenNested(r *rand.Rand, s StrFn) *Nested {
	n := &Nested{Name: s(false)}
	if r.Intn(2) == 0 {
		n.Inner = GenFlat(r, s)
	}
	switch r.Intn(3) {
	case 1:
		n.List = []Flat{}
	case 2:
		for i := r.Intn(3) + 1; i > 0; i-- {
			n.List = append(n.List, *GenFlat(r, s))
		}
	}
	switch r.Intn(3) {
	case 1:
		n.M = map[string]string{}
	case 2:
		n.M = map[string]string{}
		for i := r.Intn(4) + 1; i > 0; i-- {
			n.M[s(false)] = s(false)
		}
	}
	if r.Intn(2) == 0 {
		n.Tags = []string{s(false), s(false)}
	}
	return n
}

// Generate returns a value for marshaler kind 0 (JSON), 1 (ProtoMarshaler), 2 (gogo ProtobufMarshaler).
func Generate(r *rand.Rand, kind int, s StrFn) (interface{}, string) {
	if kind == 0 {
		switch r.Intn(14) {
		case 10:
			return *GenDynamic(r, s), "dynamic(any fields)"
		case 11:
			return GenDynamic(r, s), "*dynamic(any fields)"
		case 12:
			m := map[string]any{s(false): GenAny(r, s, 2), "n": GenAny(r, s, 0)}
			return m, "map[string]any"
		case 13:
			return []any{GenAny(r, s, 2), GenAny(r, s, 1), 1.5}, "[]any"
		case 0:
			return *GenFlat(r, s), "struct"
		case 1:
			return GenFlat(r, s), "*struct"
		case 2:
			return *GenNested(r, s), "nested"
		case 3:
			return GenNested(r, s), "*nested"
		case 4:
			return Named{N: s(false), V: s(false)}, "named-struct"
		case 5:
			return &Named{N: s(false), V: s(false)}, "*named-struct"
		case 6:
			return s(false), "string"
		case 7:
			return map[string]string{s(false): s(false), "k": s(false)}, "map"
		case 8:
			return Unmarshalable{C: make(chan int)}, "not-json-serialisable(chan)"
		default:
			return &Generic[Flat]{X: *GenFlat(r, s)}, "*generic-struct"
		}
	}
	std := func() (interface{}, string) {
		switch r.Intn(10) {
		case 0:
			return wrapperspb.String(s(false)), "std:StringValue"
		case 1:
			b := make([]byte, r.Intn(300))
			r.Read(b)
			return wrapperspb.Bytes(b), "std:BytesValue"
		case 2:
			return wrapperspb.Int64(r.Int63() - r.Int63()), "std:Int64Value"
		case 3:
			return wrapperspb.Bool(r.Intn(2) == 0), "std:BoolValue"
		case 4:
			return wrapperspb.Double(r.NormFloat64()), "std:DoubleValue"
		case 5:
			return timestamppb.New(time.Unix(r.Int63n(4e9), int64(r.Intn(1e9)))), "std:Timestamp"
		case 6:
			return durationpb.New(time.Duration(r.Int63())), "std:Duration"
		case 7:
			// one key only: protobuf map fields are marshalled in random order, the library call would not be a function of the value
			st, _ := structpb.NewStruct(map[string]interface{}{s(false): []interface{}{true, nil, s(false), float64(r.Intn(100))}})
			return st, "std:Struct"
		case 8:
			return &emptypb.Empty{}, "std:Empty"
		default:
			return &fieldmaskpb.FieldMask{Paths: []string{s(false), s(false)}}, "std:FieldMask"
		}
	}
	if kind == 1 {
		if r.Intn(8) == 0 {
			return GenFlat(r, s), "not-a-proto-message"
		}
		if r.Intn(8) == 0 {
			return &OnlyV2{Inner: wrapperspb.String(s(false))}, "std-only:ProtoReflect-wrapper"
		}
		return std()
	}
	switch r.Intn(12) {
	case 0:
		return &gogotypes.StringValue{Value: s(false)}, "gogo:StringValue"
	case 1:
		b := make([]byte, r.Intn(300))
		r.Read(b)
		return &gogotypes.BytesValue{Value: b}, "gogo:BytesValue"
	case 2:
		return &gogotypes.Int64Value{Value: r.Int63() - r.Int63()}, "gogo:Int64Value"
	case 3:
		return &gogotypes.Timestamp{Seconds: r.Int63n(4e9), Nanos: int32(r.Intn(1e9))}, "gogo:Timestamp"
	case 4:
		return &gogotypes.Empty{}, "gogo:Empty"
	case 5:
		return &gogotypes.Struct{Fields: map[string]*gogotypes.Value{s(false): {Kind: &gogotypes.Value_StringValue{StringValue: s(false)}}}}, "gogo:Struct"
	case 6:
		return GenFlat(r, s), "not-a-proto-message"
	case 7, 8:
		return &OnlyV2{Inner: wrapperspb.String(s(false))}, "std-only:ProtoReflect-wrapper"
	default:
		return std()
	}
}

var dump = spew.ConfigState{Indent: "", DisablePointerAddresses: true, DisableCapacities: true, SortKeys: true, SpewKeys: true}

// Render is the canonical form of a value; a top-level pointer is dereferenced so that T and *T
// with the same content render alike.
func Render(v interface{}) string {
	switch m := v.(type) {
	case *OnlyV2:
		b, err := stdproto.MarshalOptions{Deterministic: true}.Marshal(m)
		return fmt.Sprintf("OnlyV2:%x:%v", b, err)
	case stdproto.Message:
		b, err := stdproto.MarshalOptions{Deterministic: true}.Marshal(m)
		return fmt.Sprintf("%T:%x:%v", v, b, err)
	case gogoproto.Message:
		b, err := gogoMarshalNoPanic(m)
		return fmt.Sprintf("%T:%x:%v", v, b, err)
	}
	rv := reflect.ValueOf(v)
	if rv.Kind() == reflect.Ptr && !rv.IsNil() {
		return dump.Sdump(rv.Elem().Interface())
	}
	return dump.Sdump(v)
}

func gogoMarshalNoPanic(m gogoproto.Message) (b []byte, err error) {
	defer func() {
		if r := recover(); r != nil {
			err = fmt.Errorf("panic")
		}
	}()
	return gogoproto.Marshal(m)
}

// Fresh returns a pointer to a new zero value of v's type (v's pointee type if v is a pointer).
func Fresh(v interface{}) interface{} {
	if _, ok := v.(*OnlyV2); ok {
		return &OnlyV2{Inner: &wrapperspb.StringValue{}}
	}
	t := reflect.TypeOf(v)
	if t.Kind() == reflect.Ptr {
		return reflect.New(t.Elem()).Interface()
	}
	return reflect.New(t).Interface()
}

// OtherPointerness returns *v for a pointer and &v for a value.
func OtherPointerness(v interface{}) interface{} {
	rv := reflect.ValueOf(v)
	if rv.Kind() == reflect.Ptr {
		return rv.Elem().Interface()
	}
	p := reflect.New(rv.Type())
	p.Elem().Set(rv)
	return p.Interface()
}

func IsStdProto(v interface{}) bool  { _, ok := v.(stdproto.Message); return ok }
func IsGogoProto(v interface{}) bool { _, ok := v.(gogoproto.Message); return ok }

func okBytes(b []byte) LibRes {
	if b == nil {
		return LibRes{Kind: "ok"}
	}
	s := hex.EncodeToString(b)
	return LibRes{Kind: "ok", B: &s}
}
func okRender(v interface{}) LibRes {
	s := hex.EncodeToString([]byte(Render(v)))
	return LibRes{Kind: "ok", B: &s}
}

func JSONEnc(v interface{}) LibRes {
	b, err := json.Marshal(v)
	if err != nil {
		return LibRes{Kind: "err"}
	}
	return okBytes(b)
}
func JSONDec(payload []byte, like interface{}) LibRes {
	p := Fresh(like)
	if err := json.Unmarshal(payload, p); err != nil {
		return LibRes{Kind: "err"}
	}
	return okRender(p)
}
func StdEnc(v interface{}) LibRes {
	m, ok := v.(stdproto.Message)
	if !ok {
		return LibRes{Kind: "na"}
	}
	b, err := stdproto.Marshal(m)
	if err != nil {
		return LibRes{Kind: "err"}
	}
	return okBytes(b)
}
func StdDec(payload []byte, like interface{}) LibRes {
	p, ok := Fresh(like).(stdproto.Message)
	if !ok {
		return LibRes{Kind: "na"}
	}
	if err := stdproto.Unmarshal(payload, p); err != nil {
		return LibRes{Kind: "err"}
	}
	return okRender(p)
}
func GogoEnc(v interface{}) (res LibRes) {
	m, ok := v.(gogoproto.Message)
	if !ok {
		return LibRes{Kind: "na"}
	}
	defer func() {
		if r := recover(); r != nil {
			res = LibRes{Kind: "panic"}
		}
	}()
	b, err := gogoproto.Marshal(m)
	if err != nil {
		return LibRes{Kind: "err"}
	}
	return okBytes(b)
}
func GogoDec(payload []byte, like interface{}) (res LibRes) {
	p, ok := Fresh(like).(gogoproto.Message)
	if !ok {
		return LibRes{Kind: "na"}
	}
	defer func() {
		if r := recover(); r != nil {
			res = LibRes{Kind: "panic"}
		}
	}()
	if err := gogoproto.Unmarshal(payload, p); err != nil {
		return LibRes{Kind: "err"}
	}
	return okRender(p)
}
