package c16types

// round "seeds 3": dynamically typed JSON values, protobuf messages with repeated / map / optional
// fields, cloning, and library calls that decode INTO an existing target.

import (
	"encoding/json"
	"math"
	"math/rand"
	"reflect"

	gogoproto "github.com/gogo/protobuf/proto"
	gogotypes "github.com/gogo/protobuf/types"
	stdproto "google.golang.org/protobuf/proto"
	"google.golang.org/protobuf/types/known/apipb"
	"google.golang.org/protobuf/types/known/fieldmaskpb"
	"google.golang.org/protobuf/types/known/sourcecontextpb"
	"google.golang.org/protobuf/types/known/structpb"
	"google.golang.org/protobuf/types/known/typepb"
	"google.golang.org/protobuf/types/known/wrapperspb"
)

// Dynamic has "attributes / extra" style fields: plain JSON values behind interface types.
// encoding/json reads these back as float64, string, bool, nil, map[string]any, []any — exactly
// the values GenAny produces, so json.Unmarshal(json.Marshal(v)) is the identity on them.
type Dynamic struct {
	ID    string         `json:"id"`
	Value any            `json:"value"`
	Attrs map[string]any `json:"attrs"`
	Items []any          `json:"items,omitempty"`
}

var floats = []float64{0, 1, -1, 21.5, 0.25, 0.1, 3, 1e21, -2.5e-7, 9007199254740992, 9007199254740994, 1234567890123, math.MaxFloat64, math.SmallestNonzeroFloat64, 100}

func GenAny(r *rand.Rand, s StrFn, depth int) any {
	k := r.Intn(10)
	if depth <= 0 && k >= 7 {
		k = r.Intn(7)
	}
	switch k {
	case 0, 1, 2:
		if r.Intn(3) == 0 {
			return float64(r.Intn(2000) - 1000)
		}
		return floats[r.Intn(len(floats))]
	case 3:
		return r.NormFloat64() * 1e6
	case 4:
		return s(false)
	case 5:
		return r.Intn(2) == 0
	case 6:
		return nil
	case 7, 8:
		m := map[string]any{}
		for i := r.Intn(4); i > 0; i-- {
			m[s(false)] = GenAny(r, s, depth-1)
		}
		return m
	default:
		l := []any{}
		for i := r.Intn(4); i > 0; i-- {
			l = append(l, GenAny(r, s, depth-1))
		}
		return l
	}
}

func GenDynamic(r *rand.Rand, s StrFn) *Dynamic {
	d := &Dynamic{ID: s(false), Value: GenAny(r, s, 2)}
	switch r.Intn(4) {
	case 0:
	case 1:
		d.Attrs = map[string]any{}
	default:
		d.Attrs = map[string]any{}
		for i := 1 + r.Intn(3); i > 0; i-- {
			d.Attrs[s(false)] = GenAny(r, s, 1)
		}
	}
	if r.Intn(2) == 0 {
		for i := 1 + r.Intn(3); i > 0; i-- {
			d.Items = append(d.Items, GenAny(r, s, 1))
		}
	}
	return d
}

// ReuseFamily picks a type and returns a generator of values of that type (often with empty /
// absent fields, so that a later value lacks what an earlier one had).
func ReuseFamily(r *rand.Rand, kind int, s StrFn) (func() interface{}, string) {
	sparse := func() bool { return r.Intn(3) == 0 }
	strs := func() []string {
		if sparse() {
			return nil
		}
		l := []string{}
		for i := 1 + r.Intn(3); i > 0; i-- {
			l = append(l, s(false))
		}
		return l
	}
	if kind == 0 {
		switch r.Intn(4) {
		case 0:
			return func() interface{} { return GenNested(r, s) }, "*nested"
		case 1:
			return func() interface{} { return GenDynamic(r, s) }, "*dynamic"
		case 2:
			return func() interface{} { return GenFlat(r, s) }, "*struct"
		default:
			return func() interface{} {
				m := map[string]any{}
				for i := r.Intn(3); i > 0; i-- {
					m[s(false)] = GenAny(r, s, 1)
				}
				return &m
			}, "*map[string]any"
		}
	}
	stdFam := func() (func() interface{}, string) {
		switch r.Intn(6) {
		case 0:
			return func() interface{} { return &fieldmaskpb.FieldMask{Paths: strs()} }, "std:FieldMask(repeated)"
		case 1:
			return func() interface{} {
				l := &structpb.ListValue{}
				for i := r.Intn(3); i > 0; i-- {
					l.Values = append(l.Values, structpb.NewStringValue(s(false)))
				}
				return l
			}, "std:ListValue(repeated)"
		case 2:
			return func() interface{} {
				st := &structpb.Struct{}
				if !sparse() {
					st.Fields = map[string]*structpb.Value{s(false): structpb.NewNumberValue(float64(r.Intn(9)))}
				}
				return st
			}, "std:Struct(map)"
		case 3:
			return func() interface{} {
				a := &apipb.Api{}
				if !sparse() {
					a.Name = s(false)
				}
				if !sparse() {
					a.Version = s(false)
				}
				for i := r.Intn(3); i > 0; i-- {
					a.Methods = append(a.Methods, &apipb.Method{Name: s(false), RequestStreaming: r.Intn(2) == 0})
				}
				if !sparse() {
					a.SourceContext = &sourcecontextpb.SourceContext{FileName: s(false)}
				}
				if r.Intn(2) == 0 {
					a.Syntax = typepb.Syntax_SYNTAX_PROTO3
				}
				return a
			}, "std:Api(repeated,sub-message,scalars)"
		case 4:
			return func() interface{} {
				if sparse() {
					return wrapperspb.String("")
				}
				return wrapperspb.String(s(false))
			}, "std:StringValue(optional scalar)"
		default:
			return func() interface{} {
				t := &typepb.Type{Name: s(false), Oneofs: strs()}
				for i := r.Intn(3); i > 0; i-- {
					t.Fields = append(t.Fields, &typepb.Field{Name: s(false), Number: int32(r.Intn(100)), Kind: typepb.Field_Kind(r.Intn(5))})
				}
				return t
			}, "std:Type(repeated)"
		}
	}
	if kind == 1 {
		return stdFam()
	}
	switch r.Intn(7) {
	case 0:
		return func() interface{} { return &gogotypes.FieldMask{Paths: strs()} }, "gogo:FieldMask(repeated)"
	case 1:
		return func() interface{} {
			l := &gogotypes.ListValue{}
			for i := r.Intn(3); i > 0; i-- {
				l.Values = append(l.Values, &gogotypes.Value{Kind: &gogotypes.Value_StringValue{StringValue: s(false)}})
			}
			return l
		}, "gogo:ListValue(repeated)"
	case 2:
		return func() interface{} {
			a := &gogotypes.Api{}
			if !sparse() {
				a.Name = s(false)
			}
			for i := r.Intn(3); i > 0; i-- {
				a.Methods = append(a.Methods, &gogotypes.Method{Name: s(false)})
			}
			if !sparse() {
				a.SourceContext = &gogotypes.SourceContext{FileName: s(false)}
			}
			return a
		}, "gogo:Api(repeated,sub-message,scalars)"
	case 3:
		return func() interface{} {
			if sparse() {
				return &gogotypes.StringValue{}
			}
			return &gogotypes.StringValue{Value: s(false)}
		}, "gogo:StringValue(optional scalar)"
	case 4:
		return func() interface{} {
			if sparse() {
				return &OnlyV2{Inner: wrapperspb.String("")}
			}
			return &OnlyV2{Inner: wrapperspb.String(s(false))}
		}, "std-only:ProtoReflect-wrapper"
	default:
		return stdFam()
	}
}

func deepCopy(v reflect.Value) reflect.Value {
	switch v.Kind() {
	case reflect.Ptr:
		if v.IsNil() {
			return v
		}
		n := reflect.New(v.Type().Elem())
		n.Elem().Set(deepCopy(v.Elem()))
		return n
	case reflect.Interface:
		if v.IsNil() {
			return v
		}
		n := reflect.New(v.Type()).Elem()
		n.Set(deepCopy(v.Elem()))
		return n
	case reflect.Struct:
		n := reflect.New(v.Type()).Elem()
		n.Set(v)
		for i := 0; i < v.NumField(); i++ {
			if n.Field(i).CanSet() {
				n.Field(i).Set(deepCopy(v.Field(i)))
			}
		}
		return n
	case reflect.Slice:
		if v.IsNil() {
			return v
		}
		n := reflect.MakeSlice(v.Type(), v.Len(), v.Len())
		for i := 0; i < v.Len(); i++ {
			n.Index(i).Set(deepCopy(v.Index(i)))
		}
		return n
	case reflect.Map:
		if v.IsNil() {
			return v
		}
		n := reflect.MakeMapWithSize(v.Type(), v.Len())
		it := v.MapRange()
		for it.Next() {
			n.SetMapIndex(it.Key(), deepCopy(it.Value()))
		}
		return n
	}
	return v
}

// Clone returns an independent copy of the (pointer) target.
func Clone(v interface{}) interface{} {
	switch m := v.(type) {
	case *OnlyV2:
		return &OnlyV2{Inner: stdproto.Clone(m.Inner).(*wrapperspb.StringValue)}
	case stdproto.Message:
		return stdproto.Clone(m)
	case gogoproto.Message:
		return gogoproto.Clone(m)
	}
	return deepCopy(reflect.ValueOf(v)).Interface()
}

// library calls on an existing target (which they modify)
func JSONDecInto(payload []byte, target interface{}) LibRes {
	if err := json.Unmarshal(payload, target); err != nil {
		return LibRes{Kind: "err"}
	}
	return okRender(target)
}
func StdDecInto(payload []byte, target interface{}) LibRes {
	p, ok := target.(stdproto.Message)
	if !ok {
		return LibRes{Kind: "na"}
	}
	if err := stdproto.Unmarshal(payload, p); err != nil {
		return LibRes{Kind: "err"}
	}
	return okRender(p)
}
func GogoDecInto(payload []byte, target interface{}) (res LibRes) {
	p, ok := target.(gogoproto.Message)
	if !ok {
		return LibRes{Kind: "na"}
	}
	defer func() {
		if r := recover(); r != nil {
			res = LibRes{Kind: "panic"}
		}
	}()
	if err := gogoproto.Unmarshal(payload, p); err != nil {
		return LibRes{Kind: "err"}
	}
	return okRender(p)
}
