//go:build verif

// Package c15types holds the command / event types the C15 scenarios send through the real
// cqrs buses and processors: plain JSON structs (two of identical shape, so that a colliding
// name generator makes one decode into the other), a type that names itself (NamedStruct), a
// type whose MarshalJSON fails, and protobuf well-known types for the ProtoMarshaler.
package c15types

import (
	"errors"
	"fmt"
	"reflect"
	"strings"

	gogotypes "github.com/gogo/protobuf/types"
	"google.golang.org/protobuf/types/known/durationpb"
	"google.golang.org/protobuf/types/known/wrapperspb"
)

type CmdA struct {
	A int    `json:"a"`
	B string `json:"b"`
}

type CmdB struct {
	A int    `json:"a"`
	B string `json:"b"`
}

type EvtC struct {
	A int    `json:"a"`
	B string `json:"b"`
	C []int  `json:"c,omitempty"`
}

// Named implements the namedStruct interface of name.go: its name depends on the VALUE.
type Named struct {
	N string `json:"n"`
	A int    `json:"a"`
}

func (n Named) Name() string { return "named:" + n.N }

var ErrMarshal = errors.New("scripted marshal error")

// Bad cannot be marshalled to JSON.
type Bad struct {
	A int `json:"a"`
}

func (Bad) MarshalJSON() ([]byte, error) { return nil, ErrMarshal }

// type ids
const (
	TCmdA = 1 + iota
	TCmdB
	TEvtC
	TNamed
	TBad
	TPStr
	TPInt
	TPDur
	TGStr // gogo/protobuf types.StringValue
	TGInt // gogo/protobuf types.Int64Value
	NTypes = TGInt
)

var TypeNames = []string{"", "CmdA", "CmdB", "EvtC", "Named", "Bad", "wrapperspb.StringValue", "wrapperspb.Int64Value", "durationpb.Duration", "gogotypes.StringValue", "gogotypes.Int64Value"}

// New returns new(T) for a type id.
func New(ty int) any {
	switch ty {
	case TCmdA:
		return &CmdA{}
	case TCmdB:
		return &CmdB{}
	case TEvtC:
		return &EvtC{}
	case TNamed:
		return &Named{}
	case TBad:
		return &Bad{}
	case TPStr:
		return &wrapperspb.StringValue{}
	case TPInt:
		return &wrapperspb.Int64Value{}
	case TPDur:
		return &durationpb.Duration{}
	case TGStr:
		return &gogotypes.StringValue{}
	case TGInt:
		return &gogotypes.Int64Value{}
	}
	panic("c15types: unknown type id")
}

// Make builds a value of type ty from (a, b); ptr selects *T or T (protobuf types are always
// pointers: only *T implements proto.Message).
func Make(ty int, a int, b string, ptr bool) any {
	switch ty {
	case TCmdA:
		if ptr {
			return &CmdA{a, b}
		}
		return CmdA{a, b}
	case TCmdB:
		if ptr {
			return &CmdB{a, b}
		}
		return CmdB{a, b}
	case TEvtC:
		var c []int
		if a%2 == 1 {
			c = []int{a, a + 1}
		}
		if ptr {
			return &EvtC{a, b, c}
		}
		return EvtC{a, b, c}
	case TNamed:
		if ptr {
			return &Named{b, a}
		}
		return Named{b, a}
	case TBad:
		if ptr {
			return &Bad{a}
		}
		return Bad{a}
	case TPStr:
		return wrapperspb.String(b)
	case TPInt:
		return wrapperspb.Int64(int64(a))
	case TPDur:
		return &durationpb.Duration{Seconds: int64(a), Nanos: int32(len(b))}
	case TGStr:
		return &gogotypes.StringValue{Value: b}
	case TGInt:
		return &gogotypes.Int64Value{Value: int64(a)}
	}
	panic("c15types: unknown type id")
}

// Render gives (type id, canonical content) of a value the harness sent or a handler
// received; (0, "?...") for anything else.
func Render(v any) (int, string) {
	if Depth(v) > 1 {
		c := Canon(v)
		if c == nil {
			return 0, "?nil pointer chain"
		}
		v = c
	}
	switch x := v.(type) {
	case CmdA:
		return TCmdA, fmt.Sprintf("%d|%q", x.A, x.B)
	case *CmdA:
		return TCmdA, fmt.Sprintf("%d|%q", x.A, x.B)
	case CmdB:
		return TCmdB, fmt.Sprintf("%d|%q", x.A, x.B)
	case *CmdB:
		return TCmdB, fmt.Sprintf("%d|%q", x.A, x.B)
	case EvtC:
		return TEvtC, fmt.Sprintf("%d|%q|%v", x.A, x.B, x.C)
	case *EvtC:
		return TEvtC, fmt.Sprintf("%d|%q|%v", x.A, x.B, x.C)
	case Named:
		return TNamed, fmt.Sprintf("%q|%d", x.N, x.A)
	case *Named:
		return TNamed, fmt.Sprintf("%q|%d", x.N, x.A)
	case Bad:
		return TBad, fmt.Sprintf("%d", x.A)
	case *Bad:
		return TBad, fmt.Sprintf("%d", x.A)
	case *wrapperspb.StringValue:
		return TPStr, fmt.Sprintf("%q", x.GetValue())
	case *wrapperspb.Int64Value:
		return TPInt, fmt.Sprintf("%d", x.GetValue())
	case *durationpb.Duration:
		return TPDur, fmt.Sprintf("%d.%d", x.GetSeconds(), x.GetNanos())
	case *gogotypes.StringValue:
		return TGStr, fmt.Sprintf("%q", x.GetValue())
	case *gogotypes.Int64Value:
		return TGInt, fmt.Sprintf("%d", x.GetValue())
	}
	return 0, fmt.Sprintf("?%T", v)
}

// Colliding is a GenerateName that gives CmdA and CmdB the same name.
func Colliding(v interface{}) string {
	s := fmt.Sprintf("%T", v)
	s = s[strings.LastIndexByte(s, '.')+1:]
	if s == "CmdA" || s == "CmdB" {
		return "cmd"
	}
	return s
}

// Depth is the number of pointer levels v is passed through (0 for a plain value).
func Depth(v any) int {
	d := 0
	for t := reflect.TypeOf(v); t != nil && t.Kind() == reflect.Ptr; t = t.Elem() {
		d++
	}
	return d
}

// Canon dereferences v down to a single pointer level (nil if a pointer on the way is nil).
func Canon(v any) any {
	rv := reflect.ValueOf(v)
	for rv.Kind() == reflect.Ptr && rv.Type().Elem().Kind() == reflect.Ptr {
		if rv.IsNil() {
			return nil
		}
		rv = rv.Elem()
	}
	if rv.Kind() == reflect.Ptr && rv.IsNil() {
		return nil
	}
	return rv.Interface()
}

// MakeDepth builds the value of Make and passes it through depth pointer levels:
// 0 = T, 1 = *T, 2 = **T, ... (protobuf types have no plain form: depth 0 is treated as 1).
func MakeDepth(ty int, a int, b string, depth int) any {
	if depth == 0 {
		return Make(ty, a, b, false)
	}
	v := Make(ty, a, b, true)
	for d := Depth(v); d < depth; d++ {
		p := reflect.New(reflect.TypeOf(v))
		p.Elem().Set(reflect.ValueOf(v))
		v = p.Interface()
	}
	return v
}

// BaseName is the Go type string of the plain type ("pkg.T").
func BaseName(ty int) string {
	t := reflect.TypeOf(New(ty))
	for t.Kind() == reflect.Ptr {
		t = t.Elem()
	}
	return t.String()
}
