//go:build verif

// Package c14rt is the hook runtime of the C14 (Deduplicator) check: it stamps every
// deduplicator hook call of ONE repository into a totally ordered log together with the
// reading of Go's monotonic clock (the clock time.Now()/Before() of the code under test use),
// and perturbs the schedule with seeded yields / micro-sleeps.
package c14rt

import (
	"bytes"
	"math/rand"
	"runtime"
	"strconv"
	"strings"
	"sync"
	"time"

	"github.com/ThreeDotsLabs/watermill/verifhook"
)

type Event struct {
	Seq   int      `json:"seq"`
	Tid   int      `json:"tid"` // registered harness thread, -1 = none (the cleaner goroutine)
	Point string   `json:"p"`
	Keys  []string `json:"k,omitempty"` // without the repository id
	Ns    int64    `json:"ns"`          // monotonic clock, same axis as the " m=" suffix of time.Time.String()
}

type RT struct {
	mu      sync.Mutex
	log     []Event
	tids    map[int64]int
	rngs    map[int64]*rand.Rand
	seed    int64
	repo    string
	p       float64
	maxNap  time.Duration
	base    time.Time
	baseNs  int64
	park    *parkRule
}

// parkRule: the FIRST goroutine that reaches Point waits there until ANOTHER goroutine passes
// Point with the same first key, or Timeout.  In the unchanged code the rule is infeasible for
// points inside the critical section (the first goroutine holds the lock): it times out.
type parkRule struct {
	point   string
	timeout time.Duration
	used    bool
	g       int64
	key     string
	ch      chan struct{}
	passed  bool
	over    bool // the first goroutine gave up waiting
}

// ParseMono extracts the monotonic reading (ns) from time.Time.String().
func ParseMono(s string) (int64, bool) {
	i := strings.LastIndex(s, " m=")
	if i < 0 {
		return 0, false
	}
	t := s[i+3:]
	neg := false
	if strings.HasPrefix(t, "-") {
		neg = true
	}
	t = strings.TrimLeft(t, "+-")
	dot := strings.IndexByte(t, '.')
	if dot < 0 || len(t)-dot-1 != 9 {
		return 0, false
	}
	sec, err1 := strconv.ParseInt(t[:dot], 10, 64)
	frac, err2 := strconv.ParseInt(t[dot+1:], 10, 64)
	if err1 != nil || err2 != nil {
		return 0, false
	}
	v := sec*1e9 + frac
	if neg {
		v = -v
	}
	return v, true
}

func Install(seed int64) *RT {
	r := &RT{tids: map[int64]int{}, rngs: map[int64]*rand.Rand{}, seed: seed, maxNap: 50 * time.Microsecond}
	r.base = time.Now()
	m, ok := ParseMono(r.base.String())
	if !ok {
		panic("c14rt: time.Now() carries no monotonic reading")
	}
	r.baseNs = m
	verifhook.SetHandler(func(point string, keys []string) { r.at(point, keys) })
	return r
}

func Uninstall() { verifhook.SetHandler(nil) }

// Ns converts a time with a monotonic reading to the log's axis.
func (r *RT) Ns(t time.Time) int64 { return r.baseNs + int64(t.Sub(r.base)) }
func (r *RT) Now() int64           { return r.Ns(time.Now()) }

// Begin starts a new case: empty log, only hooks of repository `repo` are stamped.
func (r *RT) Begin(repo string, caseSeed int64, p float64, maxNap time.Duration) {
	r.mu.Lock()
	r.log = nil
	r.tids = map[int64]int{}
	r.rngs = map[int64]*rand.Rand{}
	r.repo = repo
	r.seed = caseSeed
	r.p = p
	r.maxNap = maxNap
	r.park = nil
	r.mu.Unlock()
}

// Park arms the forced-overlap rule for the current case (see parkRule).
func (r *RT) Park(point string, timeout time.Duration) {
	r.mu.Lock()
	r.park = &parkRule{point: point, timeout: timeout, ch: make(chan struct{})}
	r.mu.Unlock()
}

// ParkResult: "" no rule, "unused", "achieved" (another goroutine got to the point while the first
// one was still there) or "infeasible" (timed out).
func (r *RT) ParkResult() string {
	r.mu.Lock()
	defer r.mu.Unlock()
	switch {
	case r.park == nil:
		return ""
	case !r.park.used:
		return "unused"
	case r.park.passed:
		return "achieved"
	}
	return "infeasible"
}

func (r *RT) Register(tid int) {
	g := gid()
	r.mu.Lock()
	r.tids[g] = tid
	r.mu.Unlock()
}

func (r *RT) TidOfCaller() int {
	g := gid()
	r.mu.Lock()
	defer r.mu.Unlock()
	if t, ok := r.tids[g]; ok {
		return t
	}
	return -1
}

func (r *RT) Log() []Event {
	r.mu.Lock()
	defer r.mu.Unlock()
	out := make([]Event, len(r.log))
	copy(out, r.log)
	return out
}

func (r *RT) at(point string, keys []string) {
	if !strings.HasPrefix(point, "dedup.") || len(keys) == 0 {
		return
	}
	g := gid()
	r.mu.Lock()
	if keys[0] != r.repo {
		r.mu.Unlock()
		return
	}
	tid, ok := r.tids[g]
	if !ok {
		tid = -1
	}
	r.log = append(r.log, Event{Seq: len(r.log), Tid: tid, Point: point, Keys: append([]string(nil), keys[1:]...), Ns: r.Now()})
	if pk := r.park; pk != nil && point == pk.point && len(keys) > 1 {
		if !pk.used {
			pk.used, pk.g, pk.key = true, g, keys[1]
			ch, to := pk.ch, pk.timeout
			r.mu.Unlock()
			select {
			case <-ch:
			case <-time.After(to):
				r.mu.Lock()
				pk.over = true
				r.mu.Unlock()
			}
			return
		} else if !pk.passed && !pk.over && g != pk.g && keys[1] == pk.key {
			pk.passed = true
			close(pk.ch)
		}
	}
	var nap time.Duration
	yield := false
	if r.p > 0 {
		rng := r.rngs[g]
		if rng == nil {
			rng = rand.New(rand.NewSource(r.seed*1000003 + int64(tid)*7919 + 17))
			r.rngs[g] = rng
		}
		if rng.Float64() < r.p {
			if rng.Intn(2) == 0 {
				yield = true
			} else {
				nap = time.Duration(rng.Int63n(int64(r.maxNap) + 1))
			}
		}
	}
	r.mu.Unlock()
	if yield {
		runtime.Gosched()
	}
	if nap > 0 {
		time.Sleep(nap)
	}
}

func gid() int64 {
	var buf [64]byte
	n := runtime.Stack(buf[:], false)
	b := bytes.TrimPrefix(buf[:n], []byte("goroutine "))
	i := bytes.IndexByte(b, ' ')
	if i < 0 {
		return -1
	}
	id, _ := strconv.ParseInt(string(b[:i]), 10, 64)
	return id
}
