//go:build verif

package script

// HasSubscription reports whether somebody has subscribed to topic (C17: a Requeuer running on
// its own router offers no Running() channel to wait on).
func (s *Subscriber) HasSubscription(topic string) bool {
	s.mu.Lock()
	defer s.mu.Unlock()
	for _, x := range s.subs {
		if x.topic == topic {
			return true
		}
	}
	return false
}
