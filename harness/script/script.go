//go:build verif

// Package script holds the scripted collaborators the scenarios put around the real code:
// a Subscriber that emits exactly the messages it is fed and records what happens to them,
// and a Publisher that records every call and behaves as scripted.
package script

import (
	"context"
	"errors"
	"sync"
	"time"

	"github.com/ThreeDotsLabs/watermill/message"
)

// Subscriber is a scripted message.Subscriber. Every Subscribe call returns a fresh
// unbuffered channel fed by Emit; Close closes all of them (once).
type Subscriber struct {
	mu         sync.Mutex
	subs       []*subscription
	Subscribes int
	Closes     int
	closed     bool
	// HonourCtx: close the subscription channel when the Subscribe context is cancelled
	// (what GoChannel does); when false only Close() ends it.
	HonourCtx bool
	SubErr    error
}

type subscription struct {
	topic string
	ch    chan *message.Message
	done  chan struct{}
	once  sync.Once
	ctx   context.Context
}

func NewSubscriber(honourCtx bool) *Subscriber { return &Subscriber{HonourCtx: honourCtx} }

func (s *Subscriber) Subscribe(ctx context.Context, topic string) (<-chan *message.Message, error) {
	s.mu.Lock()
	defer s.mu.Unlock()
	s.Subscribes++
	if s.SubErr != nil {
		return nil, s.SubErr
	}
	if s.closed {
		return nil, errors.New("scripted subscriber closed")
	}
	sub := &subscription{topic: topic, ch: make(chan *message.Message), done: make(chan struct{}), ctx: ctx}
	s.subs = append(s.subs, sub)
	if s.HonourCtx {
		go func() {
			select {
			case <-ctx.Done():
				sub.close()
			case <-sub.done:
			}
		}()
	}
	return sub.ch, nil
}

func (sub *subscription) close() {
	sub.once.Do(func() { close(sub.done); close(sub.ch) })
}

func (s *Subscriber) Close() error {
	s.mu.Lock()
	s.Closes++
	s.closed = true
	subs := append([]*subscription(nil), s.subs...)
	s.mu.Unlock()
	for _, sub := range subs {
		sub.close()
	}
	return nil
}

// Emit hands msg to the (first) subscription of topic; false if it was not taken within d
// or the subscription is closed. The message context is set from the subscription context.
func (s *Subscriber) Emit(topic string, msg *message.Message, d time.Duration) (ok bool) {
	s.mu.Lock()
	var sub *subscription
	for _, x := range s.subs {
		if x.topic == topic {
			sub = x
			break
		}
	}
	s.mu.Unlock()
	if sub == nil {
		return false
	}
	defer func() {
		if recover() != nil { // send on closed channel: subscription ended meanwhile
			ok = false
		}
	}()
	select {
	case <-sub.done:
		return false
	default:
	}
	select {
	case sub.ch <- msg:
		return true
	case <-sub.done:
		return false
	case <-time.After(d):
		return false
	}
}

// Settlement reports 0 unsettled, 1 acked, 2 nacked (non-blocking).
func Settlement(m *message.Message) int {
	select {
	case <-m.Acked():
		return 1
	default:
	}
	select {
	case <-m.Nacked():
		return 2
	default:
	}
	return 0
}

// WaitSettled waits until m is acked or nacked; returns Settlement(m) (0 on timeout).
func WaitSettled(m *message.Message, d time.Duration) int {
	select {
	case <-m.Acked():
		return 1
	case <-m.Nacked():
		return 2
	case <-time.After(d):
		return 0
	}
}

// PubCall is one recorded Publish call.
type PubCall struct {
	Topic string
	Msgs  []*message.Message
}

// Publisher is a scripted message.Publisher: OnPublish decides the outcome of each call
// (nil = accept); it may panic. Calls are recorded before OnPublish runs.
type Publisher struct {
	mu        sync.Mutex
	Calls     []PubCall
	Closes    int
	OnPublish func(call int, topic string, msgs []*message.Message) error
	Name      string
}

func (p *Publisher) Publish(topic string, msgs ...*message.Message) error {
	p.mu.Lock()
	n := len(p.Calls)
	p.Calls = append(p.Calls, PubCall{Topic: topic, Msgs: append([]*message.Message(nil), msgs...)})
	f := p.OnPublish
	p.mu.Unlock()
	if f != nil {
		return f(n, topic, msgs)
	}
	return nil
}

func (p *Publisher) Close() error {
	p.mu.Lock()
	p.Closes++
	p.mu.Unlock()
	return nil
}

func (p *Publisher) Snapshot() []PubCall {
	p.mu.Lock()
	defer p.mu.Unlock()
	return append([]PubCall(nil), p.Calls...)
}

func (p *Publisher) String() string {
	if p.Name != "" {
		return p.Name
	}
	return "script.Publisher"
}

// Interner maps strings injectively to small numbers; "" is always 0.
type Interner struct {
	mu  sync.Mutex
	ids map[string]int
	Tab []string
}

func NewInterner() *Interner { return &Interner{ids: map[string]int{"": 0}, Tab: []string{""}} }

func (in *Interner) ID(s string) int {
	in.mu.Lock()
	defer in.mu.Unlock()
	if id, ok := in.ids[s]; ok {
		return id
	}
	id := len(in.Tab)
	in.ids[s] = id
	in.Tab = append(in.Tab, s)
	return id
}
