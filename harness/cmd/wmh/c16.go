//go:build verif

package main

// C16 — value semantics.  Drives the real message.Message (Equals, Copy, Metadata), the real
// forwarder envelope (through forwarder.Publisher and through the verif exports), the real CQRS
// marshalers and the real request-reply marshaler with generated values, and records inputs,
// what the serialisation libraries return when called directly (the oracles of the Coq model)
// and what the implementation returned.

import (
	"encoding/hex"
	"encoding/json"
	"errors"
	"fmt"
	"math/rand"
	"sort"
	"strings"
	"unicode/utf8"

	"github.com/ThreeDotsLabs/watermill/components/cqrs"
	"github.com/ThreeDotsLabs/watermill/components/forwarder"
	"github.com/ThreeDotsLabs/watermill/components/requestreply"
	"github.com/ThreeDotsLabs/watermill/message"

	"wmverif/c16types"
)

func init() { register("c16", runC16) }

// ---------------------------------------------------------------- JSON shapes

type jMsg struct {
	U string       `json:"u"`
	P *string      `json:"p"` // hex; null = nil payload
	M *[][2]string `json:"m"` // sorted by key; null = nil map
}

type jRes struct {
	Err string `json:"err,omitempty"` // error kind
	Raw string `json:"raw,omitempty"` // error text (diagnostics only)
}

func hx(s string) string { return hex.EncodeToString([]byte(s)) }

func obsMsg(m *message.Message) jMsg {
	r := jMsg{U: hx(m.UUID)}
	if m.Payload != nil {
		p := hex.EncodeToString(m.Payload)
		r.P = &p
	}
	if m.Metadata != nil {
		l := make([][2]string, 0, len(m.Metadata))
		for k, v := range m.Metadata {
			l = append(l, [2]string{hx(k), hx(v)})
		}
		sort.Slice(l, func(i, j int) bool { return l[i][0] < l[j][0] })
		r.M = &l
	}
	return r
}

// a generated message description (before it becomes a Go object)
type gMsg struct {
	UUID    string
	Payload []byte      // nil or not
	Meta    [][2]string // insertion order; nil = nil map
	MetaNil bool
}

func (g gMsg) obs() jMsg {
	r := jMsg{U: hx(g.UUID)}
	if g.Payload != nil {
		p := hex.EncodeToString(g.Payload)
		r.P = &p
	}
	if !g.MetaNil {
		l := make([][2]string, 0, len(g.Meta))
		for _, kv := range g.Meta {
			l = append(l, [2]string{hx(kv[0]), hx(kv[1])})
		}
		r.M = &l // insertion order with possible duplicates: the model builds the map the same way
	}
	return r
}

// build as a struct literal (no NewMessage): exactly the fields given
func (g gMsg) lit() *message.Message {
	m := &message.Message{UUID: g.UUID, Payload: g.Payload}
	if !g.MetaNil {
		m.Metadata = message.Metadata{}
		for _, kv := range g.Meta {
			m.Metadata[kv[0]] = kv[1]
		}
	}
	return m
}

// ---------------------------------------------------------------- generators

type gen struct {
	r    *rand.Rand
	dist map[string]int
}

func (g *gen) count(k string) { g.dist[k]++ }

var validPool = []string{
	"", "", "a", "b", "A", "name", "key", "value", "uuid", "0", "1", " ", "\x00", "a\x00b", "\x7f", "\t\n\r",
	"\"", "\\", "\"\\/", "<>&", "</script>", "\u2028", "\u2029", "\u00e9", "\u00fc", "\u00df", "\u65e5\u672c\u8a9e", "\ud55c", "\U0001F600", "\U0010FFFF",
	"\u0800", "\ufffd", "\ud7ff", "\ue000", "\u0080", "\u07ff", "\uffff", "\U00010000", "e\u0301", "\ufeff",
	"_watermill_requestreply_error", "_watermill_requestreply_has_error", "destination_topic", "null", "{}", "[]", "a,b", "a=b", "a b",
}

var invalidPool = []string{"\xff", "\xc3", "a\xc3", "\xed\xa0\x80", "\xc0\x80", "\xf4\x90\x80\x80", "\xe2\x82", "ok\x80ok", "\xf8\x88\x80\x80\x80"}

var runeAlphabet = []rune{'a', 'b', 'z', 'A', '0', ' ', 0, 1, 0x1f, 0x7f, '"', '\\', '<', '&', 0x80, 0xff, 0x7ff, 0x800, 0x2028, 0xd7ff, 0xe000, 0xfffd, 0xffff, 0x10000, 0x1f600, 0x10ffff}

func (g *gen) str(allowInvalid bool) string {
	switch x := g.r.Intn(100); {
	case x < 45:
		return validPool[g.r.Intn(len(validPool))]
	case x < 80:
		n := g.r.Intn(6)
		var sb strings.Builder
		for i := 0; i < n; i++ {
			sb.WriteRune(runeAlphabet[g.r.Intn(len(runeAlphabet))])
		}
		return sb.String()
	case x < 86:
		n := 100 + g.r.Intn(300)
		var sb strings.Builder
		for sb.Len() < n {
			sb.WriteRune(runeAlphabet[g.r.Intn(len(runeAlphabet))])
		}
		return sb.String()
	case x < 92 && allowInvalid:
		return invalidPool[g.r.Intn(len(invalidPool))]
	case x < 95 && allowInvalid:
		b := make([]byte, g.r.Intn(5))
		g.r.Read(b)
		return string(b)
	default:
		return validPool[g.r.Intn(len(validPool))] + validPool[g.r.Intn(len(validPool))]
	}
}

var allBytes = func() []byte {
	b := make([]byte, 256)
	for i := range b {
		b[i] = byte(i)
	}
	return b
}()

func (g *gen) payload(big int) []byte {
	switch x := g.r.Intn(100); {
	case x < 12:
		g.count("payload=nil")
		return nil
	case x < 24:
		g.count("payload=empty")
		return []byte{}
	case x < 30:
		g.count("payload=all-256-byte-values")
		return append([]byte{}, allBytes...)
	case x < 50:
		g.count("payload=text")
		return []byte(g.str(true))
	case x < 56:
		g.count("payload=json-looking")
		return []byte(`{"destination_topic":"t","uuid":"u","payload":"AA==","metadata":{"a":"b"}}`)
	case x < 62:
		sizes := []int{63, 64, 65, 255, 256, 257, 1000, big}
		n := sizes[g.r.Intn(len(sizes))]
		g.count(fmt.Sprintf("payload=binary-%d", n))
		b := make([]byte, n)
		g.r.Read(b)
		return b
	default:
		g.count("payload=binary-short")
		b := make([]byte, 1+g.r.Intn(12))
		g.r.Read(b)
		return b
	}
}

func (g *gen) meta(allowInvalid bool) ([][2]string, bool) {
	switch x := g.r.Intn(100); {
	case x < 10:
		g.count("metadata=nil")
		return nil, true
	case x < 25:
		g.count("metadata=empty")
		return [][2]string{}, false
	}
	n := 1 + g.r.Intn(4)
	if g.r.Intn(10) == 0 {
		n = 8 + g.r.Intn(8)
	}
	l := make([][2]string, 0, n)
	for i := 0; i < n; i++ {
		k, v := g.str(allowInvalid), g.str(allowInvalid)
		if g.r.Intn(4) == 0 {
			v = ""
		}
		if len(l) > 0 && g.r.Intn(8) == 0 {
			k = l[g.r.Intn(len(l))][0] // duplicate key in the literal: last one wins
			g.count("metadata=literal-repeats-a-key")
		}
		l = append(l, [2]string{k, v})
	}
	g.count(fmt.Sprintf("metadata=%d-entries", len(l)))
	return l, false
}

func (g *gen) msg(allowInvalid bool, big int) gMsg {
	m := gMsg{UUID: g.str(allowInvalid), Payload: g.payload(big)}
	m.Meta, m.MetaNil = g.meta(allowInvalid)
	return m
}

func dedup(l [][2]string) [][2]string {
	var out [][2]string
	for _, kv := range l {
		found := false
		for i := range out {
			if out[i][0] == kv[0] {
				out[i][1] = kv[1]
				found = true
			}
		}
		if !found {
			out = append(out, kv)
		}
	}
	return out
}

// ---------------------------------------------------------------- Equals

type eqCase struct {
	Kind string `json:"kind"`
	A    jMsg   `json:"a"`
	B    jMsg   `json:"b"`
	AB   bool   `json:"ab"`
	BA   bool   `json:"ba"`
}

func (g *gen) otherStr(s string) string {
	for i := 0; i < 50; i++ {
		if t := g.str(true); t != s {
			return t
		}
	}
	return s + "x"
}

// b differs from a in exactly one component (or in none)
func (g *gen) mutate(a gMsg) (gMsg, string) {
	b := gMsg{UUID: a.UUID, MetaNil: a.MetaNil}
	if a.Payload != nil {
		b.Payload = append([]byte{}, a.Payload...)
	}
	b.Meta = dedup(a.Meta)
	if a.Meta != nil && b.Meta == nil {
		b.Meta = [][2]string{}
	}
	if !a.MetaNil && g.r.Intn(2) == 0 { // same map, other insertion order
		for i, j := 0, len(b.Meta)-1; i < j; i, j = i+1, j-1 {
			b.Meta[i], b.Meta[j] = b.Meta[j], b.Meta[i]
		}
	}
	for tries := 0; tries < 20; tries++ {
		switch g.r.Intn(16) {
		case 0:
			return b, "identical"
		case 1:
			b.UUID = g.otherStr(a.UUID)
			return b, "uuid-differs"
		case 2:
			if len(b.Payload) > 0 {
				i := g.r.Intn(len(b.Payload))
				b.Payload[i] ^= byte(1 << uint(g.r.Intn(8)))
				return b, "payload-one-bit"
			}
		case 3:
			if len(b.Payload) > 0 {
				b.Payload = b.Payload[:len(b.Payload)-1]
				return b, "payload-truncated"
			}
		case 4:
			b.Payload = append(b.Payload, byte(g.r.Intn(2)))
			return b, "payload-extended"
		case 5:
			if len(a.Payload) == 0 {
				if a.Payload == nil {
					b.Payload = []byte{}
				} else {
					b.Payload = nil
				}
				return b, "payload-nil-vs-empty"
			}
		case 6:
			if len(b.Meta) == 0 {
				b.MetaNil = !a.MetaNil
				if b.MetaNil {
					b.Meta = nil
				} else {
					b.Meta = [][2]string{}
				}
				return b, "metadata-nil-vs-empty"
			}
		case 7:
			if len(b.Meta) > 0 {
				i := g.r.Intn(len(b.Meta))
				b.Meta[i][1] = g.otherStr(b.Meta[i][1])
				return b, "metadata-value-differs"
			}
		case 8, 9:
			if len(b.Meta) > 0 {
				i := g.r.Intn(len(b.Meta))
				nk := g.otherStr(b.Meta[i][0])
				ok := true
				for _, kv := range b.Meta {
					if kv[0] == nk {
						ok = false
					}
				}
				if ok {
					kind := "metadata-key-renamed"
					if b.Meta[i][1] == "" {
						kind = "metadata-key-renamed-empty-value"
					}
					b.Meta[i][0] = nk
					return b, kind
				}
			}
		case 10, 11:
			// make sure the D1 shape is reached often: one entry gets the empty value on both sides, then its key is renamed
			if len(b.Meta) > 0 {
				i := g.r.Intn(len(b.Meta))
				nk := g.otherStr(b.Meta[i][0])
				ok := true
				for _, kv := range b.Meta {
					if kv[0] == nk {
						ok = false
					}
				}
				if ok {
					return b, "@empty-rename:" + fmt.Sprint(i) + ":" + nk
				}
			}
		case 12:
			nk := g.str(true)
			ok := true
			for _, kv := range b.Meta {
				if kv[0] == nk {
					ok = false
				}
			}
			if ok && !b.MetaNil {
				v := g.str(true)
				if g.r.Intn(2) == 0 {
					v = ""
				}
				b.Meta = append(b.Meta, [2]string{nk, v})
				return b, "metadata-entry-added"
			}
		case 13:
			if len(b.Meta) > 0 {
				i := g.r.Intn(len(b.Meta))
				b.Meta = append(b.Meta[:i:i], b.Meta[i+1:]...)
				return b, "metadata-entry-removed"
			}
		case 14:
			// one key renamed AND the other side's value made non-empty (asymmetric shape of D1)
			if len(b.Meta) > 0 {
				i := g.r.Intn(len(b.Meta))
				nk := g.otherStr(b.Meta[i][0])
				ok := true
				for _, kv := range b.Meta {
					if kv[0] == nk {
						ok = false
					}
				}
				if ok {
					return b, "@asym-rename:" + fmt.Sprint(i) + ":" + nk
				}
			}
		case 15:
			c := g.msg(true, 256)
			return c, "independent"
		}
	}
	return b, "identical"
}

func (g *gen) eqCases(n int) []eqCase {
	var out []eqCase
	{ // the witnesses of D1 run first on every run
		a := gMsg{UUID: "u", Payload: []byte{1}, Meta: [][2]string{{"a", ""}}}
		b := gMsg{UUID: "u", Payload: []byte{1}, Meta: [][2]string{{"b", ""}}}
		c := gMsg{UUID: "u", Payload: []byte{1}, Meta: [][2]string{{"a", "x"}}}
		ma, mb, mc := a.lit(), b.lit(), c.lit()
		out = append(out, eqCase{Kind: "witness-D1", A: obsMsg(ma), B: obsMsg(mb), AB: ma.Equals(mb), BA: mb.Equals(ma)},
			eqCase{Kind: "witness-D1-asymmetric", A: obsMsg(mb), B: obsMsg(mc), AB: mb.Equals(mc), BA: mc.Equals(mb)})
	}
	for i := 0; i < n; i++ {
		a := g.msg(true, 1000)
		a.Meta = dedup(a.Meta)
		if !a.MetaNil && a.Meta == nil {
			a.Meta = [][2]string{}
		}
		b, kind := g.mutate(a)
		if strings.HasPrefix(kind, "@") {
			parts := strings.SplitN(kind, ":", 3)
			var idx int
			fmt.Sscan(parts[1], &idx)
			// find the entry of a with the key b.Meta[idx][0]
			key := b.Meta[idx][0]
			for j := range a.Meta {
				if a.Meta[j][0] == key {
					if parts[0] == "@empty-rename" {
						a.Meta[j][1] = ""
						b.Meta[idx][1] = ""
						kind = "metadata-key-renamed-empty-value"
					} else {
						a.Meta[j][1] = "x" + a.Meta[j][1]
						b.Meta[idx][1] = ""
						kind = "metadata-key-renamed-one-side-empty-value"
					}
				}
			}
			b.Meta[idx][0] = parts[2]
		}
		g.count("equals:" + kind)
		ma, mb := a.lit(), b.lit()
		if g.r.Intn(2) == 0 { // through NewMessage as well
			ma = message.NewMessage(a.UUID, a.Payload)
			for _, kv := range a.Meta {
				ma.Metadata.Set(kv[0], kv[1])
			}
			if a.MetaNil {
				ma.Metadata = nil
			}
		}
		out = append(out, eqCase{Kind: kind, A: obsMsg(ma), B: obsMsg(mb), AB: ma.Equals(mb), BA: mb.Equals(ma)})
	}
	return out
}

// ---------------------------------------------------------------- object scripts

type oView struct {
	M jMsg `json:"m"`
	A bool `json:"a"`
	N bool `json:"n"`
}
type stCase struct {
	Ops   [][]interface{} `json:"ops"`
	Res   [][]interface{} `json:"res"`
	Snaps [][]oView       `json:"snaps"`
}

func chClosed(c <-chan struct{}) bool {
	select {
	case <-c:
		return true
	default:
		return false
	}
}

func snap(objs []*message.Message) []oView {
	out := make([]oView, len(objs))
	for i, o := range objs {
		out[i] = oView{M: obsMsg(o), A: chClosed(o.Acked()), N: chClosed(o.Nacked())}
	}
	return out
}

func protect(f func()) (panicked bool) {
	defer func() {
		if r := recover(); r != nil {
			panicked = true
		}
	}()
	f()
	return false
}

func (g *gen) stCases(n int) []stCase {
	var out []stCase
	for c := 0; c < n; c++ {
		var sc stCase
		var objs []*message.Message
		steps := 3 + g.r.Intn(12)
		keys := []string{g.str(true), g.str(true), "a", ""}
		for s := 0; s < steps; s++ {
			var op, res []interface{}
			k := g.r.Intn(100)
			if len(objs) == 0 {
				k = g.r.Intn(20)
			}
			pick := func() int { return g.r.Intn(len(objs)) }
			switch {
			case k < 10:
				u, p := g.str(true), g.payload(256)
				var ph interface{}
				if p != nil {
					ph = hex.EncodeToString(p)
				}
				op = []interface{}{"new", hx(u), ph}
				objs = append(objs, message.NewMessage(u, p))
				res = []interface{}{"obj", len(objs) - 1}
				g.count("script-op=new")
			case k < 20:
				gm := g.msg(true, 256)
				o := gm.obs()
				op = []interface{}{"lit", o.U, o.P, o.M}
				objs = append(objs, gm.lit())
				res = []interface{}{"obj", len(objs) - 1}
				g.count("script-op=literal")
			case k < 45:
				i := pick()
				op = []interface{}{"copy", i}
				objs = append(objs, objs[i].Copy())
				res = []interface{}{"obj", len(objs) - 1}
				g.count("script-op=copy")
			case k < 75:
				i := pick()
				key := keys[g.r.Intn(len(keys))]
				if g.r.Intn(3) == 0 { // an existing key of some object
					j := pick()
					for kk := range objs[j].Metadata {
						key = kk
						break
					}
				}
				val := g.str(true)
				op = []interface{}{"set", i, hx(key), hx(val)}
				if protect(func() { objs[i].Metadata.Set(key, val) }) {
					res = []interface{}{"panic"}
					g.count("script-op=set-on-nil-map")
				} else {
					res = []interface{}{"unit"}
					g.count("script-op=set")
				}
			case k < 83:
				i := pick()
				pos := 0
				if l := len(objs[i].Payload); l > 0 {
					pos = g.r.Intn(l + 1) // may be one past the end
				}
				b := byte(g.r.Intn(256))
				op = []interface{}{"poke", i, pos, int(b)}
				if protect(func() { objs[i].Payload[pos] = b }) {
					res = []interface{}{"panic"}
				} else {
					res = []interface{}{"unit"}
				}
				g.count("script-op=poke")
			case k < 88:
				i := pick()
				op = []interface{}{"ack", i}
				var r bool
				if protect(func() { r = objs[i].Ack() }) {
					res = []interface{}{"panic"}
				} else {
					res = []interface{}{"b", r}
				}
				g.count("script-op=ack")
			case k < 92:
				i := pick()
				op = []interface{}{"nack", i}
				var r bool
				if protect(func() { r = objs[i].Nack() }) {
					res = []interface{}{"panic"}
				} else {
					res = []interface{}{"b", r}
				}
				g.count("script-op=nack")
			default:
				i, j := pick(), pick()
				op = []interface{}{"eq", i, j}
				res = []interface{}{"b", objs[i].Equals(objs[j])}
				g.count("script-op=equals")
			}
			sc.Ops = append(sc.Ops, op)
			sc.Res = append(sc.Res, res)
			sc.Snaps = append(sc.Snaps, snap(objs))
		}
		out = append(out, sc)
	}
	return out
}

// ---------------------------------------------------------------- forwarder envelope

// the harness' own declaration of the wire format (documented JSON layout of the envelope); used
// only to call encoding/json directly = the oracle values jenc / jdec of the model
type mirrorEnvelope struct {
	DestinationTopic string            `json:"destination_topic"`
	UUID             string            `json:"uuid"`
	Payload          []byte            `json:"payload"`
	Metadata         map[string]string `json:"metadata"`
}

type jEnv struct {
	D string `json:"d"`
	M jMsg   `json:"m"`
}

func classifyEnvErr(err error) string {
	s := err.Error()
	switch {
	case strings.Contains(s, "cannot publish messages to forwarder topic"):
		return "EWrappedPublish"
	case strings.Contains(s, "cannot envelope a message") && strings.Contains(s, "unknown destination topic"):
		return "EUnknownDest"
	case strings.Contains(s, "cannot marshal a message"):
		return "EMarshalEnvelope"
	case strings.Contains(s, "cannot unmarshal message wrapped in an envelope"):
		return "EUnmarshalEnvelope"
	case strings.Contains(s, "an unmarshalled message envelope is invalid"):
		return "EInvalidEnvelope"
	}
	return "?" + s
}

func libDec(payload []byte) *jEnv {
	var e mirrorEnvelope
	if err := json.Unmarshal(payload, &e); err != nil {
		return nil
	}
	m := &message.Message{UUID: e.UUID, Payload: e.Payload, Metadata: e.Metadata}
	return &jEnv{D: hx(e.DestinationTopic), M: obsMsg(m)}
}

func libEnc(dest string, m *message.Message) *string {
	b, err := json.Marshal(mirrorEnvelope{DestinationTopic: dest, UUID: m.UUID, Payload: m.Payload, Metadata: m.Metadata})
	if err != nil {
		return nil
	}
	s := hex.EncodeToString(b)
	return &s
}

type unwRes struct {
	Err string `json:"err,omitempty"`
	D   string `json:"d"`
	M   *jMsg  `json:"m,omitempty"`
}

func doUnwrap(w *message.Message) unwRes {
	d, m, err := forwarder.VerifUnwrapMessageFromEnvelope(w)
	if err != nil {
		return unwRes{Err: classifyEnvErr(err)}
	}
	o := obsMsg(m)
	return unwRes{D: hx(d), M: &o}
}

type envCase struct {
	Dest    string  `json:"dest"`
	M       jMsg    `json:"m"`
	Valid   bool    `json:"valid_utf8"`
	LibEnc  *string `json:"libenc"`
	WrapErr string  `json:"wrap_err,omitempty"`
	W       *jMsg   `json:"w,omitempty"`
	LibDec  *jEnv   `json:"libdec"`
	Unwrap  *unwRes `json:"unwrap,omitempty"`
	CtxKept bool    `json:"ctx_kept"`
}

func normUUID(o *jMsg) {
	if o.U != "" {
		o.U = hx("U")
	}
}

func (g *gen) destTopic(allowInvalid bool) string {
	if g.r.Intn(8) == 0 {
		g.count("envelope:destination=empty")
		return ""
	}
	for {
		if s := g.str(allowInvalid); s != "" {
			return s
		}
	}
}

func (g *gen) envCases(n, big int) []envCase {
	var out []envCase
	for i := 0; i < n; i++ {
		invalid := g.r.Intn(5) == 0
		gm := g.msg(invalid, big)
		dest := g.destTopic(invalid)
		m := gm.lit()
		if g.r.Intn(2) == 0 && !gm.MetaNil {
			m = message.NewMessage(gm.UUID, gm.Payload)
			for _, kv := range gm.Meta {
				m.Metadata.Set(kv[0], kv[1])
			}
		}
		c := envCase{Dest: hx(dest), M: obsMsg(m), LibEnc: libEnc(dest, m)}
		c.Valid = utf8.ValidString(dest) && utf8.ValidString(m.UUID)
		for k, v := range m.Metadata {
			c.Valid = c.Valid && utf8.ValidString(k) && utf8.ValidString(v)
		}
		if c.Valid {
			g.count("envelope:all-strings-valid-utf8")
		} else {
			g.count("envelope:some-string-invalid-utf8")
		}
		w, err := forwarder.VerifWrapMessageInEnvelope(dest, m)
		if err != nil {
			c.WrapErr = classifyEnvErr(err)
			g.count("envelope:wrap-refused")
		} else {
			o := obsMsg(w)
			normUUID(&o)
			c.W = &o
			c.LibDec = libDec(w.Payload)
			u := doUnwrap(w)
			c.Unwrap = &u
			g.count("envelope:wrapped")
		}
		out = append(out, c)
	}
	return out
}

type unwCase struct {
	Kind   string  `json:"kind"`
	P      *string `json:"p"`
	LibDec *jEnv   `json:"libdec"`
	Got    unwRes  `json:"got"`
}

func (g *gen) unwCases(n int) []unwCase {
	var out []unwCase
	jstr := func(s string) string { b, _ := json.Marshal(s); return string(b) }
	for i := 0; i < n; i++ {
		var p []byte
		kind := ""
		switch g.r.Intn(14) {
		case 0:
			kind, p = "nil-payload", nil
		case 1:
			kind, p = "empty-payload", []byte{}
		case 2:
			kind, p = "garbage", []byte(g.str(true))
		case 3:
			kind, p = "empty-object", []byte("{}")
		case 4:
			kind, p = "only-destination", []byte(`{"destination_topic":`+jstr(g.destTopic(false))+`}`)
		case 5:
			kind, p = "nulls", []byte(`{"destination_topic":"t","uuid":null,"payload":null,"metadata":null}`)
		case 6:
			kind, p = "wrong-type-uuid", []byte(`{"destination_topic":"t","uuid":5}`)
		case 7:
			kind, p = "bad-base64", []byte(`{"destination_topic":"t","payload":"!!!"}`)
		case 8:
			kind, p = "metadata-non-string-value", []byte(`{"destination_topic":"t","metadata":{"a":1}}`)
		case 9:
			kind, p = "duplicate-fields", []byte(`{"destination_topic":"t1","destination_topic":`+jstr(g.destTopic(false))+`,"uuid":"a","uuid":"b","metadata":{"k":"1","k":"2"}}`)
		case 10:
			kind, p = "unknown-fields-and-case", []byte(`{"Destination_Topic":"T","extra":[1,2,{"x":null}],"UUID":`+jstr(g.str(false))+`}`)
		case 11:
			kind, p = "truncated", []byte(`{"destination_topic":"t","uuid":"u","payload":"AA==","metadata":{"a":"b"}`)
		case 12:
			kind, p = "array", []byte(`["destination_topic","t"]`)
		case 13:
			kind, p = "trailing-data", []byte(`{"destination_topic":"t"} x`)
		}
		g.count("unwrap-only:" + kind)
		w := message.NewMessage("w", p)
		c := unwCase{Kind: kind, LibDec: libDec(p), Got: doUnwrap(w)}
		if p != nil {
			s := hex.EncodeToString(p)
			c.P = &s
		}
		out = append(out, c)
	}
	return out
}

type recPublisher struct {
	fail  bool
	topic string
	msgs  []*message.Message
	calls int
}

func (p *recPublisher) Publish(topic string, msgs ...*message.Message) error {
	p.calls++
	if p.fail {
		return errors.New("scripted publisher refuses")
	}
	p.topic = topic
	p.msgs = append(p.msgs, msgs...)
	return nil
}
func (p *recPublisher) Close() error { return nil }

type pubCase struct {
	Cfg       string    `json:"cfg"`
	InnerOK   bool      `json:"inner_ok"`
	Dest      string    `json:"dest"`
	Ms        []jMsg    `json:"ms"`
	LibEncs   []*string `json:"libencs"`
	Err       string    `json:"err,omitempty"`
	Topic     string    `json:"topic"`
	Ws        []jMsg    `json:"ws"`
	LibDecs   []*jEnv   `json:"libdecs"`
	Unwrapped []unwRes  `json:"unwrapped"`
	Calls     int       `json:"calls"`
}

func (g *gen) pubCases(n int) []pubCase {
	var out []pubCase
	for i := 0; i < n; i++ {
		invalid := g.r.Intn(6) == 0
		cfg := ""
		if g.r.Intn(2) == 0 {
			cfg = g.destTopic(false)
		}
		rec := &recPublisher{fail: g.r.Intn(6) == 0}
		p := forwarder.NewPublisher(rec, forwarder.PublisherConfig{ForwarderTopic: cfg})
		dest := g.destTopic(invalid)
		k := g.r.Intn(5)
		var ms []*message.Message
		c := pubCase{Cfg: hx(cfg), InnerOK: !rec.fail, Dest: hx(dest)}
		for j := 0; j < k; j++ {
			var m *message.Message
			if j > 0 && g.r.Intn(4) == 0 {
				m = ms[g.r.Intn(len(ms))] // the same object twice in one batch
			} else {
				m = g.msg(invalid, 256).lit()
			}
			ms = append(ms, m)
			c.Ms = append(c.Ms, obsMsg(m))
			c.LibEncs = append(c.LibEncs, libEnc(dest, m))
		}
		g.count(fmt.Sprintf("publisher:batch-of-%d", k))
		err := p.Publish(dest, ms...)
		c.Calls = rec.calls
		if err != nil {
			c.Err = classifyEnvErr(err)
		} else {
			c.Topic = hx(rec.topic)
			for _, w := range rec.msgs {
				o := obsMsg(w)
				normUUID(&o)
				c.Ws = append(c.Ws, o)
				c.LibDecs = append(c.LibDecs, libDec(w.Payload))
				c.Unwrapped = append(c.Unwrapped, doUnwrap(w))
			}
		}
		out = append(out, c)
	}
	return out
}

// ---------------------------------------------------------------- CQRS marshalers

type cqCase struct {
	Kind      int     `json:"kind"`
	NoFB      bool    `json:"nofb"`
	TypeStr   string  `json:"ts"`
	Gen       *string `json:"gen"`
	CfgUUID   *string `json:"cfguuid"`
	V         string  `json:"v"`
	IsMsg     bool    `json:"ismsg"`
	IsGogo    bool    `json:"isgogo"`
	VEnc      c16types.LibRes  `json:"venc"`
	GEnc      c16types.LibRes  `json:"genc"`
	MarshalE  string  `json:"marshal_err,omitempty"`
	Msg       *jMsg   `json:"msg,omitempty"`
	Name      string  `json:"name"`
	NameOther string  `json:"name_other"`
	NFM       string  `json:"nfm"`
	VDec      c16types.LibRes  `json:"vdec"`
	GDec      c16types.LibRes  `json:"gdec"`
	UnmE      string  `json:"unmarshal_err,omitempty"`
	Unm       string  `json:"unm"`
	Desc      string  `json:"desc"`
}

func classifyCqErr(err error) string {
	var np cqrs.NoProtoMessageError
	if errors.As(err, &np) {
		return "ENoProto"
	}
	if strings.Contains(err.Error(), "github.com/gogo/protobuf/proto panic") {
		return "ELibPanic"
	}
	return "ELib"
}

func hexp(b []byte) *string {
	if b == nil {
		return nil
	}
	s := hex.EncodeToString(b)
	return &s
}

func (g *gen) cqCases(n int) []cqCase {
	var out []cqCase
	for i := 0; i < n; i++ {
		kind := g.r.Intn(3)
		v, desc := c16types.Generate(g.r, kind, g.str)
		g.count(fmt.Sprintf("cqrs:%s:%s", []string{"JSONMarshaler", "ProtoMarshaler", "ProtobufMarshaler(gogo)"}[kind], desc))
		c := cqCase{Kind: kind, TypeStr: hx(fmt.Sprintf("%T", v)), V: hx(c16types.Render(v)), Desc: desc}
		var newUUID func() string
		if g.r.Intn(2) == 0 {
			u := g.str(false)
			c.CfgUUID = &[]string{hx(u)}[0]
			newUUID = func() string { return u }
		}
		var genName func(interface{}) string
		switch g.r.Intn(4) {
		case 0:
			genName = cqrs.StructName
		case 1:
			fixed := g.str(false)
			genName = func(interface{}) string { return fixed }
		case 2:
			genName = cqrs.NamedStruct(cqrs.FullyQualifiedStructName)
		}
		if genName != nil {
			c.Gen = &[]string{hx(genName(v))}[0]
		}
		var m cqrs.CommandEventMarshaler
		switch kind {
		case 0:
			m = cqrs.JSONMarshaler{NewUUID: newUUID, GenerateName: genName}
			c.VEnc = c16types.JSONEnc(v)
		case 1:
			m = cqrs.ProtoMarshaler{NewUUID: newUUID, GenerateName: genName}
			c.IsMsg = c16types.IsStdProto(v)
			c.VEnc = c16types.StdEnc(v)
		case 2:
			c.NoFB = g.r.Intn(3) == 0
			m = cqrs.ProtobufMarshaler{NewUUID: newUUID, GenerateName: genName, DisableStdProtoFallback: c.NoFB}
			c.IsMsg = c16types.IsStdProto(v)
			c.IsGogo = c16types.IsGogoProto(v)
			c.VEnc = c16types.StdEnc(v)
			c.GEnc = c16types.GogoEnc(v)
		}
		c.Name = hx(m.Name(v))
		c.NameOther = hx(m.Name(c16types.OtherPointerness(v)))
		msg, err := m.Marshal(v)
		if err != nil {
			c.MarshalE = classifyCqErr(err)
			if c.MarshalE == "ELib" {
				c.MarshalE = "ELibMarshal"
			}
		} else {
			o := obsMsg(msg)
			if c.CfgUUID == nil {
				normUUID(&o)
			}
			c.Msg = &o
			c.NFM = hx(m.NameFromMessage(msg))
			switch kind {
			case 0:
				c.VDec = c16types.JSONDec(msg.Payload, v)
			case 1:
				c.VDec = c16types.StdDec(msg.Payload, v)
			case 2:
				c.VDec = c16types.StdDec(msg.Payload, v)
				c.GDec = c16types.GogoDec(msg.Payload, v)
			}
			fresh := c16types.Fresh(v)
			if err := m.Unmarshal(msg, fresh); err != nil {
				c.UnmE = classifyCqErr(err)
				if c.UnmE == "ELib" {
					c.UnmE = "ELibUnmarshal"
				}
			} else {
				c.Unm = hx(c16types.Render(fresh))
			}
		}
		out = append(out, c)
	}
	return out
}

type nfmCase struct {
	Kind int    `json:"kind"`
	M    jMsg   `json:"m"`
	Got  string `json:"got"`
}

func (g *gen) nfmCases(n int) []nfmCase {
	var out []nfmCase
	for i := 0; i < n; i++ {
		gm := g.msg(true, 64)
		if g.r.Intn(2) == 0 && !gm.MetaNil {
			gm.Meta = append(gm.Meta, [2]string{"name", g.str(true)})
		}
		m := gm.lit()
		kind := g.r.Intn(3)
		var mm cqrs.CommandEventMarshaler
		switch kind {
		case 0:
			mm = cqrs.JSONMarshaler{}
		case 1:
			mm = cqrs.ProtoMarshaler{}
		default:
			mm = cqrs.ProtobufMarshaler{}
		}
		out = append(out, nfmCase{Kind: kind, M: obsMsg(m), Got: hx(mm.NameFromMessage(m))})
	}
	return out
}

// ---------------------------------------------------------------- request-reply

type rpCase struct {
	Type     string  `json:"type"`
	Res      string  `json:"res"`
	ErrText  *string `json:"errtext"`
	REnc     c16types.LibRes  `json:"renc"`
	MarshalE string  `json:"marshal_err,omitempty"`
	Msg      *jMsg   `json:"msg,omitempty"`
	RDec     c16types.LibRes  `json:"rdec"`
	UnmE     string  `json:"unmarshal_err,omitempty"`
	GotRes   string  `json:"got_res"`
	GotErr   *string `json:"got_err"`
}

func classifyRpErr(err error) string {
	s := err.Error()
	switch {
	case strings.Contains(s, "cannot marshal reply"):
		return "EMarshalReply"
	case strings.Contains(s, "cannot unmarshal result"):
		return "EUnmarshalResult"
	}
	return "?" + s
}

type textErr string

func (e textErr) Error() string { return string(e) }

func replyCase[R any](g *gen, typ string, val R) rpCase {
	c := rpCase{Type: typ, Res: hx(c16types.Render(&val)), REnc: c16types.JSONEnc(val)}
	var herr error
	switch g.r.Intn(5) {
	case 0, 1:
		g.count("reply:no-error")
	case 2:
		herr = textErr("")
		g.count("reply:error-with-empty-text")
	default:
		t := g.str(true)
		if g.r.Intn(2) == 0 {
			herr = errors.New(t)
		} else {
			herr = fmt.Errorf("wrapped: %w", textErr(t))
		}
		g.count("reply:error-with-text")
	}
	if herr != nil {
		c.ErrText = &[]string{hx(herr.Error())}[0]
	}
	m := requestreply.BackendPubsubJSONMarshaler[R]{}
	msg, err := m.MarshalReply(requestreply.BackendOnCommandProcessedParams[R]{HandlerResult: val, HandleErr: herr})
	if err != nil {
		c.MarshalE = classifyRpErr(err)
		return c
	}
	o := obsMsg(msg)
	normUUID(&o)
	c.Msg = &o
	var fresh R
	c.RDec = c16types.JSONDec(msg.Payload, &fresh)
	rep, err := m.UnmarshalReply(msg)
	if err != nil {
		c.UnmE = classifyRpErr(err)
		return c
	}
	c.GotRes = hx(c16types.Render(&rep.HandlerResult))
	if rep.Error != nil {
		c.GotErr = &[]string{hx(rep.Error.Error())}[0]
	}
	return c
}

func (g *gen) rpCases(n int) []rpCase {
	var out []rpCase
	for i := 0; i < n; i++ {
		var c rpCase
		switch g.r.Intn(7) {
		case 0:
			c = replyCase(g, "NoResult", requestreply.NoResult{})
		case 1:
			c = replyCase(g, "string", g.str(false))
		case 2:
			c = replyCase(g, "int64", g.r.Int63()-g.r.Int63())
		case 3:
			c = replyCase(g, "struct", *c16types.GenFlat(g.r, g.str))
		case 4:
			var p *c16types.Flat
			if g.r.Intn(2) == 0 {
				p = c16types.GenFlat(g.r, g.str)
			}
			c = replyCase(g, "pointer-to-struct", p)
		case 5:
			c = replyCase(g, "nested", *c16types.GenNested(g.r, g.str))
		case 6:
			c = replyCase(g, "unmarshalable(chan)", c16types.Unmarshalable{C: make(chan int)})
		}
		g.count("reply:result-type=" + c.Type)
		out = append(out, c)
	}
	return out
}

type ruCase struct {
	Kind   string  `json:"kind"`
	M      jMsg    `json:"m"`
	RDec   c16types.LibRes  `json:"rdec"`
	UnmE   string  `json:"unmarshal_err,omitempty"`
	GotRes string  `json:"got_res"`
	GotErr *string `json:"got_err"`
}

func (g *gen) ruCases(n int) []ruCase {
	var out []ruCase
	for i := 0; i < n; i++ {
		gm := gMsg{UUID: "r"}
		kind := ""
		switch g.r.Intn(8) {
		case 0:
			kind = "nil-metadata"
			gm.MetaNil = true
			gm.Payload = []byte(`"x"`)
		case 1:
			kind = "has-error-without-text"
			gm.Meta = [][2]string{{requestreply.HasErrorMetadataKey, "1"}}
			gm.Payload = []byte(`"x"`)
		case 2:
			kind = "text-without-has-error"
			gm.Meta = [][2]string{{requestreply.ErrorMetadataKey, g.str(true)}}
			gm.Payload = []byte(`""`)
		case 3:
			kind = "has-error-other-value"
			gm.Meta = [][2]string{{requestreply.HasErrorMetadataKey, []string{"true", "01", "1 ", "", "2"}[g.r.Intn(5)]}, {requestreply.ErrorMetadataKey, "boom"}}
			gm.Payload = []byte(`"x"`)
		case 4:
			kind = "has-error-0-with-text"
			gm.Meta = [][2]string{{requestreply.HasErrorMetadataKey, "0"}, {requestreply.ErrorMetadataKey, "boom"}}
			gm.Payload = []byte(`"x"`)
		case 5:
			kind = "bad-payload"
			gm.Meta = [][2]string{{requestreply.HasErrorMetadataKey, "1"}, {requestreply.ErrorMetadataKey, "boom"}}
			gm.Payload = []byte(g.str(true))
		case 6:
			kind = "nil-payload"
			gm.Meta = [][2]string{{requestreply.HasErrorMetadataKey, "0"}}
		case 7:
			kind = "random"
			gm = g.msg(true, 64)
		}
		g.count("unmarshal-reply-only:" + kind)
		msg := gm.lit()
		c := ruCase{Kind: kind, M: obsMsg(msg)}
		var fresh string
		c.RDec = c16types.JSONDec(msg.Payload, &fresh)
		rep, err := requestreply.BackendPubsubJSONMarshaler[string]{}.UnmarshalReply(msg)
		if err != nil {
			c.UnmE = classifyRpErr(err)
		} else {
			c.GotRes = hx(c16types.Render(&rep.HandlerResult))
			if rep.Error != nil {
				c.GotErr = &[]string{hx(rep.Error.Error())}[0]
			}
		}
		out = append(out, c)
	}
	return out
}

// ---------------------------------------------------------------- UTF-8 validity (ties the Gallina utf8_valid to Go's)

type u8Case struct {
	S     string `json:"s"`
	Valid bool   `json:"valid"`
}

func (g *gen) u8Cases(n int) []u8Case {
	var out []u8Case
	add := func(b []byte) { out = append(out, u8Case{S: hex.EncodeToString(b), Valid: utf8.Valid(b)}) }
	// boundary sweep: every interesting lead byte x second byte x optional third / fourth
	leads := []byte{0x7f, 0x80, 0xbf, 0xc0, 0xc1, 0xc2, 0xdf, 0xe0, 0xe1, 0xec, 0xed, 0xee, 0xef, 0xf0, 0xf1, 0xf3, 0xf4, 0xf5, 0xff}
	seconds := []byte{0x7f, 0x80, 0x8f, 0x90, 0x9f, 0xa0, 0xbf, 0xc0}
	tails := [][]byte{{}, {0x80}, {0xbf}, {0x7f}, {0x80, 0x80}, {0xbf, 0xbf}, {0x80, 0xc0}, {0x80, 0x80, 0x80}, {0x80, 0x80, 0x41}}
	for _, l := range leads {
		add([]byte{l})
		for _, s := range seconds {
			for _, t := range tails {
				add(append([]byte{l, s}, t...))
			}
		}
	}
	for i := 0; i < n; i++ {
		b := []byte(g.str(true) + g.str(true))
		switch g.r.Intn(4) {
		case 0:
			if len(b) > 0 {
				b[g.r.Intn(len(b))] ^= byte(1 << uint(g.r.Intn(8)))
			}
		case 1:
			if len(b) > 0 {
				i := g.r.Intn(len(b))
				b = append(b[:i:i], b[i+1:]...)
			}
		case 2:
			b = make([]byte, 1+g.r.Intn(6))
			g.r.Read(b)
		}
		add(b)
	}
	for _, c := range out {
		if c.Valid {
			g.count("utf8-validator:valid")
		} else {
			g.count("utf8-validator:invalid")
		}
	}
	return out
}

// ---------------------------------------------------------------- main

func runC16(args []string) error {
	fs, out, seed := newFlags("c16")
	scale := fs.Int("scale", 1, "case count multiplier")
	big := fs.Int("big", 4096, "size of the large payloads")
	fs.Parse(args)
	g := &gen{r: rand.New(rand.NewSource(*seed)), dist: map[string]int{}}
	s := *scale
	res := map[string]interface{}{
		"eq":   g.eqCases(700 * s),
		"st":   g.stCases(250 * s),
		"env":  g.envCases(300*s, *big),
		"unw":  g.unwCases(80 * s),
		"pub":  g.pubCases(80 * s),
		"cq":   g.cqCases(400 * s),
		"nfm":  g.nfmCases(60 * s),
		"rp":   g.rpCases(200 * s),
		"ru":   g.ruCases(60 * s),
		"u8":   g.u8Cases(300 * s),
		"js":   g.jsCases(200 * s),
		"b64":  g.b64Cases(150 * s),
		"jw":   g.jwCases(200*s, *big),
		"ctx":  g.ctxCases(40 * s),
		"cc":   g.ccCases(200 * s),
		"tg":   g.tgCases(250 * s),
		"ji":   g.jiCases(150 * s),
		"sm":   g.smCases(200 * s),
		"pw":   g.pwCases(200 * s),
		"dist": g.dist,
		"keys": map[string]string{"error": hx(requestreply.ErrorMetadataKey), "has_error": hx(requestreply.HasErrorMetadataKey)},
	}
	return writeJSON(*out, res)
}
