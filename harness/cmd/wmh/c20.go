//go:build verif

package main

// C20 — decorators (message transform, delay, Prometheus metrics) around scripted publishers /
// subscribers, the metrics middleware alone and inside a real Router.  Everything observed is
// written as plain JSON; checks/c20.py turns it into Gallina terms.

import (
	"context"
	"errors"
	"fmt"
	"math/rand"
	"sort"
	"strconv"
	"strings"
	"sync"
	"time"

	"github.com/prometheus/client_golang/prometheus"

	"github.com/ThreeDotsLabs/watermill"
	"github.com/ThreeDotsLabs/watermill/components/delay"
	"github.com/ThreeDotsLabs/watermill/components/metrics"
	"github.com/ThreeDotsLabs/watermill/message"
	"github.com/ThreeDotsLabs/watermill/message/router/middleware"

	"wmverif/script"
)

// ---------------------------------------------------------------- shared encodings

type c20Mval []interface{} // ["a"] absent | ["e"] empty | ["r",id] raw | ["d",ns] duration | ["t",sec] time

type c20Msg struct {
	ID    int           `json:"id"`
	Rest  int           `json:"rest"`
	Trail []int         `json:"trail"`
	For   c20Mval       `json:"for"`
	Until c20Mval       `json:"until"`
	Ctx   []int64       `json:"ctx"` // nil | [sec, dur]
	Gen   []interface{} `json:"gen"` // ["d",sec,dur] | ["e",id]
	Mark  bool          `json:"mark"`
	H     int           `json:"h"`
	P     int           `json:"p"`
}

type c20Env struct {
	in *script.Interner
}

func newC20Env() *c20Env {
	in := script.NewInterner()
	in.ID("message doesn't have a delay set") // 1 = Decor.Model.e_nodelay
	in.ID("<no handler>")                     // 2 = Decor.Model.no_handler
	in.ID("<the call panicked>")              // 3 = Decor.Model.e_panic
	return &c20Env{in: in}
}

func (e *c20Env) err(err error) interface{} {
	if err == nil {
		return nil
	}
	return e.in.ID(err.Error())
}

func c20StructName(v interface{}) string {
	if s, ok := v.(fmt.Stringer); ok {
		return s.String()
	}
	return strings.TrimLeft(fmt.Sprintf("%T", v), "*")
}

func (e *c20Env) mval(md message.Metadata, key string, isFor bool) c20Mval {
	v, ok := md[key]
	if !ok {
		return c20Mval{"a"}
	}
	if v == "" {
		return c20Mval{"e"}
	}
	if isFor {
		if d, err := time.ParseDuration(v); err == nil {
			return c20Mval{"d", int64(d)}
		}
	} else {
		if t, err := time.Parse(time.RFC3339, v); err == nil {
			return c20Mval{"t", t.Unix()}
		}
	}
	return c20Mval{"r", e.in.ID(key + "=" + v)}
}

func c20Trail(md message.Metadata) []int {
	res := []int{}
	for _, s := range strings.Split(md["trail"], ",") {
		if s == "" {
			continue
		}
		n, err := strconv.Atoi(s)
		if err != nil {
			n = 99999
		}
		res = append(res, n)
	}
	return res
}

// digest of everything the decorators must not touch
func (e *c20Env) rest(m *message.Message) int {
	keys := []string{}
	for k := range m.Metadata {
		if k == "trail" || k == delay.DelayedForKey || k == delay.DelayedUntilKey {
			continue
		}
		keys = append(keys, k)
	}
	sort.Strings(keys)
	var sb strings.Builder
	sb.WriteString(m.UUID + "|" + string(m.Payload))
	for _, k := range keys {
		sb.WriteString("|" + k + "=" + m.Metadata[k])
	}
	return e.in.ID(sb.String())
}

func appendTrail(tag int) func(*message.Message) {
	return func(m *message.Message) {
		if m == nil {
			return
		}
		t := m.Metadata.Get("trail")
		if t != "" {
			t += ","
		}
		m.Metadata.Set("trail", t+strconv.Itoa(tag))
	}
}

// histogram sample counts / counter values of one family, by label values in the given key order
func c20Gather(reg *prometheus.Registry, family string, keys []string) (map[string]int, error) {
	mfs, err := reg.Gather()
	if err != nil {
		return nil, err
	}
	res := map[string]int{}
	for _, mf := range mfs {
		if mf.GetName() != family {
			continue
		}
		for _, m := range mf.GetMetric() {
			lv := map[string]string{}
			for _, lp := range m.GetLabel() {
				lv[lp.GetName()] = lp.GetValue()
			}
			vals := make([]string, len(keys))
			for i, k := range keys {
				vals[i] = lv[k]
			}
			n := 0
			if h := m.GetHistogram(); h != nil {
				n = int(h.GetSampleCount())
			} else if c := m.GetCounter(); c != nil {
				n = int(c.GetValue() + 0.5)
			}
			res[strings.Join(vals, "\x00")] += n
		}
	}
	return res, nil
}

func c20Total(m map[string]int) int {
	n := 0
	for _, v := range m {
		n += v
	}
	return n
}

// table rows: interned label values (the boolean column as true/false), then the count
func (e *c20Env) table(m map[string]int, boolCol int, trueVal, falseVal string) [][]interface{} {
	keys := []string{}
	for k := range m {
		keys = append(keys, k)
	}
	sort.Strings(keys)
	rows := [][]interface{}{}
	for _, k := range keys {
		vals := strings.Split(k, "\x00")
		row := []interface{}{}
		for i, v := range vals {
			switch {
			case i != boolCol:
				row = append(row, e.in.ID(v))
			case v == trueVal:
				row = append(row, true)
			case v == falseVal:
				row = append(row, false)
			default:
				row = append(row, "bad label value: "+v)
			}
		}
		row = append(row, m[k])
		rows = append(rows, row)
	}
	return rows
}

// the object has been received through a metrics-decorated subscriber (and acked) before
func c20PreReceive(m *message.Message) bool {
	sub := newC20Sub()
	dec, err := metrics.NewPrometheusMetricsBuilder(prometheus.NewRegistry(), "pre", "").DecorateSubscriber(sub)
	if err != nil {
		return false
	}
	ch, err := dec.Subscribe(context.Background(), "pre")
	if err != nil {
		return false
	}
	go sub.emit(m, 5*time.Second)
	select {
	case got := <-ch:
		if got != m {
			return false
		}
	case <-time.After(6 * time.Second):
		return false
	}
	return dec.Close() == nil
}

// the object has been published through a metrics-decorated publisher before
func c20PrePublish(m *message.Message) bool {
	inner := &c20Pub{onPub: func(int, string, []*message.Message) error { return nil }}
	dec, err := metrics.NewPrometheusMetricsBuilder(prometheus.NewRegistry(), "pre", "").DecoratePublisher(inner)
	if err != nil {
		return false
	}
	return dec.Publish("pre", m) == nil
}

// ---------------------------------------------------------------- publisher stacks

type c20Pub struct {
	mu        sync.Mutex
	calls     int
	closes    int
	closeErr  error
	closeErrs []error // if set: the k-th Close answers with the k-th entry (the last one repeats)
	onPub     func(n int, topic string, msgs []*message.Message) error
}

func (p *c20Pub) Publish(topic string, msgs ...*message.Message) error {
	p.mu.Lock()
	n := p.calls
	p.calls++
	f := p.onPub
	p.mu.Unlock()
	return f(n, topic, msgs)
}
func (p *c20Pub) Close() error {
	p.mu.Lock()
	defer p.mu.Unlock()
	p.closes++
	if len(p.closeErrs) > 0 {
		k := p.closes - 1
		if k >= len(p.closeErrs) {
			k = len(p.closeErrs) - 1
		}
		return p.closeErrs[k]
	}
	return p.closeErr
}

// a second type that is a fmt.Stringer (internal.StructName prefers String())
type c20NamedPub struct{ *c20Pub }

func (p c20NamedPub) String() string { return "named-scripted-publisher" }

// answers of a wrapped publisher / subscriber to 1-3 successive Close calls, all different
func c20CloseAnswers(rng *rand.Rand) []error {
	all := []error{nil, errors.New("close error A"), errors.New("close error B")}
	rng.Shuffle(len(all), func(i, j int) { all[i], all[j] = all[j], all[i] })
	return all[:[]int{1, 1, 2, 2, 3}[rng.Intn(5)]]
}

type c20PObj struct {
	msg    *message.Message
	genD   *delay.Delay // generator answer: a delay ...
	genErr error        // ... or an error
	ctxD   *delay.Delay
}

type c20PCall struct {
	Topic  int           `json:"topic"`
	Batch  []int         `json:"batch"`
	Before []c20Msg      `json:"before"`
	Ev     []interface{} `json:"ev"`
	Answer interface{}   `json:"answer"`
	Res    interface{}   `json:"res"`
	After  []c20Msg      `json:"after"`

	mu       sync.Mutex
	innerIdx int
}

type c20PubCase struct {
	Stack      [][]interface{} `json:"stack"`
	Heap       []c20Msg        `json:"heap"`
	Script     []interface{}   `json:"script"`
	Calls      []*c20PCall     `json:"calls"`
	Tab        [][]interface{} `json:"tab"`
	Final      []c20Msg        `json:"final"`
	Close      []interface{}   `json:"close"`
	Concurrent bool            `json:"concurrent"`
	PreRecv    int             `json:"pre_received"` // objects that came through a metrics-decorated subscriber before
	Problem    string          `json:"problem,omitempty"`
}

func delayParts(d delay.Delay) []int64 {
	t, dur := delay.VerifParts(d)
	return []int64{t.Unix(), int64(dur)}
}

func (e *c20Env) observeP(objs []*c20PObj, idx map[*message.Message]int, m *message.Message) c20Msg {
	id, ok := idx[m]
	if !ok {
		id = 9999
	}
	o := c20Msg{ID: id, Rest: e.rest(m), Trail: c20Trail(m.Metadata),
		For: e.mval(m.Metadata, delay.DelayedForKey, true), Until: e.mval(m.Metadata, delay.DelayedUntilKey, false),
		Mark: metrics.VerifPublishObserved(m.Context()),
		H:    e.in.ID(message.HandlerNameFromCtx(m.Context())), P: e.in.ID(message.PublisherNameFromCtx(m.Context()))}
	if d, ok := delay.VerifFromContext(m.Context()); ok {
		o.Ctx = delayParts(d)
	}
	o.Gen = []interface{}{"e", 0}
	if ok {
		ob := objs[id]
		if ob.genD != nil {
			p := delayParts(*ob.genD)
			o.Gen = []interface{}{"d", p[0], p[1]}
		} else if ob.genErr != nil {
			o.Gen = []interface{}{"e", e.in.ID(ob.genErr.Error())}
		}
	}
	return o
}

// Delay values built at the start of the run; by the time the publisher cases stamp them at least
// 1.1 s have passed (a Delay kept in a context / returned by a caching generator is stamped later than
// it was built; the stamp must not depend on the clock at stamping time)
var c20OldDelays []delay.Delay
var c20OldAt time.Time
var c20OldPicks int

func c20BuildOldDelays(rng *rand.Rand) {
	c20OldAt = time.Now()
	c20OldDelays = nil
	for i := 0; i < 24; i++ {
		c20OldDelays = append(c20OldDelays, c20FreshDelay(rng))
	}
}

func c20RandDelay(rng *rand.Rand) delay.Delay {
	if len(c20OldDelays) > 0 && rng.Intn(2) == 0 {
		c20OldPicks++
		return c20OldDelays[rng.Intn(len(c20OldDelays))]
	}
	return c20FreshDelay(rng)
}

func c20FreshDelay(rng *rand.Rand) delay.Delay {
	switch rng.Intn(10) {
	case 0:
		return delay.Delay{} // zero value
	case 1:
		return delay.For(0)
	case 2:
		return delay.For(-5 * time.Second) // in the past
	case 3:
		return delay.For(time.Duration(rng.Intn(5000)+1) * time.Millisecond)
	case 4:
		return delay.For(time.Duration(rng.Intn(100)+1) * time.Hour)
	case 5:
		return delay.For(100 * 365 * 24 * time.Hour) // far future
	case 6:
		return delay.Until(time.Now().Add(-time.Hour)) // past
	case 7:
		return delay.Until(time.Now().In(time.FixedZone("X", 2*3600+1800)).Add(time.Duration(rng.Intn(3600)) * time.Second))
	case 8:
		return delay.Until(time.Date(2200, 1, 2, 3, 4, 5, 600, time.UTC))
	default:
		return delay.Until(time.Now())
	}
}

func (e *c20Env) newPObj(rng *rand.Rand, i int) *c20PObj {
	m := message.NewMessage(fmt.Sprintf("uuid-%d-%d", i, rng.Intn(1000)), []byte(fmt.Sprintf("payload %d", rng.Intn(1000))))
	if rng.Intn(2) == 0 {
		m.Metadata.Set("other", fmt.Sprint(rng.Intn(5)))
	}
	// delay metadata already present?
	switch rng.Intn(12) {
	case 0:
		m.Metadata.Set(delay.DelayedForKey, "") // present but empty: counts as absent
	case 1:
		m.Metadata.Set(delay.DelayedForKey, "1m30s")
		m.Metadata.Set(delay.DelayedUntilKey, "2031-05-06T07:08:09Z")
	case 2:
		m.Metadata.Set(delay.DelayedForKey, "250ms") // only the for key
	case 3:
		m.Metadata.Set(delay.DelayedUntilKey, "2031-05-06T07:08:09+02:00") // only the until key: not "present"
	case 4:
		m.Metadata.Set(delay.DelayedForKey, "soon") // not a duration, still non-empty
		m.Metadata.Set(delay.DelayedUntilKey, "")
	}
	o := &c20PObj{msg: m}
	if rng.Intn(5) < 2 {
		d := c20RandDelay(rng)
		o.ctxD = &d
		m.SetContext(delay.WithContext(m.Context(), d))
	}
	if rng.Intn(4) == 0 {
		o.genErr = fmt.Errorf("generator error %d", rng.Intn(2))
	} else {
		d := c20RandDelay(rng)
		o.genD = &d
	}
	return o
}

type c20Layer struct {
	kind   byte // 'T', 'D', 'M'
	tag    int
	hasgen bool
	allow  bool
}

func c20RandPStack(rng *rand.Rand) []c20Layer {
	shapes := []string{"", "T", "D", "M", "MM", "DM", "MD", "TM", "MT", "TD", "DT", "DD", "TT", "MMM", "TMM", "MTM", "MDM", "DMM", "MMD", "TDM", "MDT", "DTM", "TTT", "DDM", "DTD", "MTD"}
	s := shapes[rng.Intn(len(shapes))]
	st := []c20Layer{}
	for i := 0; i < len(s); i++ {
		l := c20Layer{kind: s[i]}
		switch s[i] {
		case 'T':
			l.tag = 10 + i + 10*rng.Intn(3)
		case 'D':
			l.hasgen = rng.Intn(2) == 0
			l.allow = rng.Intn(2) == 0
		}
		st = append(st, l)
	}
	return st
}

func (e *c20Env) runPubCase(rng *rand.Rand, concurrent bool) *c20PubCase {
	c := &c20PubCase{Concurrent: concurrent}
	st := c20RandPStack(rng)
	if concurrent {
		for !strings.ContainsRune(func() string {
			b := []byte{}
			for _, l := range st {
				b = append(b, l.kind)
			}
			return string(b)
		}(), 'M') {
			st = c20RandPStack(rng)
		}
	}
	nobj := 1 + rng.Intn(6)
	ncalls := 1 + rng.Intn(5)
	if concurrent {
		ncalls = 3 + rng.Intn(6)
		nobj = ncalls * 2
	}
	objs := make([]*c20PObj, nobj)
	idx := map[*message.Message]int{}
	for i := range objs {
		objs[i] = e.newPObj(rng, i)
		idx[objs[i].msg] = i
		if rng.Intn(4) == 0 {
			if !c20PreReceive(objs[i].msg) {
				c.Problem = "could not pass an object through a metrics-decorated subscriber"
				return c
			}
			c.PreRecv++
		}
	}
	for _, o := range objs {
		c.Heap = append(c.Heap, e.observeP(objs, idx, o.msg))
	}
	// inner publisher script
	nscript := rng.Intn(ncalls + 1)
	scriptErrs := make([]error, nscript)
	for i := range scriptErrs {
		switch rng.Intn(7) {
		case 0, 1:
			scriptErrs[i] = fmt.Errorf("publish error %d", rng.Intn(2))
		case 2:
			scriptErrs[i] = errC20Panic
		}
		c.Script = append(c.Script, e.err(scriptErrs[i]))
	}
	if c.Script == nil {
		c.Script = []interface{}{}
	}
	// calls
	topics := []string{"topic-a", "topic-b"}
	calls := make([]*c20PCall, ncalls)
	owner := map[*message.Message]*c20PCall{}
	for k := range calls {
		pc := &c20PCall{Topic: e.in.ID(topics[rng.Intn(2)]), innerIdx: -1, Batch: []int{}, Ev: []interface{}{}}
		if concurrent {
			pc.Batch = []int{2 * k}
			if rng.Intn(2) == 0 {
				pc.Batch = append(pc.Batch, 2*k+1)
			}
		} else {
			size := []int{0, 1, 1, 2, 3, nobj}[rng.Intn(6)]
			if size > nobj {
				size = nobj
			}
			pc.Batch = append(pc.Batch, rng.Perm(nobj)[:size]...)
			if size > 0 && rng.Intn(6) == 0 { // the same *Message twice (or three times) in one call
				d := pc.Batch[rng.Intn(size)]
				at := rng.Intn(len(pc.Batch) + 1)
				pc.Batch = append(pc.Batch[:at], append([]int{d}, pc.Batch[at:]...)...)
				if rng.Intn(3) == 0 {
					pc.Batch = append(pc.Batch, d)
				}
			}
		}
		for _, i := range pc.Batch {
			owner[objs[i].msg] = pc
		}
		calls[k] = pc
	}
	var cur *c20PCall // sequential mode: the call in progress
	callOf := func(msgs []*message.Message) *c20PCall {
		if !concurrent {
			return cur
		}
		for _, m := range msgs {
			if pc := owner[m]; pc != nil {
				return pc
			}
		}
		return nil
	}
	inner := &c20Pub{}
	inner.closeErrs = c20CloseAnswers(rng)
	inner.onPub = func(n int, topic string, msgs []*message.Message) error {
		pc := callOf(msgs)
		if pc == nil {
			c.Problem = "inner Publish call that cannot be attributed to a call"
			return nil
		}
		snap := []c20Msg{}
		for _, m := range msgs {
			snap = append(snap, e.observeP(objs, idx, m))
		}
		pc.mu.Lock()
		pc.Ev = append(pc.Ev, []interface{}{"i", e.in.ID(topic), snap})
		pc.innerIdx = n
		pc.mu.Unlock()
		if n < len(scriptErrs) {
			if scriptErrs[n] == errC20Panic {
				panic([]interface{}{"scripted publisher panic", nil, errors.New("x")}[n%3])
			}
			return scriptErrs[n]
		}
		return nil
	}
	gen := func(p delay.DefaultDelayGeneratorParams) (delay.Delay, error) {
		pc := callOf([]*message.Message{p.Message})
		id, ok := idx[p.Message]
		if !ok {
			id = 9999
		}
		if pc != nil {
			pc.mu.Lock()
			pc.Ev = append(pc.Ev, []interface{}{"g", e.in.ID(p.Topic), id})
			pc.mu.Unlock()
		}
		if !ok {
			return delay.Delay{}, errors.New("generator asked about an unknown message")
		}
		if objs[id].genErr != nil {
			return delay.Delay{}, objs[id].genErr
		}
		return *objs[id].genD, nil
	}
	// build the stack bottom-up
	reg := prometheus.NewRegistry()
	builder := metrics.NewPrometheusMetricsBuilder(reg, "ns", "sub")
	var pub message.Publisher = inner
	if rng.Intn(2) == 0 {
		pub = c20NamedPub{inner}
	}
	enc := make([][]interface{}, len(st))
	for i := len(st) - 1; i >= 0; i-- {
		l := st[i]
		var err error
		switch l.kind {
		case 'T':
			enc[i] = []interface{}{"T", l.tag}
			pub, err = message.MessageTransformPublisherDecorator(appendTrail(l.tag))(pub)
		case 'D':
			enc[i] = []interface{}{"D", l.hasgen, l.allow}
			cfg := delay.PublisherConfig{AllowNoDelay: l.allow}
			if l.hasgen {
				cfg.DefaultDelayGenerator = gen
			}
			pub, err = delay.NewPublisher(pub, cfg)
		default:
			enc[i] = []interface{}{"M", e.in.ID(c20StructName(pub))}
			b := builder
			if rng.Intn(2) == 0 { // a second builder on the same registry shares the collector
				b = metrics.NewPrometheusMetricsBuilder(reg, "ns", "sub")
			}
			pub, err = b.DecoratePublisher(pub)
		}
		if err != nil {
			c.Problem = "decorating failed: " + err.Error()
			return c
		}
	}
	c.Stack = enc
	if c.Stack == nil {
		c.Stack = [][]interface{}{}
	}
	doCall := func(pc *c20PCall) {
		msgs := []*message.Message{}
		for _, i := range pc.Batch {
			msgs = append(msgs, objs[i].msg)
		}
		pc.Before = []c20Msg{}
		for _, m := range msgs {
			pc.Before = append(pc.Before, e.observeP(objs, idx, m))
		}
		err := func() (err error) {
			returned := false
			defer func() {
				if !returned { // recover() alone would miss panic(nil) under old semantics
					recover()
					err = errC20Panic
				}
			}()
			err = pub.Publish(e.in.Tab[pc.Topic], msgs...)
			returned = true
			return err
		}()
		pc.Res = e.err(err)
		pc.After = []c20Msg{}
		for _, m := range msgs {
			pc.After = append(pc.After, e.observeP(objs, idx, m))
		}
	}
	if concurrent {
		var wg sync.WaitGroup
		start := make(chan struct{})
		for _, pc := range calls {
			wg.Add(1)
			go func(pc *c20PCall) { defer wg.Done(); <-start; doCall(pc) }(pc)
		}
		close(start)
		wg.Wait()
		// linearise: calls that reached the wrapped publisher in its order, the others in front
		sort.SliceStable(calls, func(a, b int) bool { return calls[a].innerIdx < calls[b].innerIdx })
	} else {
		for _, pc := range calls {
			cur = pc
			doCall(pc)
		}
		cur = nil
	}
	reached := 0
	for _, pc := range calls {
		if reached < len(scriptErrs) {
			pc.Answer = e.err(scriptErrs[reached])
		}
		if pc.innerIdx >= 0 {
			if pc.innerIdx != reached {
				c.Problem = "wrapped publisher call numbering is not contiguous"
			}
			reached++
		}
	}
	c.Calls = calls
	// Close is called 1-3 times; the wrapped publisher answers differently each time
	rets := [][]interface{}{}
	for k := range inner.closeErrs {
		ret := pub.Close()
		rets = append(rets, []interface{}{e.err(inner.closeErrs[k]), e.err(ret)})
	}
	c.Close = []interface{}{inner.closes, rets}
	for _, o := range objs {
		c.Final = append(c.Final, e.observeP(objs, idx, o.msg))
	}
	tab, err := c20Gather(reg, "ns_sub_publish_time_seconds", []string{"handler_name", "publisher_name", "success"})
	if err != nil {
		c.Problem = "gather: " + err.Error()
	}
	c.Tab = e.table(tab, 2, "true", "false")
	return c
}

// ---------------------------------------------------------------- subscriber stacks

type c20Sub struct {
	mu        sync.Mutex
	ch        chan *message.Message
	done      chan struct{}
	closes    int
	closeErr  error
	closeErrs []error // the k-th Close answers with the k-th entry (the last one repeats)
	subErr    error
	// a graceful Close: hands out these messages, waits until they are settled, only then ends the subscription
	drain      []*message.Message
	sent       []chan struct{}
	drainStuck string
	drainWait  time.Duration
}

func newC20Sub() *c20Sub { return &c20Sub{ch: make(chan *message.Message), done: make(chan struct{})} }

func (s *c20Sub) Subscribe(ctx context.Context, topic string) (<-chan *message.Message, error) {
	if s.subErr != nil {
		return nil, s.subErr
	}
	return s.ch, nil
}
func (s *c20Sub) Close() error {
	s.mu.Lock()
	defer s.mu.Unlock()
	s.closes++
	if s.closes == 1 {
	drainLoop:
		for j, m := range s.drain {
			select {
			case s.ch <- m:
				close(s.sent[j])
			case <-time.After(s.drainWait):
				s.drainStuck = "the wrapped subscriber could not hand out a message during its Close"
				break drainLoop
			}
		}
		for _, m := range s.drain {
			if s.drainStuck == "" && script.WaitSettled(m, s.drainWait) == 0 {
				s.drainStuck = "a message handed out by the wrapped subscriber during its Close was never settled"
			}
		}
		close(s.done)
		close(s.ch)
	}
	return s.closeAnswer(s.closes - 1)
}

func (s *c20Sub) closeAnswer(k int) error {
	if len(s.closeErrs) == 0 {
		return s.closeErr
	}
	if k >= len(s.closeErrs) {
		k = len(s.closeErrs) - 1
	}
	return s.closeErrs[k]
}
func (s *c20Sub) emit(m *message.Message, d time.Duration) (ok bool) {
	defer func() {
		if recover() != nil {
			ok = false
		}
	}()
	select {
	case <-s.done:
		return false
	default:
	}
	select {
	case s.ch <- m:
		return true
	case <-s.done:
		return false
	case <-time.After(d):
		return false
	}
}

type c20NamedSub struct{ *c20Sub }

func (s c20NamedSub) String() string { return "named-scripted-subscriber" }

var errC20Panic = errors.New("<the call panicked>") // script entry: the wrapped publisher panics

var c20SlowWaits int // subscriber/router cases whose counters never reached the expected total

type c20SubCase struct {
	Stack    [][]interface{} `json:"stack"`
	Heap     [][]interface{} `json:"heap"` // [rest, trail]
	Ops      [][]interface{} `json:"ops"`  // ["e",i] | ["s",i,ack] | ["c"]
	Out      [][]interface{} `json:"out"`  // [obj, rest, trail]
	Final    []int           `json:"final"`
	Closes   int             `json:"closes"`
	Rets     []bool          `json:"rets"`
	Tab      [][]interface{} `json:"tab"`
	CloseRet []interface{}   `json:"close_ret"` // per Close: [inner answer, returned]
	Problem  string          `json:"problem,omitempty"`
	Expected int             `json:"expected"`
	PrePub   int             `json:"pre_published"` // objects that went through a metrics-decorated publisher before
}

func (e *c20Env) runSubCase(rng *rand.Rand) *c20SubCase {
	c := &c20SubCase{Out: [][]interface{}{}, Rets: []bool{}, CloseRet: []interface{}{}}
	shapes := []string{"", "T", "M", "MM", "TM", "MT", "TT", "MMM", "TMM", "MTM", "MMT", "TMT", "TTM", "TTT"}
	shape := shapes[rng.Intn(len(shapes))]
	inner := newC20Sub()
	inner.closeErrs = c20CloseAnswers(rng)
	var sub message.Subscriber = inner
	if rng.Intn(2) == 0 {
		sub = c20NamedSub{inner}
	}
	reg := prometheus.NewRegistry()
	builder := metrics.NewPrometheusMetricsBuilder(reg, "", "")
	c.Stack = make([][]interface{}, len(shape))
	for i := len(shape) - 1; i >= 0; i-- {
		var err error
		if shape[i] == 'T' {
			tag := 10 + i + 10*rng.Intn(3)
			c.Stack[i] = []interface{}{"T", tag}
			sub, err = message.MessageTransformSubscriberDecorator(appendTrail(tag))(sub)
		} else {
			c.Stack[i] = []interface{}{"M", e.in.ID(c20StructName(sub))}
			b := builder
			if rng.Intn(2) == 0 {
				b = metrics.NewPrometheusMetricsBuilder(reg, "", "")
			}
			sub, err = b.DecorateSubscriber(sub)
		}
		if err != nil {
			c.Problem = "decorating failed: " + err.Error()
			return c
		}
	}
	hasM := strings.ContainsRune(shape, 'M')
	nobj := 1 + rng.Intn(6)
	objs := make([]*message.Message, nobj)
	idx := map[*message.Message]int{}
	for i := range objs {
		objs[i] = message.NewMessage(fmt.Sprintf("u%d-%d", i, rng.Intn(100)), []byte(fmt.Sprintf("p%d", rng.Intn(100))))
		if rng.Intn(2) == 0 {
			objs[i].Metadata.Set("k", fmt.Sprint(rng.Intn(9)))
		}
		if rng.Intn(4) == 0 {
			objs[i].Metadata.Set("trail", "7") // a tag from before
		}
		idx[objs[i]] = i
		if rng.Intn(4) == 0 {
			if !c20PrePublish(objs[i]) {
				c.Problem = "could not publish an object through a metrics-decorated publisher"
				return c
			}
			c.PrePub++
		}
		c.Heap = append(c.Heap, []interface{}{e.rest(objs[i]), c20Trail(objs[i].Metadata)})
	}
	out, err := sub.Subscribe(context.Background(), "topic")
	if err != nil {
		c.Problem = "subscribe failed: " + err.Error()
		return c
	}
	// ops: emits and settlements interleaved, one Close mostly near the end, sometimes a second one
	ops := [][]interface{}{}
	nops := 2 + rng.Intn(12)
	closeAt := nops
	if rng.Intn(3) == 0 {
		closeAt = rng.Intn(nops + 1)
	}
	for k := 0; k < nops; k++ {
		if k == closeAt {
			ops = append(ops, []interface{}{"c"})
		}
		i := rng.Intn(nobj)
		if rng.Intn(5) < 2 {
			ops = append(ops, []interface{}{"e", i})
		} else if rng.Intn(5) < 4 {
			ops = append(ops, []interface{}{"e", i}, []interface{}{"s", i, rng.Intn(3) != 0})
		} else {
			ops = append(ops, []interface{}{"s", rng.Intn(nobj), rng.Intn(2) == 0})
		}
	}
	if closeAt >= nops {
		ops = append(ops, []interface{}{"c"})
	}
	if rng.Intn(4) == 0 {
		ops = append(ops, []interface{}{"s", rng.Intn(nobj), rng.Intn(2) == 0}) // settle after Close
	}
	for k := 1; k < len(inner.closeErrs); k++ { // Close again: every call must reach the wrapped subscriber
		ops = append(ops, []interface{}{"c"})
		if rng.Intn(3) == 0 {
			ops = append(ops, []interface{}{"e", rng.Intn(nobj)})
		}
	}
	if rng.Intn(3) == 0 {
		// the first Close is a draining one: it hands out objects that are still unsettled (so the wrapped
		// subscriber really waits for the consumer) and ends the subscription only when they are settled
		settled := map[int]bool{}
		for k, op := range ops {
			if op[0] == "s" {
				settled[op[1].(int)] = true
			}
			if op[0] == "c" {
				items := [][]interface{}{}
				for _, i := range rng.Perm(nobj) {
					if !settled[i] && len(items) < 3 && (len(items) == 0 || rng.Intn(2) == 0) {
						items = append(items, []interface{}{i, rng.Intn(3) != 0})
					}
				}
				if len(items) > 0 {
					ops[k] = []interface{}{"d", items}
				}
				break
			}
		}
	}
	c.Ops = ops
	received := map[int]*message.Message{}
	delivered := map[int]bool{}
	closed := false
	for _, op := range ops {
		switch op[0] {
		case "e":
			i := op[1].(int)
			res := make(chan bool, 1)
			go func() { res <- inner.emit(objs[i], 5*time.Second) }()
			if closed {
				<-res
				continue
			}
			select {
			case got, ok := <-out:
				if !ok {
					c.Problem = "decorated channel closed while the wrapped subscriber is open"
					return c
				}
				gi, known := idx[got]
				if !known {
					gi = 9999
				} else {
					received[gi] = got
					delivered[gi] = true
				}
				c.Out = append(c.Out, []interface{}{gi, e.rest(got), c20Trail(got.Metadata)})
				<-res
			case <-time.After(6 * time.Second):
				c.Problem = "emitted message did not come out of the decorated subscriber"
				return c
			}
		case "s":
			i := op[1].(int)
			m := objs[i]
			if r, ok := received[i]; ok {
				m = r
			}
			if op[2].(bool) {
				c.Rets = append(c.Rets, m.Ack())
			} else {
				c.Rets = append(c.Rets, m.Nack())
			}
		case "d":
			items := op[1].([][]interface{})
			tmo := 6 * time.Second
			if c20SlowWaits >= 3 {
				tmo = 300 * time.Millisecond
			}
			inner.drainWait = tmo
			for _, it := range items {
				inner.drain = append(inner.drain, objs[it[0].(int)])
				inner.sent = append(inner.sent, make(chan struct{}))
			}
			done := make(chan error, 1)
			go func() { done <- sub.Close() }()
			for j, it := range items {
				select {
				case got, ok := <-out:
					if !ok {
						c20SlowWaits++
						c.Problem = "decorated channel closed before everything the wrapped subscriber handed out during its Close was delivered"
						return c
					}
					gi, known := idx[got]
					if !known {
						gi = 9999
					} else {
						received[gi] = got
						delivered[gi] = true
					}
					c.Out = append(c.Out, []interface{}{gi, e.rest(got), c20Trail(got.Metadata)})
				case <-time.After(tmo):
					c20SlowWaits++
					c.Problem = "a message the wrapped subscriber handed out during its Close never reached the consumer"
					return c
				}
				if j+1 < len(items) && len(shape) > 0 {
					// a busy consumer: the next message is already with the pump while nobody reads
					select {
					case <-inner.sent[j+1]:
					case <-time.After(2 * time.Second):
					}
					time.Sleep(time.Millisecond)
				}
				m := objs[it[0].(int)]
				if r, ok := received[it[0].(int)]; ok {
					m = r
				}
				if it[1].(bool) {
					c.Rets = append(c.Rets, m.Ack())
				} else {
					c.Rets = append(c.Rets, m.Nack())
				}
			}
			select {
			case err := <-done:
				c.CloseRet = append(c.CloseRet, []interface{}{e.err(inner.closeAnswer(len(c.CloseRet))), e.err(err)})
			case <-time.After(tmo + 10*time.Second):
				c.Problem = "Close of the decorated subscriber did not return"
				return c
			}
			if inner.drainStuck != "" {
				c.Problem = inner.drainStuck
				return c
			}
			closed = true
		default:
			done := make(chan error, 1)
			go func() { done <- sub.Close() }()
			select {
			case err := <-done:
				c.CloseRet = append(c.CloseRet, []interface{}{e.err(inner.closeAnswer(len(c.CloseRet))), e.err(err)})
			case <-time.After(10 * time.Second):
				c.Problem = "Close of the decorated subscriber did not return"
				return c
			}
			closed = true
		}
	}
	for i, m := range objs {
		s := script.Settlement(m)
		c.Final = append(c.Final, s)
		if hasM && delivered[i] && s != 0 {
			c.Expected++
		}
	}
	inner.mu.Lock()
	c.Closes = inner.closes
	inner.mu.Unlock()
	keys := []string{"handler_name", "subscriber_name", "acked"}
	tab := map[string]int{}
	wait := 5 * time.Second
	if c20SlowWaits >= 3 { // fail fast: increments are evidently missing, do not wait 5 s per case
		wait = 300 * time.Millisecond
	}
	deadline := time.Now().Add(wait)
	for {
		tab, err = c20Gather(reg, "subscriber_messages_received_total", keys)
		if err != nil {
			c.Problem = "gather: " + err.Error()
			return c
		}
		if c20Total(tab) >= c.Expected {
			break
		}
		if time.Now().After(deadline) {
			c20SlowWaits++
			break
		}
		time.Sleep(2 * time.Millisecond)
	}
	time.Sleep(15 * time.Millisecond) // let a surplus increment show up
	tab, _ = c20Gather(reg, "subscriber_messages_received_total", keys)
	c.Tab = e.table(tab, 2, "acked", "nacked")
	return c
}

// ---------------------------------------------------------------- handler middleware

type c20MwMsg struct {
	Out      int  `json:"out"`       // 0 ok, 1 error, 2 panic
	NOuts    int  `json:"nouts"`     // produced messages (ok only)
	PubOK    bool `json:"pub_ok"`    // the handler's publisher accepts
	PubPanic bool `json:"pub_panic"` // ... or panics (router only; wins over PubOK)
	PanicV   int  `json:"panicv"`    // 0 string, 1 error, 2 nil
	Pass     bool `json:"pass"`      // ok: the handler returns the consumed message itself (router only)
}

type c20MwCase struct {
	Layers  int             `json:"layers"`
	Router  bool            `json:"router"`
	H       int             `json:"h"`
	S       int             `json:"s"`
	P       int             `json:"p"`
	Msgs    []c20MwMsg      `json:"msgs"`
	HTab    [][]interface{} `json:"htab"`
	STab    [][]interface{} `json:"stab"`
	PTab    [][]interface{} `json:"ptab"`
	Problem string          `json:"problem,omitempty"`
}

func c20Outcome(mm c20MwMsg, id string, in *message.Message) ([]*message.Message, error) {
	switch mm.Out {
	case 0:
		if mm.Pass {
			return []*message.Message{in}, nil
		}
		outs := []*message.Message{}
		for k := 0; k < mm.NOuts; k++ {
			outs = append(outs, message.NewMessage(fmt.Sprintf("%s-out%d", id, k), []byte("out")))
		}
		return outs, nil
	case 1:
		return nil, errors.New("scripted handler error")
	default:
		switch mm.PanicV {
		case 0:
			panic("scripted panic")
		case 1:
			panic(errors.New("scripted panic error"))
		default:
			panic(nil)
		}
	}
}

func c20RandMwMsgs(rng *rand.Rand, router bool) []c20MwMsg {
	n := 1 + rng.Intn(8)
	msgs := make([]c20MwMsg, n)
	for i := range msgs {
		mm := c20MwMsg{Out: []int{0, 0, 1, 2}[rng.Intn(4)], PubOK: rng.Intn(3) != 0, PanicV: rng.Intn(3)}
		if mm.Out == 0 && router {
			mm.NOuts = []int{0, 1, 2}[rng.Intn(3)]
			if mm.NOuts == 1 && rng.Intn(2) == 0 {
				mm.Pass = true
			}
			if mm.NOuts > 0 && rng.Intn(4) == 0 {
				mm.PubPanic = true
			}
		}
		msgs[i] = mm
	}
	return msgs
}

func (e *c20Env) gatherMw(c *c20MwCase, reg *prometheus.Registry, prefix string) {
	ht, err := c20Gather(reg, prefix+"handler_execution_time_seconds", []string{"handler_name", "success"})
	if err != nil {
		c.Problem = "gather: " + err.Error()
		return
	}
	c.HTab = e.table(ht, 1, "true", "false")
	st, _ := c20Gather(reg, prefix+"subscriber_messages_received_total", []string{"handler_name", "subscriber_name", "acked"})
	c.STab = e.table(st, 2, "acked", "nacked")
	pt, _ := c20Gather(reg, prefix+"publish_time_seconds", []string{"handler_name", "publisher_name", "success"})
	c.PTab = e.table(pt, 2, "true", "false")
}

// the middleware applied [layers] times around a scripted handler, called directly
func (e *c20Env) runMwDirect(rng *rand.Rand, layers int) *c20MwCase {
	c := &c20MwCase{Layers: layers, Msgs: c20RandMwMsgs(rng, false)}
	reg := prometheus.NewRegistry()
	builder := metrics.NewPrometheusMetricsBuilder(reg, "w", "")
	k := 0
	var h message.HandlerFunc = func(msg *message.Message) ([]*message.Message, error) {
		return c20Outcome(c.Msgs[k], msg.UUID, msg)
	}
	for i := 0; i < layers; i++ {
		h = builder.NewRouterMiddleware().Middleware(h)
	}
	for k = range c.Msgs {
		func() {
			defer func() { recover() }()
			h(message.NewMessage(fmt.Sprintf("m%d", k), nil))
		}()
	}
	e.gatherMw(c, reg, "w_")
	return c
}

// the middleware in a handler chain with Retry: "M" = the metrics middleware, "R1"/"R2" = Retry with MaxRetries 1/2
type c20MwStackCase struct {
	Stack   []string        `json:"stack"`  // outermost first
	Script  []int           `json:"script"` // outcome of the successive handler INVOCATIONS: 0 ok, 1 error, 2 panic
	Top     int             `json:"top"`    // invocations of the whole chain
	SameMsg bool            `json:"same_msg"`
	CtxKept bool            `json:"ctx_kept"` // a context value set by the handler is still on the message afterwards
	HTab    [][]interface{} `json:"htab"`
	Problem string          `json:"problem,omitempty"`
}

type c20CtxKey struct{}

func (e *c20Env) runMwStack(rng *rand.Rand) *c20MwStackCase {
	shapes := [][]string{{"M"}, {"M", "M"}, {"M", "M", "M"}, {"R1", "M"}, {"R2", "M", "M"}, {"M", "R2", "M"}, {"M", "R1", "M", "M"},
		{"M", "M", "R2"}, {"R1", "M", "R2", "M"}, {"M", "R2"}, {"R2", "M", "R1", "M", "M"}}
	c := &c20MwStackCase{Stack: shapes[rng.Intn(len(shapes))], Top: 1 + rng.Intn(4), SameMsg: rng.Intn(2) == 0, CtxKept: true}
	for i := 0; i < rng.Intn(10); i++ {
		c.Script = append(c.Script, []int{0, 1, 1, 1, 2}[rng.Intn(5)])
	}
	if c.Script == nil {
		c.Script = []int{}
	}
	reg := prometheus.NewRegistry()
	builder := metrics.NewPrometheusMetricsBuilder(reg, "w", "")
	k := 0
	var h message.HandlerFunc = func(msg *message.Message) ([]*message.Message, error) {
		mm := c20MwMsg{}
		if k < len(c.Script) {
			mm.Out = c.Script[k]
		}
		mm.PanicV = k % 3
		k++
		msg.SetContext(context.WithValue(msg.Context(), c20CtxKey{}, k))
		return c20Outcome(mm, msg.UUID, msg)
	}
	for i := len(c.Stack) - 1; i >= 0; i-- {
		switch c.Stack[i] {
		case "M":
			b := builder
			if rng.Intn(2) == 0 {
				b = metrics.NewPrometheusMetricsBuilder(reg, "w", "")
			}
			h = b.NewRouterMiddleware().Middleware(h)
		case "R1":
			h = middleware.Retry{MaxRetries: 1, InitialInterval: 50 * time.Microsecond}.Middleware(h)
		default:
			h = middleware.Retry{MaxRetries: 2, InitialInterval: 50 * time.Microsecond}.Middleware(h)
		}
	}
	msg := message.NewMessage("m", nil)
	for t := 0; t < c.Top; t++ {
		if !c.SameMsg {
			msg = message.NewMessage(fmt.Sprintf("m%d", t), nil)
		}
		func() {
			defer func() { recover() }()
			h(msg)
		}()
		if v, _ := msg.Context().Value(c20CtxKey{}).(int); v != k {
			c.CtxKept = false
		}
	}
	ht, err := c20Gather(reg, "w_handler_execution_time_seconds", []string{"handler_name", "success"})
	if err != nil {
		c.Problem = "gather: " + err.Error()
	}
	c.HTab = e.table(ht, 1, "true", "false")
	return c
}

// overlapping invocations of a chain: "G" = a gate middleware at which an invocation parks until the
// scenario releases it, so that invocations interleave between two applications of the metrics middleware
type c20MwConcCase struct {
	Stack   []string        `json:"stack"`
	Scripts [][]int         `json:"scripts"` // per invocation: outcomes of its successive handler invocations
	Order   []int           `json:"order"`   // the releases, in order (invocation numbers)
	HTab    [][]interface{} `json:"htab"`
	Problem string          `json:"problem,omitempty"`
}

func (e *c20Env) runMwConc(rng *rand.Rand) *c20MwConcCase {
	shapes := [][]string{{"M", "G", "M"}, {"M", "M", "G"}, {"G", "M", "M"}, {"M", "G", "M", "G", "M"}, {"R1", "M", "G", "M"},
		{"M", "G", "R1", "M"}, {"M", "G"}, {"M", "G", "M", "M"}, {"R2", "G", "M", "G", "M"}}
	c := &c20MwConcCase{Stack: shapes[rng.Intn(len(shapes))], Order: []int{}}
	n := 2 + rng.Intn(3)
	for i := 0; i < n; i++ {
		sc := []int{}
		for k := 0; k < rng.Intn(4); k++ {
			sc = append(sc, []int{0, 1, 1, 2}[rng.Intn(4)])
		}
		c.Scripts = append(c.Scripts, sc)
	}
	type event struct {
		id     int
		parked bool
	}
	events := make(chan event, 64)
	release := make([]chan struct{}, n)
	for i := range release {
		release[i] = make(chan struct{})
	}
	idOf := func(msg *message.Message) int { i, _ := strconv.Atoi(msg.UUID); return i }
	var mu sync.Mutex
	pos := make([]int, n)
	reg := prometheus.NewRegistry()
	builder := metrics.NewPrometheusMetricsBuilder(reg, "w", "")
	var h message.HandlerFunc = func(msg *message.Message) ([]*message.Message, error) {
		id := idOf(msg)
		mu.Lock()
		mm := c20MwMsg{PanicV: pos[id] % 3}
		if pos[id] < len(c.Scripts[id]) {
			mm.Out = c.Scripts[id][pos[id]]
		}
		pos[id]++
		mu.Unlock()
		return c20Outcome(mm, msg.UUID, msg)
	}
	for i := len(c.Stack) - 1; i >= 0; i-- {
		switch c.Stack[i] {
		case "M":
			h = builder.NewRouterMiddleware().Middleware(h)
		case "G":
			next := h
			h = func(msg *message.Message) ([]*message.Message, error) {
				id := idOf(msg)
				events <- event{id, true}
				<-release[id]
				return next(msg)
			}
		case "R1":
			h = middleware.Retry{MaxRetries: 1, InitialInterval: 50 * time.Microsecond}.Middleware(h)
		default:
			h = middleware.Retry{MaxRetries: 2, InitialInterval: 50 * time.Microsecond}.Middleware(h)
		}
	}
	wait := func(id int) (parked bool, ok bool) {
		select {
		case ev := <-events:
			if ev.id != id {
				c.Problem = "an invocation moved that was not released"
				return false, false
			}
			return ev.parked, true
		case <-time.After(20 * time.Second):
			c.Problem = "an invocation neither finished nor reached the next gate"
			return false, false
		}
	}
	parked := []int{}
	for i := 0; i < n; i++ {
		go func(i int) {
			defer func() { recover(); events <- event{i, false} }()
			h(message.NewMessage(strconv.Itoa(i), nil))
		}(i)
		p, ok := wait(i)
		if !ok {
			return c
		}
		if p {
			parked = append(parked, i)
		}
	}
	for len(parked) > 0 {
		k := rng.Intn(len(parked))
		id := parked[k]
		c.Order = append(c.Order, id)
		release[id] <- struct{}{}
		p, ok := wait(id)
		if !ok {
			return c
		}
		if !p {
			parked = append(parked[:k], parked[k+1:]...)
		}
	}
	ht, err := c20Gather(reg, "w_handler_execution_time_seconds", []string{"handler_name", "success"})
	if err != nil {
		c.Problem = "gather: " + err.Error()
	}
	c.HTab = e.table(ht, 1, "true", "false")
	return c
}

// a real Router with AddPrometheusRouterMetrics applied [layers] times
func (e *c20Env) runMwRouter(rng *rand.Rand, layers int) *c20MwCase {
	c := &c20MwCase{Layers: layers, Router: true, Msgs: c20RandMwMsgs(rng, true)}
	reg := prometheus.NewRegistry()
	builder := metrics.NewPrometheusMetricsBuilder(reg, "", "r")
	router, err := message.NewRouter(message.RouterConfig{CloseTimeout: 10 * time.Second}, watermill.NopLogger{})
	if err != nil {
		c.Problem = err.Error()
		return c
	}
	for i := 0; i < layers; i++ {
		builder.AddPrometheusRouterMetrics(router)
	}
	sub := newC20Sub()
	byID := map[string]c20MwMsg{}
	pub := &c20Pub{}
	pub.onPub = func(n int, topic string, msgs []*message.Message) error {
		if len(msgs) == 0 {
			return nil
		}
		id := msgs[0].UUID
		if i := strings.Index(id, "-out"); i >= 0 {
			id = id[:i]
		}
		if byID[id].PubPanic {
			panic([]interface{}{"scripted publisher panic", nil, errors.New("x")}[n%3])
		}
		if !byID[id].PubOK {
			return errors.New("scripted publish error")
		}
		return nil
	}
	hname := fmt.Sprintf("handler-%d", rng.Intn(3))
	c.H, c.S, c.P = e.in.ID(hname), e.in.ID(c20StructName(sub)), e.in.ID(c20StructName(pub))
	router.AddHandler(hname, "in", sub, "out", pub, func(msg *message.Message) ([]*message.Message, error) {
		return c20Outcome(byID[msg.UUID], msg.UUID, msg)
	})
	ctx, cancel := context.WithCancel(context.Background())
	defer cancel()
	runErr := make(chan error, 1)
	go func() { runErr <- router.Run(ctx) }()
	select {
	case <-router.Running():
	case <-time.After(10 * time.Second):
		c.Problem = "router did not start"
		return c
	}
	for k, mm := range c.Msgs {
		id := fmt.Sprintf("m%d", k)
		byID[id] = mm
		m := message.NewMessage(id, []byte("x"))
		if !sub.emit(m, 10*time.Second) {
			c.Problem = "router did not take the message"
			break
		}
		if script.WaitSettled(m, 10*time.Second) == 0 {
			c.Problem = "message not settled by the router"
			break
		}
	}
	if c.Problem == "" && layers > 0 {
		wait := 5 * time.Second
		if c20SlowWaits >= 3 {
			wait = 300 * time.Millisecond
		}
		deadline := time.Now().Add(wait)
		for {
			st, _ := c20Gather(reg, "r_subscriber_messages_received_total", []string{"acked"})
			if c20Total(st) >= len(c.Msgs) {
				break
			}
			if time.Now().After(deadline) {
				c20SlowWaits++
				break
			}
			time.Sleep(2 * time.Millisecond)
		}
		time.Sleep(15 * time.Millisecond)
	}
	if err := router.Close(); err != nil && c.Problem == "" {
		c.Problem = "router close: " + err.Error()
	}
	select {
	case <-runErr:
	case <-time.After(10 * time.Second):
		if c.Problem == "" {
			c.Problem = "Run did not return"
		}
	}
	e.gatherMw(c, reg, "r_")
	return c
}

// ---------------------------------------------------------------- delay.For / delay.Until

type c20DelayCase struct {
	Until bool    `json:"until"`
	Arg   []int64 `json:"arg"`  // For: [ns]; Until: [sec, nsec]
	Time  []int64 `json:"time"` // Delay.time [sec, nsec]
	Dur   int64   `json:"dur"`
	T0    []int64 `json:"t0"`
	T1    []int64 `json:"t1"`
}

func sn(t time.Time) []int64 { return []int64{t.Unix(), int64(t.Nanosecond())} }

func c20DelayCases(rng *rand.Rand, n int) []c20DelayCase {
	res := []c20DelayCase{}
	for i := 0; i < n; i++ {
		var c c20DelayCase
		if rng.Intn(2) == 0 {
			ds := []time.Duration{0, 1, -1, time.Second, -5 * time.Second, 999999999, 1000000001, time.Hour, 100 * 365 * 24 * time.Hour,
				time.Duration(rng.Int63n(int64(48 * time.Hour))), -time.Duration(rng.Int63n(int64(48 * time.Hour)))}
			d := ds[rng.Intn(len(ds))]
			t0 := time.Now().UTC()
			dl := delay.For(d)
			t1 := time.Now().UTC()
			tm, dur := delay.VerifParts(dl)
			c = c20DelayCase{Arg: []int64{int64(d)}, Time: sn(tm), Dur: int64(dur), T0: sn(t0), T1: sn(t1)}
		} else {
			now := time.Now()
			ts := []time.Time{now, now.Add(-time.Hour), now.Add(time.Duration(rng.Int63n(int64(72 * time.Hour)))), now.Add(1500 * time.Millisecond).In(time.FixedZone("Z", -3*3600)),
				time.Date(2200, 1, 2, 3, 4, 5, 6, time.UTC), time.Date(2400, 1, 1, 0, 0, 0, 0, time.UTC), time.Date(1700, 1, 1, 0, 0, 0, 0, time.UTC), time.Unix(0, 0), {}}
			t := ts[rng.Intn(len(ts))].Round(0)
			t0 := time.Now().UTC()
			dl := delay.Until(t)
			t1 := time.Now().UTC()
			tm, dur := delay.VerifParts(dl)
			c = c20DelayCase{Until: true, Arg: sn(t), Time: sn(tm), Dur: int64(dur), T0: sn(t0), T1: sn(t1)}
		}
		if c.T1[0] < c.T0[0] || (c.T1[0] == c.T0[0] && c.T1[1] < c.T0[1]) {
			continue // the wall clock stepped backwards between the two readings
		}
		res = append(res, c)
	}
	return res
}

// ---------------------------------------------------------------- glue: constructors, error paths

func (e *c20Env) glue() map[string]bool {
	res := map[string]bool{}
	panics := func(f func()) (p bool) {
		defer func() { p = recover() != nil }()
		f()
		return
	}
	res["nil transform rejected (publisher decorator)"] = panics(func() { message.MessageTransformPublisherDecorator(nil) })
	res["nil transform rejected (subscriber decorator)"] = panics(func() { message.MessageTransformSubscriberDecorator(nil) })
	// Subscribe error passes through every subscriber decorator, no pump, nothing counted
	reg := prometheus.NewRegistry()
	b := metrics.NewPrometheusMetricsBuilder(reg, "", "")
	inner := newC20Sub()
	inner.subErr = errors.New("subscribe error")
	s1, _ := message.MessageTransformSubscriberDecorator(appendTrail(1))(inner)
	s2, err2 := b.DecorateSubscriber(s1)
	ok := err2 == nil
	if ok {
		ch, err := s2.Subscribe(context.Background(), "t")
		ok = ch == nil && err == inner.subErr
	}
	res["Subscribe error returned unchanged through transform + metrics decorators"] = ok
	// the same collector is reused when decorating twice / from a second builder
	p1, e1 := b.DecoratePublisher(&c20Pub{})
	p2, e2 := metrics.NewPrometheusMetricsBuilder(reg, "", "").DecoratePublisher(p1)
	res["DecoratePublisher twice on one registry succeeds"] = e1 == nil && e2 == nil && p2 != nil
	// a registry that refuses the collector: the error is returned, not swallowed
	_, e3 := metrics.NewPrometheusMetricsBuilder(c20BadRegisterer{}, "", "").DecoratePublisher(&c20Pub{})
	_, e4 := metrics.NewPrometheusMetricsBuilder(c20BadRegisterer{}, "", "").DecorateSubscriber(newC20Sub())
	res["registration failure is reported by DecoratePublisher/DecorateSubscriber"] = e3 != nil && e4 != nil
	// a wrapped subscriber / publisher whose Subscribe or Close panics: the panic escapes every decorator unchanged
	escapes := func(f func()) (ok bool) {
		defer func() { ok = recover() == c20PanicValue }()
		f()
		return false
	}
	stackSub := func() message.Subscriber {
		s1, _ := message.MessageTransformSubscriberDecorator(appendTrail(1))(c20PanicSub{})
		s2, _ := metrics.NewPrometheusMetricsBuilder(prometheus.NewRegistry(), "", "").DecorateSubscriber(s1)
		return s2
	}
	res["a panic in the wrapped subscriber's Subscribe escapes transform + metrics decorators"] = escapes(func() { stackSub().Subscribe(context.Background(), "t") })
	res["a panic in the wrapped subscriber's Close escapes transform + metrics decorators"] = escapes(func() { stackSub().Close() })
	stackPub := func() message.Publisher {
		p1, _ := message.MessageTransformPublisherDecorator(appendTrail(1))(c20PanicPub{})
		p2, _ := delay.NewPublisher(p1, delay.PublisherConfig{AllowNoDelay: true})
		p3, _ := metrics.NewPrometheusMetricsBuilder(prometheus.NewRegistry(), "", "").DecoratePublisher(p2)
		return p3
	}
	res["a panic in the wrapped publisher's Close escapes transform + delay + metrics decorators"] = escapes(func() { stackPub().Close() })
	res["a panic in the wrapped publisher's Publish escapes transform + delay + metrics decorators with its value"] = escapes(func() { stackPub().Publish("t", message.NewMessage("u", nil)) })
	// NewRouterMiddleware cannot return an error: a registry that refuses the collector makes it panic
	res["registration failure makes NewRouterMiddleware panic (it has no error result)"] = panics(func() {
		metrics.NewPrometheusMetricsBuilder(c20BadRegisterer{}, "", "").NewRouterMiddleware()
	})
	// PublishBuckets / HandlerBuckets reach the histograms; nil HandlerBuckets = the 11 sub-second defaults
	bounds := func(reg *prometheus.Registry, family string) []float64 {
		mfs, _ := reg.Gather()
		for _, mf := range mfs {
			if mf.GetName() == family && len(mf.GetMetric()) > 0 {
				bs := []float64{}
				for _, b := range mf.GetMetric()[0].GetHistogram().GetBucket() {
					bs = append(bs, b.GetUpperBound())
				}
				return bs
			}
		}
		return nil
	}
	regB := prometheus.NewRegistry()
	bb := metrics.NewPrometheusMetricsBuilder(regB, "b", "")
	bb.PublishBuckets = []float64{0.25, 4}
	bb.HandlerBuckets = []float64{0.5, 2, 8}
	pb, _ := bb.DecoratePublisher(&c20Pub{onPub: func(int, string, []*message.Message) error { return nil }})
	pb.Publish("t", message.NewMessage("u", nil))
	bb.NewRouterMiddleware().Middleware(func(*message.Message) ([]*message.Message, error) { return nil, nil })(message.NewMessage("u", nil))
	eqF := func(a, b []float64) bool {
		if len(a) != len(b) {
			return false
		}
		for i := range a {
			if a[i] != b[i] {
				return false
			}
		}
		return true
	}
	res["PublishBuckets and HandlerBuckets are the bucket bounds of the two histograms"] =
		eqF(bounds(regB, "b_publish_time_seconds"), []float64{0.25, 4}) && eqF(bounds(regB, "b_handler_execution_time_seconds"), []float64{0.5, 2, 8})
	regD := prometheus.NewRegistry()
	metrics.NewPrometheusMetricsBuilder(regD, "d", "").NewRouterMiddleware().Middleware(func(*message.Message) ([]*message.Message, error) { return nil, nil })(message.NewMessage("u", nil))
	res["nil HandlerBuckets give the 11 default handler buckets 0.0005 .. 1"] =
		eqF(bounds(regD, "d_handler_execution_time_seconds"), []float64{0.0005, 0.001, 0.0025, 0.005, 0.01, 0.025, 0.05, 0.1, 0.25, 0.5, 1})
	// a nil message from the wrapped subscriber: forwarded unchanged by the transform decorator (the transform
	// sees it) and by the metrics decorator (recordMetrics guards it), nothing recorded, no panic
	regN := prometheus.NewRegistry()
	innerN := newC20Sub()
	sawNil := false
	tN, _ := message.MessageTransformSubscriberDecorator(func(m *message.Message) { sawNil = sawNil || m == nil })(innerN)
	decN, _ := metrics.NewPrometheusMetricsBuilder(regN, "n", "").DecorateSubscriber(tN)
	okNil := false
	if chN, err := decN.Subscribe(context.Background(), "t"); err == nil {
		go innerN.emit(nil, 10*time.Second)
		select {
		case got, open := <-chN:
			tabN, _ := c20Gather(regN, "n_subscriber_messages_received_total", []string{"acked"})
			okNil = open && got == nil && sawNil && c20Total(tabN) == 0
		case <-time.After(15 * time.Second):
		}
		decN.Close()
	}
	res["a nil message passes the transform and the metrics subscriber decorators unchanged and unrecorded"] = okNil
	return res
}

var c20PanicValue = errors.New("scripted collaborator panic")

type c20PanicSub struct{}

func (c20PanicSub) Subscribe(context.Context, string) (<-chan *message.Message, error) {
	panic(c20PanicValue)
}
func (c20PanicSub) Close() error { panic(c20PanicValue) }

type c20PanicPub struct{}

func (c20PanicPub) Publish(string, ...*message.Message) error { panic(c20PanicValue) }
func (c20PanicPub) Close() error                              { panic(c20PanicValue) }

type c20BadRegisterer struct{}

func (c20BadRegisterer) Register(prometheus.Collector) error  { return errors.New("registry refuses") }
func (c20BadRegisterer) MustRegister(...prometheus.Collector) {}
func (c20BadRegisterer) Unregister(prometheus.Collector) bool { return false }

// ---------------------------------------------------------------- command

func cmdC20(args []string) error {
	fs, out, seed := newFlags("c20")
	n := fs.Int("n", 300, "publisher / subscriber cases")
	fs.Parse(args)
	rng := rand.New(rand.NewSource(*seed))
	e := newC20Env()
	res := map[string]interface{}{}
	c20BuildOldDelays(rng)
	subs := []*c20SubCase{}
	for i := 0; i < *n; i++ {
		subs = append(subs, e.runSubCase(rng))
	}
	if rest := 1100*time.Millisecond - time.Since(c20OldAt); rest > 0 {
		time.Sleep(rest)
	}
	res["old_delay_age_ms"] = time.Since(c20OldAt).Milliseconds()

	pubs := []*c20PubCase{}
	for i := 0; i < *n; i++ {
		pubs = append(pubs, e.runPubCase(rng, i%5 == 4))
	}
	mws := []*c20MwCase{}
	for i := 0; i < *n/6+4; i++ {
		layers := []int{1, 1, 1, 2, 2, 3, 1}[i%7]
		if i%2 == 0 {
			mws = append(mws, e.runMwDirect(rng, layers))
		} else {
			mws = append(mws, e.runMwRouter(rng, layers))
		}
	}
	res["pub"] = pubs
	res["sub"] = subs
	res["mw"] = mws
	stacks := []*c20MwStackCase{}
	for i := 0; i < *n/2; i++ {
		stacks = append(stacks, e.runMwStack(rng))
	}
	res["mwstack"] = stacks
	concs := []*c20MwConcCase{}
	for i := 0; i < *n/2; i++ {
		concs = append(concs, e.runMwConc(rng))
	}
	res["mwconc"] = concs
	res["delay"] = c20DelayCases(rng, *n)
	res["old_delay_picks"] = c20OldPicks
	res["glue"] = e.glue()
	res["strings"] = e.in.Tab
	return writeJSON(*out, res)
}

func init() { register("c20", cmdC20) }
