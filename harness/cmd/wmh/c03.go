//go:build verif

package main

import (
	"context"
	"fmt"
	"math/rand"
	"sync"
	"time"

	"github.com/ThreeDotsLabs/watermill/message"

	"wmverif/hookrt"
)

// operation codes shared with the Coq model: 0 Ack, 1 Nack, 2 read Acked(), 3 read Nacked()
// result codes: 0 false, 1 true, 2 closed, 3 blocks, 4 panic, 5 call did not return (watchdog)

func c03NewMsg(ctor int) *message.Message {
	switch ctor {
	case 0:
		return message.NewMessage("u", []byte("p"))
	case 1:
		src := message.NewMessage("u", []byte("p"))
		src.Metadata.Set("k", "v")
		src.Nack() // Copy must not carry the settlement over
		return src.Copy()
	case 3: // a message whose context is already cancelled: settling it must behave like any other
		m := message.NewMessage("u", []byte("p"))
		ctx, cancel := context.WithCancel(context.Background())
		cancel()
		m.SetContext(ctx)
		return m
	case 4: // ... or whose deadline has passed
		m := message.NewMessage("u", []byte("p"))
		ctx, cancel := context.WithDeadline(context.Background(), time.Now().Add(-time.Second))
		_ = cancel
		m.SetContext(ctx)
		return m
	default:
		return &message.Message{}
	}
}

func c03Do(m *message.Message, op int) (res int) {
	defer func() {
		if r := recover(); r != nil {
			res = 4
		}
	}()
	switch op {
	case 0:
		if m.Ack() {
			return 1
		}
		return 0
	case 1:
		if m.Nack() {
			return 1
		}
		return 0
	case 2:
		select {
		case <-m.Acked():
			return 2
		default:
			return 3
		}
	default:
		select {
		case <-m.Nacked():
			return 2
		default:
			return 3
		}
	}
}

var c03Hung int // calls that did not return; after a few the sweep stops executing (fail fast)

// runSeq runs one operation sequence on a fresh message under a watchdog.
func c03RunSeq(ctor int, ops []int) []int {
	if c03Hung >= 3 {
		rs := make([]int, len(ops))
		for i := range rs {
			rs[i] = 5
		}
		return rs
	}
	done := make(chan []int, 1)
	go func() {
		m := c03NewMsg(ctor)
		rs := make([]int, 0, len(ops))
		for _, o := range ops {
			rs = append(rs, c03Do(m, o))
		}
		done <- rs
	}()
	select {
	case rs := <-done:
		return rs
	case <-time.After(2 * time.Second):
		c03Hung++
		c03HungCases = append(c03HungCases, c03SeqCase{Ctor: ctor, Ops: ops})
		rs := make([]int, len(ops))
		for i := range rs {
			rs[i] = 5
		}
		return rs
	}
}

func c03Pack(rs []int) uint64 {
	var v uint64 = 1
	for i := len(rs) - 1; i >= 0; i-- {
		v = uint64(rs[i]) + 5*v
	}
	return v
}

func c03Enumerate(n int, f func(ops []int)) {
	// lengths 0..n; within a length the FIRST operation varies slowest (as seqs_of_len in Coq)
	for l := 0; l <= n; l++ {
		ops := make([]int, l)
		var rec func(i int)
		rec = func(i int) {
			if i == l {
				f(append([]int(nil), ops...))
				return
			}
			for o := 0; o < 4; o++ {
				ops[i] = o
				rec(i + 1)
			}
		}
		rec(0)
	}
}

type c03SeqOut struct {
	MaxLen int        `json:"maxlen"`
	Sweep  [][]uint64 `json:"sweep"`  // per constructor: packed results in canonical order
	Random []c03SeqCase `json:"random"` // longer random sequences, explicit
	Hung   []c03SeqCase `json:"hung"`   // sequences on which a call did not return (first few; then the run stops)
}

var c03HungCases []c03SeqCase
type c03SeqCase struct {
	Ctor int   `json:"ctor"`
	Ops  []int `json:"ops"`
	Res  []int `json:"res"`
}

func cmdC03Seq(args []string) error {
	fs, out, seed := newFlags("c03seq")
	maxlen := fs.Int("maxlen", 6, "exhaustive up to this length")
	nrand := fs.Int("random", 200, "number of random longer sequences")
	fs.Parse(args)
	res := c03SeqOut{MaxLen: *maxlen}
	for ctor := 0; ctor < 5; ctor++ {
		var packed []uint64
		c03Enumerate(*maxlen, func(ops []int) {
			packed = append(packed, c03Pack(c03RunSeq(ctor, ops)))
		})
		res.Sweep = append(res.Sweep, packed)
	}
	rng := rand.New(rand.NewSource(*seed))
	for i := 0; i < *nrand; i++ {
		ctor := rng.Intn(5)
		l := *maxlen + 1 + rng.Intn(30)
		ops := make([]int, l)
		// mostly reads first so that the decision falls at a random place
		pSettle := 0.05 + rng.Float64()*0.5
		for j := range ops {
			if rng.Float64() < pSettle {
				ops[j] = rng.Intn(2)
			} else {
				ops[j] = 2 + rng.Intn(2)
			}
		}
		res.Random = append(res.Random, c03SeqCase{Ctor: ctor, Ops: ops, Res: c03RunSeq(ctor, ops)})
	}
	res.Hung = c03HungCases
	return writeJSON(*out, res)
}

// ---- concurrent ----

type c03Stamp struct {
	Seq  int    `json:"seq"`
	Tid  int    `json:"tid"`
	Kind string `json:"kind"` // inv, locked, unlock, ret
	Op   int    `json:"op"`
	Res  int    `json:"res"` // only for ret
	Idx  int    `json:"idx"` // index of the call in the thread's program (inv/ret)
}
type c03ConcCase struct {
	Ctor     int        `json:"ctor"`
	Progs    [][]int    `json:"progs"`
	Stamps   []c03Stamp `json:"stamps"`
	Hung     bool       `json:"hung"`
	NoReads  bool       `json:"noreads"`
}

func cmdC03Conc(args []string) error {
	fs, out, seed := newFlags("c03conc")
	ncases := fs.Int("cases", 300, "number of concurrent cases")
	noZeroReads := fs.Bool("no-zero-reads", false, "no channel reads on zero-value messages (for -race builds: Acked() racing with Ack's closedchan substitution is a data race by construction)")
	fs.Parse(args)
	rng := rand.New(rand.NewSource(*seed))
	rt := hookrt.Install(*seed)
	defer hookrt.Uninstall()
	var cases []c03ConcCase
	nhung := 0
	for ci := 0; ci < *ncases && nhung < 3; ci++ {
		rt.Reset()
		rt.Perturb("message.ack.locked", 0.6)
		rt.Perturb("message.nack.locked", 0.6)
		rt.Perturb("message.ack.unlock", 0.3)
		rt.Perturb("message.nack.unlock", 0.3)
		rt.Perturb("c03.inv", 0.3)
		ctor := rng.Intn(5)
		nthreads := 2 + rng.Intn(15)
		if rng.Intn(3) == 0 {
			nthreads = 2 + rng.Intn(3)
		}
		progs := make([][]int, nthreads)
		for t := range progs {
			l := 1 + rng.Intn(4)
			progs[t] = make([]int, l)
			for j := range progs[t] {
				if rng.Intn(3) == 0 && !(ctor == 2 && *noZeroReads) {
					progs[t][j] = 2 + rng.Intn(2)
				} else {
					progs[t][j] = rng.Intn(2)
				}
			}
		}
		m := c03NewMsg(ctor)
		start := make(chan struct{})
		var wg sync.WaitGroup
		for t := range progs {
			wg.Add(1)
			go func(t int) {
				defer wg.Done()
				rt.Register(t)
				<-start
				for i, o := range progs[t] {
					rt.Stamp("c03.inv", fmt.Sprint(o), fmt.Sprint(i))
					r := c03Do(m, o)
					rt.Stamp("c03.ret", fmt.Sprint(o), fmt.Sprint(i), fmt.Sprint(r))
				}
			}(t)
		}
		close(start)
		done := make(chan struct{})
		go func() { wg.Wait(); close(done) }()
		hung := false
		select {
		case <-done:
		case <-time.After(5 * time.Second):
			hung = true
			nhung++
		}
		c := c03ConcCase{Ctor: ctor, Progs: progs, Hung: hung}
		for _, e := range rt.Log() {
			s := c03Stamp{Seq: e.Seq, Tid: e.Tid}
			switch e.Point {
			case "c03.inv":
				s.Kind = "inv"
				fmt.Sscan(e.Keys[0], &s.Op)
				fmt.Sscan(e.Keys[1], &s.Idx)
			case "c03.ret":
				s.Kind = "ret"
				fmt.Sscan(e.Keys[0], &s.Op)
				fmt.Sscan(e.Keys[1], &s.Idx)
				fmt.Sscan(e.Keys[2], &s.Res)
			case "message.ack.locked":
				s.Kind, s.Op = "locked", 0
			case "message.nack.locked":
				s.Kind, s.Op = "locked", 1
			case "message.ack.unlock":
				s.Kind, s.Op = "unlock", 0
			case "message.nack.unlock":
				s.Kind, s.Op = "unlock", 1
			default:
				continue
			}
			c.Stamps = append(c.Stamps, s)
		}
		cases = append(cases, c)
	}
	return writeJSON(*out, cases)
}

func init() {
	register("c03seq", cmdC03Seq)
	register("c03conc", cmdC03Conc)
}

// c03copy: copies taken WHILE other goroutines settle the source must be fresh messages: their
// first Ack/Nack returns (no call blocks), decides them, and closes exactly the matching channel.
func cmdC03Copy(args []string) error {
	fs, out, _ := newFlags("c03copy")
	n := fs.Int("n", 3000, "copies")
	fs.Parse(args)
	type result struct {
		Copies  int    `json:"copies"`
		Blocked int    `json:"blocked"` // first settle call on a copy did not return within the watchdog
		Wrong   int    `json:"wrong"`   // returned false / wrong channel state
		Detail  string `json:"detail,omitempty"`
		// distinct observed histories of a copy: "ack?1:0, first settle result (0/1), Acked() closed, Nacked() closed" -> how often
		Outcomes map[string]int `json:"outcomes"`
	}
	res := result{Outcomes: map[string]int{}}
	src := message.NewMessage("src", []byte("p"))
	stop := make(chan struct{})
	var wg sync.WaitGroup
	for g := 0; g < 2; g++ {
		wg.Add(1)
		go func(g int) {
			defer wg.Done()
			for {
				select {
				case <-stop:
					return
				default:
				}
				if g == 0 {
					src.Ack()
				} else {
					src.Nack()
				}
			}
		}(g)
	}
	for i := 0; i < *n && res.Blocked == 0; i++ {
		c := src.Copy()
		done := make(chan bool, 1)
		ack := i%2 == 0
		go func() {
			if ack {
				done <- c.Ack()
			} else {
				done <- c.Nack()
			}
		}()
		select {
		case ok := <-done:
			res.Copies++
			closed := func(ch <-chan struct{}) bool {
				select {
				case <-ch:
					return true
				default:
					return false
				}
			}
			b2i := func(b bool) int {
				if b {
					return 1
				}
				return 0
			}
			res.Outcomes[fmt.Sprintf("%d %d %d %d", b2i(ack), b2i(ok), b2i(closed(c.Acked())), b2i(closed(c.Nacked())))]++
			if !ok || closed(c.Acked()) != ack || closed(c.Nacked()) == ack {
				res.Wrong++
				res.Detail = fmt.Sprintf("copy %d: first settle (ack=%v) returned %v, acked closed=%v nacked closed=%v", i, ack, ok, closed(c.Acked()), closed(c.Nacked()))
			}
		case <-time.After(2 * time.Second):
			res.Blocked++
			res.Detail = fmt.Sprintf("copy %d taken while the source was being settled: its first %s() did not return within 2 s", i, map[bool]string{true: "Ack", false: "Nack"}[ack])
		}
	}
	close(stop)
	wg.Wait()
	return writeJSON(*out, res)
}

func init() { register("c03copy", cmdC03Copy) }

// c03life: channels obtained from a message stay what they were for ever, whatever happens to
// OTHER messages created later (no state is shared between messages): every (channel, expected
// closed?) pair ever observed is kept and re-read after the whole sequence.
func cmdC03Life(args []string) error {
	fs, out, seed := newFlags("c03life")
	n := fs.Int("n", 400, "messages")
	fs.Parse(args)
	rng := rand.New(rand.NewSource(*seed))
	type obs struct {
		ch     <-chan struct{}
		closed bool
		what   string
	}
	var all []obs
	isClosed := func(ch <-chan struct{}) bool {
		if ch == nil {
			return false
		}
		select {
		case <-ch:
			return true
		default:
			return false
		}
	}
	type result struct {
		Messages int      `json:"messages"`
		Checked  int      `json:"checked"`
		Wrong    []string `json:"wrong"`
	}
	res := result{Wrong: []string{}}
	for i := 0; i < *n; i++ {
		m := c03NewMsg([]int{0, 0, 1, 3}[rng.Intn(4)])
		before := rng.Intn(2) == 0
		var a, nk <-chan struct{}
		if before {
			a, nk = m.Acked(), m.Nacked()
		}
		ack := rng.Intn(2) == 0
		if ack {
			m.Ack()
		} else {
			m.Nack()
		}
		if !before {
			a, nk = m.Acked(), m.Nacked()
		}
		all = append(all, obs{a, ack, fmt.Sprintf("Acked() of message %d (%s, channels taken %s settling)", i, map[bool]string{true: "acked", false: "nacked"}[ack], map[bool]string{true: "before", false: "after"}[before])})
		all = append(all, obs{nk, !ack, fmt.Sprintf("Nacked() of message %d (%s, channels taken %s settling)", i, map[bool]string{true: "acked", false: "nacked"}[ack], map[bool]string{true: "before", false: "after"}[before])})
		res.Messages++
	}
	for _, o := range all {
		res.Checked++
		if isClosed(o.ch) != o.closed && len(res.Wrong) < 5 {
			res.Wrong = append(res.Wrong, fmt.Sprintf("%s: closed=%v, expected %v after %d later messages were created and settled", o.what, isClosed(o.ch), o.closed, *n))
		}
	}
	return writeJSON(*out, res)
}

func init() { register("c03life", cmdC03Life) }
