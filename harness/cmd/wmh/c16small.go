//go:build verif

package main

// C16, round "proofs 3": Messages.IDs, LogFields.Add / Copy, the identifier formats, and the
// protobuf wire bytes of the wrapper messages, against their Gallina models.

import (
	"encoding/hex"
	"fmt"
	"sort"

	"github.com/ThreeDotsLabs/watermill"
	"github.com/ThreeDotsLabs/watermill/message"
	"google.golang.org/protobuf/proto"
	"google.golang.org/protobuf/types/known/wrapperspb"
)

type smCase struct {
	Kind      string       `json:"kind"` // ids | add | copy | uuid | shortuuid | ulid
	Ms        []jMsg       `json:"ms,omitempty"`
	IDs       []string     `json:"ids,omitempty"`
	L         *[][2]string `json:"l"`
	New       *[][2]string `json:"new"`
	Got       [][2]string  `json:"got"`
	Unchanged bool         `json:"unchanged"` // writing to the result left the inputs as they were
	S         string       `json:"s,omitempty"`
}

func lfObs(l watermill.LogFields) *[][2]string {
	if l == nil {
		return nil
	}
	out := make([][2]string, 0, len(l))
	for k, v := range l {
		out = append(out, [2]string{hx(k), hx(v.(string))})
	}
	sort.Slice(out, func(i, j int) bool { return out[i][0] < out[j][0] })
	return &out
}

func (g *gen) logFields() watermill.LogFields {
	switch g.r.Intn(5) {
	case 0:
		return nil
	case 1:
		return watermill.LogFields{}
	}
	l := watermill.LogFields{}
	for i := 1 + g.r.Intn(4); i > 0; i-- {
		k := []string{"a", "b", "uuid", "topic", g.str(true)}[g.r.Intn(5)]
		l[k] = g.str(true)
	}
	return l
}

func sameLF(a *[][2]string, l watermill.LogFields) bool {
	b := lfObs(l)
	if (a == nil) != (b == nil) {
		return false
	}
	return a == nil || fmt.Sprint(*a) == fmt.Sprint(*b)
}

func (g *gen) smCases(n int) []smCase {
	var out []smCase
	for i := 0; i < n; i++ {
		switch g.r.Intn(3) {
		case 0:
			var ms message.Messages
			c := smCase{Kind: "ids", Ms: []jMsg{}, IDs: []string{}}
			for k := g.r.Intn(5); k > 0; k-- {
				m := g.msg(true, 16).lit()
				if len(ms) > 0 && g.r.Intn(4) == 0 {
					m = ms[g.r.Intn(len(ms))]
				}
				ms = append(ms, m)
				c.Ms = append(c.Ms, obsMsg(m))
			}
			for _, id := range ms.IDs() {
				c.IDs = append(c.IDs, hx(id))
			}
			out = append(out, c)
			g.count("small:Messages.IDs")
		case 1:
			l, nw := g.logFields(), g.logFields()
			c := smCase{Kind: "add", L: lfObs(l), New: lfObs(nw)}
			r := l.Add(nw)
			c.Got = *lfObs(r)
			r["\x00written-afterwards"] = "x"
			for k := range r {
				r[k] = "overwritten"
			}
			c.Unchanged = sameLF(c.L, l) && sameLF(c.New, nw)
			out = append(out, c)
			g.count("small:LogFields.Add")
		case 2:
			l := g.logFields()
			c := smCase{Kind: "copy", L: lfObs(l)}
			r := l.Copy()
			c.Got = *lfObs(r)
			r["\x00written-afterwards"] = "x"
			for k := range r {
				r[k] = "overwritten"
			}
			c.Unchanged = sameLF(c.L, l)
			out = append(out, c)
			g.count("small:LogFields.Copy")
		}
	}
	seen := map[string]bool{}
	for i := 0; i < 40; i++ {
		for _, kv := range [][2]string{{"uuid", watermill.NewUUID()}, {"shortuuid", watermill.NewShortUUID()}, {"ulid", watermill.NewULID()}} {
			if seen[kv[1]] {
				g.count("small:identifier-repeated(library!)")
			}
			seen[kv[1]] = true
			out = append(out, smCase{Kind: kv[0], S: hx(kv[1])})
		}
	}
	g.count("small:identifiers=120")
	return out
}

// ---------------------------------------------------------------- protobuf wire bytes of the wrapper messages

type pwCase struct {
	Kind     int    `json:"kind"` // 0 StringValue, 1 BytesValue, 2 Int64Value, 3 BoolValue
	V        string `json:"v"`    // hex bytes / decimal / "true" "false"
	EncOK    bool   `json:"enc_ok"`
	Enc      string `json:"enc"`
	In       string `json:"in"`
	MustFail bool   `json:"must_fail"`
	DecOK    bool   `json:"dec_ok"`
	Dec      string `json:"dec"`
}

func (g *gen) pwCases(n int) []pwCase {
	var out []pwCase
	one := func(kind int, v string, msg proto.Message, in []byte, mustFail bool) {
		c := pwCase{Kind: kind, V: v, MustFail: mustFail}
		if b, err := proto.Marshal(msg); err == nil {
			c.EncOK, c.Enc = true, hex.EncodeToString(b)
			if in == nil {
				in = b
			}
		}
		c.In = hex.EncodeToString(in)
		switch kind {
		case 0:
			t := &wrapperspb.StringValue{}
			if proto.Unmarshal(in, t) == nil {
				c.DecOK, c.Dec = true, hx(t.Value)
			}
		case 1:
			t := &wrapperspb.BytesValue{}
			if proto.Unmarshal(in, t) == nil {
				c.DecOK, c.Dec = true, hex.EncodeToString(t.Value)
			}
		case 2:
			t := &wrapperspb.Int64Value{}
			if proto.Unmarshal(in, t) == nil {
				c.DecOK, c.Dec = true, fmt.Sprint(t.Value)
			}
		case 3:
			t := &wrapperspb.BoolValue{}
			if proto.Unmarshal(in, t) == nil {
				c.DecOK, c.Dec = true, fmt.Sprint(t.Value)
			}
		}
		out = append(out, c)
		g.count(fmt.Sprintf("proto-wire:%s", []string{"StringValue", "BytesValue", "Int64Value", "BoolValue"}[kind]))
	}
	ints := []int64{0, 1, -1, 127, 128, 129, 16383, 16384, 1 << 31, 1<<63 - 1, -(1 << 63), -128, 300}
	for _, z := range ints {
		one(2, fmt.Sprint(z), wrapperspb.Int64(z), nil, false)
	}
	one(3, "true", wrapperspb.Bool(true), nil, false)
	one(3, "false", wrapperspb.Bool(false), nil, false)
	for i := 0; i < n; i++ {
		switch g.r.Intn(3) {
		case 0:
			s := g.str(true)
			if g.r.Intn(4) == 0 {
				for len(s) < 120+g.r.Intn(300) { // lengths that need a two-byte varint
					s += g.str(false)
				}
			}
			one(0, hx(s), wrapperspb.String(s), nil, false)
		case 1:
			b := make([]byte, []int{0, 1, 5, 127, 128, 129, 300, 20000}[g.r.Intn(8)])
			g.r.Read(b)
			one(1, hex.EncodeToString(b), wrapperspb.Bytes(b), nil, false)
		default:
			z := g.r.Int63() - g.r.Int63()
			if g.r.Intn(2) == 0 {
				z = int64(g.r.Intn(70000) - 35000)
			}
			one(2, fmt.Sprint(z), wrapperspb.Int64(z), nil, false)
		}
	}
	// inputs that must be refused
	one(0, "", wrapperspb.String(""), []byte{10, 5, 'a', 'b'}, true)    // truncated body
	one(1, "", wrapperspb.Bytes(nil), []byte{10, 2, 1}, true)           // truncated body
	one(0, "", wrapperspb.String(""), []byte{10, 1, 0xff}, true)        // invalid UTF-8 in a string field
	one(0, "", wrapperspb.String(""), []byte{10}, true)                 // no length
	one(2, "0", wrapperspb.Int64(0), []byte{8}, true)                   // no value
	one(2, "0", wrapperspb.Int64(0), []byte{8, 0x80}, true)             // unterminated varint
	one(1, "", wrapperspb.Bytes(nil), []byte{10, 0x80, 0x80}, true)     // unterminated length
	return out
}
