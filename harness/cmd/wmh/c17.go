//go:build verif

package main

import (
	"context"
	"encoding/base64"
	"encoding/json"
	"errors"
	"fmt"
	"math/rand"
	"sort"
	"strconv"
	"strings"
	"sync"
	"sync/atomic"
	"time"

	"github.com/ThreeDotsLabs/watermill"
	"github.com/ThreeDotsLabs/watermill/components/fanin"
	"github.com/ThreeDotsLabs/watermill/components/forwarder"
	"github.com/ThreeDotsLabs/watermill/components/requeuer"
	"github.com/ThreeDotsLabs/watermill/message"
	"github.com/ThreeDotsLabs/watermill/pubsub/gochannel"

	"wmverif/hookrt"
	"wmverif/script"
)

// C17 — relay components.  Every case is one consumed message going through a REAL Forwarder /
// FanIn / Requeuer / FanOut running on a real Router, with a scripted source subscriber and a
// scripted destination publisher (FanOut: its real internal GoChannel).

type c17Msg struct {
	U   int      `json:"u"`
	P   int      `json:"p"`
	M   [][2]int `json:"m"` // sorted by key string
	Nil bool     `json:"nil"`
}

type c17Env struct {
	T   int      `json:"t"`
	U   int      `json:"u"`
	P   int      `json:"p"`
	M   [][2]int `json:"m"`
	Nil bool     `json:"nil"`
}

type c17Orig struct {
	T int    `json:"t"`
	M c17Msg `json:"m"`
}

type c17Relay struct {
	ID      string `json:"id"`
	Comp    string `json:"comp"` // forwarder | fanin | requeuer
	Group   int    `json:"group"`
	AckBad  bool   `json:"ackbad"`
	Target  int    `json:"target"`
	Gen     int    `json:"gen"` // 0 const, 1 from metadata key, 2 always fails
	GenArg  int    `json:"genarg"`
	DelayMs int    `json:"delay_ms"`
	Src     int    `json:"src"`
	Msg     c17Msg `json:"msg"`
	CtxDone bool   `json:"ctxdone"`
	Pub     int    `json:"pub"` // destination behaviour for this message's call: 0 accept, 1 error, 2 panic
	Dec     *c17Env  `json:"dec"`
	Orig    *c17Orig `json:"orig"`
	Flight  int    `json:"flight"`
	NoCall  bool   `json:"nocall"` // the handler invocation cannot be observed (private router)
	Kind    string `json:"kind"`   // generator label (for the input distribution)
	RK      int    `json:"rk"`

	Trace [][]interface{} `json:"trace"`
	Final int             `json:"final"`

	mu      sync.Mutex
	msg     *message.Message
	srcName string
	emitAt  time.Time
	done    bool
	wantPub bool
	relayUUID string
}

func (c *c17Relay) rec(ev ...interface{}) {
	c.mu.Lock()
	c.Trace = append(c.Trace, ev)
	c.mu.Unlock()
}

type c17Fpub struct {
	Cfg   int      `json:"cfg"`
	Dflt  int      `json:"dflt"`
	T     int      `json:"t"`
	Ms    []c17Msg `json:"ms"`
	Pub   int      `json:"pub"`
	Calls []struct {
		Topic int       `json:"topic"`
		Envs  []*c17Env `json:"envs"`
	} `json:"calls"`
	OK bool `json:"ok"`
}

type c17Fanout struct {
	ID     string    `json:"id"`
	Src    int       `json:"src"`
	Msg    c17Msg    `json:"msg"`
	NSubs  int       `json:"nsubs"`
	Closed bool      `json:"closed"`
	Got    []c17Orig `json:"got"` // (topic of the subscription, copy)
	Seen   []int     `json:"seen"`
	Final  int       `json:"final"`
	Flight int       `json:"flight"`

	mu   sync.Mutex
	msg  *message.Message
	done bool
}

type c17FaninCfg struct {
	Sub     bool  `json:"sub"`
	Pub     bool  `json:"pub"`
	Sources []int `json:"sources"`
	Target  int   `json:"target"`
	Res     int   `json:"res"`
}

type c17RequeuerCfg struct {
	Sub, Topic, Pub, Gen bool
	Res                  int
}

type c17Out struct {
	Relay       []*c17Relay      `json:"relay"`
	Fpub        []*c17Fpub       `json:"fpub"`
	Fanout      []*c17Fanout     `json:"fanout"`
	Redeliv     []*c17Redeliv    `json:"redeliv"`
	FwdCfg      []c17FwdCfg      `json:"fwd_cfg"`
	Chain       []*c17Chain      `json:"chain"`
	FaninCfg    []c17FaninCfg    `json:"fanin_cfg"`
	RequeuerCfg []c17RequeuerCfg `json:"requeuer_cfg"`
	Atoi        [][2]int64       `json:"atoi"`  // (string id, value) where strconv.Atoi succeeds
	Canon       []int            `json:"canon"` // ids with Itoa(Atoi(s)) == s
	San         [][2]int         `json:"san"`   // (id, id of the string after a JSON round trip) where they differ
	Tab         []string         `json:"tab"`   // %q of every interned string
	Stray       []string         `json:"stray"` // destination calls that belong to no consumed message
	Notes       []string         `json:"notes"`
}

type c17Key struct{}

type c17Env0 struct { // the documented wire format of components/forwarder/envelope.go
	DestinationTopic string            `json:"destination_topic"`
	UUID             string            `json:"uuid"`
	Payload          []byte            `json:"payload"`
	Metadata         map[string]string `json:"metadata"`
}

type c17State struct {
	rng   *rand.Rand
	in    *script.Interner
	rt    *hookrt.Runtime
	out   *c17Out
	n     int
	strayMu sync.Mutex
	barrierOff int32
}

func (s *c17State) metaList(md message.Metadata) [][2]int {
	keys := make([]string, 0, len(md))
	for k := range md {
		keys = append(keys, k)
	}
	sort.Strings(keys)
	l := make([][2]int, 0, len(keys))
	for _, k := range keys {
		l = append(l, [2]int{s.in.ID(k), s.in.ID(md[k])})
	}
	return l
}

func (s *c17State) snap(m *message.Message) c17Msg {
	return c17Msg{U: s.in.ID(m.UUID), P: s.in.ID(string(m.Payload)), M: s.metaList(m.Metadata), Nil: m.Metadata == nil}
}

// decode: the json.Unmarshal oracle on the documented envelope format
func (s *c17State) decode(p []byte) *c17Env {
	var e c17Env0
	if err := json.Unmarshal(p, &e); err != nil {
		return nil
	}
	return &c17Env{T: s.in.ID(e.DestinationTopic), U: s.in.ID(e.UUID), P: s.in.ID(string(e.Payload)), M: s.metaList(e.Metadata), Nil: e.Metadata == nil}
}

// ---------------------------------------------------------------- generators

var c17RetriesValues = []string{"0", "1", "2", "41", "-1", "-5", "+7", "007", " 5", "5 ", "abc", "", "1e3", "0x10", "1_000", "٣",
	"9223372036854775806", "9223372036854775807", "-9223372036854775808", "-9223372036854775807", "9223372036854775808",
	"99999999999999999999", "-99999999999999999999", "4294967295", "2147483647", "-0", "+", "-", "1.0", "１２"}

var c17Topics = []string{"orders", "billing", "a", "topic with spaces", "τόπος", "t/with/slashes", "forwarder_topic", "dest.α", "0", `q"uote`}

func (s *c17State) pick(l []string) string { return l[s.rng.Intn(len(l))] }

func (s *c17State) randString(max int) string {
	n := s.rng.Intn(max + 1)
	alphabet := []rune("abcXYZ019 _-./:\"\\{}[],\u00e9\u4e16\U0001F600\t\n")
	b := make([]rune, n)
	for i := range b {
		b[i] = alphabet[s.rng.Intn(len(alphabet))]
	}
	return string(b)
}

func (s *c17State) nonUTF8() string {
	return s.pick([]string{"\xff", "v\xfe\xff", "\xc3\x28", "a\x80b", "\xe2\x82", "ok\xf0\x9f"})
}

// metadata: nil / empty / few / many keys / keys of the requeuer and of the generator
func (s *c17State) genMeta(allowNil bool, destKey string, bad bool) (message.Metadata, string) {
	r := s.rng.Intn(100)
	md := message.Metadata{}
	label := "few"
	switch {
	case r < 6 && allowNil:
		return nil, "nil"
	case r < 14:
		label = "empty"
	case r < 22:
		label = "many"
		for i := 0; i < 30+s.rng.Intn(20); i++ {
			md[fmt.Sprintf("k%03d%s", i, s.randString(3))] = s.randString(8)
		}
	default:
		for i := 0; i < 1+s.rng.Intn(5); i++ {
			md[s.pick([]string{"a", "b", "key", "Key", "trace_id", "content-type", "", "ключ", "k k", "_watermill_requeuer_retrie", "_watermill_requeuer_retries_"})+s.randString(2)] = s.randString(10)
		}
		if s.rng.Intn(5) == 0 {
			md[""] = s.randString(3)
		}
		if s.rng.Intn(5) == 0 {
			md["emptyval"] = ""
		}
	}
	if s.rng.Intn(100) < 60 {
		md[requeuer.RetriesKey] = s.pick(c17RetriesValues)
		label += "+retries"
	}
	if destKey != "" && s.rng.Intn(100) < 80 {
		md[destKey] = s.pick(c17Topics)
	}
	if bad && s.rng.Intn(2) == 0 {
		md["bin"+s.randString(1)] = s.nonUTF8()
		label += "+nonutf8"
	}
	if bad && s.rng.Intn(3) == 0 {
		md[s.nonUTF8()] = "x"
	}
	return md, label
}

func (s *c17State) genPayload() []byte {
	switch s.rng.Intn(8) {
	case 0:
		return nil
	case 1:
		return []byte{}
	case 2:
		b := make([]byte, 63+s.rng.Intn(3))
		s.rng.Read(b)
		return b
	case 3:
		return []byte(`{"destination_topic":"evil","uuid":"x","payload":"","metadata":{}}`)
	default:
		b := make([]byte, s.rng.Intn(24))
		s.rng.Read(b)
		return b
	}
}

func (s *c17State) newID() string {
	s.n++
	return fmt.Sprintf("c17-%d%s", s.n, s.pick([]string{"", "", "", " ", "/é", `"q"`, "-世界", "\\n"}))
}

// an arbitrary message to be relayed (FanIn, Requeuer, FanOut, or wrapped by forwarder.Publisher)
func (s *c17State) genMessage(uuid string, allowNil bool, destKey string, bad bool) (*message.Message, string) {
	m := message.NewMessage(uuid, s.genPayload())
	md, label := s.genMeta(allowNil, destKey, bad)
	m.Metadata = md
	return m, label
}

func c17JSONString(x string) string { b, _ := json.Marshal(x); return string(b) }

// hand-made envelope payloads: valid in unusual ways, and malformed ones
func (s *c17State) handEnvelope() ([]byte, string) {
	inner, _ := s.genMessage(s.pick([]string{"in-1", "", "dup", "in-" + s.randString(4)}), false, "", false)
	topic := s.pick(c17Topics)
	mdParts := []string{}
	for _, kv := range s.metaList(inner.Metadata) {
		mdParts = append(mdParts, c17JSONString(s.in.Tab[kv[0]])+":"+c17JSONString(s.in.Tab[kv[1]]))
	}
	fTopic := `"destination_topic":` + c17JSONString(topic)
	fUUID := `"uuid":` + c17JSONString(inner.UUID)
	fPayload := `"payload":"` + base64.StdEncoding.EncodeToString(inner.Payload) + `"`
	fMeta := `"metadata":{` + strings.Join(mdParts, ",") + `}`
	valid := "{" + strings.Join([]string{fTopic, fUUID, fPayload, fMeta}, ",") + "}"
	switch s.rng.Intn(26) {
	case 0:
		return []byte(valid), "valid/plain"
	case 1:
		return []byte("{" + strings.Join([]string{fMeta, fPayload, fUUID, fTopic}, " ,\n ") + "}"), "valid/permuted"
	case 2:
		return []byte("{" + fTopic + "}"), "valid/only-topic"
	case 3:
		return []byte("{" + fTopic + `,"uuid":null,"payload":null,"metadata":null}`), "valid/nulls"
	case 4:
		return []byte("{" + strings.Join([]string{fTopic, fUUID, fPayload, fMeta, `"extra":{"a":[1,2,{"b":null}]}`}, ",") + "}"), "valid/unknown-field"
	case 5:
		return []byte(`{"Destination_Topic":` + c17JSONString(topic) + `,"UUID":"U","PAYLOAD":"","Metadata":{"A":"b"}}`), "valid/field-case"
	case 6:
		return []byte("{" + `"destination_topic":"first",` + fUUID + "," + fTopic + "}"), "valid/duplicate-field"
	case 7:
		return []byte("{" + fTopic + `,"metadata":{"k":"v1","k":"v2","\u006b2":"\u0041"}}`), "valid/duplicate-meta-key"
	case 8:
		return []byte("  \n" + valid + "\n\t "), "valid/whitespace"
	case 9:
		cut := 1 + s.rng.Intn(len(valid)-1)
		return []byte(valid[:cut]), "malformed/truncated"
	case 10:
		return []byte(valid[:len(valid)-1]), "malformed/truncated-last-byte"
	case 11:
		return []byte("{" + strings.Join([]string{fTopic, `"uuid":5`, fPayload, fMeta}, ",") + "}"), "malformed/uuid-number"
	case 12:
		return []byte("{" + strings.Join([]string{fTopic, fUUID, `"payload":"!!not base64"`, fMeta}, ",") + "}"), "malformed/payload-not-base64"
	case 13:
		return []byte("{" + strings.Join([]string{fTopic, fUUID, fPayload, `"metadata":["a","b"]`}, ",") + "}"), "malformed/metadata-array"
	case 14:
		return []byte("{" + strings.Join([]string{fTopic, fUUID, fPayload, `"metadata":{"a":1}`}, ",") + "}"), "malformed/metadata-value-number"
	case 15:
		return []byte("{" + strings.Join([]string{`"destination_topic":17`, fUUID, fPayload, fMeta}, ",") + "}"), "malformed/topic-number"
	case 16:
		return []byte("{" + strings.Join([]string{fUUID, fPayload, fMeta}, ",") + "}"), "invalid/missing-topic"
	case 17:
		return []byte("{" + strings.Join([]string{`"destination_topic":""`, fUUID, fPayload, fMeta}, ",") + "}"), "invalid/empty-topic"
	case 18:
		return []byte("{" + strings.Join([]string{`"destination_topic":null`, fUUID, fPayload, fMeta}, ",") + "}"), "invalid/null-topic"
	case 19:
		return []byte(s.pick([]string{"null", "[]", "{}", `""`, "0", "true", "[" + valid + "]"})), "invalid/other-json"
	case 20:
		return s.pick2([][]byte{nil, {}, []byte(" "), []byte("\x00"), []byte("not json at all"), {0xff, 0xfe}}), "malformed/not-json"
	case 21:
		return []byte(valid + s.pick([]string{"x", "{}", ",", "}"})), "malformed/trailing-garbage"
	case 22:
		return []byte("{" + strings.Join([]string{fTopic, fUUID, `"payload":[1,2]`, fMeta}, ",") + "}"), "malformed/payload-array"
	case 23:
		return []byte("{" + strings.Join([]string{`"topic":` + c17JSONString(topic), fUUID, fPayload, fMeta}, ",") + "}"), "invalid/wrong-topic-field-name"
	case 24:
		return []byte(strings.Replace(valid, `"destination_topic"`, `destination_topic`, 1)), "malformed/unquoted-key"
	default:
		return []byte("{" + strings.Join([]string{fTopic, `"uuid":{"x":"y"}`, fPayload, fMeta}, ",") + "}"), "malformed/uuid-object"
	}
}

func (s *c17State) pick2(l [][]byte) []byte { return l[s.rng.Intn(len(l))] }

// ---------------------------------------------------------------- a group = one component instance

type c17Group struct {
	s       *c17State
	cases   map[string]*c17Relay // by consumed UUID
	mu      sync.Mutex
	inside  int
	want    int
	release chan struct{}
	flying  map[*c17Relay]bool
	delay   time.Duration
}

func (g *c17Group) enter() {
	if atomic.LoadInt32(&g.s.barrierOff) != 0 {
		return
	}
	g.mu.Lock()
	g.inside++
	if g.inside >= g.want {
		select {
		case <-g.release:
		default:
			close(g.release)
		}
	}
	rel := g.release
	g.mu.Unlock()
	select {
	case <-rel:
	case <-time.After(1500 * time.Millisecond):
		atomic.StoreInt32(&g.s.barrierOff, 1) // somebody never arrived: stop waiting from now on
	}
}

func (g *c17Group) caseOf(m *message.Message) *c17Relay {
	if m != nil {
		if c, ok := m.Context().Value(c17Key{}).(*c17Relay); ok {
			return c
		}
	}
	g.mu.Lock()
	defer g.mu.Unlock()
	for c := range g.flying {
		if c.msg == m {
			return c
		}
	}
	if len(g.flying) == 1 {
		for c := range g.flying {
			return c
		}
	}
	// a copy without the context: the one message in flight that is expected to be relayed under this UUID
	var found *c17Relay
	for c := range g.flying {
		if m != nil && c.wantPub && c.relayUUID == m.UUID {
			if found != nil {
				return nil
			}
			found = c
		}
	}
	return found
}

func (g *c17Group) callMw(h message.HandlerFunc) message.HandlerFunc {
	return func(msg *message.Message) ([]*message.Message, error) {
		if c := g.caseOf(msg); c != nil {
			c.rec("call")
		}
		return h(msg)
	}
}

func (g *c17Group) onPublish(call int, topic string, msgs []*message.Message) error {
	var c *c17Relay
	if len(msgs) > 0 {
		c = g.caseOf(msgs[0])
	}
	if c == nil {
		g.s.strayMu.Lock()
		g.s.out.Stray = append(g.s.out.Stray, fmt.Sprintf("Publish(%q, %d messages) belongs to no consumed message", topic, len(msgs)))
		g.s.strayMu.Unlock()
		return nil
	}
	if g.delay > 0 {
		c.rec("delay", time.Since(c.emitAt) >= g.delay)
	}
	snaps := make([]c17Msg, 0, len(msgs))
	for _, m := range msgs {
		snaps = append(snaps, g.s.snap(m))
	}
	c.rec("pub", g.s.in.ID(topic), snaps, script.Settlement(c.msg))
	g.enter()
	switch c.Pub {
	case 0:
		c.rec("pubret", true)
		return nil
	case 1:
		c.rec("pubret", false)
		return errors.New("scripted destination error")
	default:
		c.rec("pubpanic")
		panic("scripted destination panic")
	}
}

func (g *c17Group) installFilter() {
	g.s.rt.Reset()
	// widen the window between "destination computed / counter set" and the Publish call, so that state
	// shared between messages in flight would show
	g.s.rt.Perturb("forwarder.forward.before_publish", 0.7)
	g.s.rt.Perturb("requeuer.handler.before_publish", 0.7)
	g.s.rt.MaxNap(300 * time.Microsecond)
	g.s.rt.Filter(func(point string, keys []string) bool {
		if point == "forwarder.forward.before_publish" || point == "requeuer.handler.before_publish" {
			return true
		}
		ack := point == "message.ack.locked"
		if (!ack && point != "message.nack.locked") || len(keys) == 0 {
			return false
		}
		g.mu.Lock()
		c := g.cases[keys[0]]
		g.mu.Unlock()
		if c != nil {
			c.mu.Lock()
			d := c.done
			c.mu.Unlock()
			if !d {
				c.rec("settle", ack)
			}
		}
		return false
	})
}

// feed the cases in batches of 1, 2, 4, 8, 3 messages in flight (sequential when seq)
func (g *c17Group) feed(sub *script.Subscriber, cases []*c17Relay, seq bool) {
	sizes := []int{1, 2, 4, 8, 3}
	i, b := 0, 0
	for i < len(cases) {
		n := sizes[b%len(sizes)]
		b++
		if seq {
			n = 1
		}
		if i+n > len(cases) {
			n = len(cases) - i
		}
		batch := cases[i : i+n]
		i += n
		want := 0
		for _, c := range batch {
			if c.wantPub {
				want++
			}
		}
		g.mu.Lock()
		g.inside, g.want, g.release = 0, want, make(chan struct{})
		for _, c := range batch {
			g.flying[c] = true
		}
		g.mu.Unlock()
		var wg sync.WaitGroup
		for _, c := range batch {
			c.Flight = n
			wg.Add(1)
			go func(c *c17Relay) {
				defer wg.Done()
				c.emitAt = time.Now()
				if !sub.Emit(c.srcName, c.msg, 10*time.Second) {
					c.rec("not-taken")
					return
				}
				c.Final = script.WaitSettled(c.msg, 10*time.Second)
				c.mu.Lock()
				c.done = true
				c.mu.Unlock()
			}(c)
		}
		wg.Wait()
		g.mu.Lock()
		for _, c := range batch {
			delete(g.flying, c)
		}
		g.mu.Unlock()
	}
}

func (s *c17State) newGroup(cases []*c17Relay, delay time.Duration) *c17Group {
	g := &c17Group{s: s, cases: map[string]*c17Relay{}, flying: map[*c17Relay]bool{}, delay: delay, release: make(chan struct{})}
	for _, c := range cases {
		g.cases[c.msg.UUID] = c
	}
	g.installFilter()
	return g
}

// prepare: snapshot the consumed message and attach the case to its context
func (s *c17State) prepare(c *c17Relay, m *message.Message, src string, cancelled bool) {
	c.msg = m
	c.relayUUID = m.UUID
	c.srcName = src
	c.Src = s.in.ID(src)
	c.Msg = s.snap(m)
	c.RK = s.in.ID(requeuer.RetriesKey)
	ctx := context.WithValue(context.Background(), c17Key{}, c)
	if cancelled {
		var cancel context.CancelFunc
		ctx, cancel = context.WithCancel(ctx)
		cancel()
	}
	m.SetContext(ctx)
}

func c17WaitRun(done chan error) error {
	select {
	case <-done:
		return nil
	case <-time.After(8 * time.Second):
		return errors.New("Run did not return")
	}
}

// ---------------------------------------------------------------- forwarder

const c17DefaultForwarderTopic = "forwarder_topic" // documented default of Config / PublisherConfig

func (s *c17State) pubBeh() int {
	r := s.rng.Intn(10)
	if r < 6 {
		return 0
	}
	if r < 9 {
		return 1
	}
	return 2
}

// publish through the REAL forwarder.Publisher; returns the enveloping messages it produced
func (s *c17State) throughPublisher(cfgTopic, topic string, msgs []*message.Message, beh int) []*message.Message {
	var captured []*message.Message
	fc := &c17Fpub{Cfg: s.in.ID(cfgTopic), Dflt: s.in.ID(c17DefaultForwarderTopic), T: s.in.ID(topic), Pub: beh}
	for _, m := range msgs {
		fc.Ms = append(fc.Ms, s.snap(m))
	}
	inner := &script.Publisher{OnPublish: func(call int, t string, ms []*message.Message) error {
		call1 := struct {
			Topic int       `json:"topic"`
			Envs  []*c17Env `json:"envs"`
		}{Topic: s.in.ID(t)}
		for _, m := range ms {
			call1.Envs = append(call1.Envs, s.decode(m.Payload))
		}
		fc.Calls = append(fc.Calls, call1)
		switch beh {
		case 0:
			captured = append(captured, ms...)
			return nil
		case 1:
			return errors.New("scripted error of the wrapped publisher")
		default:
			panic("scripted panic of the wrapped publisher")
		}
	}}
	p := forwarder.NewPublisher(inner, forwarder.PublisherConfig{ForwarderTopic: cfgTopic})
	func() {
		defer func() {
			if recover() != nil {
				fc.OK = false
			}
		}()
		fc.OK = p.Publish(topic, msgs...) == nil
	}()
	s.out.Fpub = append(s.out.Fpub, fc)
	return captured
}

func (s *c17State) forwarderGroup(group int, ackBad bool, cfgTopic string, ownRouter bool, n int, seq bool, witness bool) error {
	eff := cfgTopic
	if eff == "" {
		eff = c17DefaultForwarderTopic
	}
	var cases []*c17Relay
	add := func(m *message.Message, kind string, orig *c17Orig) {
		c := &c17Relay{ID: fmt.Sprintf("fw%d-%d", group, len(cases)), Comp: "forwarder", Group: group, AckBad: ackBad, Kind: kind, Orig: orig, Pub: s.pubBeh()}
		s.prepare(c, m, eff, false)
		c.Dec = s.decode(m.Payload)
		c.wantPub = c.Dec != nil && s.in.Tab[c.Dec.T] != ""
		if c.Dec != nil {
			c.relayUUID = s.in.Tab[c.Dec.U]
		}
		cases = append(cases, c)
	}
	if witness {
		// fixed witness of the known finding: strings that are not valid UTF-8 do not survive the JSON envelope
		m := message.NewMessage("witness-nonutf8", []byte("payload \xff survives (base64)"))
		m.Metadata.Set("bin", "v\xff")
		m.Metadata.Set("k\xfe", "one")
		m.Metadata.Set("k\xfd", "two")
		for _, env := range s.throughPublisher(cfgTopic, "orders", []*message.Message{m}, 0) {
			add(env, "e2e/nonutf8-witness", &c17Orig{T: s.in.ID("orders"), M: s.snap(m)})
		}
	}
	for len(cases) < n {
		switch r := s.rng.Intn(100); {
		case r < 40:
			// end to end: REAL forwarder.Publisher -> envelope -> REAL Forwarder
			k := 1
			if s.rng.Intn(4) == 0 {
				k = 2 + s.rng.Intn(3)
			}
			topic := s.pick(c17Topics)
			if s.rng.Intn(12) == 0 {
				topic = ""
			}
			bad := s.rng.Intn(25) == 0
			var ms []*message.Message
			for j := 0; j < k; j++ {
				m, _ := s.genMessage(s.pick([]string{"o-" + s.randString(5), "", "dup"}), true, "", bad)
				ms = append(ms, m)
			}
			if s.rng.Intn(15) == 0 {
				ms = nil
			}
			beh := 0
			if s.rng.Intn(6) == 0 {
				beh = 1 + s.rng.Intn(2)
			}
			envs := s.throughPublisher(s.pick([]string{cfgTopic, cfgTopic, "", "other_forwarder_topic"}), topic, ms, beh)
			for j, env := range envs {
				kind := "e2e/valid"
				if bad {
					kind = "e2e/nonutf8"
				}
				if j < len(ms) {
					add(env, kind, &c17Orig{T: s.in.ID(topic), M: s.snap(ms[j])})
				} else {
					add(env, "e2e/extra-envelope", nil)
				}
			}
		default:
			p, kind := s.handEnvelope()
			m := message.NewMessage(s.newID(), p)
			if s.rng.Intn(3) == 0 {
				m.Metadata.Set("outer", "metadata of the envelope message is not forwarded")
			}
			add(m, kind, nil)
		}
	}
	// consumed UUIDs must be unique in a group (the settle observation is keyed by UUID)
	seen := map[string]bool{}
	for _, c := range cases {
		for seen[c.msg.UUID] {
			c.msg.UUID += "'"
			c.Msg = s.snap(c.msg)
		}
		seen[c.msg.UUID] = true
	}
	g := s.newGroup(cases, 0)
	sub := script.NewSubscriber(true)
	pub := &script.Publisher{OnPublish: g.onPublish}
	cfg := forwarder.Config{ForwarderTopic: cfgTopic, AckWhenCannotUnwrap: ackBad, CloseTimeout: 5 * time.Second,
		Middlewares: []message.HandlerMiddleware{g.callMw}}
	if !ownRouter {
		r, err := message.NewRouter(message.RouterConfig{CloseTimeout: 5 * time.Second}, watermill.NopLogger{})
		if err != nil {
			return err
		}
		cfg.Router = r
	}
	f, err := forwarder.NewForwarder(sub, pub, watermill.NopLogger{}, cfg)
	if err != nil {
		return err
	}
	done := make(chan error, 1)
	go func() { done <- f.Run(context.Background()) }()
	select {
	case <-f.Running():
	case <-time.After(5 * time.Second):
		return errors.New("forwarder did not start")
	}
	g.feed(sub, cases, seq)
	if err := f.Close(); err != nil {
		return fmt.Errorf("forwarder close: %w", err)
	}
	if err := c17WaitRun(done); err != nil {
		return err
	}
	s.out.Relay = append(s.out.Relay, cases...)
	return nil
}

// ---------------------------------------------------------------- fan-in

func (s *c17State) faninGroup(group int, sources []string, target string, n int, seq bool, onehot int) error {
	var cases []*c17Relay
	for i := 0; i < n; i++ {
		m, label := s.genMessage(s.newID(), true, "", false)
		c := &c17Relay{ID: fmt.Sprintf("fi%d-%d", group, i), Comp: "fanin", Group: group, Target: s.in.ID(target), Kind: "fanin/" + label, Pub: s.pubBeh(), NoCall: true, wantPub: true}
		if onehot >= 0 { // the destination fails exactly at call index [onehot]
			c.Pub = 0
			if i == onehot {
				c.Pub = 1 + s.rng.Intn(2)
			}
		}
		s.prepare(c, m, sources[s.rng.Intn(len(sources))], false)
		cases = append(cases, c)
	}
	g := s.newGroup(cases, 0)
	sub := script.NewSubscriber(true)
	pub := &script.Publisher{OnPublish: g.onPublish}
	f, err := fanin.NewFanIn(sub, pub, fanin.Config{SourceTopics: sources, TargetTopic: target, CloseTimeout: 5 * time.Second}, nil)
	if err != nil {
		return err
	}
	done := make(chan error, 1)
	go func() { done <- f.Run(context.Background()) }()
	select {
	case <-f.Running():
	case <-time.After(5 * time.Second):
		return errors.New("fan-in did not start")
	}
	g.feed(sub, cases, seq)
	if err := f.Close(); err != nil {
		return fmt.Errorf("fan-in close: %w", err)
	}
	if err := c17WaitRun(done); err != nil {
		return err
	}
	s.out.Relay = append(s.out.Relay, cases...)
	return nil
}

func (s *c17State) faninConfigs() {
	try := func(hasSub, hasPub bool, sources []string, target string) {
		var sub message.Subscriber
		var pub message.Publisher
		if hasSub {
			sub = script.NewSubscriber(true)
		}
		if hasPub {
			pub = &script.Publisher{}
		}
		c := c17FaninCfg{Sub: hasSub, Pub: hasPub, Target: s.in.ID(target)}
		for _, t := range sources {
			c.Sources = append(c.Sources, s.in.ID(t))
		}
		func() {
			defer func() {
				if recover() != nil {
					c.Res = 2
				}
			}()
			if _, err := fanin.NewFanIn(sub, pub, fanin.Config{SourceTopics: sources, TargetTopic: target}, nil); err != nil {
				c.Res = 1
			}
		}()
		s.out.FaninCfg = append(s.out.FaninCfg, c)
	}
	pool := []string{"a", "b", "c", "", "t"}
	try(false, true, []string{"a"}, "t")
	try(true, false, []string{"a"}, "t")
	try(true, true, nil, "t")
	try(true, true, []string{}, "t")
	try(true, true, []string{"a", "a"}, "t")
	try(true, true, []string{"a", "b", "a"}, "t")
	for i := 0; i < 60; i++ {
		var src []string
		for j := s.rng.Intn(4); j >= 0; j-- {
			src = append(src, s.pick(pool))
		}
		try(true, true, src, s.pick(pool))
	}
}

// ---------------------------------------------------------------- requeuer

func (s *c17State) requeuerGroup(group int, gen int, genArg string, delay time.Duration, ownRouter bool, n int, seq bool, onehot int) error {
	var genFn func(requeuer.GeneratePublishTopicParams) (string, error)
	destKey := ""
	switch gen {
	case 0:
		genFn = func(requeuer.GeneratePublishTopicParams) (string, error) { return genArg, nil }
	case 1:
		destKey = genArg
		genFn = func(p requeuer.GeneratePublishTopicParams) (string, error) {
			t := p.Message.Metadata.Get(genArg)
			if t == "" {
				return "", errors.New("no destination in the metadata")
			}
			return t, nil
		}
	default:
		genFn = func(requeuer.GeneratePublishTopicParams) (string, error) { return "", errors.New("scripted topic error") }
	}
	if destKey == requeuer.RetriesKey {
		destKey = "" // the counter itself names the destination: values come from the retries pool
	}
	var cases []*c17Relay
	for i := 0; i < n; i++ {
		m, label := s.genMessage(s.newID(), true, destKey, false)
		c := &c17Relay{ID: fmt.Sprintf("rq%d-%d", group, i), Comp: "requeuer", Group: group, Gen: gen, GenArg: s.in.ID(genArg), DelayMs: int(delay / time.Millisecond),
			Kind: "requeuer/" + label, Pub: s.pubBeh(), NoCall: ownRouter}
		if onehot >= 0 {
			c.Pub = 0
			if i == onehot {
				c.Pub = 1 + s.rng.Intn(2)
			}
		}
		cancelled := delay > 0 && s.rng.Intn(4) == 0
		c.CtxDone = cancelled
		s.prepare(c, m, "requeue_in", cancelled)
		topic, err := genFn(requeuer.GeneratePublishTopicParams{Message: m})
		_ = topic
		c.wantPub = err == nil && m.Metadata != nil && !cancelled
		cases = append(cases, c)
	}
	g := s.newGroup(cases, delay)
	sub := script.NewSubscriber(true)
	pub := &script.Publisher{OnPublish: g.onPublish}
	cfg := requeuer.Config{Subscriber: sub, SubscribeTopic: "requeue_in", Publisher: pub, GeneratePublishTopic: genFn, Delay: delay}
	var router *message.Router
	if !ownRouter {
		var err error
		router, err = message.NewRouter(message.RouterConfig{CloseTimeout: 5 * time.Second}, watermill.NopLogger{})
		if err != nil {
			return err
		}
		router.AddMiddleware(g.callMw)
		cfg.Router = router
	}
	r, err := requeuer.NewRequeuer(cfg, watermill.NopLogger{})
	if err != nil {
		return err
	}
	ctx, cancel := context.WithCancel(context.Background())
	defer cancel()
	done := make(chan error, 1)
	go func() { done <- r.Run(ctx) }()
	if router != nil {
		select {
		case <-router.Running():
		case <-time.After(5 * time.Second):
			return errors.New("requeuer did not start")
		}
	} else {
		// no Running() on a Requeuer with its own router: wait for the subscription
		deadline := time.Now().Add(5 * time.Second)
		for {
			if sub.HasSubscription("requeue_in") || time.Now().After(deadline) {
				break
			}
			time.Sleep(time.Millisecond)
		}
	}
	g.feed(sub, cases, seq)
	if router != nil {
		if err := router.Close(); err != nil {
			return fmt.Errorf("requeuer router close: %w", err)
		}
	} else {
		cancel()
	}
	if err := c17WaitRun(done); err != nil {
		return err
	}
	s.out.Relay = append(s.out.Relay, cases...)
	return nil
}

func (s *c17State) requeuerConfigs() {
	for i := 0; i < 16; i++ {
		c := c17RequeuerCfg{Sub: i&1 != 0, Topic: i&2 != 0, Pub: i&4 != 0, Gen: i&8 != 0}
		cfg := requeuer.Config{}
		if c.Sub {
			cfg.Subscriber = script.NewSubscriber(true)
		}
		if c.Topic {
			cfg.SubscribeTopic = "t"
		}
		if c.Pub {
			cfg.Publisher = &script.Publisher{}
		}
		if c.Gen {
			cfg.GeneratePublishTopic = func(requeuer.GeneratePublishTopicParams) (string, error) { return "x", nil }
		}
		func() {
			defer func() {
				if recover() != nil {
					c.Res = 2
				}
			}()
			if _, err := requeuer.NewRequeuer(cfg, watermill.NopLogger{}); err != nil {
				c.Res = 1
			}
		}()
		s.out.RequeuerCfg = append(s.out.RequeuerCfg, c)
	}
}

// ---------------------------------------------------------------- fan-out

func (s *c17State) fanoutGroup(group int, subsPerTopic map[string]int, closed bool, n int, seq bool) error {
	topics := make([]string, 0, len(subsPerTopic))
	for t := range subsPerTopic {
		topics = append(topics, t)
	}
	sort.Strings(topics)
	var cases []*c17Fanout
	byUUID := map[string]*c17Fanout{}
	for i := 0; i < n; i++ {
		m, _ := s.genMessage(s.newID(), true, "", false)
		t := topics[s.rng.Intn(len(topics))]
		c := &c17Fanout{ID: fmt.Sprintf("fo%d-%d", group, i), Src: s.in.ID(t), Msg: s.snap(m), NSubs: subsPerTopic[t], Closed: closed, msg: m, Got: []c17Orig{}, Seen: []int{}}
		cases = append(cases, c)
		byUUID[m.UUID] = c
	}
	var mu sync.Mutex
	s.rt.Reset()
	s.rt.Filter(func(point string, keys []string) bool {
		switch point {
		case "message.ack.locked", "message.nack.locked":
			// observed through the final settlement only (the copies carry the same UUID)
		case "gochannel.publish.snapshot":
			if len(keys) >= 2 {
				mu.Lock()
				c := byUUID[keys[1]]
				mu.Unlock()
				if c != nil {
					st := script.Settlement(c.msg)
					c.mu.Lock()
					c.Seen = append(c.Seen, st)
					c.mu.Unlock()
				}
			}
		}
		return false
	})
	src := script.NewSubscriber(true)
	fo, err := gochannel.NewFanOut(src, watermill.NopLogger{})
	if err != nil {
		return err
	}
	for _, t := range topics {
		fo.AddSubscription(t)
		fo.AddSubscription(t) // idempotent
	}
	ctx, cancel := context.WithCancel(context.Background())
	defer cancel()
	done := make(chan error, 1)
	go func() { done <- fo.Run(ctx) }()
	select {
	case <-fo.Running():
	case <-time.After(5 * time.Second):
		return errors.New("fan-out did not start")
	}
	var subWg sync.WaitGroup
	for _, t := range topics {
		for k := 0; k < subsPerTopic[t]; k++ {
			ch, err := fo.Subscribe(ctx, t)
			if err != nil {
				return err
			}
			subWg.Add(1)
			go func(t string, ch <-chan *message.Message) {
				defer subWg.Done()
				for m := range ch {
					mu.Lock()
					c := byUUID[m.UUID]
					mu.Unlock()
					if c == nil {
						s.strayMu.Lock()
						s.out.Stray = append(s.out.Stray, fmt.Sprintf("fan-out subscriber of %q received a message nobody sent (uuid %q)", t, m.UUID))
						s.strayMu.Unlock()
					} else {
						c.mu.Lock()
						c.Got = append(c.Got, c17Orig{T: s.in.ID(t), M: s.snap(m)})
						c.mu.Unlock()
					}
					m.Ack()
				}
			}(t, ch)
		}
	}
	if closed {
		if err := fo.VerifRelayInternalPubSub().Close(); err != nil {
			return err
		}
	}
	sizes := []int{1, 3, 8, 2}
	i, b := 0, 0
	for i < len(cases) {
		k := sizes[b%len(sizes)]
		b++
		if seq {
			k = 1
		}
		if i+k > len(cases) {
			k = len(cases) - i
		}
		var wg sync.WaitGroup
		for _, c := range cases[i : i+k] {
			c.Flight = k
			wg.Add(1)
			go func(c *c17Fanout) {
				defer wg.Done()
				if !src.Emit(s.in.Tab[c.Src], c.msg, 10*time.Second) {
					c.Final = -1
					return
				}
				c.Final = script.WaitSettled(c.msg, 10*time.Second)
			}(c)
		}
		wg.Wait()
		i += k
	}
	// every copy has been handed to its subscriber once all expected ones arrived; then a grace period for extras
	deadline := time.Now().Add(10 * time.Second)
	for time.Now().Before(deadline) {
		missing := false
		for _, c := range cases {
			c.mu.Lock()
			if !closed && c.Final == 1 && len(c.Got) < c.NSubs {
				missing = true
			}
			c.mu.Unlock()
		}
		if !missing {
			break
		}
		time.Sleep(2 * time.Millisecond)
	}
	time.Sleep(30 * time.Millisecond)
	if err := fo.Close(); err != nil {
		return fmt.Errorf("fan-out close: %w", err)
	}
	cancel()
	if err := c17WaitRun(done); err != nil {
		return err
	}
	subWg.Wait()
	s.out.Fanout = append(s.out.Fanout, cases...)
	return nil
}

// ---------------------------------------------------------------- oracle tables

func (s *c17State) tables() {
	// what a JSON round trip does to each string (fixpoint: the results are interned too)
	for i := 0; i < len(s.in.Tab); i++ {
		str := s.in.Tab[i]
		b, err := json.Marshal(str)
		var back string
		if err == nil && json.Unmarshal(b, &back) == nil && back != str {
			s.out.San = append(s.out.San, [2]int{i, s.in.ID(back)})
		}
	}
	for i, str := range s.in.Tab {
		if v, err := strconv.Atoi(str); err == nil {
			s.out.Atoi = append(s.out.Atoi, [2]int64{int64(i), int64(v)})
			if strconv.Itoa(v) == str {
				s.out.Canon = append(s.out.Canon, i)
			}
		}
		s.out.Tab = append(s.out.Tab, strconv.Quote(str))
	}
}

func cmdC17(args []string) error {
	fs, out, seed := newFlags("c17")
	size := fs.Int("size", 1, "multiplier of the number of cases per group")
	fs.Parse(args)
	rt := hookrt.Install(*seed)
	defer hookrt.Uninstall()
	s := &c17State{rng: rand.New(rand.NewSource(*seed)), in: script.NewInterner(), rt: rt, out: &c17Out{Stray: []string{}, Notes: []string{}}}
	s.in.ID(requeuer.RetriesKey)
	k := *size
	grp := 0
	next := func() int { grp++; return grp }
	// Forwarder: AckWhenCannotUnwrap x forwarder topic (default / custom) x own / supplied router
	for _, ab := range []bool{false, true} {
		for gi, topic := range []string{"", "fw_in"} {
			if err := s.forwarderGroup(next(), ab, topic, gi == 0, 110*k, false, !ab && gi == 0); err != nil {
				return err
			}
		}
		if err := s.forwarderGroup(next(), ab, "fw_seq", false, 40*k, true, false); err != nil {
			return err
		}
	}
	s.forwarderConfigs()
	// FanIn
	s.faninConfigs()
	if err := s.faninGroup(next(), []string{"s1"}, "joined", 40*k, false, -1); err != nil {
		return err
	}
	if err := s.faninGroup(next(), []string{"s1", "s2", "s3", "τ"}, "joined", 80*k, false, -1); err != nil {
		return err
	}
	for oh := 0; oh < 6; oh++ { // the destination fails at call index oh and only there
		if err := s.faninGroup(next(), []string{"a", "b"}, "t", 6, true, oh); err != nil {
			return err
		}
	}
	// Requeuer
	s.requeuerConfigs()
	type rq struct {
		gen   int
		arg   string
		delay time.Duration
		own   bool
		n     int
		seq   bool
	}
	for _, q := range []rq{
		{0, "requeued", 0, false, 120 * k, false},
		{0, "requeued", 0, true, 30 * k, false},
		{1, "dest", 0, false, 80 * k, false},
		{1, requeuer.RetriesKey, 0, false, 60 * k, false},
		{2, "", 0, false, 12 * k, false},
		{0, "later", 200 * time.Millisecond, false, 16 * k, false},
		{1, "dest", 200 * time.Millisecond, false, 16 * k, false},
		{0, "seq", 0, false, 40 * k, true},
	} {
		if err := s.requeuerGroup(next(), q.gen, q.arg, q.delay, q.own, q.n, q.seq, -1); err != nil {
			return err
		}
	}
	for oh := 0; oh < 6; oh++ {
		if err := s.requeuerGroup(next(), 0, "requeued", 0, false, 6, true, oh); err != nil {
			return err
		}
	}
	// FanOut
	if err := s.fanoutGroup(next(), map[string]int{"x": 1}, false, 20*k, true); err != nil {
		return err
	}
	if err := s.fanoutGroup(next(), map[string]int{"x": 3, "y": 1, "z": 0, "ω": 2}, false, 60*k, false); err != nil {
		return err
	}
	if err := s.fanoutGroup(next(), map[string]int{"x": 2, "y": 1}, true, 12*k, false); err != nil {
		return err
	}
	if err := s.redelivGroups(next, k); err != nil {
		return err
	}
	if atomic.LoadInt32(&s.barrierOff) != 0 {
		s.out.Notes = append(s.out.Notes, "in-flight barrier timed out once and was switched off")
	}
	s.tables()
	return writeJSON(*out, s.out)
}

func init() { register("c17", cmdC17) }
