//go:build verif

package main

import (
	"context"
	"time"

	"github.com/ThreeDotsLabs/watermill"
	"github.com/ThreeDotsLabs/watermill/components/forwarder"

	"wmverif/script"
)

// C17, round "proofs 3": Forwarder / Publisher configuration defaults and validation.
type c17FwdCfg struct {
	Dflt         int   `json:"dflt"`
	Topic        int   `json:"topic"`
	TimeoutNs    int64 `json:"timeout_ns"`
	ObsTopic     int   `json:"obs_topic"`      // Config after setDefaults
	ObsTimeoutNs int64 `json:"obs_timeout_ns"`
	ValidRaw     bool  `json:"valid_raw"`      // Config.Validate() on the configuration as given
	ValidAfter   bool  `json:"valid_after"`    // ... after setDefaults
	NewOK        bool  `json:"new_ok"`         // NewForwarder returned no error
	SubTopic     int   `json:"sub_topic"`      // topic the running Forwarder subscribed to (-1: not run / none of the candidates)
	PubTopic     int   `json:"pub_topic"`      // PublisherConfig after setDefaults
	PubValidRaw  bool  `json:"pub_valid_raw"`
	PubSendTopic int   `json:"pub_send_topic"` // topic the decorator really publishes to
}

func (s *c17State) forwarderConfigs() {
	topics := []string{"", "fw_cfg", c17DefaultForwarderTopic, " "}
	timeouts := []time.Duration{0, time.Nanosecond, 5 * time.Second, -time.Second, 30 * time.Second}
	for _, t := range topics {
		for _, d := range timeouts {
			c := c17FwdCfg{Dflt: s.in.ID(c17DefaultForwarderTopic), Topic: s.in.ID(t), TimeoutNs: int64(d), SubTopic: -1}
			raw := forwarder.Config{ForwarderTopic: t, CloseTimeout: d}
			c.ValidRaw = raw.Validate() == nil
			after := forwarder.VerifRelayDefaults(raw)
			c.ObsTopic, c.ObsTimeoutNs = s.in.ID(after.ForwarderTopic), int64(after.CloseTimeout)
			c.ValidAfter = after.Validate() == nil
			praw := forwarder.PublisherConfig{ForwarderTopic: t}
			c.PubValidRaw = praw.Validate() == nil
			c.PubTopic = s.in.ID(forwarder.VerifRelayPublisherDefaults(praw).ForwarderTopic)
			inner := &script.Publisher{}
			_ = forwarder.NewPublisher(inner, praw).Publish("somewhere")
			c.PubSendTopic = -1
			if calls := inner.Snapshot(); len(calls) == 1 {
				c.PubSendTopic = s.in.ID(calls[0].Topic)
			}
			sub := script.NewSubscriber(true)
			f, err := forwarder.NewForwarder(sub, &script.Publisher{}, watermill.NopLogger{}, raw)
			c.NewOK = err == nil
			if err == nil && (d == 0 || d == 5*time.Second) {
				done := make(chan error, 1)
				go func() { done <- f.Run(context.Background()) }()
				select {
				case <-f.Running():
					for _, cand := range []string{t, c17DefaultForwarderTopic} {
						if sub.HasSubscription(cand) {
							c.SubTopic = s.in.ID(cand)
							break
						}
					}
				case <-time.After(10 * time.Second):
				}
				f.Close()
				c17WaitRun(done)
			}
			s.out.FwdCfg = append(s.out.FwdCfg, c)
		}
	}
}
