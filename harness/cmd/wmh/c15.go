//go:build verif

package main

import (
	"bytes"
	"context"
	"errors"
	"fmt"
	"math/rand"
	"runtime"
	"sort"
	"strconv"
	"sync"
	"sync/atomic"
	"time"

	"github.com/ThreeDotsLabs/watermill"
	"github.com/ThreeDotsLabs/watermill/components/cqrs"
	"github.com/ThreeDotsLabs/watermill/message"

	ct "wmverif/c15types"
	"wmverif/hookrt"
	"wmverif/script"
)

// ------------------------------------------------------------------ marshaler configurations

var c15MarshalerNames = []string{"json/default", "json/StructName", "json/NamedStruct(FullyQualified)", "json/colliding",
	"proto/default", "proto/NamedStruct(StructName)", "gogo/default(std fallback)", "gogo/StructName,no fallback"}

func c15Marshaler(mk int, newUUID func() string) cqrs.CommandEventMarshaler {
	switch mk {
	case 0:
		return cqrs.JSONMarshaler{NewUUID: newUUID}
	case 1:
		return cqrs.JSONMarshaler{NewUUID: newUUID, GenerateName: cqrs.StructName}
	case 2:
		return cqrs.JSONMarshaler{NewUUID: newUUID, GenerateName: cqrs.NamedStruct(cqrs.FullyQualifiedStructName)}
	case 3:
		return cqrs.JSONMarshaler{NewUUID: newUUID, GenerateName: ct.Colliding}
	case 4:
		return cqrs.ProtoMarshaler{NewUUID: newUUID}
	case 5:
		return cqrs.ProtoMarshaler{NewUUID: newUUID, GenerateName: cqrs.NamedStruct(cqrs.StructName)}
	case 6:
		return cqrs.ProtobufMarshaler{NewUUID: newUUID}
	default:
		return cqrs.ProtobufMarshaler{NewUUID: newUUID, GenerateName: cqrs.StructName, DisableStdProtoFallback: true}
	}
}

func c15IsProto(mk int) bool { return mk >= 4 }

// ------------------------------------------------------------------ codec tables

// c15Tab tabulates the real marshaler: Name on values, Marshal on values, Unmarshal of every
// payload into every type, and the zero value of every type.
type c15Tab struct {
	Marshaler int      `json:"marshaler"`
	Names     [][3]int `json:"names"` // type, content, name
	Enc       [][3]int `json:"enc"`   // type, content, payload
	Dec       [][3]int `json:"dec"`   // payload, type, content
	Zero      [][2]int `json:"zero"`  // type, content

	m        cqrs.CommandEventMarshaler
	in       *script.Interner
	vals     map[[2]int]bool
	payloads map[int]bool
	zeroKeys [][2]int
}

func newC15Tab(mk int, in *script.Interner) *c15Tab {
	t := &c15Tab{Marshaler: mk, m: c15Marshaler(mk, nil), in: in, vals: map[[2]int]bool{}, payloads: map[int]bool{}}
	for ty := 1; ty <= ct.NTypes; ty++ {
		z := ct.New(ty)
		_, c := ct.Render(z)
		t.Zero = append(t.Zero, [2]int{ty, in.ID(c)})
		// only the NAME of a zero value is needed (handler type names); it is not marshalled
		key := [2]int{ty, in.ID(c)}
		t.Names = append(t.Names, [3]int{key[0], key[1], in.ID(t.m.Name(z))})
		t.zeroKeys = append(t.zeroKeys, key)
	}
	return t
}

// addValue tabulates Name and Marshal of v; returns its (type, content) identity.
func (t *c15Tab) addValue(v any) [2]int {
	// the table holds the name and encoding of the value itself (passed as T or *T); that the bus
	// and the processors get the same name at every pointer depth is what is being checked
	if ct.Depth(v) > 1 {
		v = ct.Canon(v)
	}
	ty, c := ct.Render(v)
	key := [2]int{ty, t.in.ID(c)}
	if t.vals[key] {
		return key
	}
	t.vals[key] = true
	isZero := false
	for _, z := range t.zeroKeys {
		if z == key {
			isZero = true
		}
	}
	if !isZero {
		t.Names = append(t.Names, [3]int{key[0], key[1], t.in.ID(t.m.Name(v))})
	}
	if msg, err := t.m.Marshal(v); err == nil {
		p := t.in.ID("payload:" + string(msg.Payload))
		t.Enc = append(t.Enc, [3]int{key[0], key[1], p})
		t.addPayload(msg.Payload)
	}
	return key
}

// addPayload tabulates Unmarshal of the payload into every type.
func (t *c15Tab) addPayload(b []byte) int {
	p := t.in.ID("payload:" + string(b))
	if t.payloads[p] {
		return p
	}
	t.payloads[p] = true
	for ty := 1; ty <= ct.NTypes; ty++ {
		v := ct.New(ty)
		if err := t.m.Unmarshal(message.NewMessage("tab", append([]byte(nil), b...)), v); err == nil {
			_, c := ct.Render(v)
			t.Dec = append(t.Dec, [3]int{p, ty, t.in.ID(c)})
		}
	}
	return p
}

// ------------------------------------------------------------------ goroutine ids (bus callbacks run on the caller's goroutine)

func c15Gid() int64 {
	var buf [64]byte
	n := runtime.Stack(buf[:], false)
	b := bytes.TrimPrefix(buf[:n], []byte("goroutine "))
	i := bytes.IndexByte(b, ' ')
	if i < 0 {
		return -1
	}
	id, _ := strconv.ParseInt(string(b[:i]), 10, 64)
	return id
}

type c15DelivKey struct{}
type c15TagKey struct{}

func c15SortedMeta(in *script.Interner, md message.Metadata) [][2]int {
	out := [][2]int{}
	for k, v := range md {
		out = append(out, [2]int{in.ID(k), in.ID(v)})
	}
	sort.Slice(out, func(i, j int) bool { return out[i][0] < out[j][0] })
	return out
}

// ------------------------------------------------------------------ processor deliveries

type c15Delivery struct {
	ID        string   `json:"id"`
	Tab       int      `json:"tab"`
	Kind      int      `json:"kind"` // 0 command, 1 event, 2 group
	Ctor      string   `json:"ctor"`
	AckErrors bool     `json:"ack_errors"`
	AckUnk    bool     `json:"ack_unknown"`
	OnHandle  int      `json:"onhandle"` // 0 nil, 1 pass, 2 swallow, 3 skip-ok, 4 skip-err, 5 panic
	UUID      int      `json:"uuid"`
	Payload   int      `json:"payload"`
	Meta      [][2]int `json:"meta"`
	Tag       int      `json:"tag"`
	Stale     bool     `json:"stale"`
	Handlers  [][2]int `json:"handlers"` // (handler id, type)
	Scripts   [][2]int `json:"scripts"`  // (pre 0 none 1 ack 2 nack, res 0 ok 1 err 2 panic)
	Source    string   `json:"source"`
	Sent      []int    `json:"sent,omitempty"` // (type, content) of the value sent through the real bus

	Trace     [][]interface{} `json:"trace"`
	Settles   []bool          `json:"settles"`
	Final     int             `json:"final"`
	Anomalies []string        `json:"anomalies,omitempty"`
	Flight    int32           `json:"flight"`

	Groups    int             `json:"router_handlers"`
	HPtr      []bool          `json:"hptr"`    // per handler: generic handler instantiated with *T
	Wrapped   bool            `json:"wrapped"` // the processor's marshaler is the recording wrapper
	MTrace    [][]interface{} `json:"mtrace"`  // marshaler calls made for this delivery + Handle entries with object numbers
	objs      map[interface{}]int // router handlers (cqrs handlers / groups) on the same processor

	mu     sync.Mutex
	msg    *message.Message
	inPre  bool
	script map[int][2]int
	subIdx int
}

func (d *c15Delivery) rec(ev ...interface{}) {
	d.mu.Lock()
	d.Trace = append(d.Trace, ev)
	d.mu.Unlock()
}

func (d *c15Delivery) anomaly(s string) {
	d.mu.Lock()
	d.Anomalies = append(d.Anomalies, s)
	d.mu.Unlock()
}

type c15Scenario struct {
	in        *script.Interner
	rng       *rand.Rand
	tab       *c15Tab
	tabIdx    int
	mk        int
	kind      int // 0 command 1 event 2 group
	depr      bool
	ackErrors bool
	ackUnk    bool
	onHandle  int
	htypes    []int
	hids      map[any]int
	byUUID    sync.Map // uuid -> *c15Delivery
	active    int32
	lost      int32 // handler / hook invocations that could not be attributed to a delivery
	Reg       [][]interface{}
	regMu     sync.Mutex
	wrapped   bool
	hptr      []bool // handler i is a generic handler instantiated with *T instead of T
	facade    bool
	facadePub *script.Publisher
	facadeObj *cqrs.Facade
}

var errC15Handler = errors.New("scripted handler error")
var errC15OnHandle = errors.New("scripted OnHandle error")

func (s *c15Scenario) origCode(d *c15Delivery, ctx context.Context) int {
	orig := cqrs.OriginalMessageFromCtx(ctx)
	switch {
	case orig == nil:
		return 0
	case orig == d.msg:
		return 1
	}
	return 2
}

// handle is the user's Handle of handler hid.
func (s *c15Scenario) handle(hid int, ctx context.Context, v any) error {
	d, _ := ctx.Value(c15DelivKey{}).(*c15Delivery)
	if d == nil {
		atomic.AddInt32(&s.lost, 1)
		return nil
	}
	n := atomic.AddInt32(&s.active, 1)
	defer atomic.AddInt32(&s.active, -1)
	for {
		old := atomic.LoadInt32(&d.Flight)
		if n <= old || atomic.CompareAndSwapInt32(&d.Flight, old, n) {
			break
		}
	}
	tag, _ := ctx.Value(c15TagKey{}).(int)
	ty, c := ct.Render(v)
	d.rec("handle", hid, ty, s.in.ID(c), s.origCode(d, ctx), tag)
	if d.Wrapped {
		d.mrec("m-handle", hid, d.objNum(v))
	}
	time.Sleep(time.Duration(200+hid*37%300) * time.Microsecond)
	sc := d.script[hid]
	if sc[0] != 0 {
		orig := cqrs.OriginalMessageFromCtx(ctx)
		if orig == nil {
			d.anomaly("handler cannot settle: no original message in its context")
		} else {
			d.mu.Lock()
			d.inPre = true
			d.mu.Unlock()
			var ret bool
			if sc[0] == 1 {
				ret = orig.Ack()
			} else {
				ret = orig.Nack()
			}
			d.mu.Lock()
			d.inPre = false
			d.mu.Unlock()
			d.rec("pre", hid, sc[0] == 1, ret)
		}
	}
	if ty2, c2 := ct.Render(v); ty2 != ty || c2 != c {
		d.anomaly("the value passed to the handler changed while it was being handled (object shared between deliveries)")
	}
	switch sc[1] {
	case 0:
		return nil
	case 1:
		return errC15Handler
	}
	panic("scripted handler panic")
}

// onHandleHook is the OnHandle option (all three processors have the same shape of params).
func (s *c15Scenario) onHandleHook(handler any, name string, v any, msg *message.Message, call func(ctx context.Context) error) error {
	d, _ := msg.Context().Value(c15DelivKey{}).(*c15Delivery)
	if d == nil {
		atomic.AddInt32(&s.lost, 1)
		return nil
	}
	hid, ok := s.hids[handler]
	if !ok {
		hid = 999
	}
	tag, _ := msg.Context().Value(c15TagKey{}).(int)
	ty, c := ct.Render(v)
	if msg != d.msg {
		d.anomaly("OnHandle params.Message is not the consumed message")
	}
	d.rec("onhandle", hid, s.in.ID(name), ty, s.in.ID(c), s.origCode(d, msg.Context()), tag)
	switch s.onHandle {
	case 1:
		return call(msg.Context())
	case 2:
		_ = call(msg.Context())
		return nil
	case 3:
		return nil
	case 4:
		return errC15OnHandle
	}
	panic("scripted OnHandle panic")
}

// the generic constructors instantiated with a POINTER type: NewCommand()/NewEvent() return **T
func c15CmdHandlerPtr(ty int, name string, f func(context.Context, any) error) cqrs.CommandHandler {
	switch ty {
	case ct.TCmdA:
		return cqrs.NewCommandHandler(name, func(ctx context.Context, v **ct.CmdA) error { return f(ctx, v) })
	case ct.TCmdB:
		return cqrs.NewCommandHandler(name, func(ctx context.Context, v **ct.CmdB) error { return f(ctx, v) })
	case ct.TEvtC:
		return cqrs.NewCommandHandler(name, func(ctx context.Context, v **ct.EvtC) error { return f(ctx, v) })
	default:
		return cqrs.NewCommandHandler(name, func(ctx context.Context, v **ct.Bad) error { return f(ctx, v) })
	}
}

func c15EvtHandlerPtr(ty int, name string, f func(context.Context, any) error) cqrs.EventHandler {
	switch ty {
	case ct.TCmdA:
		return cqrs.NewEventHandler(name, func(ctx context.Context, v **ct.CmdA) error { return f(ctx, v) })
	case ct.TCmdB:
		return cqrs.NewEventHandler(name, func(ctx context.Context, v **ct.CmdB) error { return f(ctx, v) })
	case ct.TEvtC:
		return cqrs.NewEventHandler(name, func(ctx context.Context, v **ct.EvtC) error { return f(ctx, v) })
	default:
		return cqrs.NewEventHandler(name, func(ctx context.Context, v **ct.Bad) error { return f(ctx, v) })
	}
}

func c15GroupHandlerPtr(ty int, f func(context.Context, any) error) cqrs.GroupEventHandler {
	switch ty {
	case ct.TCmdA:
		return cqrs.NewGroupEventHandler(func(ctx context.Context, v **ct.CmdA) error { return f(ctx, v) })
	case ct.TCmdB:
		return cqrs.NewGroupEventHandler(func(ctx context.Context, v **ct.CmdB) error { return f(ctx, v) })
	case ct.TEvtC:
		return cqrs.NewGroupEventHandler(func(ctx context.Context, v **ct.EvtC) error { return f(ctx, v) })
	default:
		return cqrs.NewGroupEventHandler(func(ctx context.Context, v **ct.Bad) error { return f(ctx, v) })
	}
}

func c15PtrInstantiable(mk, ty int) bool {
	return !c15IsProto(mk) && (ty == ct.TCmdA || ty == ct.TCmdB || ty == ct.TEvtC || ty == ct.TBad)
}

func c15CmdHandler(ty int, name string, f func(context.Context, any) error) cqrs.CommandHandler {
	switch ty {
	case ct.TCmdA:
		return cqrs.NewCommandHandler(name, func(ctx context.Context, v *ct.CmdA) error { return f(ctx, v) })
	case ct.TCmdB:
		return cqrs.NewCommandHandler(name, func(ctx context.Context, v *ct.CmdB) error { return f(ctx, v) })
	case ct.TEvtC:
		return cqrs.NewCommandHandler(name, func(ctx context.Context, v *ct.EvtC) error { return f(ctx, v) })
	case ct.TNamed:
		return cqrs.NewCommandHandler(name, func(ctx context.Context, v *ct.Named) error { return f(ctx, v) })
	case ct.TBad:
		return cqrs.NewCommandHandler(name, func(ctx context.Context, v *ct.Bad) error { return f(ctx, v) })
	default:
		return &c15PlainHandler{name: name, ty: ty, f: f}
	}
}

func c15EvtHandler(ty int, name string, f func(context.Context, any) error) cqrs.EventHandler {
	switch ty {
	case ct.TCmdA:
		return cqrs.NewEventHandler(name, func(ctx context.Context, v *ct.CmdA) error { return f(ctx, v) })
	case ct.TCmdB:
		return cqrs.NewEventHandler(name, func(ctx context.Context, v *ct.CmdB) error { return f(ctx, v) })
	case ct.TEvtC:
		return cqrs.NewEventHandler(name, func(ctx context.Context, v *ct.EvtC) error { return f(ctx, v) })
	case ct.TNamed:
		return cqrs.NewEventHandler(name, func(ctx context.Context, v *ct.Named) error { return f(ctx, v) })
	case ct.TBad:
		return cqrs.NewEventHandler(name, func(ctx context.Context, v *ct.Bad) error { return f(ctx, v) })
	default:
		return &c15PlainHandler{name: name, ty: ty, f: f}
	}
}

func c15GroupHandler(ty int, f func(context.Context, any) error) cqrs.GroupEventHandler {
	switch ty {
	case ct.TCmdA:
		return cqrs.NewGroupEventHandler(func(ctx context.Context, v *ct.CmdA) error { return f(ctx, v) })
	case ct.TCmdB:
		return cqrs.NewGroupEventHandler(func(ctx context.Context, v *ct.CmdB) error { return f(ctx, v) })
	case ct.TEvtC:
		return cqrs.NewGroupEventHandler(func(ctx context.Context, v *ct.EvtC) error { return f(ctx, v) })
	case ct.TNamed:
		return cqrs.NewGroupEventHandler(func(ctx context.Context, v *ct.Named) error { return f(ctx, v) })
	case ct.TBad:
		return cqrs.NewGroupEventHandler(func(ctx context.Context, v *ct.Bad) error { return f(ctx, v) })
	default:
		return &c15PlainHandler{ty: ty, f: f}
	}
}

// c15PlainHandler implements the three handler interfaces by hand (protobuf types).
type c15PlainHandler struct {
	name string
	ty   int
	f    func(context.Context, any) error
}

func (h *c15PlainHandler) HandlerName() string                         { return h.name }
func (h *c15PlainHandler) NewCommand() any                             { return ct.New(h.ty) }
func (h *c15PlainHandler) NewEvent() any                               { return ct.New(h.ty) }
func (h *c15PlainHandler) Handle(ctx context.Context, v any) error     { return h.f(ctx, v) }

func (s *c15Scenario) reg(ev ...interface{}) {
	s.regMu.Lock()
	s.Reg = append(s.Reg, ev)
	s.regMu.Unlock()
}

type c15RawMsg struct {
	pub     *message.Message // the message a real bus handed to its publisher (read when consumed)
	payload []byte
	meta    map[string]string
	source  string
	sent    []int
}

// throughBus sends v through a REAL bus of the scenario's kind and marshaler and returns what
// reached the publisher.
func (s *c15Scenario) throughBus(v any) (*message.Message, error) {
	if s.facadeObj != nil {
		// the Facade's own bus and publisher
		before := len(s.facadePub.Snapshot())
		var err error
		if s.kind == 0 {
			err = s.facadeObj.CommandBus().Send(context.Background(), v)
		} else {
			err = s.facadeObj.EventBus().Publish(context.Background(), v)
		}
		if err != nil {
			return nil, err
		}
		calls := s.facadePub.Snapshot()
		if len(calls) != before+1 || len(calls[before].Msgs) != 1 {
			return nil, fmt.Errorf("facade bus published %d calls", len(calls)-before)
		}
		return calls[before].Msgs[0], nil
	}
	pub := &script.Publisher{}
	m := c15Marshaler(s.mk, nil)
	var err error
	if s.kind == 0 {
		var bus *cqrs.CommandBus
		if s.depr {
			bus, err = cqrs.NewCommandBus(pub, func(n string) string { return "t." + n }, m)
		} else {
			bus, err = cqrs.NewCommandBusWithConfig(pub, cqrs.CommandBusConfig{
				GeneratePublishTopic: func(p cqrs.CommandBusGeneratePublishTopicParams) (string, error) { return "t." + p.CommandName, nil },
				Marshaler:            m})
		}
		if err != nil {
			return nil, err
		}
		err = bus.Send(context.Background(), v)
	} else {
		var bus *cqrs.EventBus
		if s.depr {
			bus, err = cqrs.NewEventBus(pub, func(n string) string { return "t." + n }, m)
		} else {
			bus, err = cqrs.NewEventBusWithConfig(pub, cqrs.EventBusConfig{
				GeneratePublishTopic: func(p cqrs.GenerateEventPublishTopicParams) (string, error) { return "t." + p.EventName, nil },
				Marshaler:            m})
		}
		if err != nil {
			return nil, err
		}
		err = bus.Publish(context.Background(), v)
	}
	if err != nil {
		return nil, err
	}
	calls := pub.Snapshot()
	if len(calls) != 1 || len(calls[0].Msgs) != 1 {
		return nil, fmt.Errorf("bus published %d calls", len(calls))
	}
	return calls[0].Msgs[0], nil
}

func (s *c15Scenario) randomValue(ty int) any {
	as := []int{0, 1, 7, -3}
	bs := []string{"", "x", "héllo", "a b"}
	return ct.MakeDepth(ty, as[s.rng.Intn(len(as))], bs[s.rng.Intn(len(bs))], c15Depth(s.rng, s.mk, ty))
}

// c15Depth draws the number of pointer levels a value is sent through. Protobuf marshalers and
// protobuf types only know T / *T (a **T is no proto.Message); a type that names itself through
// a value-receiver Name method does so only as T and *T (method sets), so under NamedStruct it
// stays at depth <= 1; everything else goes through 0..3 pointers.
func c15Depth(rng *rand.Rand, mk, ty int) int {
	if ty >= ct.TPStr {
		return 1
	}
	if c15IsProto(mk) || (ty == ct.TNamed && (mk == 2 || mk == 5)) {
		return rng.Intn(2)
	}
	return []int{0, 0, 1, 1, 1, 2, 2, 3}[rng.Intn(8)]
}

func (s *c15Scenario) typePool() []int {
	if s.mk == 7 { // no std fallback: std protobuf types are outside this marshaler's domain
		return []int{ct.TGStr, ct.TGInt, ct.TGStr, ct.TGInt, ct.TCmdA}
	}
	if s.mk == 6 {
		return []int{ct.TGStr, ct.TGInt, ct.TGStr, ct.TPStr, ct.TPInt, ct.TCmdA}
	}
	if c15IsProto(s.mk) {
		return []int{ct.TPStr, ct.TPInt, ct.TPDur, ct.TPStr, ct.TPInt, ct.TCmdA}
	}
	return []int{ct.TCmdA, ct.TCmdB, ct.TEvtC, ct.TNamed, ct.TCmdA, ct.TCmdB, ct.TPStr, ct.TBad}
}

// rawMessage draws one incoming message: sent through the real bus, or crafted (known /
// unknown / missing name; valid / foreign / malformed payload).
func (s *c15Scenario) rawMessage() c15RawMsg {
	pool := s.typePool()
	pickTy := func() int {
		if s.rng.Intn(10) < 7 {
			return s.htypes[s.rng.Intn(len(s.htypes))]
		}
		return pool[s.rng.Intn(len(pool))]
	}
	if s.rng.Intn(100) < 55 {
		v := s.randomValue(pickTy())
		key := s.tab.addValue(v)
		if msg, err := s.throughBus(v); err == nil {
			md := map[string]string{}
			for k, x := range msg.Metadata {
				md[k] = x
			}
			return c15RawMsg{payload: msg.Payload, meta: md, source: "bus", sent: key[:], pub: msg}
		}
	}
	r := c15RawMsg{meta: map[string]string{}, source: "crafted"}
	// payload
	switch k := s.rng.Intn(10); {
	case k < 5:
		v := s.randomValue(pickTy())
		s.tab.addValue(v)
		if msg, err := c15Marshaler(s.mk, nil).Marshal(v); err == nil {
			r.payload = msg.Payload
		} else {
			r.payload = []byte(`{"a":1,"b":"fallback"}`)
		}
	case k < 7:
		r.payload = []byte(`{"a":`)
		r.source = "malformed-payload"
	case k < 8:
		r.payload = []byte(`{"zzz":true,"a":5}`)
		r.source = "foreign-payload"
	case k < 9:
		r.payload = []byte{}
		r.source = "empty-payload"
	default:
		r.payload = []byte{0xff, 0xff, 0x07}
		r.source = "malformed-payload"
	}
	// name
	switch k := s.rng.Intn(10); {
	case k < 6:
		r.meta["name"] = s.tab.m.Name(ct.New(pickTy()))
	case k < 7:
		r.meta["name"] = ""
		r.source += "/empty-name"
	case k < 8:
		r.source += "/no-name"
	default:
		r.meta["name"] = "no.such.Type"
		r.source += "/unknown-name"
	}
	if s.rng.Intn(3) == 0 {
		r.meta["correlation"] = fmt.Sprint("c", s.rng.Intn(3))
	}
	if s.rng.Intn(5) == 0 {
		r.meta["a-key"] = ""
	}
	return r
}

func (s *c15Scenario) randomScript(pos int, failAt int) [2]int {
	pre := 0
	if s.rng.Intn(8) == 0 {
		pre = 1 + s.rng.Intn(2)
	}
	res := 0
	if pos == failAt {
		res = 1 + s.rng.Intn(2)
		if s.rng.Intn(3) > 0 {
			res = 1
		}
	} else if s.rng.Intn(10) == 0 {
		res = 1 + s.rng.Intn(2)
	}
	return [2]int{pre, res}
}

var c15Seq int64
var c15Unsettled int32 // deliveries that were never settled: after 3 the remaining scenarios are skipped (fail fast)

func (s *c15Scenario) run(sIdx int) ([]*c15Delivery, error) {
	router, err := message.NewRouter(message.RouterConfig{CloseTimeout: 60 * time.Second}, watermill.NopLogger{})
	if err != nil {
		return nil, err
	}
	var m cqrs.CommandEventMarshaler = c15Marshaler(s.mk, nil)
	if s.wrapped {
		m = &c15RecMarshaler{inner: m, in: s.in}
	}
	n := len(s.htypes)
	subs := make([]*script.Subscriber, n)
	topics := make([]string, n)
	var groups [][]int
	s.hids = map[any]int{}
	hf := func(hid int) func(context.Context, any) error {
		return func(ctx context.Context, v any) error { return s.handle(hid, ctx, v) }
	}
	newSub := func(i int) *script.Subscriber {
		subs[i] = script.NewSubscriber(true)
		return subs[i]
	}
	switch s.kind {
	case 0:
		hs := make([]cqrs.CommandHandler, n)
		for i, ty := range s.htypes {
			if s.hptr[i] {
				hs[i] = c15CmdHandlerPtr(ty, fmt.Sprintf("h%d", i), hf(i))
			} else {
				hs[i] = c15CmdHandler(ty, fmt.Sprintf("h%d", i), hf(i))
			}
			s.hids[hs[i]] = i
		}
		if s.depr && s.facade {
			// the deprecated Facade (cqrs.go): NewCommandBus + NewCommandProcessor + AddHandlersToRouter
			s.facadePub = &script.Publisher{}
			f, err := cqrs.NewFacade(cqrs.FacadeConfig{
				GenerateCommandsTopic: func(name string) string { s.reg("topic", s.in.ID(name), -1); return "cmd." + name },
				CommandHandlers:       func(cb *cqrs.CommandBus, eb *cqrs.EventBus) []cqrs.CommandHandler { return hs },
				CommandsPublisher:     s.facadePub,
				CommandsSubscriberConstructor: func(handlerName string) (message.Subscriber, error) {
					i, _ := strconv.Atoi(handlerName[1:])
					s.reg("sub", -1, i)
					return newSub(i), nil
				},
				Router: router, CommandEventMarshaler: m, Logger: watermill.NopLogger{}})
			if err != nil {
				return nil, fmt.Errorf("NewFacade: %w", err)
			}
			s.facadeObj = f
		} else if s.depr {
			cp, err := cqrs.NewCommandProcessor(hs, func(name string) string { s.reg("topic", s.in.ID(name), -1); return "cmd." + name },
				func(handlerName string) (message.Subscriber, error) {
					i, _ := strconv.Atoi(handlerName[1:])
					s.reg("sub", -1, i)
					return newSub(i), nil
				}, m, watermill.NopLogger{})
			if err != nil {
				return nil, fmt.Errorf("NewCommandProcessor: %w", err)
			}
			if err := cp.AddHandlersToRouter(router); err != nil {
				return nil, err
			}
		} else {
			cfg := cqrs.CommandProcessorConfig{
				GenerateSubscribeTopic: func(p cqrs.CommandProcessorGenerateSubscribeTopicParams) (string, error) {
					s.reg("topic", s.in.ID(p.CommandName), s.hids[p.CommandHandler])
					return "cmd." + p.CommandName, nil
				},
				SubscriberConstructor: func(p cqrs.CommandProcessorSubscriberConstructorParams) (message.Subscriber, error) {
					i := s.hids[p.Handler]
					if p.HandlerName != fmt.Sprintf("h%d", i) {
						i = 999
					}
					s.reg("sub", s.in.ID(p.CommandName), i)
					return newSub(i), nil
				},
				Marshaler:                m,
				AckCommandHandlingErrors: s.ackErrors,
			}
			if s.onHandle != 0 {
				cfg.OnHandle = func(p cqrs.CommandProcessorOnHandleParams) error {
					return s.onHandleHook(p.Handler, p.CommandName, p.Command, p.Message, func(ctx context.Context) error { return p.Handler.Handle(ctx, p.Command) })
				}
			}
			cp, err := cqrs.NewCommandProcessorWithConfig(router, cfg)
			if err != nil {
				return nil, err
			}
			for i := range hs {
				if s.rng.Intn(2) == 0 {
					if _, err := cp.AddHandler(hs[i]); err != nil {
						return nil, err
					}
				} else if err := cp.AddHandlers(hs[i]); err != nil {
					return nil, err
				}
			}
		}
		for i, ty := range s.htypes {
			topics[i] = "cmd." + m.Name(ct.New(ty))
		}
	case 1:
		hs := make([]cqrs.EventHandler, n)
		for i, ty := range s.htypes {
			if s.hptr[i] {
				hs[i] = c15EvtHandlerPtr(ty, fmt.Sprintf("h%d", i), hf(i))
			} else {
				hs[i] = c15EvtHandler(ty, fmt.Sprintf("h%d", i), hf(i))
			}
			s.hids[hs[i]] = i
		}
		if s.depr && s.facade {
			s.facadePub = &script.Publisher{}
			f, err := cqrs.NewFacade(cqrs.FacadeConfig{
				GenerateEventsTopic: func(name string) string { s.reg("topic", s.in.ID(name), -1); return "evt." + name },
				EventHandlers:       func(cb *cqrs.CommandBus, eb *cqrs.EventBus) []cqrs.EventHandler { return hs },
				EventsPublisher:     s.facadePub,
				EventsSubscriberConstructor: func(handlerName string) (message.Subscriber, error) {
					i, _ := strconv.Atoi(handlerName[1:])
					s.reg("sub", -1, i)
					return newSub(i), nil
				},
				Router: router, CommandEventMarshaler: m, Logger: watermill.NopLogger{}})
			if err != nil {
				return nil, fmt.Errorf("NewFacade: %w", err)
			}
			s.facadeObj = f
		} else if s.depr {
			ep, err := cqrs.NewEventProcessor(hs, func(name string) string { s.reg("topic", s.in.ID(name), -1); return "evt." + name },
				func(handlerName string) (message.Subscriber, error) {
					i, _ := strconv.Atoi(handlerName[1:])
					s.reg("sub", -1, i)
					return newSub(i), nil
				}, m, watermill.NopLogger{})
			if err != nil {
				return nil, fmt.Errorf("NewEventProcessor: %w", err)
			}
			if err := ep.AddHandlersToRouter(router); err != nil {
				return nil, err
			}
		} else {
			cfg := cqrs.EventProcessorConfig{
				GenerateSubscribeTopic: func(p cqrs.EventProcessorGenerateSubscribeTopicParams) (string, error) {
					s.reg("topic", s.in.ID(p.EventName), s.hids[p.EventHandler])
					return "evt." + p.EventName, nil
				},
				SubscriberConstructor: func(p cqrs.EventProcessorSubscriberConstructorParams) (message.Subscriber, error) {
					i := s.hids[p.EventHandler]
					if p.HandlerName != fmt.Sprintf("h%d", i) {
						i = 999
					}
					s.reg("sub", s.in.ID(p.EventName), i)
					return newSub(i), nil
				},
				Marshaler:         m,
				AckOnUnknownEvent: s.ackUnk,
			}
			if s.onHandle != 0 {
				cfg.OnHandle = func(p cqrs.EventProcessorOnHandleParams) error {
					return s.onHandleHook(p.Handler, p.EventName, p.Event, p.Message, func(ctx context.Context) error { return p.Handler.Handle(ctx, p.Event) })
				}
			}
			ep, err := cqrs.NewEventProcessorWithConfig(router, cfg)
			if err != nil {
				return nil, err
			}
			if s.rng.Intn(2) == 0 {
				if err := ep.AddHandlers(hs...); err != nil {
					return nil, err
				}
			} else {
				for i := range hs {
					if _, err := ep.AddHandler(hs[i]); err != nil {
						return nil, err
					}
				}
			}
		}
		for i, ty := range s.htypes {
			topics[i] = "evt." + m.Name(ct.New(ty))
		}
	default:
		hs := make([]cqrs.GroupEventHandler, n)
		for i, ty := range s.htypes {
			if s.hptr[i] {
				hs[i] = c15GroupHandlerPtr(ty, hf(i))
			} else {
				hs[i] = c15GroupHandler(ty, hf(i))
			}
			s.hids[hs[i]] = i
		}
		// 1..3 groups on ONE processor instance; the handlers are dealt to the groups in order
		ng := 1 + s.rng.Intn(3)
		if ng > n {
			ng = n
		}
		groups = make([][]int, ng)
		for i := 0; i < n; i++ {
			g := i * ng / n
			groups[g] = append(groups[g], i)
		}
		groupOf := map[any]string{}
		cfg := cqrs.EventGroupProcessorConfig{
			GenerateSubscribeTopic: func(p cqrs.EventGroupProcessorGenerateSubscribeTopicParams) (string, error) {
				s.reg("gtopic", s.in.ID(p.EventGroupName), len(p.EventGroupHandlers))
				return "grp." + p.EventGroupName, nil
			},
			SubscriberConstructor: func(p cqrs.EventGroupProcessorSubscriberConstructorParams) (message.Subscriber, error) {
				s.reg("gsub", s.in.ID(p.EventGroupName), len(p.EventGroupHandlers))
				g, _ := strconv.Atoi(p.EventGroupName[1:])
				return newSub(g), nil
			},
			Marshaler:         m,
			AckOnUnknownEvent: s.ackUnk,
		}
		if s.onHandle != 0 {
			cfg.OnHandle = func(p cqrs.EventGroupProcessorOnHandleParams) error {
				if p.GroupName != groupOf[p.Handler] {
					return errors.New("wrong group name")
				}
				return s.onHandleHook(p.Handler, p.EventName, p.Event, p.Message, func(ctx context.Context) error { return p.Handler.Handle(ctx, p.Event) })
			}
		}
		gp, err := cqrs.NewEventGroupProcessorWithConfig(router, cfg)
		if err != nil {
			return nil, err
		}
		for g, members := range groups {
			ghs := []cqrs.GroupEventHandler{}
			for _, i := range members {
				ghs = append(ghs, hs[i])
				groupOf[hs[i]] = fmt.Sprintf("g%d", g)
			}
			if err := gp.AddHandlersGroup(fmt.Sprintf("g%d", g), ghs...); err != nil {
				return nil, err
			}
			topics[g] = fmt.Sprintf("grp.g%d", g)
		}
	}

	// the deliveries
	var ds []*c15Delivery
	nmsg := 3 + s.rng.Intn(6)
	// all messages are produced first (bus sends included) and only then consumed: a message that
	// came out of a bus is read late, after every later Send / Publish of the scenario
	raws := make([]c15RawMsg, nmsg)
	for k := range raws {
		raws[k] = s.rawMessage()
	}
	for k := 0; k < nmsg; k++ {
		raw := raws[k]
		if raw.pub != nil {
			raw.payload = raw.pub.Payload
			raw.meta = map[string]string{}
			for mk, mv := range raw.pub.Metadata {
				raw.meta[mk] = mv
			}
		}
		pid := s.tab.addPayload(raw.payload)
		targets := [][]int{}
		if s.kind == 2 {
			targets = append(targets, groups...)
		} else {
			for i := 0; i < n; i++ {
				targets = append(targets, []int{i})
			}
		}
		for tgIdx, tg := range targets {
			id := fmt.Sprintf("s%d-d%d", sIdx, atomic.AddInt64(&c15Seq, 1))
			d := &c15Delivery{ID: id, Tab: s.tabIdx, Kind: s.kind, AckErrors: s.ackErrors, AckUnk: s.ackUnk, OnHandle: s.onHandle,
				UUID: s.in.ID(id), Payload: pid, Tag: 1 + s.rng.Intn(5), Stale: s.rng.Intn(6) == 0, Source: raw.source, Sent: raw.sent,
				Ctor: "config", Settles: []bool{}, Trace: [][]interface{}{}, script: map[int][2]int{}, subIdx: tgIdx, Groups: len(targets),
				Wrapped: s.wrapped, MTrace: [][]interface{}{}}
			if s.depr {
				d.Ctor = "deprecated"
				if s.facade {
					d.Ctor = "facade"
				}
			}
			failAt := -1
			if s.rng.Intn(2) == 0 {
				failAt = s.rng.Intn(len(tg))
			}
			for pos, hid := range tg {
				sc := s.randomScript(pos, failAt)
				d.Handlers = append(d.Handlers, [2]int{hid, s.htypes[hid]})
				d.HPtr = append(d.HPtr, s.hptr[hid])
				d.Scripts = append(d.Scripts, sc)
				d.script[hid] = sc
			}
			msg := message.NewMessage(id, append([]byte(nil), raw.payload...))
			for k2, v := range raw.meta {
				msg.Metadata.Set(k2, v)
			}
			d.Meta = c15SortedMeta(s.in, msg.Metadata)
			ctx := context.WithValue(context.Background(), c15TagKey{}, d.Tag)
			if d.Stale {
				ctx = cqrs.CtxWithOriginalMessage(ctx, message.NewMessage("stale", nil))
			}
			ctx = context.WithValue(ctx, c15DelivKey{}, d)
			msg.SetContext(ctx)
			d.msg = msg
			s.byUUID.Store(id, d)
			ds = append(ds, d)
		}
	}

	ctx, cancel := context.WithCancel(context.Background())
	defer cancel()
	runErr := make(chan error, 1)
	go func() { runErr <- router.Run(ctx) }()
	select {
	case <-router.Running():
	case <-time.After(60 * time.Second):
		return nil, errors.New("router did not start")
	}
	var wg sync.WaitGroup
	for _, d := range ds {
		wg.Add(1)
		go func(d *c15Delivery) {
			defer wg.Done()
			hid := d.subIdx
			if subs[hid] == nil || !subs[hid].Emit(topics[hid], d.msg, 30*time.Second) {
				d.anomaly("message not taken by the router handler (no subscription on the generated topic)")
				return
			}
			d.Final = script.WaitSettled(d.msg, 30*time.Second)
			if d.Final == 0 {
				atomic.AddInt32(&c15Unsettled, 1)
			}
		}(d)
	}
	wg.Wait()
	if err := router.Close(); err != nil {
		return nil, fmt.Errorf("router close: %w", err)
	}
	select {
	case <-runErr:
	case <-time.After(60 * time.Second):
		return nil, errors.New("Run did not return after Close")
	}
	if s.lost > 0 {
		for _, d := range ds {
			d.anomaly(fmt.Sprintf("%d handler/OnHandle invocations with a context not derived from the message's", s.lost))
		}
	}
	return ds, nil
}

// ------------------------------------------------------------------ bus calls

type c15Snap struct {
	Obj     int      `json:"obj"`
	UUID    int      `json:"uuid"`
	Payload int      `json:"payload"`
	Meta    [][2]int `json:"meta"`
	Tag     int      `json:"tag"`
	Orig    int      `json:"orig"`
}

type c15Edit struct {
	Kind int `json:"kind"` // 0 set metadata, 1 set payload, 2 set uuid
	K    int `json:"k"`
	V    int `json:"v"`
	k, v string
}

type c15Hook struct {
	Edits []c15Edit `json:"edits"`
	Res   int       `json:"res"` // 0 nil, 1 error, 2 panic
}

type c15BusCall struct {
	Tab     int      `json:"tab"`
	BusKind int      `json:"buskind"` // 0 command, 1 event
	Ctor    string   `json:"ctor"`
	Val     [2]int   `json:"val"`
	Ptr     bool     `json:"ptr"`
	Depth   int      `json:"depth"` // pointer levels the value is passed through
	Topic   int      `json:"topic"` // what GeneratePublishTopic returns: >0 interned topic, 0 error, -1 panic
	Hook    *c15Hook `json:"hook"`
	Modify  *c15Hook `json:"modify"`
	Pub     int      `json:"pub"` // 0 accept 1 error 2 panic
	UUID    int      `json:"uuid"`
	Tag     int      `json:"tag"`
	Conc    int      `json:"conc"`

	Wrapped   bool            `json:"wrapped"`
	MTrace    [][]interface{} `json:"mtrace"`
	Trace     [][]interface{} `json:"trace"`
	Res       int             `json:"res"` // 0 ok, 1..5 marshal/topic/hook/modify/publish error, 6 panicked, 7 other error
	Anomalies []string        `json:"anomalies,omitempty"`

	Reread    int  `json:"reread"` // payload of the published message re-read after ALL calls of the scenario; -1 = nothing published
	RereadSame bool `json:"reread_same"` // uuid and metadata unchanged as well
	published *message.Message
	v         any
	plainSend bool
	uuidStr   string
	topicStr string
	objs     map[*message.Message]int
	mu       sync.Mutex
}

var (
	errC15Topic   = errors.New("scripted topic error")
	errC15Hook    = errors.New("scripted OnSend error")
	errC15Modify  = errors.New("scripted modify error")
	errC15Publish = errors.New("scripted publish error")
)

func (c *c15BusCall) snap(in *script.Interner, msg *message.Message) c15Snap {
	c.mu.Lock()
	defer c.mu.Unlock()
	o, ok := c.objs[msg]
	if !ok {
		o = len(c.objs) + 1
		c.objs[msg] = o
	}
	tag, _ := msg.Context().Value(c15TagKey{}).(int)
	orig := 0
	if cqrs.OriginalMessageFromCtx(msg.Context()) != nil {
		orig = 2
	}
	return c15Snap{Obj: o, UUID: in.ID(msg.UUID), Payload: in.ID("payload:" + string(msg.Payload)), Meta: c15SortedMeta(in, msg.Metadata), Tag: tag, Orig: orig}
}

func (c *c15BusCall) rec(ev ...interface{}) {
	c.mu.Lock()
	c.Trace = append(c.Trace, ev)
	c.mu.Unlock()
}

func c15ApplyHook(h *c15Hook, msg *message.Message, e error, what string) error {
	for _, ed := range h.Edits {
		switch ed.Kind {
		case 0:
			msg.Metadata.Set(ed.k, ed.v)
		case 1:
			msg.Payload = []byte(ed.v)
		default:
			msg.UUID = ed.v
		}
	}
	switch h.Res {
	case 0:
		return nil
	case 1:
		return e
	}
	panic("scripted " + what + " panic")
}

type c15BusScenario struct {
	in    *script.Interner
	rng   *rand.Rand
	tab   *c15Tab
	calls sync.Map // goroutine id -> *c15BusCall
}

func (b *c15BusScenario) cur() *c15BusCall {
	c, _ := b.calls.Load(c15Gid())
	if c == nil {
		return nil
	}
	return c.(*c15BusCall)
}

func (b *c15BusScenario) randomHook(what string) *c15Hook {
	h := &c15Hook{Edits: []c15Edit{}}
	ne := []int{0, 0, 1, 1, 2, 3}[b.rng.Intn(6)]
	for i := 0; i < ne; i++ {
		var e c15Edit
		switch k := b.rng.Intn(10); {
		case k < 5:
			e = c15Edit{Kind: 0, k: []string{"correlation", "a-key", "zz"}[b.rng.Intn(3)], v: fmt.Sprint(what, b.rng.Intn(3))}
		case k < 7:
			e = c15Edit{Kind: 0, k: "name", v: "overridden-by-" + what}
		case k < 9:
			e = c15Edit{Kind: 1, v: "payload set by " + what}
		default:
			e = c15Edit{Kind: 2, v: fmt.Sprint("uuid-by-", what, b.rng.Intn(3))}
		}
		switch e.Kind {
		case 0:
			e.K, e.V = b.in.ID(e.k), b.in.ID(e.v)
		case 1:
			e.V = b.in.ID("payload:" + e.v)
		default:
			e.V = b.in.ID(e.v)
		}
		h.Edits = append(h.Edits, e)
	}
	switch k := b.rng.Intn(10); {
	case k < 7:
		h.Res = 0
	case k < 9:
		h.Res = 1
	default:
		h.Res = 2
	}
	return h
}

func (b *c15BusScenario) run(sIdx, tabIdx, mk int) ([]*c15BusCall, error) {
	busKind := b.rng.Intn(2)
	depr := b.rng.Intn(4) == 0
	withHook := !depr && b.rng.Intn(3) > 0
	defaultUUID := b.rng.Intn(4) == 0
	var newUUID func() string
	if !defaultUUID {
		newUUID = func() string {
			if c := b.cur(); c != nil {
				return c.uuidStr
			}
			return "uuid-outside-call"
		}
	}
	var m cqrs.CommandEventMarshaler = c15Marshaler(mk, newUUID)
	busWrapped := b.rng.Intn(10) < 7
	if busWrapped {
		m = &c15RecMarshaler{inner: m, in: b.in, bus: b}
	}
	pub := &script.Publisher{OnPublish: func(call int, topic string, msgs []*message.Message) error {
		c := b.cur()
		if c == nil {
			return nil
		}
		if len(msgs) != 1 {
			c.rec("publish-n", len(msgs))
			return nil
		}
		c.rec("publish", b.in.ID(topic), c.snap(b.in, msgs[0]))
		c.mu.Lock()
		c.published = msgs[0] // kept, like a publisher that consumes later: re-read after the whole scenario
		c.mu.Unlock()
		switch c.Pub {
		case 0:
			return nil
		case 1:
			return errC15Publish
		}
		panic("scripted publisher panic")
	}}
	topicFn := func(name string, v any) (string, error) {
		c := b.cur()
		if c == nil {
			return "outside", nil
		}
		ty, cn := ct.Render(v)
		c.rec("topic", b.in.ID(name), ty, b.in.ID(cn))
		switch c.Topic {
		case 0:
			return "", errC15Topic
		case -1:
			panic("scripted topic panic")
		}
		return c.topicStr, nil
	}
	hookFn := func(name string, v any, msg *message.Message) error {
		c := b.cur()
		if c == nil {
			return nil
		}
		ty, cn := ct.Render(v)
		c.rec("hook", b.in.ID(name), ty, b.in.ID(cn), c.snap(b.in, msg))
		return c15ApplyHook(c.Hook, msg, errC15Hook, "OnSend")
	}
	var send func(ctx context.Context, c *c15BusCall) error
	if busKind == 0 {
		var bus *cqrs.CommandBus
		var err error
		if depr {
			bus, err = cqrs.NewCommandBus(pub, func(name string) string {
				// the deprecated topic function sees the name only
				c := b.cur()
				if c == nil {
					return "outside"
				}
				c.rec("topic", b.in.ID(name), c.Val[0], c.Val[1])
				return c.topicStr
			}, m)
		} else {
			cfg := cqrs.CommandBusConfig{Marshaler: m,
				GeneratePublishTopic: func(p cqrs.CommandBusGeneratePublishTopicParams) (string, error) { return topicFn(p.CommandName, p.Command) }}
			if withHook {
				cfg.OnSend = func(p cqrs.CommandBusOnSendParams) error { return hookFn(p.CommandName, p.Command, p.Message) }
			}
			bus, err = cqrs.NewCommandBusWithConfig(pub, cfg)
		}
		if err != nil {
			return nil, err
		}
		send = func(ctx context.Context, c *c15BusCall) error {
			if c.Modify == nil {
				if c.plainSend {
					return bus.Send(ctx, c.v)
				}
				return bus.SendWithModifiedMessage(ctx, c.v, nil)
			}
			return bus.SendWithModifiedMessage(ctx, c.v, func(msg *message.Message) error {
				c.rec("modify", c.snap(b.in, msg))
				return c15ApplyHook(c.Modify, msg, errC15Modify, "modify")
			})
		}
	} else {
		var bus *cqrs.EventBus
		var err error
		if depr {
			bus, err = cqrs.NewEventBus(pub, func(name string) string {
				c := b.cur()
				if c == nil {
					return "outside"
				}
				c.rec("topic", b.in.ID(name), c.Val[0], c.Val[1])
				return c.topicStr
			}, m)
		} else {
			cfg := cqrs.EventBusConfig{Marshaler: m,
				GeneratePublishTopic: func(p cqrs.GenerateEventPublishTopicParams) (string, error) { return topicFn(p.EventName, p.Event) }}
			if withHook {
				cfg.OnPublish = func(p cqrs.OnEventSendParams) error { return hookFn(p.EventName, p.Event, p.Message) }
			}
			bus, err = cqrs.NewEventBusWithConfig(pub, cfg)
		}
		if err != nil {
			return nil, err
		}
		send = func(ctx context.Context, c *c15BusCall) error { return bus.Publish(ctx, c.v) }
	}

	pool := []int{ct.TCmdA, ct.TCmdB, ct.TEvtC, ct.TNamed, ct.TBad, ct.TPStr}
	if c15IsProto(mk) {
		pool = []int{ct.TPStr, ct.TPInt, ct.TPDur, ct.TPStr, ct.TCmdA}
	}
	if mk == 6 {
		pool = []int{ct.TGStr, ct.TGInt, ct.TGStr, ct.TPStr, ct.TCmdA}
	}
	if mk == 7 {
		pool = []int{ct.TGStr, ct.TGInt, ct.TGStr, ct.TCmdA}
	}
	ncalls := 4 + b.rng.Intn(6)
	var cs []*c15BusCall
	as := []int{0, 1, 7, -3}
	bs := []string{"", "x", "héllo", "a b"}
	for k := 0; k < ncalls; k++ {
		ty := pool[b.rng.Intn(len(pool))]
		depth := c15Depth(b.rng, mk, ty)
		if c15IsProto(mk) && ty == ct.TCmdA {
			depth = 1
		}
		ptr := depth > 0
		v := ct.MakeDepth(ty, as[b.rng.Intn(len(as))], bs[b.rng.Intn(len(bs))], depth)
		key := b.tab.addValue(v)
		id := fmt.Sprintf("b%d-%d", sIdx, k)
		c := &c15BusCall{Tab: tabIdx, BusKind: busKind, Ctor: "config", Val: key, Ptr: ptr, Depth: depth, Tag: 1 + b.rng.Intn(5), v: v,
			uuidStr: "uuid-" + id, objs: map[*message.Message]int{}, Trace: [][]interface{}{}, Wrapped: busWrapped, MTrace: [][]interface{}{}}
		c.topicStr = fmt.Sprintf("topic-%d", b.rng.Intn(3))
		c.Topic = b.in.ID(c.topicStr)
		if !depr {
			switch r := b.rng.Intn(12); {
			case r == 0:
				c.Topic = 0
			case r == 1:
				c.Topic = -1
			}
		} else {
			c.Ctor = "deprecated"
		}
		if withHook {
			c.Hook = b.randomHook("OnSend")
		}
		if busKind == 0 && b.rng.Intn(2) == 0 {
			c.Modify = b.randomHook("modify")
		}
		c.plainSend = b.rng.Intn(2) == 0
		switch r := b.rng.Intn(10); {
		case r < 7:
			c.Pub = 0
		case r < 9:
			c.Pub = 1
		default:
			c.Pub = 2
		}
		if !defaultUUID {
			c.UUID = b.in.ID(c.uuidStr)
		}
		cs = append(cs, c)
	}
	// run them in batches of 1..4 concurrent calls on the same bus
	i := 0
	for i < len(cs) {
		nb := 1 + b.rng.Intn(4)
		if i+nb > len(cs) {
			nb = len(cs) - i
		}
		var wg sync.WaitGroup
		for _, c := range cs[i : i+nb] {
			c.Conc = nb
			wg.Add(1)
			runCall := func(c *c15BusCall) {
				defer wg.Done()
				g := c15Gid()
				b.calls.Store(g, c)
				defer b.calls.Delete(g)
				ctx := context.WithValue(context.Background(), c15TagKey{}, c.Tag)
				var err error
				func() {
					defer func() {
						if r := recover(); r != nil {
							c.Res = 6
						}
					}()
					err = send(ctx, c)
				}()
				if c.Res == 6 {
					return
				}
				var npm cqrs.NoProtoMessageError
				switch {
				case err == nil:
					c.Res = 0
				case errors.Is(err, ct.ErrMarshal) || errors.As(err, &npm):
					c.Res = 1
				case errors.Is(err, errC15Topic):
					c.Res = 2
				case errors.Is(err, errC15Hook):
					c.Res = 3
				case errors.Is(err, errC15Modify):
					c.Res = 4
				case errors.Is(err, errC15Publish):
					c.Res = 5
				default:
					c.Res = 7
					c.Anomalies = append(c.Anomalies, "unclassified error: "+err.Error())
				}
			}
			if nb == 1 {
				runCall(c) // sequential calls stay on the scenario's goroutine
			} else {
				go runCall(c)
			}
		}
		wg.Wait()
		i += nb
	}
	// ownership: every published message is read again only now, after all later calls
	for _, c := range cs {
		c.Reread = -1
		if c.published != nil {
			c.Reread = b.in.ID("payload:" + string(c.published.Payload))
			c.RereadSame = true
			for _, ev := range c.Trace {
				if ev[0] == "publish" {
					sn := ev[2].(c15Snap)
					now := c15SortedMeta(b.in, c.published.Metadata)
					if sn.UUID != b.in.ID(c.published.UUID) || len(now) != len(sn.Meta) {
						c.RereadSame = false
					} else {
						for k := range now {
							if now[k] != sn.Meta[k] {
								c.RereadSame = false
							}
						}
					}
				}
			}
		}
	}
	// default NewUUID: the library generates the uuid; take it from the first observation
	if defaultUUID {
		for _, c := range cs {
			for _, ev := range c.Trace {
				if sn, ok := ev[len(ev)-1].(c15Snap); ok {
					c.UUID = sn.UUID
					break
				}
			}
		}
	}
	return cs, nil
}

// ------------------------------------------------------------------ registration

type c15RegCase struct {
	Tab      int             `json:"tab"`
	Cmd      bool            `json:"cmd"`
	Handlers [][2]int        `json:"handlers"`
	Dup      int             `json:"dup"`   // name in DuplicateCommandHandlerError, 0 = no error
	Other    string          `json:"other"` // any other error
	Trace    [][]interface{} `json:"trace"`
	Subscribed []int         `json:"subscribed"` // topics the router handlers subscribe to (router never run: from Handlers())
}

func c15RunReg(in *script.Interner, rng *rand.Rand, tab *c15Tab, tabIdx, mk int) (*c15RegCase, error) {
	c := &c15RegCase{Tab: tabIdx, Cmd: rng.Intn(3) > 0, Trace: [][]interface{}{}}
	router, err := message.NewRouter(message.RouterConfig{}, watermill.NopLogger{})
	if err != nil {
		return nil, err
	}
	m := c15Marshaler(mk, nil)
	pool := []int{ct.TCmdA, ct.TCmdB, ct.TEvtC, ct.TNamed}
	if c15IsProto(mk) {
		pool = []int{ct.TPStr, ct.TPInt, ct.TPDur}
	}
	n := 1 + rng.Intn(5)
	hids := map[any]int{}
	nop := func(context.Context, any) error { return nil }
	rec := func(ev ...interface{}) { c.Trace = append(c.Trace, ev) }
	var addErr error
	if c.Cmd {
		hs := make([]cqrs.CommandHandler, n)
		for i := range hs {
			ty := pool[rng.Intn(len(pool))]
			hs[i] = c15CmdHandler(ty, fmt.Sprintf("r%d", i), nop)
			hids[hs[i]] = i
			c.Handlers = append(c.Handlers, [2]int{i, ty})
		}
		cp, err := cqrs.NewCommandProcessorWithConfig(router, cqrs.CommandProcessorConfig{
			GenerateSubscribeTopic: func(p cqrs.CommandProcessorGenerateSubscribeTopicParams) (string, error) {
				rec("topic", in.ID(p.CommandName), hids[p.CommandHandler])
				return "cmd." + p.CommandName, nil
			},
			SubscriberConstructor: func(p cqrs.CommandProcessorSubscriberConstructorParams) (message.Subscriber, error) {
				i := hids[p.Handler]
				if p.HandlerName != fmt.Sprintf("r%d", i) {
					i = 999
				}
				rec("sub", in.ID(p.CommandName), i)
				return script.NewSubscriber(true), nil
			},
			Marshaler: m})
		if err != nil {
			return nil, err
		}
		addErr = cp.AddHandlers(hs...)
		if addErr == nil && len(cp.Handlers()) != n {
			c.Other = "Handlers() does not list the added handlers"
		}
	} else {
		hs := make([]cqrs.EventHandler, n)
		for i := range hs {
			ty := pool[rng.Intn(len(pool))]
			hs[i] = c15EvtHandler(ty, fmt.Sprintf("r%d", i), nop)
			hids[hs[i]] = i
			c.Handlers = append(c.Handlers, [2]int{i, ty})
		}
		ep, err := cqrs.NewEventProcessorWithConfig(router, cqrs.EventProcessorConfig{
			GenerateSubscribeTopic: func(p cqrs.EventProcessorGenerateSubscribeTopicParams) (string, error) {
				rec("topic", in.ID(p.EventName), hids[p.EventHandler])
				return "evt." + p.EventName, nil
			},
			SubscriberConstructor: func(p cqrs.EventProcessorSubscriberConstructorParams) (message.Subscriber, error) {
				i := hids[p.EventHandler]
				if p.HandlerName != fmt.Sprintf("r%d", i) {
					i = 999
				}
				rec("sub", in.ID(p.EventName), i)
				return script.NewSubscriber(true), nil
			},
			Marshaler: m})
		if err != nil {
			return nil, err
		}
		addErr = ep.AddHandlers(hs...)
		if addErr == nil && len(ep.Handlers()) != n {
			c.Other = "Handlers() does not list the added handlers"
		}
	}
	var dup cqrs.DuplicateCommandHandlerError
	switch {
	case addErr == nil:
	case errors.As(addErr, &dup):
		c.Dup = in.ID(dup.CommandName)
	default:
		c.Other = addErr.Error()
	}
	nrh := len(router.Handlers())
	want := n
	if addErr != nil {
		want = 0
	}
	if nrh != want && c.Other == "" {
		c.Other = fmt.Sprintf("%d router handlers after AddHandlers of %d handlers (error: %v)", nrh, n, addErr)
	}
	return c, nil
}

// ------------------------------------------------------------------ name.go called directly

// c15NameCase: one of the exported name functions applied to a value of a harness type passed
// through Depth pointer levels.
type c15NameCase struct {
	Gen   int    `json:"gen"` // 0 FullyQualifiedStructName, 1 StructName, 2 NamedStruct(FullyQualified), 3 NamedStruct(StructName), 4 NamedStruct(NamedStruct(StructName))
	Ty    int    `json:"ty"`
	Depth int    `json:"depth"`
	Base  []byte `json:"-"`
	BaseS string `json:"base"`
	Own   string `json:"own"` // what the type's Name method returns ("" = the type has none)
	Obs   string `json:"obs"`
}

func c15NameCases() []c15NameCase {
	gens := []func(interface{}) string{cqrs.FullyQualifiedStructName, cqrs.StructName, cqrs.NamedStruct(cqrs.FullyQualifiedStructName),
		cqrs.NamedStruct(cqrs.StructName), cqrs.NamedStruct(cqrs.NamedStruct(cqrs.StructName))}
	var out []c15NameCase
	for g, f := range gens {
		for ty := 1; ty <= ct.NTypes; ty++ {
			for depth := 0; depth <= 3; depth++ {
				v := ct.MakeDepth(ty, 1, "x", depth)
				c := c15NameCase{Gen: g, Ty: ty, Depth: ct.Depth(v), BaseS: ct.BaseName(ty)}
				if ty == ct.TNamed {
					c.Own = "named:x"
				}
				func() {
					defer func() {
						if r := recover(); r != nil {
							c.Obs = fmt.Sprint("panic: ", r)
						}
					}()
					c.Obs = f(v)
				}()
				out = append(out, c)
			}
		}
	}
	return out
}

// ------------------------------------------------------------------ command

type c15Out struct {
	NameCases  []c15NameCase    `json:"namecases"`
	RegCases   []*c15RegCase    `json:"regcases"`
	RegScripts []*c15RegScript  `json:"regscripts"`
	Tabs       []*c15Tab        `json:"tabs"`
	Deliveries []*c15Delivery   `json:"deliveries"`
	Bus        []*c15BusCall    `json:"bus"`
	Reg        [][]interface{}  `json:"reg"`
	Strings    int              `json:"strings"`
	Table      []string         `json:"table"` // the interned strings (names, topics, payloads, value renderings), for readable replays
}

func cmdC15(args []string) error {
	fs, out, seed := newFlags("c15")
	nScen := fs.Int("n", 120, "processor scenarios")
	nBus := fs.Int("nbus", 80, "bus scenarios")
	fs.Parse(args)
	rng := rand.New(rand.NewSource(*seed))
	in := script.NewInterner()
	in.ID("name") // KNAME = 1
	rt := hookrt.Install(*seed)
	defer hookrt.Uninstall()
	res := &c15Out{}

	var curScn atomic.Pointer[c15Scenario]
	rt.Reset()
	rt.Perturb("message.ack.locked", 0.3)
	rt.Perturb("message.nack.locked", 0.3)
	rt.Filter(func(point string, keys []string) bool {
		ack := point == "message.ack.locked"
		if (!ack && point != "message.nack.locked") || len(keys) == 0 {
			return false
		}
		if s := curScn.Load(); s != nil {
			if x, ok := s.byUUID.Load(keys[0]); ok {
				d := x.(*c15Delivery)
				d.mu.Lock()
				if !d.inPre {
					d.Settles = append(d.Settles, ack)
				}
				d.mu.Unlock()
			}
		}
		return false
	})

	for i := 0; i < *nScen; i++ {
		s := &c15Scenario{in: in, rng: rng}
		s.wrapped = rng.Intn(10) < 7
		s.facade = rng.Intn(2) == 0 // only used by deprecated command / event scenarios
		s.mk = []int{0, 0, 1, 2, 3, 3, 4, 5, 6, 7}[rng.Intn(10)]
		s.kind = []int{0, 1, 2, 2}[rng.Intn(4)]
		s.depr = s.kind != 2 && rng.Intn(5) == 0
		s.ackErrors = rng.Intn(2) == 0
		s.ackUnk = rng.Intn(2) == 0
		if rng.Intn(3) == 0 {
			s.onHandle = 1 + rng.Intn(5)
		}
		if s.depr {
			// the deprecated constructors: no OnHandle, no AckCommandHandlingErrors, AckOnUnknownEvent = true
			s.onHandle, s.ackErrors, s.ackUnk = 0, false, true
		}
		if s.kind != 0 {
			s.ackErrors = false
		}
		pool := s.typePool()
		nh := []int{1, 1, 2, 3, 3, 4, 5}[rng.Intn(7)]
		dupP := 4
		if s.kind == 2 {
			nh = []int{1, 2, 3, 4, 5, 6, 6}[rng.Intn(7)]
			dupP = 6
		}
		for j := 0; j < nh; j++ {
			if j > 0 && rng.Intn(10) < dupP {
				s.htypes = append(s.htypes, s.htypes[rng.Intn(j)])
			} else {
				s.htypes = append(s.htypes, pool[rng.Intn(len(pool))])
			}
		}
		s.hptr = make([]bool, len(s.htypes))
		for j, ty := range s.htypes {
			s.hptr[j] = c15PtrInstantiable(s.mk, ty) && rng.Intn(10) < 3
		}
		s.tab = newC15Tab(s.mk, in)
		s.tabIdx = len(res.Tabs)
		res.Tabs = append(res.Tabs, s.tab)
		curScn.Store(s)
		if atomic.LoadInt32(&c15Unsettled) >= 3 {
			break
		}
		var ds []*c15Delivery
		var err error
		func() {
			defer func() {
				if pv := recover(); pv != nil {
					// registering the scenario's handlers panicked (e.g. a router-handler name that is not the
					// cqrs handler's HandlerName collides): reported as a delivery that could not be made
					ds = []*c15Delivery{{ID: fmt.Sprintf("s%d-setup", i), Tab: s.tabIdx, Kind: s.kind, Ctor: "config", Source: "setup", Trace: [][]interface{}{}, Settles: []bool{},
						Handlers: [][2]int{}, Scripts: [][2]int{}, Meta: [][2]int{},
						Anomalies: []string{fmt.Sprintf("registering the handlers on the Router panicked: %v", pv)}}}
					err = nil
				}
			}()
			ds, err = s.run(i)
		}()
		if err != nil {
			return fmt.Errorf("scenario %d: %w", i, err)
		}
		res.Deliveries = append(res.Deliveries, ds...)
		res.Reg = append(res.Reg, s.Reg...)
	}
	curScn.Store(nil)

	for i := 0; i < *nBus; i++ {
		mk := []int{0, 0, 1, 2, 3, 4, 5, 6, 7}[rng.Intn(9)]
		b := &c15BusScenario{in: in, rng: rng, tab: newC15Tab(mk, in)}
		tabIdx := len(res.Tabs)
		res.Tabs = append(res.Tabs, b.tab)
		cs, err := b.run(i, tabIdx, mk)
		if err != nil {
			return fmt.Errorf("bus scenario %d: %w", i, err)
		}
		res.Bus = append(res.Bus, cs...)
	}
	for i := 0; i < *nBus; i++ {
		mk := []int{0, 1, 2, 3, 3, 4, 5}[rng.Intn(7)]
		tab := newC15Tab(mk, in)
		tabIdx := len(res.Tabs)
		res.Tabs = append(res.Tabs, tab)
		c, err := c15RunReg(in, rng, tab, tabIdx, mk)
		if err != nil {
			return fmt.Errorf("registration scenario %d: %w", i, err)
		}
		res.RegCases = append(res.RegCases, c)
	}
	for i := 0; i < 2**nBus; i++ {
		mk := []int{0, 1, 2, 3, 3, 4, 5}[rng.Intn(7)]
		tab := newC15Tab(mk, in)
		tabIdx := len(res.Tabs)
		res.Tabs = append(res.Tabs, tab)
		sc, err := c15RunRegScript(in, rng, tab, tabIdx, mk)
		if err != nil {
			return fmt.Errorf("registration script %d: %w", i, err)
		}
		res.RegScripts = append(res.RegScripts, sc)
	}
	res.NameCases = c15NameCases()
	res.Strings = len(in.Tab)
	res.Table = in.Tab
	return writeJSON(*out, res)
}

func init() { register("c15", cmdC15) }
