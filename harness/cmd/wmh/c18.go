//go:build verif

package main

// C18 - request-reply.  Drives the REAL requestreply.PubSubBackend + cqrs.CommandBus +
// cqrs.CommandProcessor + requestreply.NewCommandHandler[WithResult] on a real Router over a real
// GoChannel: several concurrent requesters share ONE reply topic; commands are redelivered after
// a Nack (several replies per request); callers read 0/1/all replies and then cancel / have
// their parent context cancelled / run into ListenForReplyTimeout, keep reading or stop;
// handlers return results and errors with AckCommandErrors on/off; the reply publisher fails on
// scripted deliveries (with and without ReplyPublishErrorHandler); handlers inject foreign,
// id-less and malformed notifications into the reply topic.  A watchdog decides whether each
// listener finished; one that did not is confirmed parked by a goroutine dump.

import (
	"context"
	"encoding/json"
	"errors"
	"fmt"
	"math/rand"
	"runtime"
	"strings"
	"sync"
	"time"

	"github.com/ThreeDotsLabs/watermill"
	"github.com/ThreeDotsLabs/watermill/components/cqrs"
	"github.com/ThreeDotsLabs/watermill/components/requestreply"
	"github.com/ThreeDotsLabs/watermill/message"
	"github.com/ThreeDotsLabs/watermill/pubsub/gochannel"

	"wmverif/hookrt"
	"wmverif/script"
)

type c18Cmd struct {
	ID string `json:"id"`
}

// a second command type with its own handler: the Router runs the two handlers concurrently
// (one subscription delivers one message at a time, two subscriptions overlap)
type c18Cmd2 struct {
	ID string `json:"id"`
}

func c18CmdID(c any) string {
	switch x := c.(type) {
	case *c18Cmd:
		return x.ID
	case *c18Cmd2:
		return x.ID
	}
	return ""
}

type c18Res struct {
	V string `json:"v"`
}

const c18ReplyTopic = "replies"

// one delivery of the command, as scripted
type c18Step struct {
	Res     string `json:"res"`
	Fail    bool   `json:"fail"`    // the handler returns an error ...
	ErrKind int    `json:"errkind"` // ... of this kind: 0 errors.New(text), 1 wrapping a base error, 2 context.Canceled, 3 context.DeadlineExceeded,
	// 4 its own ctx.Err() after its (= the message's) context was cancelled, 5 an error wrapping that, 6 its own ctx.Err() after its context timed out
	Err     string `json:"err"`     // ... with this text (the empty text is a legal error text)
	PubFail bool   `json:"pubfail"` // the reply publisher fails for this delivery
	Swallow bool   `json:"swallow"` // ReplyPublishErrorHandler (if configured) returns nil
	Inject  []int  `json:"inject"`  // published on the reply topic before the handler returns:
	// 1 foreign op id, 2 no op id, 3 own op id + malformed payload, 4 foreign + malformed, 5 own op id, error reply,
	// 6 own op id, has_error=1 with EMPTY error text, 7 own op id, has_error=0 although an error text is present
}

type c18Notif struct {
	ID     int  `json:"id"`
	Op     int  `json:"op"`
	Pay    int  `json:"pay"`
	HasErr bool `json:"haserr"`
	Err    int  `json:"err"`
}

type c18Reply struct {
	Kind   int  `json:"kind"` // 0 own, 1 unmarshal, 2 timeout, 3 subscriber closed, 9 unclassifiable
	Res    int  `json:"res"`
	HasErr bool `json:"haserr"` // Reply.Error != nil (handler error)
	Err    int  `json:"err"`    // interned text of the handler error (0 = "")
	Nid    int  `json:"nid"`
}

type c18Delivery struct {
	K        int             `json:"k"`
	Op       int             `json:"op"`     // op id metadata of the command message
	Res      int             `json:"res"`    // interned result
	HasErr   bool            `json:"haserr"` // the handler returned an error
	ErrKind  int             `json:"errkind"`
	CtxState int             `json:"ctxstate"` // handler context when it returned: 0 live, 1 cancelled, 2 timed out
	Err      int             `json:"err"`      // interned error text (0 = "")
	Nid      int             `json:"nid"`      // uuid of the published notification (0 if none)
	Enc      [2]int          `json:"enc"`      // harness json.Marshal(result): res id -> payload id (-1 = error)
	Step     c18Step         `json:"step"`
	Events   [][]interface{} `json:"events"`
}

type c18Req struct {
	ID    string    `json:"id"`
	API   int       `json:"api"` // 0 SendWithReplies, 1 SendWithReply
	Steps []c18Step `json:"steps"`
	Reads int       `json:"reads"`
	End   int       `json:"end"`   // 0 cancel func, 1 parent context cancelled, 2 backend timeout
	Sync  bool      `json:"sync"`  // end only once the listener has its next replies in hand
	Drain bool      `json:"drain"` // keep reading after the end until the channel is closed
	Kind2 bool      `json:"kind2"` // sends the second command type (handled by the second handler)

	// observed
	Op         int             `json:"op"`
	SendErr    string          `json:"send_err"`
	Stream     []c18Notif      `json:"stream"`
	Dec        [][2]int        `json:"dec"`
	Consumed   int             `json:"consumed"`
	Acked      []int           `json:"acked"`
	Pre        []c18Reply      `json:"pre"`
	Got        []c18Reply      `json:"got"`
	Rest       []c18Reply      `json:"rest"`
	Closed     bool            `json:"closed"`
	Hooks      int             `json:"hooks"`
	Ctx        bool            `json:"ctx"`
	Done       bool            `json:"done"`   // the listener goroutine ran to its end (finished stamp)
	Parked     bool            `json:"parked"` // not finished and a listener goroutine is parked in a channel send
	Events     [][]interface{} `json:"events"` // hook + caller stamps of this request, in stamp order
	Deliveries []*c18Delivery  `json:"deliveries"`
	ReadTO     int             `json:"read_timeouts"`

	mu       sync.Mutex
	opid     string
	offered  []*message.Message
	cur      *c18Delivery
	nDeliv   int
	bsCount  int // before_send stamps of this listener
	finished bool
	ch       <-chan requestreply.Reply[c18Res]
	chNo     <-chan requestreply.Reply[struct{}]
	cancel   func()
	pcancel  func()
	cmdUUID  string
}

type c18Scenario struct {
	Index           int       `json:"index"`
	AckErrors       bool      `json:"ack_errors"`
	HasErrH         bool      `json:"has_errh"`
	HasModify       bool      `json:"has_modify"`
	HasHook         bool      `json:"has_hook"`
	WithResult      bool      `json:"with_result"`
	TimeoutMs       int       `json:"timeout_ms"`
	CustomMarshaler bool      `json:"custom_marshaler"` // a BackendPubsubMarshaler that writes a bogus operation id and extra keys
	Reqs            []*c18Req `json:"reqs"`
	ParkedG         int       `json:"parked_goroutines"`
	Overlapped      int       `json:"overlapped"` // two deliveries were together between "op id stamped" and "reply published"
	WaitedMs        int       `json:"waited_ms"`
	Problems        []string  `json:"problems"`
}

// a custom BackendPubsubMarshaler: the JSON one, but MarshalReply writes its own (wrong) operation id
// and an extra key; the backend stamps the command's id afterwards, so nothing observable may change
type c18Marsh[R any] struct {
	inner requestreply.BackendPubsubJSONMarshaler[R]
}

func (m c18Marsh[R]) MarshalReply(p requestreply.BackendOnCommandProcessedParams[R]) (*message.Message, error) {
	msg, err := m.inner.MarshalReply(p)
	if err != nil {
		return nil, err
	}
	msg.Metadata.Set(requestreply.OperationIDMetadataKey, "bogus-from-marshaler")
	msg.Metadata.Set("x-extra", "1")
	return msg, nil
}
func (m c18Marsh[R]) UnmarshalReply(msg *message.Message) (requestreply.Reply[R], error) {
	return m.inner.UnmarshalReply(msg)
}

func c18PickMarshaler[R any](custom bool) requestreply.BackendPubsubMarshaler[R] {
	if custom {
		return c18Marsh[R]{}
	}
	return requestreply.BackendPubsubJSONMarshaler[R]{}
}

type c18World struct {
	sc         *c18Scenario
	in         *script.Interner
	rt         *hookrt.Runtime
	pubsub     *gochannel.GoChannel
	mu         sync.Mutex
	byID       map[string]*c18Req
	byOp       map[string]*c18Req
	byCmd      map[string]*c18Req
	hooks      map[string]int
	inModify   int // deliveries currently inside ModifyNotificationMessage (between "op id stamped" and "published")
	overlapped int // how often two deliveries were inside that window together
}

func (w *c18World) newCmd(req *c18Req) any {
	if req.Kind2 {
		return &c18Cmd2{ID: req.ID}
	}
	return &c18Cmd{ID: req.ID}
}

// the request a notification message belongs to: by the command message in the context the backend gave it
// (OnCommandProcessed sets the handler's context on the notification), not by what its metadata says
func (w *c18World) reqOfMsg(m *message.Message) *c18Req {
	if orig := cqrs.OriginalMessageFromCtx(m.Context()); orig != nil {
		w.mu.Lock()
		r := w.byCmd[orig.UUID]
		w.mu.Unlock()
		if r != nil {
			return r
		}
	}
	return w.reqByOp(m.Metadata.Get(requestreply.OperationIDMetadataKey))
}

func (r *c18Req) ev(d *c18Delivery, e ...interface{}) {
	r.mu.Lock()
	d.Events = append(d.Events, e)
	r.mu.Unlock()
}

func (r *c18Req) opID() string {
	r.mu.Lock()
	defer r.mu.Unlock()
	return r.opid
}

func (w *c18World) reqByOp(op string) *c18Req {
	w.mu.Lock()
	defer w.mu.Unlock()
	return w.byOp[op]
}

// ---------------------------------------------------------------- collaborators

// the Subscriber handed to the backend: forwards the GoChannel subscription one message at a
// time and records what was offered to / taken by the listener, in order
type c18Pump struct {
	w   *c18World
	req *c18Req
}

func (p *c18Pump) Subscribe(ctx context.Context, topic string) (<-chan *message.Message, error) {
	in, err := p.w.pubsub.Subscribe(ctx, topic)
	if err != nil {
		return nil, err
	}
	out := make(chan *message.Message)
	go func() {
		defer close(out)
		for m := range in {
			p.req.mu.Lock()
			p.req.offered = append(p.req.offered, m)
			p.req.mu.Unlock()
			select {
			case out <- m:
				p.req.mu.Lock()
				p.req.Consumed++
				p.req.mu.Unlock()
			case <-ctx.Done():
				// same as GoChannel's own select { out <- msg | <-closing }: the message is dropped
				for range in {
				}
				return
			}
		}
	}()
	return out, nil
}
func (p *c18Pump) Close() error { return nil }

// the backend's reply Publisher
type c18ReplyPub struct{ w *c18World }

func (p *c18ReplyPub) Publish(topic string, msgs ...*message.Message) error {
	if len(msgs) != 1 {
		p.w.problem("reply publisher called with %d messages", len(msgs))
		return nil
	}
	m := msgs[0]
	req := p.w.reqOfMsg(m)
	if req == nil {
		p.w.problem("reply published with unknown op id %q", m.Metadata.Get(requestreply.OperationIDMetadataKey))
		return p.w.pubsub.Publish(topic, msgs...)
	}
	req.mu.Lock()
	d := req.cur
	req.mu.Unlock()
	if d == nil {
		p.w.problem("reply published outside a delivery")
		return p.w.pubsub.Publish(topic, msgs...)
	}
	n := p.w.notif(m)
	topicOK := topic == c18ReplyTopic
	d.Nid = n.ID
	req.ev(d, "publish", n.ID, n.Op, n.Pay, n.HasErr, n.Err, topicOK)
	if d.Step.PubFail {
		req.ev(d, "pubret", false)
		return errors.New("scripted reply publish failure")
	}
	err := p.w.pubsub.Publish(topic, msgs...)
	req.ev(d, "pubret", err == nil)
	return err
}
func (p *c18ReplyPub) Close() error { return nil }

func (w *c18World) problem(f string, a ...interface{}) {
	w.mu.Lock()
	w.sc.Problems = append(w.sc.Problems, fmt.Sprintf(f, a...))
	w.mu.Unlock()
}

func (w *c18World) notif(m *message.Message) c18Notif {
	return c18Notif{
		ID:     w.in.ID("u:" + m.UUID),
		Op:     w.opID(m.Metadata.Get(requestreply.OperationIDMetadataKey)),
		Pay:    w.in.ID("p:" + string(m.Payload)),
		HasErr: m.Metadata.Get(requestreply.HasErrorMetadataKey) == "1",
		Err:    w.errID(m.Metadata.Get(requestreply.ErrorMetadataKey)),
	}
}
func (w *c18World) opID(s string) int {
	if s == "" {
		return 0
	}
	return w.in.ID("o:" + s)
}
func (w *c18World) errID(s string) int {
	if s == "" {
		return 0
	}
	return w.in.ID("e:" + s)
}
func (w *c18World) resID(v interface{}) int {
	b, err := json.Marshal(v)
	if err != nil {
		return -1
	}
	return w.in.ID("r:" + string(b))
}

// json.Unmarshal as the JSON marshaler of the backend does it, by the harness itself
func (w *c18World) decode(payload []byte) int {
	if w.sc.WithResult {
		var r c18Res
		if err := json.Unmarshal(payload, &r); err != nil {
			return -1
		}
		return w.resID(r)
	}
	var r struct{}
	if err := json.Unmarshal(payload, &r); err != nil {
		return -1
	}
	return w.resID(r)
}

func (w *c18World) classify(err error, res interface{}, nm *message.Message) c18Reply {
	r := c18Reply{Res: w.resID(res)}
	if nm != nil {
		r.Nid = w.in.ID("u:" + nm.UUID)
	}
	var te requestreply.ReplyTimeoutError
	var ue requestreply.ReplyUnmarshalError
	switch {
	case err == nil:
		r.Kind = 0
	case errors.As(err, &te):
		if te.Err != nil && te.Err.Error() == "subscriber closed" {
			r.Kind = 3
		} else if errors.Is(te.Err, context.Canceled) || errors.Is(te.Err, context.DeadlineExceeded) {
			r.Kind = 2
		} else {
			r.Kind = 9
		}
		if nm != nil {
			r.Kind = 9
		}
	case errors.As(err, &ue):
		r.Kind = 1
		if nm != nil {
			r.Kind = 9
		}
	default:
		r.Kind = 0
		r.HasErr = true
		r.Err = w.errID(err.Error())
	}
	return r
}

// the scripted command handler body
func (w *c18World) handle(ctx context.Context, cmd *c18Cmd) (c18Res, error) {
	w.mu.Lock()
	req := w.byID[cmd.ID]
	w.mu.Unlock()
	if req == nil {
		w.problem("handler called for unknown command %q", cmd.ID)
		return c18Res{}, nil
	}
	orig := cqrs.OriginalMessageFromCtx(ctx)
	req.mu.Lock()
	k := req.nDeliv
	req.nDeliv++
	step := req.Steps[len(req.Steps)-1]
	if k < len(req.Steps) {
		step = req.Steps[k]
	}
	d := &c18Delivery{K: k, Step: step}
	res := c18Res{V: step.Res}
	if w.sc.WithResult {
		d.Res = w.resID(res)
	} else {
		d.Res = w.resID(struct{}{})
	}
	var herr error
	if step.Fail {
		ctl, _ := ctx.Value(c18CtlKey{}).(*c18CtxCtl)
		switch step.ErrKind {
		case 1:
			herr = fmt.Errorf("%s: %w", step.Err, errors.New("base cause"))
		case 2:
			herr = context.Canceled
		case 3:
			herr = context.DeadlineExceeded
		case 4, 5:
			if ctl != nil {
				ctl.cancel()
				d.CtxState = 1
			}
			herr = ctx.Err()
			if herr == nil {
				herr = context.Canceled
			}
			if step.ErrKind == 5 {
				herr = fmt.Errorf("interrupted: %w", herr)
			}
		case 6:
			select {
			case <-ctx.Done():
				d.CtxState = 2
			case <-time.After(2 * time.Second):
			}
			herr = ctx.Err()
			if herr == nil {
				herr = context.DeadlineExceeded
			}
		default:
			herr = errors.New(step.Err)
		}
		d.HasErr, d.ErrKind = true, step.ErrKind
		d.Err = w.errID(herr.Error())
	}
	if orig != nil {
		d.Op = w.opID(orig.Metadata.Get(requestreply.OperationIDMetadataKey))
		if req.cmdUUID == "" {
			req.cmdUUID = orig.UUID
			w.mu.Lock()
			w.byCmd[orig.UUID] = req
			w.mu.Unlock()
		}
	}
	var pay []byte
	if w.sc.WithResult {
		pay, _ = json.Marshal(res)
	} else {
		pay, _ = json.Marshal(struct{}{})
	}
	d.Enc = [2]int{d.Res, w.in.ID("p:" + string(pay))}
	d.Events = append(d.Events, []interface{}{"call"})
	req.cur = d
	req.Deliveries = append(req.Deliveries, d)
	opid := req.opid
	req.mu.Unlock()

	for j, kind := range step.Inject {
		m := message.NewMessage(fmt.Sprintf("junk-%s-%d-%d", req.ID, k, j), []byte(`{"v":"junk"}`))
		switch kind {
		case 1:
			m.Metadata.Set(requestreply.OperationIDMetadataKey, "someone-else")
			m.Metadata.Set(requestreply.HasErrorMetadataKey, "0")
		case 2:
			m.Metadata.Set(requestreply.HasErrorMetadataKey, "0")
		case 3:
			m.Metadata.Set(requestreply.OperationIDMetadataKey, opid)
			m.Metadata.Set(requestreply.HasErrorMetadataKey, "0")
			m.Payload = []byte(`{"v":`)
		case 4:
			m.Metadata.Set(requestreply.OperationIDMetadataKey, "someone-else")
			m.Payload = []byte(`not json`)
		case 6:
			m.Metadata.Set(requestreply.OperationIDMetadataKey, opid)
			m.Metadata.Set(requestreply.HasErrorMetadataKey, "1")
			m.Metadata.Set(requestreply.ErrorMetadataKey, "")
			if !w.sc.WithResult {
				m.Payload = []byte(`{}`)
			}
		case 7:
			m.Metadata.Set(requestreply.OperationIDMetadataKey, opid)
			m.Metadata.Set(requestreply.HasErrorMetadataKey, "0")
			m.Metadata.Set(requestreply.ErrorMetadataKey, "stale error text "+req.ID)
			if !w.sc.WithResult {
				m.Payload = []byte(`{}`)
			}
		default:
			m.Metadata.Set(requestreply.OperationIDMetadataKey, opid)
			m.Metadata.Set(requestreply.HasErrorMetadataKey, "1")
			m.Metadata.Set(requestreply.ErrorMetadataKey, "injected error "+req.ID)
			if !w.sc.WithResult {
				m.Payload = []byte(`{}`)
			}
		}
		if err := w.pubsub.Publish(c18ReplyTopic, m); err != nil {
			w.problem("inject: %v", err)
		}
	}
	if step.Fail {
		return res, herr
	}
	return res, nil
}

// router middleware: every message gets a cancellable context of its own (what middleware.Timeout, a closing
// router or a subscriber going away do to a handler); a handler scripted to fail with its context's own error
// cancels it through c18CtxCtl, or finds it already running out
type c18CtlKey struct{}
type c18CtxCtl struct{ cancel func() }

func (w *c18World) ctxMiddleware(h message.HandlerFunc) message.HandlerFunc {
	return func(msg *message.Message) ([]*message.Message, error) {
		timedOut := false
		var id struct {
			ID string `json:"id"`
		}
		if json.Unmarshal(msg.Payload, &id) == nil {
			w.mu.Lock()
			req := w.byID[id.ID]
			w.mu.Unlock()
			if req != nil {
				req.mu.Lock()
				k := req.nDeliv
				if k >= len(req.Steps) {
					k = len(req.Steps) - 1
				}
				timedOut = req.Steps[k].Fail && req.Steps[k].ErrKind == 6
				req.mu.Unlock()
			}
		}
		var ctx context.Context
		var cancel func()
		if timedOut {
			ctx, cancel = context.WithTimeout(msg.Context(), 300*time.Microsecond)
		} else {
			ctx, cancel = context.WithCancel(msg.Context())
		}
		defer cancel()
		msg.SetContext(context.WithValue(ctx, c18CtlKey{}, &c18CtxCtl{cancel: cancel}))
		return h(msg)
	}
}

// ---------------------------------------------------------------- backend wrappers (remember the reply channel)

type c18Backend struct {
	*requestreply.PubSubBackend[c18Res]
	w *c18World
}

func (b c18Backend) ListenForNotifications(ctx context.Context, params requestreply.BackendListenForNotificationsParams) (<-chan requestreply.Reply[c18Res], error) {
	ch, err := b.PubSubBackend.ListenForNotifications(ctx, params)
	if req := b.w.reqByOp(string(params.OperationID)); req != nil && err == nil {
		req.mu.Lock()
		req.ch = ch
		req.mu.Unlock()
	}
	return ch, err
}

type c18BackendNo struct {
	*requestreply.PubSubBackend[struct{}]
	w *c18World
}

func (b c18BackendNo) ListenForNotifications(ctx context.Context, params requestreply.BackendListenForNotificationsParams) (<-chan requestreply.Reply[struct{}], error) {
	ch, err := b.PubSubBackend.ListenForNotifications(ctx, params)
	if req := b.w.reqByOp(string(params.OperationID)); req != nil && err == nil {
		req.mu.Lock()
		req.chNo = ch
		req.mu.Unlock()
	}
	return ch, err
}

// a uniform view of the two instantiations for the caller programs
type c18Chan struct {
	recv func(d time.Duration) (r c18Reply, ok bool, timedOut bool)
	poll func() (r c18Reply, ok bool, empty bool)
}

func (w *c18World) chanOf(req *c18Req) *c18Chan {
	req.mu.Lock()
	ch, chNo := req.ch, req.chNo
	req.mu.Unlock()
	if ch != nil {
		return &c18Chan{
			recv: func(d time.Duration) (c18Reply, bool, bool) {
				select {
				case r, ok := <-ch:
					if !ok {
						return c18Reply{}, false, false
					}
					return w.classify(r.Error, r.HandlerResult, r.NotificationMessage), true, false
				case <-time.After(d):
					return c18Reply{}, false, true
				}
			},
			poll: func() (c18Reply, bool, bool) {
				select {
				case r, ok := <-ch:
					if !ok {
						return c18Reply{}, false, false
					}
					return w.classify(r.Error, r.HandlerResult, r.NotificationMessage), true, false
				default:
					return c18Reply{}, false, true
				}
			},
		}
	}
	if chNo != nil {
		return &c18Chan{
			recv: func(d time.Duration) (c18Reply, bool, bool) {
				select {
				case r, ok := <-chNo:
					if !ok {
						return c18Reply{}, false, false
					}
					return w.classify(r.Error, r.HandlerResult, r.NotificationMessage), true, false
				case <-time.After(d):
					return c18Reply{}, false, true
				}
			},
			poll: func() (c18Reply, bool, bool) {
				select {
				case r, ok := <-chNo:
					if !ok {
						return c18Reply{}, false, false
					}
					return w.classify(r.Error, r.HandlerResult, r.NotificationMessage), true, false
				default:
					return c18Reply{}, false, true
				}
			},
		}
	}
	return nil
}

// ---------------------------------------------------------------- the caller programs

// number of own notifications the listener of req will be offered, from the script
func (w *c18World) expectedOwn(req *c18Req) int {
	n := 0
	for k := 0; ; k++ {
		st := req.Steps[len(req.Steps)-1]
		if k < len(req.Steps) {
			st = req.Steps[k]
		}
		for _, j := range st.Inject {
			if j == 3 || j >= 5 {
				n++
			}
		}
		out := !st.PubFail
		if out {
			n++
		}
		acked := (out || (w.sc.HasErrH && st.Swallow)) && (w.sc.AckErrors || !st.Fail)
		if acked || k > 20 {
			return n
		}
	}
}

func (w *c18World) runCaller(req *c18Req, sendRes func(ctx context.Context) error, sendReplies func(ctx context.Context) (func(), error)) {
	parent, pcancel := context.WithCancel(context.Background())
	req.pcancel = pcancel
	readWait := 3 * time.Second
	expected := w.expectedOwn(req)

	waitListener := func(reads int) {
		if !req.Sync {
			return
		}
		want := reads + 2
		if want > expected {
			want = expected
		}
		deadline := time.Now().Add(2 * time.Second)
		for time.Now().Before(deadline) {
			req.mu.Lock()
			bs := req.bsCount
			req.mu.Unlock()
			if bs >= want {
				break
			}
			time.Sleep(200 * time.Microsecond)
		}
		time.Sleep(300 * time.Microsecond)
	}
	record := func(r c18Reply, pre bool) {
		req.mu.Lock()
		req.Got = append(req.Got, r)
		if pre && r.Kind != 2 && r.Kind != 3 {
			req.Pre = append(req.Pre, r)
		}
		req.mu.Unlock()
		w.rt.Stamp("c18.caller.read", req.opID())
	}

	if req.API == 1 {
		// SendWithReply: blocks until the first reply or the parent context ends
		if expected == 0 && w.sc.TimeoutMs == 0 {
			req.End = 1 // no reply will ever come and nothing else ends the wait
		}
		if req.End == 1 {
			go func() {
				waitListener(0)
				if !req.Sync {
					time.Sleep(time.Duration(req.Reads) * 300 * time.Microsecond)
				}
				if expected == 0 {
					time.Sleep(5 * time.Millisecond)
				}
				w.rt.Stamp("c18.caller.cancel", req.opID())
				pcancel()
			}()
		}
		returned := make(chan struct{})
		go func() {
			// safety net: SendWithReply has no bound of its own; never let the whole run hang
			select {
			case <-returned:
			case <-time.After(4 * time.Second):
				req.mu.Lock()
				req.ReadTO++
				req.mu.Unlock()
				pcancel()
			}
		}()
		err := sendRes(parent)
		close(returned)
		w.rt.Stamp("c18.caller.cancel", req.opID()) // SendWithReply's deferred cancel has run by now
		if err != nil {
			req.SendErr = err.Error()
		}
		req.mu.Lock()
		req.Ctx = true
		req.mu.Unlock()
		return
	}

	cancel, err := sendReplies(parent)
	req.cancel = cancel
	if err != nil {
		req.SendErr = err.Error()
		req.mu.Lock()
		req.Ctx = true
		req.mu.Unlock()
		return
	}
	ch := w.chanOf(req)
	if ch == nil {
		w.problem("no reply channel for %s", req.ID)
		return
	}
	pre := w.sc.TimeoutMs == 0
	if req.Reads > expected {
		req.Reads = expected
	}
	reads := 0
	closed := false
	for reads < req.Reads && !closed {
		r, ok, to := ch.recv(readWait)
		switch {
		case to:
			req.ReadTO++
			reads = req.Reads
		case !ok:
			closed = true
			w.rt.Stamp("c18.caller.read_closed", req.opID())
		default:
			record(r, pre)
			reads++
		}
	}
	waitListener(len(req.Got))
	switch req.End {
	case 0:
		w.rt.Stamp("c18.caller.cancel", req.opID())
		cancel()
	case 1:
		w.rt.Stamp("c18.caller.cancel", req.opID())
		pcancel()
	default:
		time.Sleep(time.Duration(w.sc.TimeoutMs)*time.Millisecond + 5*time.Millisecond)
	}
	req.mu.Lock()
	req.Ctx = true
	req.mu.Unlock()
	if req.Drain {
		for !closed {
			r, ok, to := ch.recv(readWait)
			switch {
			case to:
				req.ReadTO++
				closed = true
			case !ok:
				closed = true
				w.rt.Stamp("c18.caller.read_closed", req.opID())
			default:
				record(r, false)
			}
		}
	}
}

// ---------------------------------------------------------------- one scenario

func c18ParkedListeners() int {
	buf := make([]byte, 1<<20)
	for {
		n := runtime.Stack(buf, true)
		if n < len(buf) {
			buf = buf[:n]
			break
		}
		buf = make([]byte, 2*len(buf))
	}
	parked := 0
	for _, g := range strings.Split(string(buf), "\n\n") {
		if !strings.Contains(g, "ListenForNotifications.func") {
			continue
		}
		head := g
		if i := strings.IndexByte(g, '\n'); i >= 0 {
			head = g[:i]
		}
		// blocked (not runnable): in the reply send, or in a select none of whose cases is ready
		if strings.Contains(head, "[chan send") || strings.Contains(head, "[select") {
			parked++
		}
	}
	return parked
}

func c18RunScenario(rt *hookrt.Runtime, sc *c18Scenario, in *script.Interner) error {
	w := &c18World{sc: sc, in: in, rt: rt, byID: map[string]*c18Req{}, byOp: map[string]*c18Req{}, byCmd: map[string]*c18Req{}, hooks: map[string]int{}}
	for _, r := range sc.Reqs {
		w.byID[r.ID] = r
	}
	rt.Reset()
	rt.Perturb("requestreply.listen.recv", 0.3)
	rt.Perturb("requestreply.listen.before_send", 0.3)
	rt.Perturb("requestreply.listen.sent", 0.3)
	rt.Filter(func(point string, keys []string) bool {
		if strings.HasPrefix(point, "requestreply.listen.") {
			if len(keys) > 0 {
				w.mu.Lock()
				req := w.byOp[keys[0]]
				w.mu.Unlock()
				if req != nil {
					req.mu.Lock()
					if point == "requestreply.listen.before_send" {
						req.bsCount++
					}
					if point == "requestreply.listen.finished" {
						req.finished = true
					}
					req.mu.Unlock()
				}
			}
			return true
		}
		ack := point == "message.ack.locked"
		if (ack || point == "message.nack.locked") && len(keys) > 0 {
			w.mu.Lock()
			req := w.byCmd[keys[0]]
			w.mu.Unlock()
			if req != nil {
				req.mu.Lock()
				if d := req.cur; d != nil {
					d.Events = append(d.Events, []interface{}{"settle", ack})
				}
				req.mu.Unlock()
			}
		}
		return false
	})

	logger := watermill.NopLogger{}
	w.pubsub = gochannel.NewGoChannel(gochannel.Config{}, logger)
	cfg := requestreply.PubSubBackendConfig{
		Publisher: &c18ReplyPub{w: w},
		SubscriberConstructor: func(p requestreply.PubSubBackendSubscribeParams) (message.Subscriber, error) {
			cmdID := c18CmdID(p.Command)
			if cmdID == "" {
				return nil, errors.New("unexpected command type")
			}
			w.mu.Lock()
			req := w.byID[cmdID]
			if req != nil {
				w.byOp[string(p.OperationID)] = req
			}
			w.mu.Unlock()
			if req == nil {
				return nil, errors.New("unknown requester")
			}
			req.mu.Lock()
			req.opid = string(p.OperationID)
			req.Op = w.opID(req.opid)
			req.mu.Unlock()
			return &c18Pump{w: w, req: req}, nil
		},
		GenerateSubscribeTopic: func(requestreply.PubSubBackendSubscribeParams) (string, error) { return c18ReplyTopic, nil },
		GeneratePublishTopic:   func(requestreply.PubSubBackendPublishParams) (string, error) { return c18ReplyTopic, nil },
		Logger:                 logger,
		AckCommandErrors:       sc.AckErrors,
	}
	if sc.TimeoutMs > 0 {
		d := time.Duration(sc.TimeoutMs) * time.Millisecond
		cfg.ListenForReplyTimeout = &d
	}
	if sc.HasModify {
		cfg.ModifyNotificationMessage = func(msg *message.Message, p requestreply.PubSubBackendOnCommandProcessedParams) error {
			msg.Metadata.Set("modified", "1")
			// widen the window between "operation id stamped" and "reply published": wait (briefly) for a
			// delivery of the OTHER handler to be inside the same window, so that concurrent deliveries overlap there
			w.mu.Lock()
			w.inModify++
			w.mu.Unlock()
			for deadline := time.Now().Add(3 * time.Millisecond); ; {
				w.mu.Lock()
				n := w.inModify
				w.mu.Unlock()
				if n >= 2 {
					w.mu.Lock()
					w.overlapped++
					w.mu.Unlock()
					time.Sleep(200 * time.Microsecond)
					break
				}
				if time.Now().After(deadline) {
					break
				}
				time.Sleep(50 * time.Microsecond)
			}
			w.mu.Lock()
			w.inModify--
			w.mu.Unlock()
			return nil
		}
	}
	if sc.HasHook {
		cfg.OnListenForReplyFinished = func(ctx context.Context, p requestreply.PubSubBackendSubscribeParams) {
			w.mu.Lock()
			w.hooks[string(p.OperationID)]++
			w.mu.Unlock()
		}
	}
	if sc.HasErrH {
		cfg.ReplyPublishErrorHandler = func(topic string, m *message.Message, err error) error {
			req := w.reqOfMsg(m)
			if req == nil {
				return err
			}
			req.mu.Lock()
			d := req.cur
			req.mu.Unlock()
			sw := d != nil && d.Step.Swallow
			if d != nil {
				req.ev(d, "errh", sw)
			}
			if sw {
				return nil
			}
			return err
		}
	}

	router, err := message.NewRouter(message.RouterConfig{CloseTimeout: 5 * time.Second}, logger)
	if err != nil {
		return err
	}
	router.AddMiddleware(w.ctxMiddleware)
	marshaler := cqrs.JSONMarshaler{}
	bus, err := cqrs.NewCommandBusWithConfig(w.pubsub, cqrs.CommandBusConfig{
		GeneratePublishTopic: func(p cqrs.CommandBusGeneratePublishTopicParams) (string, error) {
			return "commands-" + p.CommandName, nil
		},
		Marshaler: marshaler, Logger: logger,
	})
	if err != nil {
		return err
	}
	proc, err := cqrs.NewCommandProcessorWithConfig(router, cqrs.CommandProcessorConfig{
		GenerateSubscribeTopic: func(p cqrs.CommandProcessorGenerateSubscribeTopicParams) (string, error) {
			return "commands-" + p.CommandName, nil
		},
		SubscriberConstructor: func(cqrs.CommandProcessorSubscriberConstructorParams) (message.Subscriber, error) {
			return w.pubsub, nil
		},
		Marshaler: marshaler, Logger: logger,
	})
	if err != nil {
		return err
	}

	var sendRes func(req *c18Req) func(ctx context.Context) error
	var sendReplies func(req *c18Req) func(ctx context.Context) (func(), error)
	if sc.WithResult {
		be, err := requestreply.NewPubSubBackend[c18Res](cfg, c18PickMarshaler[c18Res](sc.CustomMarshaler))
		if err != nil {
			return err
		}
		backend := c18Backend{PubSubBackend: be, w: w}
		if err := proc.AddHandlers(requestreply.NewCommandHandlerWithResult[c18Cmd, c18Res]("h", backend, w.handle),
			requestreply.NewCommandHandlerWithResult[c18Cmd2, c18Res]("h2", backend, func(ctx context.Context, cmd *c18Cmd2) (c18Res, error) {
				return w.handle(ctx, &c18Cmd{ID: cmd.ID})
			})); err != nil {
			return err
		}
		sendRes = func(req *c18Req) func(ctx context.Context) error {
			return func(ctx context.Context) error {
				r, err := requestreply.SendWithReply[c18Res](ctx, bus, backend, w.newCmd(req))
				if err == nil {
					req.mu.Lock()
					req.Got = append(req.Got, w.classify(r.Error, r.HandlerResult, r.NotificationMessage))
					req.mu.Unlock()
					w.rt.Stamp("c18.caller.read", req.opID())
				}
				return err
			}
		}
		sendReplies = func(req *c18Req) func(ctx context.Context) (func(), error) {
			return func(ctx context.Context) (func(), error) {
				_, cancel, err := requestreply.SendWithReplies[c18Res](ctx, bus, backend, w.newCmd(req))
				return cancel, err
			}
		}
	} else {
		be, err := requestreply.NewPubSubBackend[struct{}](cfg, c18PickMarshaler[struct{}](sc.CustomMarshaler))
		if err != nil {
			return err
		}
		backend := c18BackendNo{PubSubBackend: be, w: w}
		if err := proc.AddHandlers(requestreply.NewCommandHandler[c18Cmd]("h", backend, func(ctx context.Context, cmd *c18Cmd) error {
			_, err := w.handle(ctx, cmd)
			return err
		}), requestreply.NewCommandHandler[c18Cmd2]("h2", backend, func(ctx context.Context, cmd *c18Cmd2) error {
			_, err := w.handle(ctx, &c18Cmd{ID: cmd.ID})
			return err
		})); err != nil {
			return err
		}
		sendRes = func(req *c18Req) func(ctx context.Context) error {
			return func(ctx context.Context) error {
				r, err := requestreply.SendWithReply[struct{}](ctx, bus, backend, w.newCmd(req))
				if err == nil {
					req.mu.Lock()
					req.Got = append(req.Got, w.classify(r.Error, r.HandlerResult, r.NotificationMessage))
					req.mu.Unlock()
					w.rt.Stamp("c18.caller.read", req.opID())
				}
				return err
			}
		}
		sendReplies = func(req *c18Req) func(ctx context.Context) (func(), error) {
			return func(ctx context.Context) (func(), error) {
				_, cancel, err := requestreply.SendWithReplies[struct{}](ctx, bus, backend, w.newCmd(req))
				return cancel, err
			}
		}
	}

	ctx, stop := context.WithCancel(context.Background())
	defer stop()
	runErr := make(chan error, 1)
	go func() { runErr <- router.Run(ctx) }()
	select {
	case <-router.Running():
	case <-time.After(10 * time.Second):
		return errors.New("router did not start")
	}

	// all requesters at once
	var wg sync.WaitGroup
	start := make(chan struct{})
	for _, req := range sc.Reqs {
		wg.Add(1)
		go func(req *c18Req) {
			defer wg.Done()
			<-start
			w.runCaller(req, sendRes(req), sendReplies(req))
		}(req)
	}
	close(start)
	wg.Wait()

	// watchdog: every listener whose context has ended must finish
	t0 := time.Now()
	allDone := func() bool {
		for _, req := range sc.Reqs {
			req.mu.Lock()
			f := req.finished || req.opid == ""
			req.mu.Unlock()
			if !f {
				return false
			}
		}
		return true
	}
	limit := 20 * time.Second
	for !allDone() && time.Since(t0) < limit {
		time.Sleep(time.Millisecond)
		if time.Since(t0) > 1500*time.Millisecond {
			// every unfinished listener is parked in a channel send: nothing is going to change
			unfinished := 0
			for _, req := range sc.Reqs {
				req.mu.Lock()
				if !req.finished && req.opid != "" {
					unfinished++
				}
				req.mu.Unlock()
			}
			if p := c18ParkedListeners(); p >= unfinished {
				time.Sleep(20 * time.Millisecond)
				if c18ParkedListeners() == p {
					sc.ParkedG = p
					break
				}
			}
			time.Sleep(50 * time.Millisecond)
		}
	}
	if sc.HasHook {
		time.Sleep(2 * time.Millisecond) // the finished stamp precedes the hook call
	}
	sc.WaitedMs = int(time.Since(t0) / time.Millisecond)

	// observation (the log is cut here: draining below lets a parked listener move again)
	log := rt.Log()
	parkedNow := 0
	if !allDone() {
		parkedNow = c18ParkedListeners()
		sc.ParkedG = parkedNow
	}
	for _, req := range sc.Reqs {
		req.mu.Lock()
		req.Done = req.finished
		req.Parked = !req.finished && req.opid != "" && parkedNow > 0
		offered := append([]*message.Message(nil), req.offered...)
		consumed := req.Consumed
		req.mu.Unlock()
		w.mu.Lock()
		req.Hooks = w.hooks[req.opid]
		w.mu.Unlock()
		seenPay := map[int]bool{}
		for i, m := range offered {
			n := w.notif(m)
			req.Stream = append(req.Stream, n)
			if !seenPay[n.Pay] {
				seenPay[n.Pay] = true
				req.Dec = append(req.Dec, [2]int{n.Pay, w.decode(m.Payload)})
			}
			if i < consumed && script.Settlement(m) == 1 {
				req.Acked = append(req.Acked, n.ID)
			}
		}
		for _, e := range log {
			if len(e.Keys) == 0 || e.Keys[0] != req.opid || req.opid == "" {
				continue
			}
			ev := []interface{}{e.Seq, e.Point}
			for _, k := range e.Keys[1:] {
				if e.Point == "requestreply.listen.recv" {
					ev = append(ev, w.in.ID("u:"+k))
				} else {
					ev = append(ev, k)
				}
			}
			req.Events = append(req.Events, ev)
		}
	}
	// what is still in the channels, and whether they are closed
	for _, req := range sc.Reqs {
		ch := w.chanOf(req)
		if ch == nil {
			continue
		}
		r, ok, empty := ch.poll()
		if ok {
			req.Rest = append(req.Rest, r)
			if req.Done {
				r2, ok2, empty2 := ch.poll()
				if ok2 {
					req.Rest = append(req.Rest, r2)
				} else if !empty2 {
					req.Closed = true
				}
			}
		} else if !empty {
			req.Closed = true
		}
	}
	// let everything go
	for _, req := range sc.Reqs {
		if req.cancel != nil {
			req.cancel()
		}
		if req.pcancel != nil {
			req.pcancel()
		}
		if ch := w.chanOf(req); ch != nil && !req.Done {
			for i := 0; i < 50; i++ {
				if _, ok, to := ch.recv(100 * time.Millisecond); !ok && !to {
					break
				}
			}
		}
	}
	// every command ends acked (all scripts do): wait for it so that no delivery is cut short
	settled := func() bool {
		for _, req := range sc.Reqs {
			req.mu.Lock()
			ok := req.opid == "" || req.SendErr != ""
			for _, d := range req.Deliveries {
				for _, e := range d.Events {
					if e[0] == "settle" && e[1] == true {
						ok = true
					}
				}
			}
			req.mu.Unlock()
			if !ok {
				return false
			}
		}
		return true
	}
	for t1 := time.Now(); !settled() && time.Since(t1) < 3*time.Second; {
		time.Sleep(time.Millisecond)
	}
	w.mu.Lock()
	sc.Overlapped = w.overlapped
	w.mu.Unlock()
	if err := router.Close(); err != nil {
		w.problem("router close: %v", err)
	}
	select {
	case <-runErr:
	case <-time.After(5 * time.Second):
		w.problem("router.Run did not return")
	}
	w.pubsub.Close()
	return nil
}

// ---------------------------------------------------------------- generator

// error texts: mostly ordinary, with the edge texts over-weighted (an error whose text is empty is still an error)
func c18ErrText(rng *rand.Rand, id string, k int) string {
	switch rng.Intn(12) {
	case 0, 1:
		return ""
	case 2:
		return " "
	case 3:
		return "0"
	case 4:
		return "1"
	case 5:
		return "same error" // equal texts across requesters
	case 6:
		return "quoted \"text\" with\nnewline, unicode \u00fc\u4e16 and a NUL-free tail"
	case 7:
		return strings.Repeat("long error ", 40)
	default:
		return fmt.Sprintf("err %s/%d", id, k)
	}
}

// which error VALUE a failing handler returns: mostly a plain error, the context-flavoured ones over-weighted
func c18ErrKind(rng *rand.Rand) int {
	if rng.Intn(2) == 0 {
		return 0
	}
	return rng.Intn(7)
}

func c18GenReq(rng *rand.Rand, sc *c18Scenario, id string, forceLeak int) *c18Req {
	req := &c18Req{ID: id}
	n := 1 + rng.Intn(3)
	if rng.Intn(4) == 0 {
		n = 1
	}
	for k := 0; k < n; k++ {
		last := k == n-1
		st := c18Step{Res: fmt.Sprintf("%s-res%d", id, k)}
		if rng.Intn(3) == 0 {
			st.Res = "same" // equal results across requesters: only the op id tells replies apart
		} else if rng.Intn(8) == 0 {
			st.Res = ""
		}
		if !last {
			// must end in a Nack
			if sc.AckErrors || rng.Intn(3) == 0 {
				st.PubFail = true
				st.Swallow = false
				if rng.Intn(2) == 0 {
					st.Fail, st.Err, st.ErrKind = true, c18ErrText(rng, id, k), c18ErrKind(rng)
				}
			} else {
				st.Fail, st.Err, st.ErrKind = true, c18ErrText(rng, id, k), c18ErrKind(rng)
			}
		} else {
			// must end in an Ack
			if sc.AckErrors && rng.Intn(2) == 0 {
				st.Fail, st.Err, st.ErrKind = true, c18ErrText(rng, id, k), c18ErrKind(rng)
			}
			if sc.HasErrH && rng.Intn(4) == 0 {
				st.PubFail = true
				st.Swallow = true
			}
		}
		if rng.Intn(3) == 0 {
			for j := rng.Intn(3) + 1; j > 0; j-- {
				st.Inject = append(st.Inject, 1+rng.Intn(7))
			}
		}
		req.Steps = append(req.Steps, st)
	}
	if rng.Intn(4) == 0 {
		req.API = 1
	}
	req.Reads = []int{0, 1, 1, 2, 3, 99}[rng.Intn(6)]
	req.End = rng.Intn(2)
	if sc.TimeoutMs > 0 && rng.Intn(2) == 0 {
		req.End = 2
	}
	req.Sync = rng.Intn(3) != 0
	req.Drain = rng.Intn(2) == 0
	switch forceLeak {
	case 1: // one reply, never read, cancel
		req.API, req.Reads, req.End, req.Sync, req.Drain = 0, 0, 0, true, false
	case 2: // read one of several, then cancel and stop reading
		req.API, req.Reads, req.End, req.Sync, req.Drain = 0, 1, 0, true, false
		if len(req.Steps) == 1 {
			req.Steps[0].Inject = append(req.Steps[0].Inject, 5)
		}
	case 3: // SendWithReply with a second reply on its way
		req.API, req.Sync = 1, true
		req.End = 0
		if len(req.Steps) == 1 {
			req.Steps[0].Inject = append(req.Steps[0].Inject, 5)
		}
	case 4: // ListenForReplyTimeout passes while the caller's own context is alive, the caller is not reading and the listener holds further replies
		req.API, req.End, req.Sync, req.Drain = 0, 2, true, false
		req.Reads = rng.Intn(2)
		req.Steps[0].Inject = append(req.Steps[0].Inject, 5, 6)
	}
	return req
}

func c18Gen(rng *rand.Rand, idx int, maxReqs int) *c18Scenario {
	sc := &c18Scenario{Index: idx}
	sc.AckErrors = rng.Intn(2) == 0
	sc.HasErrH = rng.Intn(2) == 0
	sc.HasModify = rng.Intn(3) == 0
	sc.HasHook = rng.Intn(5) != 0
	sc.WithResult = rng.Intn(4) != 0
	if rng.Intn(4) == 0 {
		sc.TimeoutMs = 30 + rng.Intn(50)
	}
	if idx < 6 {
		sc.TimeoutMs = 0
	} else if idx < 9 {
		sc.TimeoutMs = 80
	}
	n := 1 + rng.Intn(maxReqs)
	if idx%7 == 3 {
		n = maxReqs
	}
	for i := 0; i < n; i++ {
		force := 0
		if idx < 6 && i == 0 {
			force = 1 + idx%3
		}
		if idx >= 6 && idx < 9 && i < 2 {
			force = 4
		}
		sc.Reqs = append(sc.Reqs, c18GenReq(rng, sc, fmt.Sprintf("s%dr%d", idx, i), force))
		sc.Reqs[i].Kind2 = i%2 == 1
	}
	sc.CustomMarshaler = idx%3 == 1
	return sc
}

func cmdC18(args []string) error {
	fs, out, seed := newFlags("c18")
	nScen := fs.Int("n", 40, "scenarios")
	maxReqs := fs.Int("reqs", 6, "max concurrent requesters per scenario")
	withGlue := fs.Bool("glue", false, "also run the handler-side branch matrix and the API error paths")
	fs.Parse(args)
	rt := hookrt.Install(*seed)
	defer hookrt.Uninstall()
	rng := rand.New(rand.NewSource(*seed))
	in := script.NewInterner()
	var all []*c18Scenario
	leaked := 0
	for i := 0; i < *nScen; i++ {
		sc := c18Gen(rng, i, *maxReqs)
		if leaked >= 6 {
			// fail fast: listeners keep leaking; the remaining scenarios would each wait for the watchdog
			break
		}
		if err := c18RunScenario(rt, sc, in); err != nil {
			return fmt.Errorf("scenario %d: %w", i, err)
		}
		for _, r := range sc.Reqs {
			if !r.Done && r.Op != 0 {
				leaked++
			}
			if len(r.Deliveries) > 100 {
				leaked += 6 // endless redelivery: stop early
			}
			if r.ReadTO > 0 {
				leaked += 3 // replies that must come do not come: stop early as well
			}
		}
		all = append(all, sc)
	}
	var glue []*c18GlueCase
	var checks []c18Check
	var apiCases []c18APICase
	if *withGlue {
		hookrt.Uninstall()
		glue, checks = c18Glue(in)
		apiCases = c18APICases()
	}
	return writeJSON(*out, map[string]interface{}{"scenarios": all, "strings": len(in.Tab), "glue": glue, "api_checks": checks, "api_cases": apiCases})
}

func init() { register("c18", cmdC18) }
