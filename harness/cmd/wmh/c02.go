//go:build verif

package main

import (
	"context"
	"errors"
	"fmt"
	"strconv"
	"strings"
	"sync"
	"sync/atomic"
	"time"

	"github.com/ThreeDotsLabs/watermill"
	"github.com/ThreeDotsLabs/watermill/message"

	"wmverif/hookrt"
	"wmverif/script"
)

// One C02 case = one message with a scripted handler outcome and publisher behaviour.
type c02Case struct {
	ID      string `json:"id"`
	PubKind int    `json:"pubkind"` // 0 real, 1 disabled (AddNoPublisherHandler), 2 nil
	Mws     []int  `json:"mws"`     // 0 pass, 1 append one fresh output (id 50+position)
	Pre     int    `json:"pre"`     // 0 none, 1 ack, 2 nack
	OutKind int    `json:"outkind"` // 0 ret, 1 fail, 2 panic
	Outs    []int  `json:"outs"`    // 0 = the consumed object itself, i>0 = fresh message #i
	PanicV  int    `json:"panicv"`  // panic: 0 string, 1 error, 2 nil; fail: 0 plain error, 1 wrapped context.Canceled (message ctx alive),
	// 2 context.Canceled with the message context cancelled, 3 context.DeadlineExceeded with the message context expired
	Pub     int    `json:"pub"`     // 0 accept, 1 error, 2 panic
	Flight  int    `json:"flight"`  // messages in flight together with this one
	Arrive  int    `json:"arrive"`  // settled by the subscriber before it hands the message over: 0 no, 1 acked, 2 nacked

	Trace [][]interface{} `json:"trace"`
	Final int             `json:"final"` // 0 unsettled, 1 acked, 2 nacked

	mu       sync.Mutex
	msg      *message.Message
	produced map[int]*message.Message
	inPre    bool
	grp      *c02Group
}

// c02LogEntry is one entry of the ONE totally ordered log of a handler's run loop: the loop's
// receive ("recv", stamped by the hook right after the channel receive), every handleMessage /
// publisher event of a message ("ev"), the end of a handleMessage goroutine ("done", stamped by
// the deferred hook just before runningHandlersWg.Done()), the end of the loop ("close").
type c02LogEntry struct {
	K  string        `json:"k"`
	ID string        `json:"id,omitempty"`
	Ev []interface{} `json:"ev,omitempty"`
}

type c02GroupOut struct {
	PubKind int           `json:"pubkind"`
	Mws     []int         `json:"mws"`
	IDs     []string      `json:"ids"`
	Log     []c02LogEntry `json:"log"`
}

var c02GlobalKinds = map[string]bool{"call": true, "pre": true, "publish": true, "pubret": true, "pubpanic": true, "settle": true}

func (c *c02Case) rec(ev ...interface{}) {
	c.mu.Lock()
	c.Trace = append(c.Trace, ev)
	if k, ok := ev[0].(string); ok && c.grp != nil && c02GlobalKinds[k] {
		c.grp.glog("ev", c.ID, ev)
	}
	c.mu.Unlock()
}

func (g *c02Group) glog(k, id string, ev []interface{}) {
	g.logMu.Lock()
	g.log = append(g.log, c02LogEntry{K: k, ID: id, Ev: ev})
	g.logMu.Unlock()
}

func sameContent(a, b *message.Message) bool {
	if a.UUID != b.UUID || string(a.Payload) != string(b.Payload) || len(a.Metadata) != len(b.Metadata) {
		return false
	}
	for k, v := range a.Metadata {
		if w, ok := b.Metadata[k]; !ok || w != v {
			return false
		}
	}
	return true
}

type c02Group struct {
	cases map[string]*c02Case
	mu    sync.Mutex
	// barrier for "n in flight"
	inside  int
	want    int
	release chan struct{}
	topic   string // the publish topic the handler was added with
	logMu   sync.Mutex
	log     []c02LogEntry
}

func (g *c02Group) lookup(uuid string) *c02Case {
	if i := strings.IndexByte(uuid, '#'); i >= 0 {
		uuid = uuid[:i]
	}
	return g.cases[uuid]
}

func (g *c02Group) enter() {
	g.mu.Lock()
	g.inside++
	if g.inside >= g.want {
		select {
		case <-g.release:
		default:
			close(g.release)
		}
	}
	rel := g.release
	g.mu.Unlock()
	select {
	case <-rel:
	case <-time.After(2 * time.Second):
	}
}

func (g *c02Group) handler(msg *message.Message) ([]*message.Message, error) {
	c := g.lookup(msg.UUID)
	if c == nil {
		return nil, errors.New("unknown message")
	}
	c.rec("call")
	g.enter()
	if c.Pre != 0 {
		c.mu.Lock()
		c.inPre = true
		c.mu.Unlock()
		var ret bool
		if c.Pre == 1 {
			ret = msg.Ack()
		} else {
			ret = msg.Nack()
		}
		c.mu.Lock()
		c.inPre = false
		c.mu.Unlock()
		c.rec("pre", c.Pre == 1, ret)
	}
	var outs []*message.Message
	for _, o := range c.Outs {
		if o == 0 {
			outs = append(outs, msg)
		} else {
			m := message.NewMessage(fmt.Sprintf("%s#%d", c.ID, o), []byte(fmt.Sprintf("out %d of %s", o, c.ID)))
			m.Metadata.Set("k", fmt.Sprint(o))
			c.mu.Lock()
			c.produced[o] = m.Copy()
			c.mu.Unlock()
			outs = append(outs, m)
		}
	}
	switch c.OutKind {
	case 0:
		return outs, nil
	case 1:
		switch c.PanicV {
		case 1:
			return outs, fmt.Errorf("wrapped: %w", context.Canceled)
		case 2:
			ctx, cancel := context.WithCancel(msg.Context())
			msg.SetContext(ctx)
			cancel()
			return outs, fmt.Errorf("handler interrupted: %w", ctx.Err())
		case 3:
			ctx, cancel := context.WithTimeout(msg.Context(), time.Nanosecond)
			msg.SetContext(ctx)
			<-ctx.Done()
			cancel()
			return outs, ctx.Err()
		}
		return outs, errors.New("scripted handler error")
	default:
		switch c.PanicV {
		case 0:
			panic("scripted panic")
		case 1:
			panic(errors.New("scripted panic error"))
		default:
			panic(nil)
		}
	}
}

func (g *c02Group) appendMw(pos int) message.HandlerMiddleware {
	return func(h message.HandlerFunc) message.HandlerFunc {
		return func(msg *message.Message) ([]*message.Message, error) {
			outs, err := h(msg)
			if err != nil {
				return outs, err
			}
			c := g.lookup(msg.UUID)
			id := 50 + pos
			m := message.NewMessage(fmt.Sprintf("%s#%d", c.ID, id), []byte("appended"))
			c.mu.Lock()
			c.produced[id] = m.Copy()
			c.mu.Unlock()
			return append(outs, m), nil
		}
	}
}

func passMw(h message.HandlerFunc) message.HandlerFunc {
	return func(msg *message.Message) ([]*message.Message, error) { return h(msg) }
}

func (g *c02Group) onPublish(call int, topic string, msgs []*message.Message) error {
	if len(msgs) == 0 {
		// property: no call for an empty output; record against nobody -> reported by the driver
		for _, c := range g.cases {
			c.rec("publish-empty")
			break
		}
		return nil
	}
	c := g.lookup(msgs[0].UUID)
	if c == nil {
		return nil
	}
	ids := []int{}
	for _, m := range msgs {
		if m == c.msg {
			ids = append(ids, 0)
			continue
		}
		id := -1
		if i := strings.IndexByte(m.UUID, '#'); i >= 0 {
			id, _ = strconv.Atoi(m.UUID[i+1:])
		}
		c.mu.Lock()
		orig := c.produced[id]
		c.mu.Unlock()
		if orig == nil || !sameContent(orig, m) {
			id += 1000
		}
		ids = append(ids, id)
	}
	if topic != g.topic {
		ids = append(ids, 9999)
	}
	c.rec("publish", ids, script.Settlement(c.msg))
	switch c.Pub {
	case 0:
		c.rec("pubret", true)
		return nil
	case 1:
		c.rec("pubret", false)
		return errors.New("scripted publish error")
	default:
		c.rec("pubpanic")
		panic("scripted publisher panic")
	}
}

// c02LoopPubSub is one object that is both the handler's subscriber and its publisher
type c02LoopPubSub struct {
	*script.Subscriber
	pub *script.Publisher
}

func (l *c02LoopPubSub) Publish(topic string, msgs ...*message.Message) error { return l.pub.Publish(topic, msgs...) }
func (l *c02LoopPubSub) Close() error                                       { l.pub.Close(); return l.Subscriber.Close() }

var c02Abort bool // set once a group saw messages that are never settled: later groups are not run

func c02RunGroup(rt *hookrt.Runtime, pubKind int, mws []int, cases []*c02Case) (*c02GroupOut, error) {
	g := &c02Group{cases: map[string]*c02Case{}, topic: "out"}
	if pubKind == 3 {
		g.topic = "in"
	}
	for _, c := range cases {
		g.cases[c.ID] = c
		c.grp = g
		c.produced = map[int]*message.Message{}
	}
	rt.Reset()
	rt.Perturb("router.handle.before_publish", 0.5)
	rt.Perturb("router.handle.before_settle", 0.5)
	rt.Filter(func(point string, keys []string) bool {
		switch point {
		case "router.handler.received":
			if len(keys) > 1 {
				if c := g.lookup(keys[1]); c != nil {
					g.glog("recv", c.ID, nil)
				}
			}
			return false
		case "router.handler.msg.done":
			if len(keys) > 1 {
				if c := g.lookup(keys[1]); c != nil {
					g.glog("done", c.ID, nil)
				}
			}
			return false
		case "router.handler.loop_ended":
			g.glog("close", "", nil)
			return false
		}
		ack := point == "message.ack.locked"
		if !ack && point != "message.nack.locked" {
			return strings.HasPrefix(point, "router.handle.")
		}
		if len(keys) == 0 {
			return false
		}
		if c, ok := g.cases[keys[0]]; ok {
			c.mu.Lock()
			pre := c.inPre
			c.mu.Unlock()
			if !pre {
				c.rec("settle", ack)
			}
		}
		return false
	})
	router, err := message.NewRouter(message.RouterConfig{CloseTimeout: 5 * time.Second}, watermill.NopLogger{})
	if err != nil {
		return nil, err
	}
	sub := script.NewSubscriber(true)
	pub := &script.Publisher{OnPublish: g.onPublish}
	var h *message.Handler
	switch pubKind {
	case 3: // a handler that feeds its own topic: ONE object is subscriber and publisher, same topic
		loop := &c02LoopPubSub{Subscriber: sub, pub: pub}
		h = router.AddHandler("h", "in", loop, "in", loop, g.handler)
	case 0:
		h = router.AddHandler("h", "in", sub, "out", pub, g.handler)
	case 1:
		h = router.AddNoPublisherHandler("h", "in", sub, func(msg *message.Message) error {
			_, err := g.handler(msg)
			return err
		})
	default:
		h = router.AddHandler("h", "in", sub, "out", nil, g.handler)
	}
	for i, w := range mws {
		if w == 0 {
			h.AddMiddleware(passMw)
		} else {
			h.AddMiddleware(g.appendMw(i))
		}
	}
	ctx, cancel := context.WithCancel(context.Background())
	defer cancel()
	runErr := make(chan error, 1)
	go func() { runErr <- router.Run(ctx) }()
	select {
	case <-router.Running():
	case <-time.After(5 * time.Second):
		return nil, errors.New("router did not start")
	}
	// batches of 1, 2, 4, 8 messages in flight
	sizes := []int{1, 2, 4, 8, 3}
	i, b := 0, 0
	var unsettled int32
	for i < len(cases) {
		if atomic.LoadInt32(&unsettled) >= 3 || c02Abort {
			c02Abort = true
			// fail fast: messages are not being settled; the rest of the group is marked not run
			for _, c := range cases[i:] {
				c.rec("not-run")
			}
			break
		}
		n := sizes[b%len(sizes)]
		b++
		if i+n > len(cases) {
			n = len(cases) - i
		}
		batch := cases[i : i+n]
		i += n
		g.mu.Lock()
		g.inside, g.want, g.release = 0, n, make(chan struct{})
		g.mu.Unlock()
		var wg sync.WaitGroup
		for _, c := range batch {
			c.Flight = n
			c.msg = message.NewMessage(c.ID, []byte("payload of "+c.ID))
			c.msg.Metadata.Set("case", c.ID)
			if c.Arrive != 0 {
				c.mu.Lock()
				c.inPre = true
				c.mu.Unlock()
				if c.Arrive == 1 {
					c.msg.Ack()
				} else {
					c.msg.Nack()
				}
				c.mu.Lock()
				c.inPre = false
				c.mu.Unlock()
			}
			wg.Add(1)
			go func(c *c02Case) {
				defer wg.Done()
				if !sub.Emit("in", c.msg, 5*time.Second) {
					c.rec("not-taken")
					return
				}
				c.Final = script.WaitSettled(c.msg, 3*time.Second)
				if c.Arrive != 0 {
					// already settled on arrival: wait for the Router's own settle call instead
					deadline := time.Now().Add(3 * time.Second)
					for time.Now().Before(deadline) {
						c.mu.Lock()
						done := false
						for _, e := range c.Trace {
							if len(e) > 0 && e[0] == "settle" {
								done = true
							}
						}
						c.mu.Unlock()
						if done {
							break
						}
						time.Sleep(2 * time.Millisecond)
					}
				}
				if c.Final == 0 {
					atomic.AddInt32(&unsettled, 1)
				}
			}(c)
		}
		wg.Wait()
	}
	if err := router.Close(); err != nil {
		return nil, fmt.Errorf("router close: %w", err)
	}
	select {
	case <-runErr:
	case <-time.After(5 * time.Second):
		return nil, errors.New("Run did not return after Close")
	}
	out := &c02GroupOut{PubKind: pubKind, Mws: mws}
	for _, c := range cases {
		out.IDs = append(out.IDs, c.ID)
	}
	g.logMu.Lock()
	out.Log = append(out.Log, g.log...)
	g.logMu.Unlock()
	return out, nil
}

func cmdC02(args []string) error {
	fs, out, seed := newFlags("c02")
	fs.Parse(args)
	rt := hookrt.Install(*seed)
	defer hookrt.Uninstall()
	prefixes := [][]int{{}, {0}, {0, 0}, {1}, {0, 1}, {1, 0}}
	outShapes := []struct {
		kind int
		outs []int
	}{
		{0, nil}, {0, []int{1}}, {0, []int{1, 2}}, {0, []int{3, 1, 2}}, {0, []int{0}}, {0, []int{0, 1}}, {0, []int{1, 0}},
		{1, nil}, {1, []int{1, 2}}, {1, []int{0}},
		{2, nil},
	}
	var all []*c02Case
	var groups []*c02GroupOut
	n := 0
	for pk := 0; pk < 4; pk++ {
		for _, mws := range prefixes {
			if pk == 3 && len(mws) > 1 {
				continue // the feedback-loop handler: a third of the middleware prefixes is enough
			}
			var group []*c02Case
			for pre := 0; pre < 3; pre++ {
				for _, sh := range outShapes {
					if pk == 1 && len(sh.outs) > 0 {
						continue // NoPublishHandlerFunc cannot return messages
					}
					for pb := 0; pb < 3; pb++ {
						pvs := []int{0}
						if sh.kind == 2 {
							pvs = []int{0, 1, 2}
						}
						if sh.kind == 1 {
							pvs = []int{0, 1, 2, 3}
						}
						for _, pv := range pvs {
							n++
							group = append(group, &c02Case{ID: fmt.Sprintf("m%d", n), PubKind: pk, Mws: mws, Pre: pre,
								OutKind: sh.kind, Outs: sh.outs, PanicV: pv, Pub: pb})
						}
					}
				}
			}
			if len(mws) == 0 {
				// messages a subscriber (or subscriber decorator) settled before handing them over
				for arrive := 1; arrive <= 2; arrive++ {
					for _, sh := range outShapes {
						if pk == 1 && len(sh.outs) > 0 {
							continue
						}
						for pb := 0; pb < 2; pb++ {
							n++
							group = append(group, &c02Case{ID: fmt.Sprintf("m%d", n), PubKind: pk, Mws: mws, Arrive: arrive,
								OutKind: sh.kind, Outs: sh.outs, Pub: pb})
						}
					}
				}
			}
			// one Router handler (one run loop, one interleaved log) per 60 messages
			for lo := 0; lo < len(group); lo += 60 {
				hi := lo + 60
				if hi > len(group) {
					hi = len(group)
				}
				gout, err := c02RunGroup(rt, pk, mws, group[lo:hi])
				if err != nil {
					return err
				}
				groups = append(groups, gout)
			}
			all = append(all, group...)
		}
	}
	return writeJSON(*out, map[string]interface{}{"cases": all, "groups": groups})
}

func init() { register("c02", cmdC02) }
