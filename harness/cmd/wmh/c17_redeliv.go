//go:build verif

package main

import (
	"context"
	"errors"
	"fmt"
	"sync"
	"time"

	"github.com/ThreeDotsLabs/watermill"
	"github.com/ThreeDotsLabs/watermill/components/fanin"
	"github.com/ThreeDotsLabs/watermill/components/forwarder"
	"github.com/ThreeDotsLabs/watermill/components/requeuer"
	"github.com/ThreeDotsLabs/watermill/message"
	"github.com/ThreeDotsLabs/watermill/pubsub/gochannel"

	"wmverif/script"
)

// C17, round "proofs": redelivery.  The SOURCE is a real GoChannel: a Nacked message is sent
// again as a fresh copy of the original until it is acked.  The destination fails the first
// attempts of every message as scripted and accepts the last one.

type c17Redeliv struct {
	ID     string  `json:"id"`
	Comp   string  `json:"comp"` // forwarder | requeuer
	AckBad bool    `json:"ackbad"`
	Target int     `json:"target"` // requeuer: constant destination topic
	Src    int     `json:"src"`
	Msg    c17Msg  `json:"msg"`   // the original handed to the source GoChannel
	After  c17Msg  `json:"after"` // the same object when everything is over
	Beh    []int   `json:"beh"`   // destination behaviour per attempt (the last one accepts)
	Dec    *c17Env `json:"dec"`
	RK     int     `json:"rk"`
	Flight int     `json:"flight"`

	Trace [][]interface{} `json:"trace"` // all attempts, in order: pub, pubret|pubpanic, settle, pub, ...

	mu       sync.Mutex
	orig     *message.Message
	attempts int
	acked    chan struct{}
	once     sync.Once
}

func (c *c17Redeliv) rec(ev ...interface{}) {
	c.mu.Lock()
	c.Trace = append(c.Trace, ev)
	c.mu.Unlock()
}

// c17Chain: forwarder.Publisher -> GoChannel -> Forwarder -> GoChannel (blocking until acked) -> a
// subscriber that nacks the first k copies.
type c17Chain struct {
	ID    string    `json:"id"`
	Topic int       `json:"topic"`
	Msg   c17Msg    `json:"msg"`
	Nacks int       `json:"nacks"`
	Got   []c17Orig `json:"got"`   // every copy the end subscriber received (topic of its subscription)
	Final int       `json:"final"` // 1 = the end subscriber acked a copy and nothing arrived afterwards
	Order []string  `json:"order"`

	mu sync.Mutex
}

type c17RedelivGroup struct {
	s      *c17State
	mu     sync.Mutex
	byUUID map[string]*c17Redeliv // consumed UUID (requeuer: the message's; forwarder: the envelope's)
	byRel  map[string]*c17Redeliv // UUID under which the destination sees the relayed copy
}

func (g *c17RedelivGroup) onPublish(call int, topic string, msgs []*message.Message) error {
	var c *c17Redeliv
	if len(msgs) > 0 {
		g.mu.Lock()
		c = g.byRel[msgs[0].UUID]
		g.mu.Unlock()
	}
	if c == nil {
		g.s.strayMu.Lock()
		g.s.out.Stray = append(g.s.out.Stray, fmt.Sprintf("redelivery: Publish(%q, %d messages) belongs to no consumed message", topic, len(msgs)))
		g.s.strayMu.Unlock()
		return nil
	}
	snaps := make([]c17Msg, 0, len(msgs))
	for _, m := range msgs {
		snaps = append(snaps, g.s.snap(m))
	}
	c.mu.Lock()
	k := c.attempts
	c.attempts++
	c.mu.Unlock()
	seen := 0
	if c.Comp != "forwarder" { // the requeuer publishes the delivered copy itself: its settlement can be sampled
		seen = script.Settlement(msgs[0])
	}
	c.rec("pub", g.s.in.ID(topic), snaps, seen)
	beh := 0
	if k < len(c.Beh) {
		beh = c.Beh[k]
	}
	switch beh {
	case 0:
		c.rec("pubret", true)
		return nil
	case 1:
		c.rec("pubret", false)
		return errors.New("scripted destination error")
	default:
		c.rec("pubpanic")
		panic("scripted destination panic")
	}
}

func (g *c17RedelivGroup) installFilter() {
	g.s.rt.Reset()
	g.s.rt.Filter(func(point string, keys []string) bool {
		ack := point == "message.ack.locked"
		if (!ack && point != "message.nack.locked") || len(keys) == 0 {
			return false
		}
		g.mu.Lock()
		c := g.byUUID[keys[0]]
		g.mu.Unlock()
		if c != nil {
			c.rec("settle", ack)
			if ack {
				c.once.Do(func() { close(c.acked) })
			}
		}
		return false
	})
}

func (s *c17State) failuresThenAccept() []int {
	n := s.rng.Intn(5)
	if s.rng.Intn(10) == 0 {
		n = 6 + s.rng.Intn(6)
	}
	beh := make([]int, 0, n+1)
	for i := 0; i < n; i++ {
		beh = append(beh, 1+s.rng.Intn(2))
	}
	return append(beh, 0)
}

func (s *c17State) redelivRequeuer(group, n int, buffer int64) error {
	g := &c17RedelivGroup{s: s, byUUID: map[string]*c17Redeliv{}, byRel: map[string]*c17Redeliv{}}
	var cases []*c17Redeliv
	for i := 0; i < n; i++ {
		m, _ := s.genMessage(s.newID(), true, "", false)
		c := &c17Redeliv{ID: fmt.Sprintf("rd%d-%d", group, i), Comp: "requeuer", Target: s.in.ID("requeued"), Src: s.in.ID("rq_src"),
			Msg: s.snap(m), Beh: s.failuresThenAccept(), RK: s.in.ID(requeuer.RetriesKey), orig: m, acked: make(chan struct{})}
		cases = append(cases, c)
		g.byUUID[m.UUID] = c
		g.byRel[m.UUID] = c
	}
	g.installFilter()
	src := gochannel.NewGoChannel(gochannel.Config{OutputChannelBuffer: buffer}, watermill.NopLogger{})
	dst := &script.Publisher{OnPublish: g.onPublish}
	router, err := message.NewRouter(message.RouterConfig{CloseTimeout: 5 * time.Second}, watermill.NopLogger{})
	if err != nil {
		return err
	}
	r, err := requeuer.NewRequeuer(requeuer.Config{Subscriber: src, SubscribeTopic: "rq_src", Publisher: dst, Router: router,
		GeneratePublishTopic: func(requeuer.GeneratePublishTopicParams) (string, error) { return "requeued", nil }}, watermill.NopLogger{})
	if err != nil {
		return err
	}
	done := make(chan error, 1)
	go func() { done <- r.Run(context.Background()) }()
	select {
	case <-router.Running():
	case <-time.After(5 * time.Second):
		return errors.New("requeuer (redelivery) did not start")
	}
	s.redelivFeed(cases, func(c *c17Redeliv) error { return src.Publish("rq_src", c.orig) })
	if err := router.Close(); err != nil {
		return err
	}
	if err := c17WaitRun(done); err != nil {
		return err
	}
	src.Close()
	for _, c := range cases {
		c.After = s.snap(c.orig)
	}
	s.out.Redeliv = append(s.out.Redeliv, cases...)
	return nil
}

// FanIn fed by a real GoChannel on several source topics; the destination fails at scripted attempt indices
func (s *c17State) redelivFanIn(group, n int, sources []string, target string) error {
	g := &c17RedelivGroup{s: s, byUUID: map[string]*c17Redeliv{}, byRel: map[string]*c17Redeliv{}}
	var cases []*c17Redeliv
	srcOf := map[*c17Redeliv]string{}
	for i := 0; i < n; i++ {
		m, _ := s.genMessage(s.newID(), true, "", false)
		t := sources[s.rng.Intn(len(sources))]
		c := &c17Redeliv{ID: fmt.Sprintf("rdi%d-%d", group, i), Comp: "fanin", Target: s.in.ID(target), Src: s.in.ID(t),
			Msg: s.snap(m), Beh: s.failuresThenAccept(), RK: s.in.ID(requeuer.RetriesKey), orig: m, acked: make(chan struct{})}
		cases = append(cases, c)
		srcOf[c] = t
		g.byUUID[m.UUID] = c
		g.byRel[m.UUID] = c
	}
	g.installFilter()
	src := gochannel.NewGoChannel(gochannel.Config{OutputChannelBuffer: 1}, watermill.NopLogger{})
	dst := &script.Publisher{OnPublish: g.onPublish}
	f, err := fanin.NewFanIn(src, dst, fanin.Config{SourceTopics: sources, TargetTopic: target, CloseTimeout: 5 * time.Second}, nil)
	if err != nil {
		return err
	}
	done := make(chan error, 1)
	go func() { done <- f.Run(context.Background()) }()
	select {
	case <-f.Running():
	case <-time.After(5 * time.Second):
		return errors.New("fan-in (redelivery) did not start")
	}
	s.redelivFeed(cases, func(c *c17Redeliv) error { return src.Publish(srcOf[c], c.orig) })
	if err := f.Close(); err != nil {
		return err
	}
	if err := c17WaitRun(done); err != nil {
		return err
	}
	src.Close()
	for _, c := range cases {
		c.After = s.snap(c.orig)
	}
	s.out.Redeliv = append(s.out.Redeliv, cases...)
	return nil
}

func (s *c17State) redelivFeed(cases []*c17Redeliv, publish func(c *c17Redeliv) error) {
	sizes := []int{1, 4, 2, 8}
	i, b := 0, 0
	for i < len(cases) {
		k := sizes[b%len(sizes)]
		b++
		if i+k > len(cases) {
			k = len(cases) - i
		}
		var wg sync.WaitGroup
		for _, c := range cases[i : i+k] {
			c.Flight = k
			wg.Add(1)
			go func(c *c17Redeliv) {
				defer wg.Done()
				if err := publish(c); err != nil {
					c.rec("not-taken")
					return
				}
				select {
				case <-c.acked:
				case <-time.After(20 * time.Second):
					c.rec("never-acked")
				}
			}(c)
		}
		wg.Wait()
		i += k
	}
	time.Sleep(20 * time.Millisecond) // a redelivery after the Ack would show up now
}

func (s *c17State) redelivForwarder(group, n int, ackBad bool, buffer int64) error {
	g := &c17RedelivGroup{s: s, byUUID: map[string]*c17Redeliv{}, byRel: map[string]*c17Redeliv{}}
	src := gochannel.NewGoChannel(gochannel.Config{OutputChannelBuffer: buffer}, watermill.NopLogger{})
	var cases []*c17Redeliv
	var cur *c17Redeliv
	// the real decorator publishes into the source GoChannel; the envelope is noted on its way
	tap := &script.Publisher{OnPublish: func(call int, topic string, msgs []*message.Message) error {
		for _, env := range msgs {
			c := cur
			c.orig = env
			c.Msg = s.snap(env)
			c.Dec = s.decode(env.Payload)
			g.mu.Lock()
			g.byUUID[env.UUID] = c
			g.mu.Unlock()
		}
		return src.Publish(topic, msgs...)
	}}
	fp := forwarder.NewPublisher(tap, forwarder.PublisherConfig{ForwarderTopic: "fw_src"})
	type pending struct {
		c     *c17Redeliv
		topic string
		m     *message.Message
	}
	var todo []pending
	for i := 0; i < n; i++ {
		m, _ := s.genMessage(fmt.Sprintf("rdin-%d-%d|%s", group, i, s.randString(3)), true, "", false)
		c := &c17Redeliv{ID: fmt.Sprintf("rdf%d-%d", group, i), Comp: "forwarder", AckBad: ackBad, Src: s.in.ID("fw_src"),
			Beh: s.failuresThenAccept(), RK: s.in.ID(requeuer.RetriesKey), acked: make(chan struct{})}
		cases = append(cases, c)
		g.byRel[m.UUID] = c
		todo = append(todo, pending{c, s.pick(c17Topics), m})
	}
	g.installFilter()
	dst := &script.Publisher{OnPublish: g.onPublish}
	f, err := forwarder.NewForwarder(src, dst, watermill.NopLogger{}, forwarder.Config{ForwarderTopic: "fw_src", AckWhenCannotUnwrap: ackBad, CloseTimeout: 5 * time.Second})
	if err != nil {
		return err
	}
	done := make(chan error, 1)
	go func() { done <- f.Run(context.Background()) }()
	select {
	case <-f.Running():
	case <-time.After(5 * time.Second):
		return errors.New("forwarder (redelivery) did not start")
	}
	var pubMu sync.Mutex
	byCase := map[*c17Redeliv]pending{}
	for _, p := range todo {
		byCase[p.c] = p
	}
	s.redelivFeed(cases, func(c *c17Redeliv) error {
		pubMu.Lock() // the tap attributes the envelope to the case being published
		defer pubMu.Unlock()
		cur = c
		p := byCase[c]
		return fp.Publish(p.topic, p.m)
	})
	if err := f.Close(); err != nil {
		return err
	}
	if err := c17WaitRun(done); err != nil {
		return err
	}
	src.Close()
	for _, c := range cases {
		if c.orig != nil {
			c.After = s.snap(c.orig)
		}
	}
	s.out.Redeliv = append(s.out.Redeliv, cases...)
	return nil
}

// forwarder.Publisher -> GoChannel -> Forwarder -> GoChannel(BlockPublishUntilSubscriberAck) -> end subscriber
func (s *c17State) chainGroup(group, n int) error {
	s.rt.Reset()
	s.rt.Filter(func(string, []string) bool { return false })
	src := gochannel.NewGoChannel(gochannel.Config{}, watermill.NopLogger{})
	dst := gochannel.NewGoChannel(gochannel.Config{BlockPublishUntilSubscriberAck: true}, watermill.NopLogger{})
	f, err := forwarder.NewForwarder(src, dst, watermill.NopLogger{}, forwarder.Config{ForwarderTopic: "chain_in", CloseTimeout: 5 * time.Second})
	if err != nil {
		return err
	}
	topics := []string{"chain_a", "chain_b"}
	var cases []*c17Chain
	byUUID := map[string]*c17Chain{}
	var mu sync.Mutex
	ctx, cancel := context.WithCancel(context.Background())
	defer cancel()
	var subWg sync.WaitGroup
	for _, t := range topics {
		ch, err := dst.Subscribe(ctx, t)
		if err != nil {
			return err
		}
		subWg.Add(1)
		go func(t string, ch <-chan *message.Message) {
			defer subWg.Done()
			for m := range ch {
				mu.Lock()
				c := byUUID[m.UUID]
				mu.Unlock()
				if c == nil {
					s.strayMu.Lock()
					s.out.Stray = append(s.out.Stray, fmt.Sprintf("chain: subscriber of %q received a message nobody published (uuid %q)", t, m.UUID))
					s.strayMu.Unlock()
					m.Ack()
					continue
				}
				c.mu.Lock()
				c.Got = append(c.Got, c17Orig{T: s.in.ID(t), M: s.snap(m)})
				k := len(c.Got)
				c.mu.Unlock()
				if k <= c.Nacks {
					m.Nack()
				} else {
					c.mu.Lock()
					c.Order = append(c.Order, "end-ack")
					c.mu.Unlock()
					m.Ack()
				}
			}
		}(t, ch)
	}
	done := make(chan error, 1)
	go func() { done <- f.Run(context.Background()) }()
	select {
	case <-f.Running():
	case <-time.After(5 * time.Second):
		return errors.New("forwarder (chain) did not start")
	}
	fp := forwarder.NewPublisher(src, forwarder.PublisherConfig{ForwarderTopic: "chain_in"})
	var wg sync.WaitGroup
	for i := 0; i < n; i++ {
		m, _ := s.genMessage(fmt.Sprintf("chain-%d-%d|%s", group, i, s.randString(3)), true, "", false)
		t := topics[s.rng.Intn(len(topics))]
		c := &c17Chain{ID: fmt.Sprintf("ch%d-%d", group, i), Topic: s.in.ID(t), Msg: s.snap(m), Nacks: s.rng.Intn(4), Got: []c17Orig{}, Order: []string{}}
		cases = append(cases, c)
		mu.Lock()
		byUUID[m.UUID] = c
		mu.Unlock()
		wg.Add(1)
		go func(m *message.Message, t string) {
			defer wg.Done()
			if err := fp.Publish(t, m); err != nil {
				c.mu.Lock()
				c.Order = append(c.Order, "publish-error")
				c.mu.Unlock()
			}
		}(m, t)
		if i%4 == 3 {
			wg.Wait()
		}
	}
	wg.Wait()
	deadline := time.Now().Add(15 * time.Second)
	for time.Now().Before(deadline) {
		missing := false
		for _, c := range cases {
			c.mu.Lock()
			if len(c.Got) < c.Nacks+1 {
				missing = true
			}
			c.mu.Unlock()
		}
		if !missing {
			break
		}
		time.Sleep(2 * time.Millisecond)
	}
	time.Sleep(30 * time.Millisecond)
	if err := f.Close(); err != nil {
		return err
	}
	if err := c17WaitRun(done); err != nil {
		return err
	}
	cancel()
	src.Close()
	dst.Close()
	subWg.Wait()
	for _, c := range cases {
		if len(c.Got) == c.Nacks+1 {
			c.Final = 1
		} else {
			c.Final = 2
		}
	}
	s.out.Chain = append(s.out.Chain, cases...)
	return nil
}

func (s *c17State) redelivGroups(next func() int, k int) error {
	if err := s.redelivRequeuer(next(), 40*k, 0); err != nil {
		return err
	}
	if err := s.redelivRequeuer(next(), 20*k, 3); err != nil {
		return err
	}
	if err := s.redelivForwarder(next(), 40*k, false, 0); err != nil {
		return err
	}
	if err := s.redelivForwarder(next(), 20*k, true, 2); err != nil {
		return err
	}
	if err := s.redelivFanIn(next(), 40*k, []string{"in_a", "in_b", "in_c"}, "merged"); err != nil {
		return err
	}
	return s.chainGroup(next(), 32*k)
}
