//go:build verif

package main

import (
	"context"
	"errors"
	"fmt"
	"math/rand"
	"strings"
	"sync"
	"time"

	"github.com/ThreeDotsLabs/watermill"
	"github.com/ThreeDotsLabs/watermill/components/cqrs"
	"github.com/ThreeDotsLabs/watermill/message"

	ct "wmverif/c15types"
	"wmverif/script"
)

// Registration scripts (round "proofs"): a sequence of AddHandlers / AddHandler /
// AddHandlersToRouter / AddHandlersGroup calls on ONE real processor and ONE real Router, with
// scripted GenerateSubscribeTopic / SubscriberConstructor / NewCommand behaviour per handler.
// Observed: per call the callback parameters, the router handlers that appeared (name; topic and
// subscriber as seen when the Router is finally run), the returned error kind; at the end the
// Router's handlers and the processor's Handlers().

type c15RegSpec struct {
	ID    int    `json:"id"`
	Ty    int    `json:"ty"`
	HName int    `json:"hname"`
	Ptr   bool   `json:"ptr"`
	Topic int    `json:"topic"` // interned topic the callback returns, 0 = error
	Sub   bool   `json:"sub"`
	hname string
	topic string
	obj   any
}

type c15RegCall struct {
	Op    string        `json:"op"` // "handlers", "handler", "torouter", "group"
	Specs []*c15RegSpec `json:"specs"`
	Group int           `json:"group"`
	GTopic int          `json:"gtopic"`
	GSub  bool          `json:"gsub"`
	gname, gtopic string

	Events [][]interface{} `json:"events"`
	Res    string          `json:"res"`
	ResArg int             `json:"resarg"`
}

type c15RegScript struct {
	Tab   int           `json:"tab"`
	Kind  int           `json:"kind"` // 0 command 1 event 2 group
	Depr  bool          `json:"depr"`
	Calls []*c15RegCall `json:"calls"`

	Router    [][]interface{} `json:"router"`   // (name, topic, subscriber number, member ids) in order of appearance
	Handlers  []int           `json:"handlers"` // ids of processor.Handlers()
	Anomalies []string        `json:"anomalies,omitempty"`
}

// recording subscriber: remembers the topics it was subscribed with
type c15RecSub struct {
	*script.Subscriber
	mu     sync.Mutex
	topics []string
}

func (s *c15RecSub) Subscribe(ctx context.Context, topic string) (<-chan *message.Message, error) {
	s.mu.Lock()
	s.topics = append(s.topics, topic)
	s.mu.Unlock()
	return s.Subscriber.Subscribe(ctx, topic)
}

// handler whose NewCommand/NewEvent returns a NON-pointer
type c15NonPtrHandler struct {
	name string
	ty   int
}

func (h *c15NonPtrHandler) HandlerName() string                     { return h.name }
func (h *c15NonPtrHandler) NewCommand() any                         { return ct.Make(h.ty, 0, "", false) }
func (h *c15NonPtrHandler) NewEvent() any                           { return ct.Make(h.ty, 0, "", false) }
func (h *c15NonPtrHandler) Handle(ctx context.Context, v any) error { return nil }

var errC15RegTopic = errors.New("scripted subscribe-topic error")
var errC15RegSub = errors.New("scripted subscriber-constructor error")

type c15RegRun struct {
	in      *script.Interner
	sc      *c15RegScript
	router  *message.Router
	m       cqrs.CommandEventMarshaler
	byObj   map[any]*c15RegSpec
	cur     *c15RegCall
	known   map[string]bool // router handler names seen so far
	subs    []*c15RecSub
	subFor  [][]int // member ids per constructed subscriber
	pending []*c15RegAdd
	adds    []*c15RegAdd
	cursor  int // deprecated topic function: index into the handlers being registered
	deprSeq []*c15RegSpec
	groupCall *c15RegCall
}

type c15RegAdd struct {
	name string
	sub  int
	ev   []interface{}
}

// poll notices router handlers added since the last callback and records RegAdd for them
// (they were added after the latest SubscriberConstructor call returned).
func (r *c15RegRun) poll() {
	for name := range r.router.Handlers() {
		if !r.known[name] {
			r.known[name] = true
			a := &c15RegAdd{name: name, sub: len(r.subs)}
			a.ev = []interface{}{"add", r.in.ID(name), -1, a.sub}
			r.adds = append(r.adds, a)
			if r.cur != nil {
				r.cur.Events = append(r.cur.Events, a.ev)
			}
		}
	}
}

func (r *c15RegRun) topicCb(name string, x *c15RegSpec) (string, error) {
	r.poll()
	if x == nil {
		r.sc.Anomalies = append(r.sc.Anomalies, "GenerateSubscribeTopic called with an unknown handler")
		return "unknown", nil
	}
	r.cur.Events = append(r.cur.Events, []interface{}{"topic", r.in.ID(name), x.ID})
	if x.Topic == 0 {
		return "", errC15RegTopic
	}
	return x.topic, nil
}

func (r *c15RegRun) subCb(name, hname string, x *c15RegSpec) (message.Subscriber, error) {
	r.poll()
	if x == nil {
		r.sc.Anomalies = append(r.sc.Anomalies, "SubscriberConstructor called with an unknown handler")
		return script.NewSubscriber(true), nil
	}
	r.cur.Events = append(r.cur.Events, []interface{}{"sub", r.in.ID(name), x.ID, r.in.ID(hname)})
	if !x.Sub {
		return nil, errC15RegSub
	}
	s := &c15RecSub{Subscriber: script.NewSubscriber(true)}
	r.subs = append(r.subs, s)
	r.subFor = append(r.subFor, []int{x.ID})
	return s, nil
}

func c15ClassifyRegErr(in *script.Interner, err error, panicked interface{}) (string, int) {
	if panicked != nil {
		if _, ok := panicked.(message.DuplicateHandlerNameError); ok {
			return "panic-dup-name", 0
		}
		return "panic-other", 0
	}
	var dup cqrs.DuplicateCommandHandlerError
	var np cqrs.NonPointerError
	switch {
	case err == nil:
		return "ok", 0
	case errors.As(err, &dup):
		return "dup", in.ID(dup.CommandName)
	case errors.As(err, &np):
		return "validate", 0
	case errors.Is(err, errC15RegTopic):
		return "topic", 0
	case errors.Is(err, errC15RegSub):
		return "sub", 0
	case strings.Contains(err.Error(), "no handlers provided"):
		return "nohandlers", 0
	case strings.Contains(err.Error(), "already exists"):
		return "groupexists", 0
	case strings.Contains(err.Error(), "AddHandlersToRouter should be called only"):
		return "notdeprecated", 0
	}
	return "other:" + err.Error(), 0
}

func c15RunRegScript(in *script.Interner, rng *rand.Rand, tab *c15Tab, tabIdx, mk int) (*c15RegScript, error) {
	sc := &c15RegScript{Tab: tabIdx, Kind: rng.Intn(3), Router: [][]interface{}{}, Handlers: []int{}}
	sc.Depr = sc.Kind != 2 && rng.Intn(3) == 0
	router, err := message.NewRouter(message.RouterConfig{CloseTimeout: 60 * time.Second}, watermill.NopLogger{})
	if err != nil {
		return nil, err
	}
	r := &c15RegRun{in: in, sc: sc, router: router, m: c15Marshaler(mk, nil), byObj: map[any]*c15RegSpec{}, known: map[string]bool{}}
	pool := []int{ct.TCmdA, ct.TCmdB, ct.TEvtC, ct.TNamed}
	if c15IsProto(mk) {
		pool = []int{ct.TPStr, ct.TPInt, ct.TPDur, ct.TCmdA}
	}
	nextID := 0
	var names []string
	nop := func(context.Context, any) error { return nil }
	mkSpec := func() *c15RegSpec {
		x := &c15RegSpec{ID: nextID, Ty: pool[rng.Intn(len(pool))], Ptr: true, Sub: true}
		nextID++
		x.hname = fmt.Sprintf("r%d", x.ID)
		if !sc.Depr && len(names) > 0 && rng.Intn(10) == 0 {
			x.hname = names[rng.Intn(len(names))] // a router-handler name used before: the Router panics
		}
		names = append(names, x.hname)
		x.HName = in.ID(x.hname)
		if x.Ty <= ct.TBad && rng.Intn(10) == 0 {
			x.Ptr = false
		}
		x.topic = fmt.Sprintf("sub.%s.%d", r.m.Name(ct.New(x.Ty)), rng.Intn(2))
		x.Topic = in.ID(x.topic)
		if !sc.Depr && rng.Intn(10) == 0 {
			x.Topic = 0
		}
		if rng.Intn(10) == 0 {
			x.Sub = false
		}
		switch {
		case !x.Ptr:
			x.obj = &c15NonPtrHandler{name: x.hname, ty: x.Ty}
		case sc.Kind == 0:
			x.obj = c15CmdHandler(x.Ty, x.hname, nop)
		case sc.Kind == 1:
			x.obj = c15EvtHandler(x.Ty, x.hname, nop)
		default:
			x.obj = c15GroupHandler(x.Ty, nop)
		}
		r.byObj[x.obj] = x
		return x
	}
	byName := func(hname string) *c15RegSpec {
		for _, x := range r.byObj {
			if x.hname == hname {
				return x
			}
		}
		return nil
	}
	// the deprecated topic function sees the name only: the handlers are identified by position
	deprTopic := func(name string) string {
		r.poll()
		if r.cursor < len(r.deprSeq) {
			x := r.deprSeq[r.cursor]
			r.cursor++
			r.cur.Events = append(r.cur.Events, []interface{}{"topic", in.ID(name), x.ID})
			return x.topic
		}
		r.sc.Anomalies = append(r.sc.Anomalies, "the deprecated topic function was called more often than there are handlers")
		return "extra"
	}

	var cp *cqrs.CommandProcessor
	var ep *cqrs.EventProcessor
	var gp *cqrs.EventGroupProcessor
	call := func(c *c15RegCall, f func() error) {
		c.Events = [][]interface{}{}
		r.cur = c
		var err error
		var pv interface{}
		func() {
			defer func() { pv = recover() }()
			err = f()
		}()
		r.poll()
		r.cur = nil
		c.Res, c.ResArg = c15ClassifyRegErr(in, err, pv)
		sc.Calls = append(sc.Calls, c)
	}

	// construct the processor
	var initial []*c15RegSpec
	switch sc.Kind {
	case 0:
		if sc.Depr {
			n0 := 1 + rng.Intn(3)
			hs := []cqrs.CommandHandler{}
			for i := 0; i < n0; i++ {
				x := mkSpec()
				initial = append(initial, x)
				hs = append(hs, x.obj.(cqrs.CommandHandler))
			}
			cp, err = cqrs.NewCommandProcessor(hs, deprTopic, func(hname string) (message.Subscriber, error) {
				x := byName(hname)
				name := ""
				if x != nil {
					name = r.m.Name(ct.New(x.Ty))
				}
				return r.subCb(name, hname, x)
			}, r.m, watermill.NopLogger{})
		} else {
			cp, err = cqrs.NewCommandProcessorWithConfig(router, cqrs.CommandProcessorConfig{
				GenerateSubscribeTopic: func(p cqrs.CommandProcessorGenerateSubscribeTopicParams) (string, error) {
					return r.topicCb(p.CommandName, r.byObj[p.CommandHandler])
				},
				SubscriberConstructor: func(p cqrs.CommandProcessorSubscriberConstructorParams) (message.Subscriber, error) {
					return r.subCb(p.CommandName, p.HandlerName, r.byObj[p.Handler])
				},
				Marshaler: r.m})
		}
	case 1:
		if sc.Depr {
			n0 := 1 + rng.Intn(3)
			hs := []cqrs.EventHandler{}
			for i := 0; i < n0; i++ {
				x := mkSpec()
				initial = append(initial, x)
				hs = append(hs, x.obj.(cqrs.EventHandler))
			}
			ep, err = cqrs.NewEventProcessor(hs, deprTopic, func(hname string) (message.Subscriber, error) {
				x := byName(hname)
				name := ""
				if x != nil {
					name = r.m.Name(ct.New(x.Ty))
				}
				return r.subCb(name, hname, x)
			}, r.m, watermill.NopLogger{})
		} else {
			ep, err = cqrs.NewEventProcessorWithConfig(router, cqrs.EventProcessorConfig{
				GenerateSubscribeTopic: func(p cqrs.EventProcessorGenerateSubscribeTopicParams) (string, error) {
					return r.topicCb(p.EventName, r.byObj[p.EventHandler])
				},
				SubscriberConstructor: func(p cqrs.EventProcessorSubscriberConstructorParams) (message.Subscriber, error) {
					return r.subCb(p.EventName, p.HandlerName, r.byObj[p.EventHandler])
				},
				Marshaler: r.m})
		}
	default:
		gp, err = cqrs.NewEventGroupProcessorWithConfig(router, cqrs.EventGroupProcessorConfig{
			GenerateSubscribeTopic: func(p cqrs.EventGroupProcessorGenerateSubscribeTopicParams) (string, error) {
				r.poll()
				c := r.groupCall
				r.cur.Events = append(r.cur.Events, []interface{}{"topic", in.ID(p.EventGroupName), len(p.EventGroupHandlers)})
				if c.GTopic == 0 {
					return "", errC15RegTopic
				}
				return c.gtopic, nil
			},
			SubscriberConstructor: func(p cqrs.EventGroupProcessorSubscriberConstructorParams) (message.Subscriber, error) {
				r.poll()
				c := r.groupCall
				r.cur.Events = append(r.cur.Events, []interface{}{"sub", in.ID(p.EventGroupName), len(p.EventGroupHandlers), 0})
				if !c.GSub {
					return nil, errC15RegSub
				}
				s := &c15RecSub{Subscriber: script.NewSubscriber(true)}
				r.subs = append(r.subs, s)
				ids := []int{}
				for _, h := range p.EventGroupHandlers {
					if x := r.byObj[h]; x != nil {
						ids = append(ids, x.ID)
					} else {
						ids = append(ids, 999)
					}
				}
				r.subFor = append(r.subFor, ids)
				return s, nil
			},
			Marshaler: r.m})
	}
	if err != nil {
		return nil, fmt.Errorf("constructing the processor: %w", err)
	}
	// the deprecated constructors add the initial handlers one by one
	for _, x := range initial {
		sc.Calls = append(sc.Calls, &c15RegCall{Op: "handlers", Specs: []*c15RegSpec{x}, Events: [][]interface{}{}, Res: "ok"})
	}

	var deprHandlers []*c15RegSpec
	deprHandlers = append(deprHandlers, initial...)
	ncalls := 1 + rng.Intn(4)
	for k := 0; k < ncalls; k++ {
		c := &c15RegCall{}
		if sc.Kind == 2 {
			c.Op = "group"
			c.gname = fmt.Sprintf("g%d", rng.Intn(3))
			c.Group = in.ID(c.gname)
			n := []int{0, 1, 2, 3, 3}[rng.Intn(5)]
			ghs := []cqrs.GroupEventHandler{}
			for i := 0; i < n; i++ {
				x := mkSpec()
				c.Specs = append(c.Specs, x)
				ghs = append(ghs, x.obj.(cqrs.GroupEventHandler))
			}
			c.gtopic = "grp." + c.gname
			c.GTopic = in.ID(c.gtopic)
			if rng.Intn(8) == 0 {
				c.GTopic = 0
			}
			c.GSub = rng.Intn(8) != 0
			r.groupCall = c
			call(c, func() error { return gp.AddHandlersGroup(c.gname, ghs...) })
			continue
		}
		op := rng.Intn(10)
		switch {
		case op < 5:
			c.Op = "handlers"
			n := []int{0, 1, 2, 3, 4}[rng.Intn(5)]
			for i := 0; i < n; i++ {
				c.Specs = append(c.Specs, mkSpec())
			}
		case op < 8:
			c.Op = "handler"
			c.Specs = []*c15RegSpec{mkSpec()}
		default:
			c.Op = "torouter"
		}
		if sc.Depr && k == ncalls-1 {
			c.Op, c.Specs = "torouter", nil
		}
		if c.Op == "torouter" {
			r.cursor, r.deprSeq = 0, append([]*c15RegSpec(nil), deprHandlers...)
		}
		if c.Specs == nil {
			c.Specs = []*c15RegSpec{}
		}
		if sc.Kind == 0 {
			hs := []cqrs.CommandHandler{}
			for _, x := range c.Specs {
				hs = append(hs, x.obj.(cqrs.CommandHandler))
			}
			switch c.Op {
			case "handlers":
				call(c, func() error { return cp.AddHandlers(hs...) })
			case "handler":
				call(c, func() error { _, e := cp.AddHandler(hs[0]); return e })
			default:
				call(c, func() error { return cp.AddHandlersToRouter(router) })
			}
		} else {
			hs := []cqrs.EventHandler{}
			for _, x := range c.Specs {
				hs = append(hs, x.obj.(cqrs.EventHandler))
			}
			switch c.Op {
			case "handlers":
				call(c, func() error { return ep.AddHandlers(hs...) })
			case "handler":
				call(c, func() error { _, e := ep.AddHandler(hs[0]); return e })
			default:
				call(c, func() error { return ep.AddHandlersToRouter(router) })
			}
		}
		if sc.Depr && c.Op != "torouter" && c.Res == "ok" {
			deprHandlers = append(deprHandlers, c.Specs...)
		}
	}
	// the processor's own list
	switch {
	case cp != nil:
		for _, h := range cp.Handlers() {
			if x := r.byObj[h]; x != nil {
				sc.Handlers = append(sc.Handlers, x.ID)
			} else {
				sc.Handlers = append(sc.Handlers, 999)
			}
		}
	case ep != nil:
		for _, h := range ep.Handlers() {
			if x := r.byObj[h]; x != nil {
				sc.Handlers = append(sc.Handlers, x.ID)
			} else {
				sc.Handlers = append(sc.Handlers, 999)
			}
		}
	}
	// run the Router once so that every router handler subscribes: topic per subscriber
	if len(router.Handlers()) > 0 {
		ctx, cancel := context.WithCancel(context.Background())
		done := make(chan error, 1)
		go func() { done <- router.Run(ctx) }()
		select {
		case <-router.Running():
		case <-time.After(60 * time.Second):
			cancel()
			return nil, errors.New("router did not start")
		}
		if err := router.Close(); err != nil {
			cancel()
			return nil, err
		}
		cancel()
		<-done
	}
	for _, a := range r.adds {
		topic := -1
		members := []int{}
		if a.sub >= 1 && a.sub <= len(r.subs) {
			s := r.subs[a.sub-1]
			s.mu.Lock()
			if len(s.topics) == 1 {
				topic = in.ID(s.topics[0])
			} else {
				sc.Anomalies = append(sc.Anomalies, fmt.Sprintf("the subscriber constructed for router handler %s was subscribed %d times", a.name, len(s.topics)))
			}
			s.mu.Unlock()
			members = r.subFor[a.sub-1]
		}
		a.ev[2] = topic
		sc.Router = append(sc.Router, []interface{}{in.ID(a.name), topic, a.sub, members})
	}
	// subscribers that never got onto the Router must not have been subscribed
	used := map[int]bool{}
	for _, a := range r.adds {
		used[a.sub] = true
	}
	for i, s := range r.subs {
		if !used[i+1] && len(s.topics) > 0 {
			sc.Anomalies = append(sc.Anomalies, "a subscriber constructed for a handler that was not registered got subscribed")
		}
	}
	return sc, nil
}
