//go:build verif

package main

// C10 — Router lifecycle scenarios: client programs over {AddHandler (no / own / shared
// publisher, context-honouring or not, failing Subscribe), Run, wait Running, RunHandlers xk
// (concurrent, same or foreign context), wait Started, Stop, Stopped, cancel, second Run, Close,
// probe message, subscription ended by the environment} against the REAL message.Router with
// scripted subscribers / publishers; forced schedules (park rules at router.life.* hook points)
// and seeded random ones.  Output: per scenario the program, the stamped log (hooks + API
// stamps in one total order) and the collaborators' counters.  checks/c10.py maps the log to
// labels of coq/RouterLife/Model.v (schedule replay) and to the API history the monitor judges.

import (
	"context"
	"errors"
	"fmt"
	"math/rand"
	"runtime"
	"strings"
	"sync"
	"time"

	"github.com/ThreeDotsLabs/watermill"
	"github.com/ThreeDotsLabs/watermill/message"

	"wmverif/hookrt"
)

type c10Op struct {
	K     string `json:"k"`
	H     int    `json:"h,omitempty"`
	Pub   int    `json:"pub,omitempty"`  // add: -1 no publisher, else publisher object id
	Hon   bool   `json:"hon,omitempty"`  // add: subscriber honours its context
	Fail  bool   `json:"fail,omitempty"` // add: Subscribe fails
	N     int    `json:"n,omitempty"`    // rh: concurrent calls
	Bg    bool   `json:"bg,omitempty"`   // rh: foreign (background) context
	Async bool   `json:"async,omitempty"`
	Tag   string `json:"tag,omitempty"` // stamp: name
	Sub   int    `json:"sub,omitempty"`  // add: 0 own subscriber object, k>0 the shared subscriber object k
	SlowC int    `json:"slowc,omitempty"` // add: the publisher's Close() takes this many ms
}

type c10Park struct {
	Point   string   `json:"point"`
	Keys    []string `json:"keys,omitempty"`
	Nth     int      `json:"nth"`
	Until   string   `json:"until"`
	UKeys   []string `json:"ukeys,omitempty"`
	Timeout int      `json:"timeout_ms"`
}

type c10Scenario struct {
	ID     int       `json:"id"`
	Name   string    `json:"name"`
	Forced bool      `json:"forced"`
	Ops    []c10Op   `json:"ops"`
	Parks  []c10Park `json:"parks"`

	Events     []hookrt.Event `json:"events"`
	Subscribes []int          `json:"subscribes"` // per handler: Subscribe calls that succeeded
	SubCalls   []int          `json:"subcalls"`   // per handler: all Subscribe calls
	PubCloses  map[int]int    `json:"pubcloses"`
	ParkInfo   string         `json:"park,omitempty"`
	Notes      []string       `json:"notes,omitempty"`
	DupPanic   string         `json:"dup_panic,omitempty"`
	DurMs      int64          `json:"dur_ms"`
	Leftover   int            `json:"leftover_goroutines"`
}

// ---- scripted subscriber: one per handler

// one Subscriber OBJECT; handlers that share it get facades (c10Sub) of the same object: Close() of any of
// them closes the subscriptions of all of them, as with one shared Subscriber instance
type c10SubObj struct {
	rt   *hookrt.Runtime
	id   int
	mu   sync.Mutex
	subs []*c10Sub
}

func (o *c10SubObj) closeAll() {
	o.rt.Stamp("api.sub.close_called", fmt.Sprint(o.id))
	o.mu.Lock()
	subs := append([]*c10Sub(nil), o.subs...)
	o.mu.Unlock()
	for _, s := range subs {
		s.end("close")
	}
}

type c10Sub struct {
	obj   *c10SubObj
	rt    *hookrt.Runtime
	h     int
	hon   bool
	fail  bool
	mu    sync.Mutex
	ch    chan *message.Message
	done  chan struct{}
	open  bool
	calls int
	oks   int
}

func (s *c10Sub) Subscribe(ctx context.Context, topic string) (<-chan *message.Message, error) {
	s.mu.Lock()
	defer s.mu.Unlock()
	s.calls++
	if s.fail {
		s.rt.Stamp("api.subscribe", fmt.Sprint(s.h), "false")
		return nil, errors.New("scripted subscribe error")
	}
	s.oks++
	s.ch = make(chan *message.Message)
	s.done = make(chan struct{})
	s.open = true
	done := s.done
	s.rt.Stamp("api.subscribe", fmt.Sprint(s.h), "true")
	if s.hon {
		go func() {
			select {
			case <-ctx.Done():
				s.end("ctx")
			case <-done:
			}
		}()
	}
	return s.ch, nil
}

func (s *c10Sub) end(kind string) {
	s.mu.Lock()
	defer s.mu.Unlock()
	if !s.open {
		return
	}
	s.open = false
	s.rt.Stamp("api.sub.closed", fmt.Sprint(s.h), kind)
	close(s.done)
	close(s.ch)
}

func (s *c10Sub) Close() error { s.obj.closeAll(); return nil }

// emit hands msg to the subscription (atomically with the "open" state); false if closed / not taken
func (s *c10Sub) emit(msg *message.Message, d time.Duration) bool {
	s.mu.Lock()
	defer s.mu.Unlock()
	if !s.open {
		return false
	}
	select {
	case s.ch <- msg:
		s.rt.Stamp("api.emit", fmt.Sprint(s.h), msg.UUID)
		return true
	case <-time.After(d):
		return false
	}
}

// ---- scripted publisher: refuses after Close

type c10Pub struct {
	rt     *hookrt.Runtime
	id     int
	mu     sync.Mutex
	closed bool
	closes int
	slowMs int
}

func (p *c10Pub) Publish(topic string, msgs ...*message.Message) error {
	p.mu.Lock()
	defer p.mu.Unlock()
	h := "?"
	if len(msgs) > 0 {
		h = msgs[0].Metadata.Get("h")
	}
	if p.closed {
		p.rt.Stamp("api.processed", h, "false", fmt.Sprint(p.id))
		return errors.New("scripted publisher is closed")
	}
	p.rt.Stamp("api.processed", h, "true", fmt.Sprint(p.id))
	return nil
}

func (p *c10Pub) Close() error {
	p.mu.Lock()
	p.rt.Stamp("api.pubclose", fmt.Sprint(p.id))
	p.closed = true
	p.closes++
	slow := p.slowMs
	p.mu.Unlock()
	if slow > 0 {
		time.Sleep(time.Duration(slow) * time.Millisecond) // a publisher whose Close takes a while
	}
	return nil
}

// a panic inside a Router call made by the harness is recorded, not fatal
func c10Recover(rt *hookrt.Runtime, what string) {
	if r := recover(); r != nil {
		rt.Stamp("api.panic", what, fmt.Sprint(r))
	}
}

// ---- running one scenario

const (
	c10ObsWait   = 5 * time.Second // waiting for Running / Started / Stopped / a call to return
	c10RunWait   = 8 * time.Second // watchdog for "Run returns"
	c10ProbeWait = 6 * time.Second
)

func c10Run(rt *hookrt.Runtime, sc *c10Scenario, seed int64) {
	rt.Reset()
	rt.Filter(func(point string, keys []string) bool {
		return strings.HasPrefix(point, "router.life.") || strings.HasPrefix(point, "api.") || strings.HasPrefix(point, "router.handler.handleclose.") || point == "router.handler.received"
	})
	if !sc.Forced || seed%2 == 0 {
		rt.Perturb("*", 0.2)
		rt.MaxNap(100 * time.Microsecond)
	}
	var rules []*hookrt.ParkRule
	for _, p := range sc.Parks {
		rules = append(rules, rt.AddRule(&hookrt.ParkRule{Point: p.Point, Keys: p.Keys, Nth: p.Nth, Until: p.Until, UntilKeys: p.UKeys,
			Timeout: time.Duration(p.Timeout) * time.Millisecond}))
	}
	// goroutines of an earlier scenario's router must not stamp nameless points into this log:
	// every scenario ends its subscriptions and waits until the goroutine count is back at its baseline
	baseline := runtime.NumGoroutine()
	router, err := message.NewRouter(message.RouterConfig{CloseTimeout: 1 * time.Second}, watermill.NopLogger{})
	if err != nil {
		sc.Notes = append(sc.Notes, "NewRouter: "+err.Error())
		return
	}
	ctx, cancel := context.WithCancel(context.Background())
	var mu sync.Mutex
	note := func(s string) { mu.Lock(); sc.Notes = append(sc.Notes, s); mu.Unlock() }
	var subs []*c10Sub
	var names []string
	var addSpecs []c10Op
	subObjs := map[int]*c10SubObj{}
	var handlers []*message.Handler
	pubs := map[int]*c10Pub{}
	nextTid := 0
	newTid := func() int { nextTid++; return nextTid - 1 }
	runDone := make(chan struct{})
	mainStarted := false
	var asyncWg sync.WaitGroup
	hname := func(h int) string { return fmt.Sprintf("s%d-h%d", sc.ID, h) }
	gate := make(chan struct{}) // slow messages stay inside their handler function until "release"
	var gateOnce sync.Once
	release := func() { gateOnce.Do(func() { close(gate) }) }
	slowEntered := make(chan struct{}, 64)
	slowWait := func(msg *message.Message) {
		if msg.Metadata.Get("slow") != "" {
			slowEntered <- struct{}{}
			select {
			case <-gate:
			case <-time.After(30 * time.Second):
			}
		}
	}
	probeN := 0

	withWatchdog := func(what string, d time.Duration, f func()) bool {
		done := make(chan struct{})
		go func() { defer close(done); f() }()
		select {
		case <-done:
			return true
		case <-time.After(d):
			note("blocked: " + what)
			return false
		}
	}

	for _, op := range sc.Ops {
		op := op
		switch op.K {
		case "add", "readd":
			h := len(subs)
			name := hname(h)
			spec := op
			if op.K == "readd" {
				// a new handler under the name of handler op.H (which was stopped): AddHandler panics with
				// DuplicateHandlerNameError until the router has released the name - retry until accepted
				if op.H >= len(names) {
					continue
				}
				name = names[op.H]
				spec = addSpecs[op.H]
			}
			obj := subObjs[spec.Sub]
			if spec.Sub == 0 || obj == nil {
				obj = &c10SubObj{rt: rt, id: 1000 + h}
				if spec.Sub > 0 {
					obj.id = spec.Sub
					subObjs[spec.Sub] = obj
				}
			}
			s := &c10Sub{obj: obj, rt: rt, h: h, hon: spec.Hon, fail: spec.Fail}
			obj.mu.Lock()
			obj.subs = append(obj.subs, s)
			obj.mu.Unlock()
			var hd *message.Handler
			tryAdd := func() (dup bool) {
				defer func() {
					if r := recover(); r != nil {
						if _, ok := r.(message.DuplicateHandlerNameError); ok {
							dup = true
							return
						}
						panic(r)
					}
				}()
				if spec.Pub < 0 {
					hd = router.AddNoPublisherHandler(name, "topic-"+name, s, func(msg *message.Message) error {
						rt.Stamp("api.processed", fmt.Sprint(h), "true", "-1")
						slowWait(msg)
						return nil
					})
				} else {
					p := pubs[spec.Pub]
					if p == nil {
						p = &c10Pub{rt: rt, id: spec.Pub, slowMs: spec.SlowC}
						pubs[spec.Pub] = p
					}
					hd = router.AddHandler(name, "topic-"+name, s, "out", p, func(msg *message.Message) ([]*message.Message, error) {
						slowWait(msg)
						out := message.NewMessage(msg.UUID+"-out", nil)
						out.Metadata.Set("h", fmt.Sprint(h))
						return []*message.Message{out}, nil
					})
				}
				return false
			}
			accepted := false
			for deadline := time.Now().Add(c10ObsWait); ; {
				if !tryAdd() {
					accepted = true
					break
				}
				if op.K == "add" || time.Now().After(deadline) {
					break
				}
				time.Sleep(200 * time.Microsecond)
			}
			if !accepted {
				note("AddHandler: name " + name + " not accepted")
				obj.mu.Lock()
				obj.subs = obj.subs[:len(obj.subs)-1]
				obj.mu.Unlock()
				continue
			}
			subs = append(subs, s)
			names = append(names, name)
			addSpecs = append(addSpecs, spec)
			handlers = append(handlers, hd)
			rt.Stamp("api.add.ret", fmt.Sprint(h), fmt.Sprint(spec.Pub), fmt.Sprint(spec.Hon), fmt.Sprint(obj.id))
		case "add_dup":
			// glue: a second handler with an existing name must panic with DuplicateHandlerNameError
			func() {
				defer func() {
					if r := recover(); r != nil {
						sc.DupPanic = fmt.Sprintf("%T", r)
					}
				}()
				if len(subs) == 0 {
					return
				}
				router.AddNoPublisherHandler(hname(0), "x", subs[0], func(msg *message.Message) error { return nil })
				sc.DupPanic = "no panic"
			}()
		case "run":
			tid := newTid()
			mainStarted = true
			go func() {
				rt.Register(tid)
				defer close(runDone)
				defer c10Recover(rt, "Run")
				rt.Stamp("api.run.call", fmt.Sprint(tid))
				err := router.Run(ctx)
				rt.Stamp("api.run.ret", fmt.Sprint(tid), fmt.Sprint(err == nil))
			}()
			// a second Run must not race with the first one's unsynchronised check-and-set
			time.Sleep(200 * time.Microsecond)
		case "run2":
			tid := newTid()
			withWatchdog("second Run", c10ObsWait, func() {
				defer c10Recover(rt, "Run")
				rt.Stamp("api.run.call", fmt.Sprint(tid))
				err := router.Run(context.Background())
				rt.Stamp("api.run.ret", fmt.Sprint(tid), fmt.Sprint(err == nil))
			})
		case "wait_running":
			select {
			case <-router.Running():
				rt.Stamp("api.running_obs")
			case <-time.After(c10ObsWait):
				note("Running() not closed")
			}
		case "poll_running":
			select {
			case <-router.Running():
				rt.Stamp("api.running_obs")
			default:
			}
		case "rh":
			n := op.N
			if n < 1 {
				n = 1
			}
			var wg sync.WaitGroup
			for i := 0; i < n; i++ {
				tid := newTid()
				wg.Add(1)
				asyncWg.Add(1)
				go func() {
					defer asyncWg.Done()
					defer wg.Done()
					defer c10Recover(rt, "RunHandlers")
					rt.Register(tid)
					c := ctx
					if op.Bg {
						c = context.Background()
					}
					rt.Stamp("api.rh.call", fmt.Sprint(tid), fmt.Sprint(op.Bg))
					err := router.RunHandlers(c)
					rt.Stamp("api.rh.ret", fmt.Sprint(tid), fmt.Sprint(err == nil))
				}()
			}
			if !op.Async {
				withWatchdog("RunHandlers", c10ObsWait, wg.Wait)
			}
		case "started":
			if op.H >= len(handlers) {
				continue
			}
			select {
			case <-handlers[op.H].Started():
				rt.Stamp("api.started_obs", fmt.Sprint(op.H))
			case <-time.After(c10ObsWait):
				note(fmt.Sprintf("Started(%d) not closed", op.H))
			}
		case "stop":
			if op.H >= len(handlers) {
				continue
			}
			tid := newTid()
			h := op.H
			stopDone := make(chan struct{})
			asyncWg.Add(1)
			go func() {
				defer asyncWg.Done()
				defer close(stopDone)
				res := "ok"
				rt.Stamp("api.stop.call", fmt.Sprint(tid), fmt.Sprint(h))
				func() {
					defer func() {
						if r := recover(); r != nil {
							if s, ok := r.(string); ok && s == "handler is not started" {
								res = "notstarted"
							} else {
								res = "nilpanic"
								note(fmt.Sprintf("Stop(%d) panicked: %v", h, r))
							}
						}
					}()
					handlers[h].Stop()
				}()
				rt.Stamp("api.stop.ret", fmt.Sprint(tid), res)
			}()
			select {
			case <-stopDone:
			case <-time.After(c10ObsWait):
				// Stop is documented as asynchronous: it must not wait for anybody
				rt.Stamp("api.stop.blocked", fmt.Sprint(tid), fmt.Sprint(h))
			}
		case "await":
			// wait until the hook point op.Tag has been passed op.N times (a goroutine is parked there by a rule)
			for deadline := time.Now().Add(c10ObsWait); time.Now().Before(deadline); {
				n := 0
				for _, e := range rt.Log() {
					if e.Point == op.Tag {
						n++
					}
				}
				if n >= op.N {
					break
				}
				time.Sleep(300 * time.Microsecond)
			}
		case "stopped_get":
			if op.H >= len(handlers) {
				continue
			}
			ch := handlers[op.H].Stopped()
			rt.Stamp("api.stopped_get", fmt.Sprint(op.H), fmt.Sprint(ch != nil))
		case "wait_stopped":
			if op.H >= len(handlers) {
				continue
			}
			ch := handlers[op.H].Stopped()
			rt.Stamp("api.stopped_get", fmt.Sprint(op.H), fmt.Sprint(ch != nil))
			if ch == nil {
				continue
			}
			select {
			case <-ch:
				rt.Stamp("api.stopped_obs", fmt.Sprint(op.H))
			case <-time.After(c10ObsWait):
				note(fmt.Sprintf("Stopped(%d) not closed", op.H))
			}
		case "cancel":
			rt.Stamp("api.cancel")
			cancel()
		case "close":
			tid := newTid()
			f := func() {
				defer c10Recover(rt, "Close")
				rt.Register(tid)
				rt.Stamp("api.close.call", fmt.Sprint(tid))
				err := router.Close()
				rt.Stamp("api.close.ret", fmt.Sprint(tid), fmt.Sprint(err == nil))
			}
			if op.Async {
				asyncWg.Add(1)
				go func() { defer asyncWg.Done(); f() }()
			} else {
				withWatchdog("Close", c10RunWait, f)
			}
		case "probe":
			if op.H >= len(subs) {
				continue
			}
			probeN++
			msg := message.NewMessage(fmt.Sprintf("probe-%d-%d", sc.ID, probeN), nil)
			taken := subs[op.H].emit(msg, c10ProbeWait)
			settled := false
			if taken {
				select {
				case <-msg.Acked():
					settled = true
				case <-msg.Nacked():
					settled = true
				case <-time.After(c10ProbeWait):
				}
			}
			if !taken || !settled {
				rt.Stamp("api.probe_stuck", fmt.Sprint(op.H), fmt.Sprint(taken))
			}
		case "slow_probe":
			// a message whose handler call lasts until "release": the driver only hands it over
			if op.H >= len(subs) {
				continue
			}
			probeN++
			msg := message.NewMessage(fmt.Sprintf("probe-%d-%d", sc.ID, probeN), nil)
			msg.Metadata.Set("slow", "1")
			if !subs[op.H].emit(msg, c10ProbeWait) {
				rt.Stamp("api.probe_stuck", fmt.Sprint(op.H), "false")
			} else {
				// go on only when the message is inside its handler function (counted in runningHandlersWg)
				select {
				case <-slowEntered:
				case <-time.After(c10ProbeWait):
					note(fmt.Sprintf("slow message of %d never reached its handler", op.H))
				}
			}
		case "release":
			release()
		case "subend":
			if op.H >= len(subs) {
				continue
			}
			subs[op.H].end("env")
		case "wait_run":
			if !mainStarted {
				continue
			}
			select {
			case <-runDone:
			case <-time.After(c10RunWait):
				rt.Stamp("api.run_hung")
			}
		case "stamp":
			rt.Stamp("api.mark." + op.Tag)
		case "sleep":
			time.Sleep(time.Duration(op.N) * time.Microsecond)
		}
	}
	rt.Stamp("api.scenario.end")
	release()
	// ---- clean up (no verdicts from here on)
	rt.ReleaseAll()
	cancel()
	for _, s := range subs {
		s.end("cleanup")
	}
	closed := make(chan struct{})
	go func() { router.Close(); close(closed) }()
	select {
	case <-closed:
	case <-time.After(3 * time.Second):
	}
	if mainStarted {
		select {
		case <-runDone:
		case <-time.After(2 * time.Second):
		}
	}
	withWatchdog("async calls", 2*time.Second, asyncWg.Wait)
	for _, hd := range handlers {
		if ch := hd.Stopped(); ch != nil {
			select {
			case <-ch:
			case <-time.After(time.Second):
			}
		}
	}
	for deadline := time.Now().Add(2 * time.Second); runtime.NumGoroutine() > baseline && time.Now().Before(deadline); {
		time.Sleep(500 * time.Microsecond)
	}
	sc.Leftover = runtime.NumGoroutine() - baseline
	sc.Events = rt.Log()
	for _, s := range subs {
		s.mu.Lock()
		sc.Subscribes = append(sc.Subscribes, s.oks)
		sc.SubCalls = append(sc.SubCalls, s.calls)
		s.mu.Unlock()
	}
	sc.PubCloses = map[int]int{}
	for id, p := range pubs {
		p.mu.Lock()
		sc.PubCloses[id] = p.closes
		p.mu.Unlock()
	}
	info := ""
	for _, r := range rules {
		info += fmt.Sprintf("%s->%s parked=%d timedout=%d; ", r.Point, r.Until, r.Parked, r.TimedOut)
	}
	sc.ParkInfo = info
}

// ---- scenario generation

func op(k string) c10Op                { return c10Op{K: k} }
func opH(k string, h int) c10Op        { return c10Op{K: k, H: h} }
func opAdd(pub int, hon bool) c10Op    { return c10Op{K: "add", Pub: pub, Hon: hon} }
func opRH(n int, bg, async bool) c10Op { return c10Op{K: "rh", N: n, Bg: bg, Async: async} }
func opMark(tag string) c10Op          { return c10Op{K: "stamp", Tag: tag} }

// the forced schedules: every one is a complete client program + park rules
func c10Forced() []*c10Scenario {
	var out []*c10Scenario
	add := func(name string, ops []c10Op, parks ...c10Park) {
		out = append(out, &c10Scenario{Name: name, Forced: true, Ops: ops, Parks: parks})
	}
	// D4: Stop / Stopped immediately after Started() fires, RunHandlers held right after close(startedCh)
	add("stop-right-after-started(run)", []c10Op{opAdd(-1, true), op("run"), opH("started", 0), opH("stop", 0), opH("stopped_get", 0), opMark("d4"),
		op("wait_running"), opH("wait_stopped", 0), op("wait_run")},
		c10Park{Point: "router.life.rh.started", Nth: 1, Until: "api.mark.d4", Timeout: 2000})
	add("stop-right-after-started(runhandlers)", []c10Op{opAdd(0, true), op("run"), op("wait_running"), opAdd(1, true), opRH(1, false, true), opH("started", 1),
		opH("stopped_get", 1), opH("stop", 1), opMark("d4"), opH("wait_stopped", 1), opH("probe", 0), opH("stop", 0), opH("wait_stopped", 0), op("wait_run")},
		c10Park{Point: "router.life.rh.started", Nth: 2, Until: "api.mark.d4", Timeout: 2000})
	// D14: router started empty; the watcher has not reached its select when the first handler is added
	add("empty-start-add-before-watcher-waits", []c10Op{op("run"), op("wait_running"), opAdd(-1, true), opRH(1, false, false), opH("started", 0), opH("stop", 0),
		opH("wait_stopped", 0), op("wait_run")},
		c10Park{Point: "router.life.watch.select", Nth: 1, Until: "api.add.ret", Timeout: 2000})
	// the same without holding the watcher (whatever the scheduler does)
	add("empty-start-add-at-once", []c10Op{op("run"), op("wait_running"), opAdd(0, true), opRH(1, false, false), opH("started", 0), opH("probe", 0), opH("stop", 0),
		opH("wait_stopped", 0), op("wait_run")})
	// the watcher IS waiting when the handler is added
	add("empty-start-add-after-watcher-waits", []c10Op{op("run"), op("wait_running"), c10Op{K: "sleep", N: 20000}, opAdd(-1, true), opRH(2, false, false), opH("started", 0), opH("stop", 0),
		opH("wait_stopped", 0), op("wait_run")})
	// Running() must not close while RunHandlers is still subscribing: hold Run's RunHandlers right after it took the lock
	add("running-not-before-subscribed", []c10Op{opAdd(0, true), opAdd(-1, true), op("run"), op("wait_running"), opH("probe", 0), opH("probe", 1), opH("stop", 0), opH("stop", 1),
		opH("wait_stopped", 0), opH("wait_stopped", 1), op("wait_run")},
		c10Park{Point: "router.life.rh.locked", Nth: 1, Until: "api.running_obs", Timeout: 150})
	// publish the instant Running() closes
	add("probe-at-running", []c10Op{opAdd(0, true), opAdd(1, true), opAdd(-1, false), op("run"), op("wait_running"), opH("probe", 0), opH("probe", 1), opH("probe", 2),
		op("cancel"), op("close"), op("wait_run")})
	// RunHandlers x4 concurrently while the first is held inside the loop
	add("runhandlers-x4-held-at-subscribed", []c10Op{opAdd(0, true), op("run"), op("wait_running"), opAdd(1, true), opAdd(-1, true), opRH(4, false, false), opRH(2, false, false),
		opH("started", 1), opH("started", 2), opH("probe", 1), opH("probe", 2), opH("stop", 0), opH("stop", 1), opH("stop", 2), opH("wait_stopped", 0), opH("wait_stopped", 1), opH("wait_stopped", 2), op("wait_run")},
		c10Park{Point: "router.life.rh.subscribed", Nth: 2, Until: "api.mark.never", Timeout: 30})
	// Stop is local: shared and unshared publishers
	add("stop-is-local", []c10Op{opAdd(0, true), opAdd(0, true), opAdd(1, true), opAdd(-1, true), op("run"), op("wait_running"), opH("started", 0), opH("probe", 1), opH("stop", 0), opH("wait_stopped", 0),
		opH("probe", 2), opH("probe", 3), opH("probe", 1), opH("stop", 1), opH("stop", 2), opH("stop", 3), opH("wait_stopped", 1), opH("wait_stopped", 2), opH("wait_stopped", 3), op("wait_run")})
	// Stop while the handler goroutine has not been spawned yet
	add("stop-before-spawn", []c10Op{opAdd(0, true), opAdd(1, true), op("run"), opH("started", 0), opH("stop", 0), opMark("s"), op("wait_running"), opH("wait_stopped", 0), opH("probe", 1),
		opH("stop", 1), opH("wait_stopped", 1), op("wait_run")},
		c10Park{Point: "router.life.rh.spawn", Nth: 1, Until: "api.mark.s", Timeout: 1000})
	// last handler ends while the watcher is held after Wait / the loop is held before wg.Done
	add("self-close-loop-held-before-done", []c10Op{opAdd(0, true), opAdd(-1, true), op("run"), op("wait_running"), opH("stop", 0), opH("stop", 1), opH("stopped_get", 0), opMark("m"), opH("wait_stopped", 0),
		opH("wait_stopped", 1), op("wait_run")},
		c10Park{Point: "router.life.loop.wg_done", Nth: 2, Until: "api.mark.m", Timeout: 500})
	// context cancelled: honouring subscribers
	add("cancel-run-context", []c10Op{opAdd(0, true), opAdd(-1, true), op("run"), op("wait_running"), opAdd(1, true), opRH(1, false, false), opH("probe", 2), op("cancel"), op("wait_run"),
		opH("wait_stopped", 0), opH("wait_stopped", 1), opH("wait_stopped", 2)})
	add("cancel-held-handleclose", []c10Op{opAdd(0, true), op("run"), op("wait_running"), op("cancel"), op("wait_run"), opH("wait_stopped", 0)},
		c10Park{Point: "router.life.hc.ctx", Nth: 1, Until: "api.mark.never", Timeout: 100})
	// context cancelled on a router that has no handlers
	add("cancel-empty-router", []c10Op{op("run"), op("wait_running"), op("cancel"), op("wait_run")})
	// Stop X while Y is inside a slow handler call: X ends alone, a third handler Z keeps processing
	add("stop-while-other-handler-is-slow", []c10Op{opAdd(0, true), opAdd(1, true), opAdd(-1, true), opAdd(-1, true), op("run"), op("wait_running"), opH("slow_probe", 1), opH("slow_probe", 3),
		opH("stop", 0), opH("wait_stopped", 0), opH("probe", 2), opH("stop", 2), opH("wait_stopped", 2), op("release"), opH("probe", 1), opH("probe", 3),
		opH("stop", 1), opH("stop", 3), opH("wait_stopped", 1), opH("wait_stopped", 3), op("wait_run"), op("poll_running")})
	// a new handler under a stopped handler's name (AddHandler retried until the name is accepted), while the
	// stopped handler's goroutine is still finishing (its publisher's Close takes a while); then RunHandlers
	add("readd-under-stopped-name", []c10Op{{K: "add", Pub: 0, Hon: true, SlowC: 40}, opAdd(-1, true), op("run"), op("wait_running"), opH("started", 0), opH("probe", 0), opH("stop", 0),
		opH("readd", 0), opH("wait_stopped", 0), opRH(1, false, false), opH("started", 2), opH("probe", 2), opH("probe", 1), opRH(2, false, false), opH("stop", 1), opH("stop", 2),
		opH("wait_stopped", 1), opH("wait_stopped", 2), op("wait_run"), op("poll_running")})
	add("readd-after-stopped", []c10Op{opAdd(-1, true), opAdd(1, true), op("run"), op("wait_running"), opH("stop", 0), opH("wait_stopped", 0), opH("readd", 0), opRH(1, false, false),
		opH("started", 2), opH("probe", 2), opH("stop", 2), opH("wait_stopped", 2), opH("readd", 2), opRH(1, false, false), opH("started", 3), opH("probe", 3), opH("stop", 1), opH("stop", 3),
		opH("wait_stopped", 1), opH("wait_stopped", 3), op("wait_run")})
	// handlers sharing ONE Subscriber object: stopping one (whose subscription ignores the cancel and outlives CloseTimeout)
	// must not end the others' subscriptions
	add("shared-subscriber-stop-one", []c10Op{{K: "add", Pub: -1, Hon: false, Sub: 1}, {K: "add", Pub: -1, Hon: true, Sub: 1}, {K: "add", Pub: 0, Hon: true, Sub: 1}, opAdd(-1, true),
		op("run"), op("wait_running"), opH("probe", 1), opH("stop", 0), {K: "sleep", N: 1300000}, opH("probe", 1), opH("probe", 2), opH("probe", 3), opH("probe", 0),
		opH("subend", 0), opH("wait_stopped", 0), opH("probe", 2), opH("stop", 1), opH("stop", 2), opH("stop", 3), opH("wait_stopped", 1), opH("wait_stopped", 2), opH("wait_stopped", 3), op("wait_run")})
	add("shared-subscriber-close", []c10Op{{K: "add", Pub: -1, Hon: true, Sub: 2}, {K: "add", Pub: 0, Hon: false, Sub: 2}, opAdd(-1, false), op("run"), op("wait_running"), opH("probe", 1),
		opH("stop", 0), opH("wait_stopped", 0), opH("probe", 1), op("close"), op("wait_run"), opH("wait_stopped", 1), opH("wait_stopped", 2)})
	// Close BEFORE Run: Close releases and removes the never-started handlers, Run then starts nothing and returns nil
	add("close-before-run", []c10Op{opAdd(0, true), opAdd(-1, true), op("close"), op("run"), op("wait_run"), op("poll_running"), opH("stopped_get", 0), op("run2"), opRH(1, false, false)})
	add("close-before-run-waiting", []c10Op{opAdd(0, true), op("close"), op("run"), op("wait_running"), opAdd(-1, true), opRH(1, false, false), opH("started", 1), opH("stop", 1), op("wait_run")})
	// Stop() of a started handler while somebody sits inside handlersLock: a RunHandlers held inside its loop
	// (the Subscribe of a newly added handler takes long) / a Close held right after it took the locks
	add("stop-while-runhandlers-holds-lock", []c10Op{opAdd(0, true), op("run"), op("wait_running"), opH("started", 0), opAdd(-1, true), opRH(1, false, true),
		{K: "await", Tag: "router.life.rh.subscribed", N: 2}, opH("stop", 0), opMark("g"), opH("wait_stopped", 0), opH("started", 1), opH("probe", 1), opH("stop", 1), opH("wait_stopped", 1), op("wait_run")},
		c10Park{Point: "router.life.rh.subscribed", Nth: 2, Until: "api.mark.g", Timeout: 9000})
	add("stop-while-close-holds-lock", []c10Op{opAdd(0, true), opAdd(-1, true), op("run"), op("wait_running"), opH("started", 0), {K: "close", Async: true},
		{K: "await", Tag: "router.life.close.closing", N: 1}, opH("stop", 0), opH("stopped_get", 1), opMark("g"), op("wait_run"), opH("wait_stopped", 0), opH("wait_stopped", 1)},
		c10Park{Point: "router.life.close.closing", Nth: 1, Until: "api.mark.g", Timeout: 9000})
	// the Run context is cancelled BEFORE Run / during start-up: Run still subscribes everything, the router closes itself, Run returns nil
	add("cancel-before-run", []c10Op{opAdd(0, true), opAdd(-1, true), op("cancel"), op("run"), op("wait_run"), op("poll_running"), opH("wait_stopped", 0), opH("wait_stopped", 1), op("run2")})
	add("cancel-during-startup", []c10Op{opAdd(0, true), opAdd(-1, true), opAdd(1, true), op("run"), {K: "await", Tag: "router.life.rh.subscribed", N: 1}, op("cancel"), op("wait_run"), op("poll_running"),
		opH("wait_stopped", 0), opH("wait_stopped", 1), opH("wait_stopped", 2)},
		c10Park{Point: "router.life.rh.subscribed", Nth: 1, Until: "api.cancel", Timeout: 9000})
	// second Run after Close / after the context was cancelled
	add("second-run-after-close", []c10Op{opAdd(-1, true), op("run"), op("wait_running"), op("run2"), op("close"), op("wait_run"), op("run2"), op("poll_running"), op("run2")})
	add("second-run-after-cancel", []c10Op{opAdd(0, true), op("run"), op("wait_running"), op("cancel"), op("wait_run"), op("run2"), op("run2")})
	add("second-run-after-failed-run", []c10Op{{K: "add", Pub: -1, Hon: true, Fail: true}, op("run"), op("wait_run"), op("run2"), op("poll_running")})
	// second Run
	add("second-run", []c10Op{opAdd(-1, true), op("run"), op("wait_running"), op("run2"), opH("probe", 0), op("run2"), opH("stop", 0), opH("wait_stopped", 0), op("wait_run"), op("run2")})
	// RunHandlers / Stop / Stopped before Run
	add("before-run", []c10Op{opAdd(0, true), opRH(1, false, false), opH("stopped_get", 0), opH("stop", 0), op("add_dup"), op("run"), op("wait_running"), opH("started", 0), opH("stop", 0),
		opH("wait_stopped", 0), op("wait_run")})
	// failing Subscribe at Run and at RunHandlers
	add("subscribe-fails-at-run", []c10Op{opAdd(0, true), {K: "add", Pub: -1, Hon: true, Fail: true}, op("run"), op("wait_run"), op("poll_running"), op("run2"), opH("stopped_get", 1)})
	add("subscribe-fails-at-runhandlers", []c10Op{opAdd(0, true), op("run"), op("wait_running"), {K: "add", Pub: 1, Hon: true, Fail: true}, opRH(1, false, false), opRH(2, false, false), opH("probe", 0),
		op("close"), op("wait_run")})
	// subscription ended by the environment; subscriber ignoring its context + Close
	add("subscription-ends", []c10Op{opAdd(0, false), opAdd(1, true), op("run"), op("wait_running"), opH("subend", 0), opH("wait_stopped", 0), opH("probe", 1), opH("subend", 1), opH("wait_stopped", 1), op("wait_run")})
	add("close-with-ctx-ignoring-subscriber", []c10Op{opAdd(0, false), op("run"), op("wait_running"), opH("probe", 0), opH("stop", 0), {K: "close", Async: true}, op("wait_run"), opH("stopped_get", 0)})
	// foreign context for RunHandlers
	add("runhandlers-foreign-context", []c10Op{opAdd(0, true), op("run"), op("wait_running"), opAdd(1, true), opRH(1, true, false), opH("started", 1), op("cancel"), opH("wait_stopped", 0), opH("probe", 1),
		opH("stop", 1), opH("wait_stopped", 1), op("wait_run")})
	// concurrent Close callers + self-close
	add("close-x3", []c10Op{opAdd(0, true), opAdd(-1, true), op("run"), op("wait_running"), {K: "close", Async: true}, {K: "close", Async: true}, op("close"), op("wait_run")})
	return out
}

// pause point x client action: the first arrival at the point waits for the action (or 60 ms)
var c10PausePoints = []string{"router.life.rh.locked", "router.life.rh.subscribed", "router.life.rh.close_started", "router.life.rh.started", "router.life.rh.spawn",
	"router.life.loop.range_done", "router.life.loop.pub_close", "router.life.loop.wg_done", "router.life.loop.locked", "router.life.loop.close_stopped",
	"router.life.watch.select", "router.life.watch.added", "router.life.watch.waited", "router.life.hc.ctx", "router.life.hc.closing", "router.life.run.running",
	"router.life.run.closing_seen", "router.life.close.hlocked", "router.life.close.closing", "router.life.close.closed", "router.life.stop.call"}
var c10Actions = []string{"api.add.ret", "api.rh.call", "api.rh.ret", "api.started_obs", "api.stop.call", "api.stop.ret", "api.stopped_get", "api.cancel", "api.emit", "api.close.call", "api.running_obs"}

func c10Random(rng *rand.Rand, id int) *c10Scenario {
	sc := &c10Scenario{Name: "random"}
	var ops []c10Op
	type hinfo struct{ hon, fail, covered, stopped, bg, readded bool }
	var hs []*hinfo
	npub := 0
	addOp := func() {
		pub := -1
		switch rng.Intn(4) {
		case 0:
		case 1:
			pub = npub
			npub++
		default:
			if npub > 0 && rng.Intn(2) == 0 {
				pub = rng.Intn(npub) // shared
			} else {
				pub = npub
				npub++
			}
		}
		h := &hinfo{hon: rng.Intn(6) != 0, fail: false}
		hs = append(hs, h)
		sub := 0
		if rng.Intn(3) == 0 {
			sub = 1 + rng.Intn(2) // one of two shared Subscriber objects
		}
		ops = append(ops, c10Op{K: "add", Pub: pub, Hon: h.hon, Sub: sub})
	}
	alive := func() (n int) {
		for _, h := range hs {
			if h.covered && !h.stopped {
				n++
			}
		}
		return
	}
	pick := func(pred func(*hinfo) bool) int {
		var c []int
		for i, h := range hs {
			if pred(h) {
				c = append(c, i)
			}
		}
		if len(c) == 0 {
			return -1
		}
		return c[rng.Intn(len(c))]
	}
	for i, n := 0, rng.Intn(4); i < n; i++ {
		addOp()
	}
	if rng.Intn(10) == 0 {
		// a handler whose Subscribe fails: Run returns the error
		ops = append(ops, c10Op{K: "add", Pub: -1, Hon: true, Fail: true})
		if rng.Intn(2) == 0 {
			ops = append(ops, opAdd(-1, true))
		}
		ops = append(ops, op("run"), op("wait_run"), op("poll_running"), op("run2"), opRH(1, false, false), op("poll_running"))
		sc.Ops = ops
		return sc
	}
	if rng.Intn(5) == 0 {
		ops = append(ops, opRH(1, false, false))
	}
	if len(hs) > 0 && rng.Intn(5) == 0 {
		ops = append(ops, opH("stopped_get", 0), opH("stop", 0))
	}
	if len(hs) > 0 && rng.Intn(12) == 0 {
		// the context is cancelled before Run is called: everything is subscribed, then the router closes itself
		weak := false
		for _, h := range hs {
			weak = weak || !h.hon
		}
		ops = append(ops, op("cancel"), op("run"))
		if weak {
			ops = append(ops, op("wait_running"), op("close"))
		}
		ops = append(ops, op("wait_run"), op("poll_running"), op("run2"))
		sc.Ops = ops
		return sc
	}
	ops = append(ops, op("run"))
	if rng.Intn(6) != 0 {
		ops = append(ops, op("wait_running"))
		for _, h := range hs {
			h.covered = true
		}
	} else if len(hs) > 1 {
		// straight to a handler's Started()
		ops = append(ops, opH("started", 0), opH("stop", 0), opH("stopped_get", 0), op("wait_running"))
		hs[0].stopped = true
		for _, h := range hs {
			h.covered = true
		}
	} else {
		ops = append(ops, op("wait_running"))
	}
	cancelled := false
	steps := 2 + rng.Intn(9)
	for i := 0; i < steps; i++ {
		switch rng.Intn(12) {
		case 0, 1:
			if len(hs) < 5 {
				addOp()
				bg := rng.Intn(8) == 0
				ops = append(ops, opRH(1+rng.Intn(3), bg, false))
				for _, h := range hs {
					if !h.covered {
						h.covered = true
						h.bg = bg
					}
				}
			}
		case 2:
			ops = append(ops, opRH(1+rng.Intn(3), false, rng.Intn(3) == 0))
		case 3, 4:
			if h := pick(func(h *hinfo) bool { return h.covered && !h.stopped && h.hon }); h >= 0 && alive() > 1 {
				ops = append(ops, opH("started", h), opH("stop", h))
				hs[h].stopped = true
				if rng.Intn(2) == 0 {
					ops = append(ops, opH("wait_stopped", h))
				}
			}
		case 5, 6, 7:
			if h := pick(func(h *hinfo) bool { return h.covered && !h.stopped }); h >= 0 {
				ops = append(ops, opH("probe", h))
			}
		case 8:
			if h := pick(func(h *hinfo) bool { return h.covered }); h >= 0 {
				ops = append(ops, opH("started", h), opH("stopped_get", h))
			}
		case 9:
			if h := pick(func(h *hinfo) bool { return h.covered && !h.stopped }); h >= 0 && alive() > 1 {
				ops = append(ops, opH("started", h), opH("subend", h))
				hs[h].stopped = true
			}
		case 10:
			ops = append(ops, op("run2"))
			if h := pick(func(h *hinfo) bool { return h.covered && !h.stopped }); h >= 0 && rng.Intn(2) == 0 {
				ops = append(ops, opH("slow_probe", h))
			}
		case 11:
			if h := pick(func(h *hinfo) bool { return h.covered && h.stopped && h.hon && !h.readded }); h >= 0 {
				ops = append(ops, opH("wait_stopped", h))
				if len(hs) < 5 && rng.Intn(2) == 0 {
					// a new handler under the stopped handler's name
					hs[h].readded = true
					hs = append(hs, &hinfo{hon: true, covered: true})
					ops = append(ops, opH("readd", h), opRH(1+rng.Intn(2), false, false), opH("started", len(hs)-1), opH("probe", len(hs)-1))
				}
			}
		}
	}
	// ending
	ops = append(ops, op("release"))
	switch e := rng.Intn(6); {
	case e <= 2 && len(hs) > 0: // stop every handler: the router closes itself
		for i, h := range hs {
			if !h.stopped {
				ops = append(ops, opH("started", i))
				if h.hon && rng.Intn(4) != 0 {
					ops = append(ops, opH("stop", i))
				} else {
					ops = append(ops, opH("subend", i))
				}
				h.stopped = true
			}
		}
		for i := range hs {
			ops = append(ops, opH("wait_stopped", i))
		}
	case e == 3 && len(hs) > 0:
		ops = append(ops, op("cancel"))
		cancelled = true
		weak := false
		for _, h := range hs {
			if !h.hon || h.bg {
				weak = true
			}
		}
		if weak {
			ops = append(ops, c10Op{K: "sleep", N: 3000}, op("close"))
		}
	default:
		if rng.Intn(2) == 0 {
			ops = append(ops, c10Op{K: "close", Async: true})
		}
		ops = append(ops, op("close"))
	}
	_ = cancelled
	ops = append(ops, op("wait_run"), op("poll_running"))
	if rng.Intn(2) == 0 {
		ops = append(ops, op("run2"))
	}
	sc.Ops = ops
	// 0-2 pause-point x action rules
	for i, n := 0, rng.Intn(3); i < n; i++ {
		sc.Parks = append(sc.Parks, c10Park{Point: c10PausePoints[rng.Intn(len(c10PausePoints))], Nth: 1 + rng.Intn(2),
			Until: c10Actions[rng.Intn(len(c10Actions))], Timeout: 20 + rng.Intn(60)})
	}
	return sc
}

func runC10(args []string) error {
	fs, out, seed := newFlags("c10")
	ncases := fs.Int("cases", 40, "random scenarios")
	forcedRounds := fs.Int("forced", 1, "rounds of the forced schedules")
	only := fs.String("only", "", "run only the forced scenario with this name")
	pairs := fs.Int("pairs", 12, "pause point x client action scenarios")
	fs.Parse(args)
	rt := hookrt.Install(*seed)
	defer hookrt.Uninstall()
	rng := rand.New(rand.NewSource(*seed))
	var scs []*c10Scenario
	for r := 0; r < *forcedRounds; r++ {
		for _, sc := range c10Forced() {
			if *only != "" && sc.Name != *only {
				continue
			}
			scs = append(scs, sc)
		}
	}
	if *only == "" {
		// pause point x action on a fixed rich program
		for i := 0; i < *pairs; i++ {
			p := c10PausePoints[rng.Intn(len(c10PausePoints))]
			a := c10Actions[rng.Intn(len(c10Actions))]
			sc := &c10Scenario{Name: "pair:" + p + "~" + a, Forced: true,
				Ops: []c10Op{opAdd(0, true), opAdd(-1, true), op("run"), op("wait_running"), opAdd(1, true), opRH(2, false, false), opH("started", 2), opH("probe", 2), opH("stop", 0),
					opH("stopped_get", 0), opH("probe", 1), opH("wait_stopped", 0), opH("stop", 1), opH("stop", 2), opH("wait_stopped", 1), opH("wait_stopped", 2), op("wait_run")},
				Parks: []c10Park{{Point: p, Nth: 1 + rng.Intn(3), Until: a, Timeout: 60}}}
			scs = append(scs, sc)
		}
		for i := 0; i < *ncases; i++ {
			scs = append(scs, c10Random(rng, i))
		}
	}
	for i, sc := range scs {
		sc.ID = i
		t0 := time.Now()
		c10Run(rt, sc, *seed+int64(i))
		sc.DurMs = time.Since(t0).Milliseconds()
	}
	return writeJSON(*out, scs)
}

func init() { register("c10", runC10) }
