//go:build verif

package main

// C18 glue: every branch of the handler side (handler.go + OnCommandProcessed + MarshalReply) by direct
// calls of the cqrs.CommandHandler returned by NewCommandHandlerWithResult, with the original message
// put into the context with cqrs.CtxWithOriginalMessage (the documented way without a CommandProcessor);
// plus config validation and the error paths of ListenForNotifications / SendWithReplies.

import (
	"context"
	"encoding/json"
	"errors"
	"fmt"
	"time"

	"github.com/ThreeDotsLabs/watermill"
	"github.com/ThreeDotsLabs/watermill/components/cqrs"
	"github.com/ThreeDotsLabs/watermill/components/requestreply"
	"github.com/ThreeDotsLabs/watermill/message"

	"wmverif/script"
)

type c18BadRes struct {
	C chan int `json:"c"` // json.Marshal fails on it
}

type c18GlueCase struct {
	AckErrors bool `json:"ack_errors"`
	Modify    int  `json:"modify"` // 0 not configured, 1 ok, 2 fails
	ErrH      int  `json:"errh"`   // 0 not configured, 1 swallows, 2 propagates
	Orig      bool `json:"orig"`
	HasOp     bool `json:"has_op"`
	Marshal   bool `json:"marshal_ok"`
	TopicOK   bool `json:"topic_ok"`
	PubOK     bool `json:"pub_ok"`
	Err       bool `json:"err"`
	EmptyText bool `json:"empty_text"` // the handler error has the empty text
	ErrKind   int  `json:"errkind"`    // as c18Step.ErrKind
	CtxState  int  `json:"ctxstate"`   // handler context when it returned: 0 live, 1 cancelled, 2 timed out

	Op     int             `json:"op"`
	Res    int             `json:"res"`
	ErrID  int             `json:"err_id"`
	Nid    int             `json:"nid"`
	Enc    [2]int          `json:"enc"`
	Events [][]interface{} `json:"events"`
	Failed bool            `json:"failed"`
}

type c18Check struct {
	Name string `json:"name"`
	OK   bool   `json:"ok"`
	Info string `json:"info"`
}

func c18RunGlueCase(g *c18GlueCase, in *script.Interner, n int) {
	w := &c18World{sc: &c18Scenario{WithResult: true}, in: in}
	opid := fmt.Sprintf("glue-op-%d", n)
	pub := &script.Publisher{OnPublish: func(call int, topic string, msgs []*message.Message) error {
		if len(msgs) != 1 {
			g.Events = append(g.Events, []interface{}{"publish-n", len(msgs)})
			return nil
		}
		nt := w.notif(msgs[0])
		g.Nid = nt.ID
		g.Events = append(g.Events, []interface{}{"publish", nt.ID, nt.Op, nt.Pay, nt.HasErr, nt.Err, topic == c18ReplyTopic})
		if !g.PubOK {
			g.Events = append(g.Events, []interface{}{"pubret", false})
			return errors.New("scripted reply publish failure")
		}
		g.Events = append(g.Events, []interface{}{"pubret", true})
		return nil
	}}
	cfg := requestreply.PubSubBackendConfig{
		Publisher: pub,
		SubscriberConstructor: func(requestreply.PubSubBackendSubscribeParams) (message.Subscriber, error) {
			return script.NewSubscriber(true), nil
		},
		GenerateSubscribeTopic: func(requestreply.PubSubBackendSubscribeParams) (string, error) { return c18ReplyTopic, nil },
		GeneratePublishTopic: func(p requestreply.PubSubBackendPublishParams) (string, error) {
			if !g.TopicOK {
				return "", errors.New("scripted topic error")
			}
			if string(p.OperationID) != opid || p.CommandMessage == nil || p.Command == nil {
				g.Events = append(g.Events, []interface{}{"bad-topic-params"})
			}
			return c18ReplyTopic, nil
		},
		AckCommandErrors: g.AckErrors,
	}
	if g.Modify != 0 {
		cfg.ModifyNotificationMessage = func(m *message.Message, p requestreply.PubSubBackendOnCommandProcessedParams) error {
			if g.Modify == 2 {
				return errors.New("scripted modify error")
			}
			if (p.HandleErr != nil) != g.Err || string(p.OperationID) != opid {
				g.Events = append(g.Events, []interface{}{"bad-modify-params"})
			}
			return nil
		}
	}
	if g.ErrH != 0 {
		cfg.ReplyPublishErrorHandler = func(topic string, m *message.Message, err error) error {
			g.Events = append(g.Events, []interface{}{"errh", g.ErrH == 1})
			if g.ErrH == 1 {
				return nil
			}
			return err
		}
	}
	var cancelCtx func()
	mkErr := func(ctx context.Context) error {
		if !g.Err {
			return nil
		}
		var herr error
		switch g.ErrKind {
		case 3:
			herr = context.DeadlineExceeded
		case 4:
			cancelCtx()
			g.CtxState = 1
			herr = ctx.Err()
		case 5:
			<-ctx.Done()
			g.CtxState = 2
			herr = fmt.Errorf("interrupted: %w", ctx.Err())
		default:
			herr = fmt.Errorf("glue handler error %d", n)
			if g.EmptyText {
				herr = errors.New("")
			}
		}
		g.ErrID = w.errID(herr.Error())
		return herr
	}
	msg := message.NewMessage(fmt.Sprintf("glue-cmd-%d", n), []byte(`{"id":"g"}`))
	if g.HasOp {
		msg.Metadata.Set(requestreply.OperationIDMetadataKey, opid)
		g.Op = w.opID(opid)
	}
	ctx := context.Background()
	if g.Orig {
		ctx = cqrs.CtxWithOriginalMessage(ctx, msg)
	}
	if g.Err && g.ErrKind == 5 {
		ctx, cancelCtx = context.WithTimeout(ctx, 50*time.Microsecond)
	} else {
		ctx, cancelCtx = context.WithCancel(ctx)
	}
	defer cancelCtx()
	var h cqrs.CommandHandler
	if g.Marshal {
		be, err := requestreply.NewPubSubBackend[c18Res](cfg, requestreply.BackendPubsubJSONMarshaler[c18Res]{})
		if err != nil {
			g.Events = append(g.Events, []interface{}{"backend-error", err.Error()})
			return
		}
		res := c18Res{V: fmt.Sprintf("glue-%d", n%7)}
		g.Res = w.resID(res)
		b, _ := json.Marshal(res)
		g.Enc = [2]int{g.Res, in.ID("p:" + string(b))}
		h = requestreply.NewCommandHandlerWithResult[c18Cmd, c18Res]("g", be, func(ctx context.Context, cmd *c18Cmd) (c18Res, error) {
			g.Events = append(g.Events, []interface{}{"call"})
			return res, mkErr(ctx)
		})
	} else {
		be, err := requestreply.NewPubSubBackend[c18BadRes](cfg, requestreply.BackendPubsubJSONMarshaler[c18BadRes]{})
		if err != nil {
			g.Events = append(g.Events, []interface{}{"backend-error", err.Error()})
			return
		}
		g.Res = in.ID("r:<unmarshalable>")
		g.Enc = [2]int{g.Res, -1}
		h = requestreply.NewCommandHandlerWithResult[c18Cmd, c18BadRes]("g", be, func(ctx context.Context, cmd *c18Cmd) (c18BadRes, error) {
			g.Events = append(g.Events, []interface{}{"call"})
			return c18BadRes{C: make(chan int)}, mkErr(ctx)
		})
	}
	g.Failed = h.Handle(ctx, &c18Cmd{ID: "g"}) != nil
}

type c18FailSub struct{ ctx context.Context }

func (s *c18FailSub) Subscribe(ctx context.Context, topic string) (<-chan *message.Message, error) {
	s.ctx = ctx
	return nil, errors.New("scripted subscribe error")
}
func (s *c18FailSub) Close() error { return nil }

type c18NopBus struct{ err error }

func (b c18NopBus) SendWithModifiedMessage(ctx context.Context, cmd any, modify func(*message.Message) error) error {
	return b.err
}

func c18APIChecks() []c18Check {
	var out []c18Check
	add := func(name string, ok bool, info string) { out = append(out, c18Check{name, ok, info}) }
	good := func() requestreply.PubSubBackendConfig {
		return requestreply.PubSubBackendConfig{
			Publisher: &script.Publisher{},
			SubscriberConstructor: func(requestreply.PubSubBackendSubscribeParams) (message.Subscriber, error) {
				return script.NewSubscriber(true), nil
			},
			GenerateSubscribeTopic: func(requestreply.PubSubBackendSubscribeParams) (string, error) { return "t", nil },
			GeneratePublishTopic:   func(requestreply.PubSubBackendPublishParams) (string, error) { return "t", nil },
		}
	}
	m := requestreply.BackendPubsubJSONMarshaler[c18Res]{}
	_, err := requestreply.NewPubSubBackend[c18Res](good(), m)
	add("valid config accepted", err == nil, fmt.Sprint(err))
	c := good()
	c.Publisher = nil
	_, err = requestreply.NewPubSubBackend[c18Res](c, m)
	add("nil Publisher rejected", err != nil, "")
	c = good()
	c.SubscriberConstructor = nil
	_, err = requestreply.NewPubSubBackend[c18Res](c, m)
	add("nil SubscriberConstructor rejected", err != nil, "")
	c = good()
	c.GeneratePublishTopic = nil
	_, err = requestreply.NewPubSubBackend[c18Res](c, m)
	add("nil GeneratePublishTopic rejected", err != nil, "")
	c = good()
	c.GenerateSubscribeTopic = nil
	_, err = requestreply.NewPubSubBackend[c18Res](c, m)
	add("nil GenerateSubscribeTopic rejected", err != nil, "")
	_, err = requestreply.NewPubSubBackend[c18Res](good(), nil)
	add("nil marshaler rejected", err != nil, "")

	// error paths of ListenForNotifications / SendWithReplies: an error, no reply channel, the context handed out is cancelled, the hook does not run
	hooks := 0
	withHook := func(c requestreply.PubSubBackendConfig) requestreply.PubSubBackendConfig {
		c.OnListenForReplyFinished = func(context.Context, requestreply.PubSubBackendSubscribeParams) { hooks++ }
		c.Logger = watermill.NopLogger{}
		return c
	}
	c = withHook(good())
	c.SubscriberConstructor = func(requestreply.PubSubBackendSubscribeParams) (message.Subscriber, error) {
		return nil, errors.New("no subscriber")
	}
	be, _ := requestreply.NewPubSubBackend[c18Res](c, m)
	ch, cancel, err := requestreply.SendWithReplies[c18Res](context.Background(), c18NopBus{}, be, &c18Cmd{ID: "x"})
	add("SubscriberConstructor error -> SendWithReplies fails, no channel", err != nil && ch == nil && cancel != nil, fmt.Sprint(err))
	c = withHook(good())
	c.GenerateSubscribeTopic = func(requestreply.PubSubBackendSubscribeParams) (string, error) { return "", errors.New("no topic") }
	be, _ = requestreply.NewPubSubBackend[c18Res](c, m)
	ch, _, err = requestreply.SendWithReplies[c18Res](context.Background(), c18NopBus{}, be, &c18Cmd{ID: "x"})
	add("GenerateSubscribeTopic error -> SendWithReplies fails, no channel", err != nil && ch == nil, fmt.Sprint(err))
	fs := &c18FailSub{}
	c = withHook(good())
	c.SubscriberConstructor = func(requestreply.PubSubBackendSubscribeParams) (message.Subscriber, error) { return fs, nil }
	be, _ = requestreply.NewPubSubBackend[c18Res](c, m)
	ch, _, err = requestreply.SendWithReplies[c18Res](context.Background(), c18NopBus{}, be, &c18Cmd{ID: "x"})
	cancelled := fs.ctx != nil && fs.ctx.Err() != nil
	add("Subscribe error -> SendWithReplies fails, subscribe context cancelled", err != nil && ch == nil && cancelled, fmt.Sprint(err))
	// the bus fails after the listener was started: error returned, listener ends (hook once, channel closed)
	c = withHook(good())
	sub := script.NewSubscriber(true)
	c.SubscriberConstructor = func(requestreply.PubSubBackendSubscribeParams) (message.Subscriber, error) { return sub, nil }
	var lch <-chan requestreply.Reply[c18Res]
	be, _ = requestreply.NewPubSubBackend[c18Res](c, m)
	wrapped := c18ChanGrab{PubSubBackend: be, got: &lch}
	before := hooks
	ch, _, err = requestreply.SendWithReplies[c18Res](context.Background(), c18NopBus{err: errors.New("bus down")}, wrapped, &c18Cmd{ID: "x"})
	closed := false
	deadline := time.After(10 * time.Second)
loop:
	for lch != nil {
		select {
		case _, ok := <-lch:
			if !ok {
				closed = true
				break loop
			}
		case <-deadline:
			break loop
		}
	}
	time.Sleep(5 * time.Millisecond)
	add("bus error -> SendWithReplies fails and the listener already started finishes (closed, hook once)", err != nil && ch == nil && closed && hooks == before+1, fmt.Sprintf("err=%v closed=%v hooks=%d", err, closed, hooks-before))
	return out
}

type c18ChanGrab struct {
	*requestreply.PubSubBackend[c18Res]
	got *<-chan requestreply.Reply[c18Res]
}

func (b c18ChanGrab) ListenForNotifications(ctx context.Context, params requestreply.BackendListenForNotificationsParams) (<-chan requestreply.Reply[c18Res], error) {
	ch, err := b.PubSubBackend.ListenForNotifications(ctx, params)
	*b.got = ch
	return ch, err
}

func c18Glue(in *script.Interner) ([]*c18GlueCase, []c18Check) {
	var cases []*c18GlueCase
	n := 0
	bools := []bool{true, false}
	for _, ack := range bools {
		for modify := 0; modify < 3; modify++ {
			for errh := 0; errh < 3; errh++ {
				for _, orig := range bools {
					for _, hasOp := range bools {
						for _, marshal := range bools {
							for _, topic := range bools {
								for _, pubOK := range bools {
									for e := 0; e < 6; e++ { // no error, error with a text, with the empty text, context.DeadlineExceeded, own ctx.Err() (cancelled), wrapped own ctx.Err() (timed out)
										n++
										g := &c18GlueCase{AckErrors: ack, Modify: modify, ErrH: errh, Orig: orig, HasOp: hasOp, Marshal: marshal, TopicOK: topic, PubOK: pubOK, Err: e > 0, EmptyText: e == 2, ErrKind: []int{0, 0, 0, 3, 4, 5}[e]}
										c18RunGlueCase(g, in, n)
										cases = append(cases, g)
									}
								}
							}
						}
					}
				}
			}
		}
	}
	return cases, c18APIChecks()
}

// ---------------------------------------------------------------- API glue as observations for Corr.C18 (ReqReply/Api.v)

type c18APICase struct {
	Kind     string `json:"kind"` // "v" NewPubSubBackend validation, "l" SendWithReplies exits
	Flags    []bool `json:"flags,omitempty"`
	Accepted bool   `json:"accepted"`
	Hook     bool   `json:"hook"`
	In       []bool `json:"in,omitempty"`  // subscriber constructor ok, subscribe topic ok, Subscribe ok, command bus ok
	Obs      []bool `json:"obs,omitempty"` // error, channel non-nil, cancel func non-nil, Subscribe context ended, reply channel closed
	Hooks    int    `json:"hooks"`
}

func c18APICases() []c18APICase {
	var out []c18APICase
	// every subset of the five required parts
	for m := 0; m < 32; m++ {
		f := []bool{m&1 != 0, m&2 != 0, m&4 != 0, m&8 != 0, m&16 != 0}
		c := requestreply.PubSubBackendConfig{}
		if f[0] {
			c.Publisher = &script.Publisher{}
		}
		if f[1] {
			c.SubscriberConstructor = func(requestreply.PubSubBackendSubscribeParams) (message.Subscriber, error) {
				return script.NewSubscriber(true), nil
			}
		}
		if f[2] {
			c.GeneratePublishTopic = func(requestreply.PubSubBackendPublishParams) (string, error) { return "t", nil }
		}
		if f[3] {
			c.GenerateSubscribeTopic = func(requestreply.PubSubBackendSubscribeParams) (string, error) { return "t", nil }
		}
		var mar requestreply.BackendPubsubMarshaler[c18Res]
		if f[4] {
			mar = requestreply.BackendPubsubJSONMarshaler[c18Res]{}
		}
		be, err := requestreply.NewPubSubBackend[c18Res](c, mar)
		out = append(out, c18APICase{Kind: "v", Flags: f, Accepted: err == nil && be != nil})
	}
	// the exits of SendWithReplies that do not hand out a channel
	for _, hook := range []bool{true, false} {
		for _, in := range [][]bool{{false, true, true, true}, {true, false, true, true}, {true, true, false, true}, {true, true, true, false}} {
			hooks := 0
			var subCtx context.Context
			var lch <-chan requestreply.Reply[c18Res]
			c := requestreply.PubSubBackendConfig{
				Publisher: &script.Publisher{},
				Logger:    watermill.NopLogger{},
				SubscriberConstructor: func(requestreply.PubSubBackendSubscribeParams) (message.Subscriber, error) {
					if !in[0] {
						return nil, errors.New("no subscriber")
					}
					if !in[2] {
						return &c18FailSub{}, nil
					}
					return &c18CtxSub{inner: script.NewSubscriber(true), got: &subCtx}, nil
				},
				GenerateSubscribeTopic: func(requestreply.PubSubBackendSubscribeParams) (string, error) {
					if !in[1] {
						return "", errors.New("no topic")
					}
					return "t", nil
				},
				GeneratePublishTopic: func(requestreply.PubSubBackendPublishParams) (string, error) { return "t", nil },
			}
			var fs *c18FailSub
			if !in[2] {
				fs = &c18FailSub{}
				c.SubscriberConstructor = func(requestreply.PubSubBackendSubscribeParams) (message.Subscriber, error) { return fs, nil }
			}
			if hook {
				c.OnListenForReplyFinished = func(context.Context, requestreply.PubSubBackendSubscribeParams) { hooks++ }
			}
			be, _ := requestreply.NewPubSubBackend[c18Res](c, requestreply.BackendPubsubJSONMarshaler[c18Res]{})
			bus := c18NopBus{}
			if !in[3] {
				bus.err = errors.New("bus down")
			}
			ch, cancel, err := requestreply.SendWithReplies[c18Res](context.Background(), bus, c18ChanGrab{PubSubBackend: be, got: &lch}, &c18Cmd{ID: "x"})
			closed := false
			deadline := time.After(10 * time.Second)
		wait:
			for lch != nil {
				select {
				case _, ok := <-lch:
					if !ok {
						closed = true
						break wait
					}
				case <-deadline:
					break wait
				}
			}
			time.Sleep(5 * time.Millisecond) // the finished hook runs right after the close
			if fs != nil {
				subCtx = fs.ctx
			}
			out = append(out, c18APICase{Kind: "l", Hook: hook, In: in,
				Obs:   []bool{err != nil, ch != nil, cancel != nil, subCtx != nil && subCtx.Err() != nil, closed},
				Hooks: hooks})
			if cancel != nil {
				cancel()
			}
		}
	}
	return out
}

type c18CtxSub struct {
	inner message.Subscriber
	got   *context.Context
}

func (s *c18CtxSub) Subscribe(ctx context.Context, topic string) (<-chan *message.Message, error) {
	*s.got = ctx
	return s.inner.Subscribe(ctx, topic)
}
func (s *c18CtxSub) Close() error { return s.inner.Close() }
