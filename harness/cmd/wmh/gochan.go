//go:build verif

package main

// GoChannel scenarios (C04, C05, C07, C11): random concurrent client programs over all
// configurations plus forced overlaps; records the hook log (total order) and the API
// history. The Python side maps the log to labels of the two Coq models (GoChannel/Sub.v per
// subscription, GoChannel/Reg.v globally) and evaluates the API monitors.

import (
	"bytes"
	"context"
	"fmt"
	"math/rand"
	"runtime"
	"strings"
	"sync"
	"sync/atomic"
	"time"

	"github.com/ThreeDotsLabs/watermill"
	"github.com/ThreeDotsLabs/watermill/message"
	"github.com/ThreeDotsLabs/watermill/pubsub/gochannel"

	"wmverif/hookrt"
)

type gcSubSpec struct {
	Topic     int   `json:"topic"`
	Behaviour []int `json:"beh"` // per received message (cyclic): 0 ack, 1 nack, 2 leave unsettled, 3 mutate metadata then nack, 4 mutate then ack
	CancelAt  int   `json:"cancel_at"` // cancel own context after this many receives (-1 never)
	StartAt   int   `json:"start_at"`  // 0: before publishers start; n>0: after the n-th publish call returned (late subscribe)
	SlowUs    int   `json:"slow_us"`
	Drain     bool  `json:"drain"` // keep receiving after cancel/close (like the Router's range loop)
	CancelOnHook string `json:"cancel_on_hook,omitempty"` // cancel the subscription when this hook point is first passed
	StartOnHook  string `json:"start_on_hook,omitempty"`  // Subscribe when this hook point is first passed (StartAt is ignored)
}
type gcPubSpec struct {
	Calls [][]int `json:"calls"` // each call: list of message numbers (unique per scenario)
	Topic int     `json:"topic"`
}
type gcScenario struct {
	ID         int         `json:"id"`
	Buffer     int         `json:"buffer"`
	Persistent bool        `json:"persistent"`
	Blocking   bool        `json:"blocking"`
	Subs       []gcSubSpec `json:"subs"`
	Pubs       []gcPubSpec `json:"pubs"`
	CloseAfter int         `json:"close_after"` // Close the Pub/Sub after this many publish calls returned (-1: at the end only)
	Closers    int         `json:"closers"`     // concurrent Close callers
	PubAfter   bool        `json:"pub_after"`   // a Publish and a Subscribe after Close returned
	CloseOnHook string     `json:"close_on_hook,omitempty"` // Close is called when this hook point is first reached
	Forced     string      `json:"forced"`      // name of the forced overlap, "" for random

	Events   []hookrt.Event `json:"events"`
	Panics   []string       `json:"panics"`
	Hung     []string       `json:"hung"`
	Leaked   int            `json:"leaked"` // gochannel goroutines alive at the end
	LeakDump string         `json:"leak_dump,omitempty"`
	ParkInfo string         `json:"park,omitempty"`
}

func gcMsgUUID(n int) string { return fmt.Sprintf("msg-%d", n) }

func gcMakeMsg(n int) *message.Message {
	m := message.NewMessage(gcMsgUUID(n), []byte(fmt.Sprintf("payload-%d", n)))
	m.Metadata.Set("n", fmt.Sprint(n))
	m.Metadata.Set("k", "published-value")
	// the publisher's own context on the message (a value of its own; for every third message
	// already cancelled): deliveries derive from the SUBSCRIBE context, and a blocking Publish
	// waits for the Acks whatever happens to this one
	ctx := context.WithValue(context.Background(), gcPubKey{}, n)
	if n%3 == 0 {
		c2, cancel := context.WithCancel(ctx)
		cancel()
		ctx = c2
	}
	m.SetContext(ctx)
	return m
}

type gcPubKey struct{}

func gcContentOK(m *message.Message) bool {
	var n int
	if _, err := fmt.Sscanf(m.UUID, "msg-%d", &n); err != nil {
		return false
	}
	return string(m.Payload) == fmt.Sprintf("payload-%d", n) && len(m.Metadata) == 2 &&
		m.Metadata.Get("n") == fmt.Sprint(n) && m.Metadata.Get("k") == "published-value"
}

type ctxKey struct{}

func gcRun(rt *hookrt.Runtime, sc *gcScenario, rng *rand.Rand) {
	rt.Reset()
	rt.Filter(func(point string, keys []string) bool {
		return strings.HasPrefix(point, "gochannel.") || strings.HasPrefix(point, "api.")
	})
	rt.Perturb("*", 0.25)
	rt.MaxNap(80 * time.Microsecond)
	gcForce(rt, sc)

	ps := gochannel.NewGoChannel(gochannel.Config{
		OutputChannelBuffer: int64(sc.Buffer), Persistent: sc.Persistent, BlockPublishUntilSubscriberAck: sc.Blocking,
	}, watermill.NopLogger{})

	var mu sync.Mutex
	var panics []string
	guard := func(what string, f func()) (panicked bool) {
		defer func() {
			if r := recover(); r != nil {
				panicked = true
				mu.Lock()
				panics = append(panics, fmt.Sprintf("%s: %v", what, r))
				mu.Unlock()
			}
		}()
		f()
		return false
	}

	var pubCallsDone int32
	pubDoneCh := make(chan struct{}, 1024)
	var wgSubs, wgPubs sync.WaitGroup
	var copySeq int32
	cancels := make([]context.CancelFunc, len(sc.Subs))
	subStarted := make([]chan struct{}, len(sc.Subs))
	quit := make(chan struct{}) // driver: stop everything that still waits

	startSub := func(i int) {
		spec := sc.Subs[i]
		ctx, cancel := context.WithCancel(context.WithValue(context.Background(), ctxKey{}, i))
		cancels[i] = cancel
		tid := 100 + i
		wgSubs.Add(1)
		go func() {
			defer wgSubs.Done()
			rt.Register(tid)
			var ch <-chan *message.Message
			var err error
			rt.Stamp("api.subscribe.call", fmt.Sprint(i), fmt.Sprint(spec.Topic))
			guard("Subscribe", func() { ch, err = ps.Subscribe(ctx, fmt.Sprintf("topic-%d", spec.Topic)) })
			rt.Stamp("api.subscribe.ret", fmt.Sprint(i), fmt.Sprint(err == nil && ch != nil))
			close(subStarted[i])
			if err != nil || ch == nil {
				return
			}
			recvd := 0
			cancelled := false
			for {
				var msg *message.Message
				var ok bool
				select {
				case msg, ok = <-ch:
				case <-quit:
					return
				}
				if !ok {
					rt.Stamp("api.chan_closed", fmt.Sprint(i))
					return
				}
				cid := atomic.AddInt32(&copySeq, 1)
				ctxLive := msg.Context().Err() == nil
				ctxDerived := msg.Context().Value(ctxKey{}) == i
				rt.Stamp("api.recv", fmt.Sprint(i), msg.UUID, fmt.Sprint(cid), fmt.Sprint(gcContentOK(msg)), fmt.Sprint(ctxLive), fmt.Sprint(ctxDerived))
				b := spec.Behaviour[recvd%len(spec.Behaviour)]
				recvd++
				if cancelled && spec.Drain {
					b = 2 // after a cancel just keep draining, leaving messages unsettled
				}
				if spec.SlowUs > 0 {
					time.Sleep(time.Duration(spec.SlowUs) * time.Microsecond)
				}
				if b == 3 || b == 4 {
					msg.Metadata.Set("k", "edited-by-subscriber")
					msg.Metadata.Set("extra", "x")
				}
				switch b {
				case 0, 4:
					rt.Stamp("api.ack", fmt.Sprint(i), msg.UUID, fmt.Sprint(cid))
					msg.Ack()
					// the delivery context is cancelled once the Sender has seen the Ack
					select {
					case <-msg.Context().Done():
						rt.Stamp("api.ctx_done_after_ack", fmt.Sprint(i), fmt.Sprint(cid))
					case <-time.After(500 * time.Millisecond):
						rt.Stamp("api.ctx_not_done_after_ack", fmt.Sprint(i), fmt.Sprint(cid))
					}
				case 1, 3:
					rt.Stamp("api.nack", fmt.Sprint(i), msg.UUID, fmt.Sprint(cid))
					msg.Nack()
				default:
					rt.Stamp("api.leave", fmt.Sprint(i), msg.UUID, fmt.Sprint(cid))
				}
				if spec.CancelAt >= 0 && recvd == spec.CancelAt && !cancelled {
					cancelled = true
					rt.Stamp("api.cancel", fmt.Sprint(i))
					cancel()
					if !spec.Drain {
						// wait for the channel to be closed (must happen)
						for {
							select {
							case m2, ok := <-ch:
								if !ok {
									rt.Stamp("api.chan_closed", fmt.Sprint(i))
									return
								}
								// a message that was already in flight: leave it unsettled
								cid2 := atomic.AddInt32(&copySeq, 1)
								rt.Stamp("api.recv", fmt.Sprint(i), m2.UUID, fmt.Sprint(cid2), fmt.Sprint(gcContentOK(m2)), "true", "true")
								rt.Stamp("api.leave", fmt.Sprint(i), m2.UUID, fmt.Sprint(cid2))
							case <-quit:
								return
							}
						}
					}
				}
			}
		}()
	}
	for i := range sc.Subs {
		subStarted[i] = make(chan struct{})
	}
	for i, s := range sc.Subs {
		if s.StartAt == 0 && s.StartOnHook == "" {
			startSub(i)
			<-subStarted[i]
		}
	}
	for i, s := range sc.Subs {
		if s.StartOnHook != "" {
			go func(i int, point string) {
				if decoWaitCount(rt, point, 1, 2*time.Second) {
					startSub(i)
				} else {
					close(subStarted[i])
				}
			}(i, s.StartOnHook)
		}
		if s.CancelOnHook != "" {
			go func(i int, point string) {
				if decoWaitCount(rt, point, 1, 2*time.Second) {
					rt.Stamp("api.cancel", fmt.Sprint(i))
					cancels[i]()
				}
			}(i, s.CancelOnHook)
		}
	}
	// late subscribers
	go func() {
		started := map[int]bool{}
		for {
			n := int(atomic.LoadInt32(&pubCallsDone))
			for i, s := range sc.Subs {
				if s.StartAt > 0 && s.StartOnHook == "" && !started[i] && n >= s.StartAt {
					started[i] = true
					startSub(i)
				}
			}
			select {
			case <-pubDoneCh:
			case <-quit:
				return
			case <-time.After(20 * time.Millisecond):
			}
		}
	}()
	closeOnce := func(who int) {
		rt.Register(300 + who)
		rt.Stamp("api.close.call", fmt.Sprint(who))
		var err error
		guard("Close", func() { err = ps.Close() })
		rt.Stamp("api.close.ret", fmt.Sprint(who), fmt.Sprint(err == nil))
	}
	var wgClose sync.WaitGroup
	closeStarted := false
	var closeMu sync.Mutex
	startClose := func() {
		closeMu.Lock()
		defer closeMu.Unlock()
		if closeStarted {
			return
		}
		closeStarted = true
		for c := 0; c < sc.Closers; c++ {
			wgClose.Add(1)
			go func(c int) { defer wgClose.Done(); closeOnce(c) }(c)
		}
	}
	if sc.CloseOnHook != "" {
		go func() {
			if decoWaitCount(rt, sc.CloseOnHook, 1, 2*time.Second) {
				startClose()
			}
		}()
	}
	if sc.CloseAfter == 0 {
		// Close while the first Publish call is under way (it has passed its closed check)
		go func() {
			decoWaitCount(rt, "gochannel.publish.rrequest", 1, 300*time.Millisecond)
			startClose()
		}()
	}
	for pi, p := range sc.Pubs {
		wgPubs.Add(1)
		go func(pi int, p gcPubSpec) {
			defer wgPubs.Done()
			rt.Register(200 + pi)
			for ci, call := range p.Calls {
				msgs := make([]*message.Message, len(call))
				keys := []string{fmt.Sprint(pi), fmt.Sprint(ci), fmt.Sprint(p.Topic)}
				for j, n := range call {
					msgs[j] = gcMakeMsg(n)
					keys = append(keys, msgs[j].UUID)
				}
				rt.Stamp("api.publish.call", keys...)
				var err error
				pan := guard("Publish", func() { err = ps.Publish(fmt.Sprintf("topic-%d", p.Topic), msgs...) })
				rt.Stamp("api.publish.ret", fmt.Sprint(pi), fmt.Sprint(ci), fmt.Sprint(err == nil && !pan))
				// the caller recycles its message objects after Publish returned: nothing the Pub/Sub
				// delivers or replays later may depend on them
				for j := range msgs {
					msgs[j].Payload = []byte("recycled-by-the-caller")
					msgs[j].Metadata.Set("k", "recycled")
					msgs[j].Metadata.Set("extra", "x")
				}
				n := atomic.AddInt32(&pubCallsDone, 1)
				select {
				case pubDoneCh <- struct{}{}:
				default:
				}
				if sc.CloseAfter >= 0 && int(n) >= sc.CloseAfter {
					startClose()
				}
			}
		}(pi, p)
	}
	// wait for publishers with a liveness bound; blocking mode with consumers that never settle
	// legitimately blocks until a cancel or Close, so the driver closes after a grace period
	waitOr := func(wg *sync.WaitGroup, d time.Duration) bool {
		done := make(chan struct{})
		go func() { wg.Wait(); close(done) }()
		select {
		case <-done:
			return true
		case <-time.After(d):
			return false
		}
	}
	var hung []string
	if !waitOr(&wgPubs, 1500*time.Millisecond) {
		// publishers still blocked: Close must release them (C05/C07)
		rt.Stamp("api.driver.close_to_release")
		startClose()
		if !waitOr(&wgPubs, 3*time.Second) {
			hung = append(hung, "Publish did not return after Close")
		}
	}
	// let consumers settle what is in flight, then close
	time.Sleep(time.Duration(20+rng.Intn(30)) * time.Millisecond)
	gcQuiesce(rt, 300*time.Millisecond)
	rt.Stamp("api.quiescent")
	startClose()
	if !waitOr(&wgClose, 3*time.Second) {
		hung = append(hung, "Close did not return")
	}
	if sc.PubAfter && len(hung) == 0 {
		rt.Register(400)
		var err error
		rt.Stamp("api.publish_after_close.call")
		rt.Stamp("api.publish.call", "99", "0", "0", gcMsgUUID(9999))
		pan := guard("Publish after Close", func() { err = ps.Publish("topic-0", gcMakeMsg(9999)) })
		rt.Stamp("api.publish.ret", "99", "0", fmt.Sprint(err == nil && !pan))
		rt.Stamp("api.publish_after_close.ret", fmt.Sprint(err == nil))
		var err0 error
		rt.Stamp("api.publish.call", "98", "0", "0")
		pan0 := guard("Publish (no messages) after Close", func() { err0 = ps.Publish("topic-0") })
		rt.Stamp("api.publish.ret", "98", "0", fmt.Sprint(err0 == nil && !pan0))
		rt.Stamp("api.publish_after_close_empty.ret", fmt.Sprint(err0 == nil))
		var ch <-chan *message.Message
		rt.Stamp("api.subscribe.call", fmt.Sprint(len(sc.Subs)), "0")
		guard("Subscribe after Close", func() { ch, err = ps.Subscribe(context.Background(), "topic-0") })
		rt.Stamp("api.subscribe.ret", fmt.Sprint(len(sc.Subs)), fmt.Sprint(err == nil && ch != nil))
		rt.Stamp("api.subscribe_after_close.ret", fmt.Sprint(err == nil && ch != nil))
	}
	if !waitOr(&wgSubs, 2*time.Second) {
		hung = append(hung, "a subscription's output channel was not closed after Close/cancel")
	}
	close(quit)
	for _, c := range cancels {
		if c != nil {
			c()
		}
	}
	// goroutine leak check (Pub/Sub goroutines only), after a grace period
	leaked, dump := 0, ""
	for try := 0; try < 40; try++ {
		leaked, dump = gcLeaked()
		if leaked == 0 {
			break
		}
		time.Sleep(25 * time.Millisecond)
	}
	rt.ReleaseAll()
	mu.Lock()
	sc.Panics = panics
	mu.Unlock()
	sc.Hung = hung
	sc.Leaked = leaked
	if leaked > 0 {
		sc.LeakDump = dump
	}
	sc.Events = rt.Log()
	sc.ParkInfo = rt.RuleInfo()
}

// gcQuiesce waits until no new hook event has been logged for d.
func gcQuiesce(rt *hookrt.Runtime, d time.Duration) {
	last := rt.Len()
	deadline := time.Now().Add(3 * time.Second)
	for time.Now().Before(deadline) {
		time.Sleep(d / 3)
		time.Sleep(d / 3)
		time.Sleep(d / 3)
		n := rt.Len()
		if n == last && rt.ParkedNow() == 0 { // a goroutine held by a park rule will move again: not quiescent
			return
		}
		last = n
	}
}

func gcLeaked() (int, string) {
	buf := make([]byte, 1<<20)
	n := runtime.Stack(buf, true)
	count := 0
	var out bytes.Buffer
	for _, g := range bytes.Split(buf[:n], []byte("\n\n")) {
		if bytes.Contains(g, []byte("pubsub/gochannel.")) && !bytes.Contains(g, []byte("wmverif")) {
			count++
			if out.Len() < 4000 {
				out.Write(g)
				out.WriteString("\n\n")
			}
		}
	}
	return count, out.String()
}

// gcForce installs the park rules of a forced overlap.
func gcForce(rt *hookrt.Runtime, sc *gcScenario) {
	T := 400 * time.Millisecond
	switch sc.Forced {
	case "publish.closed_check x Close":
		// the closed check is stamped while closedLock is held (inside isClosed), so the publisher is
		// parked at its next point, before RLock: Close can then run to completion
		rt.AddRule(&hookrt.ParkRule{Point: "gochannel.publish.rrequest", Nth: 1, Until: "gochannel.close.nil_persisted", Timeout: T})
	case "publish.persisted x Subscribe":
		rt.AddRule(&hookrt.ParkRule{Point: "gochannel.publish.persisted", Nth: 1, Until: "gochannel.subscribe.wrequest", Timeout: T})
	case "publish.snapshot x Subscribe":
		rt.AddRule(&hookrt.ParkRule{Point: "gochannel.publish.snapshot", Nth: 1, Until: "gochannel.subscribe.wrequest", Timeout: T})
	case "subscribe.replay x Publish":
		rt.AddRule(&hookrt.ParkRule{Point: "gochannel.subscribe.replay", Nth: 1, Until: "gochannel.publish.rrequest", Timeout: T})
	case "subscribe.created x Publish":
		rt.AddRule(&hookrt.ParkRule{Point: "gochannel.subscribe.created", Nth: 2, Until: "gochannel.publish.rrequest", Timeout: T})
	case "send.wait_settle x cancel":
		rt.AddRule(&hookrt.ParkRule{Point: "gochannel.send.wait_settle", Nth: 1, Until: "api.cancel", Timeout: T})
	case "send.before_chan x Close":
		rt.AddRule(&hookrt.ParkRule{Point: "gochannel.send.before_chan", Nth: 2, Until: "gochannel.close.signalled", Timeout: T})
	case "send.locked x cancel":
		rt.AddRule(&hookrt.ParkRule{Point: "gochannel.send.locked", Nth: 2, Until: "gochannel.sub.close.signal", Timeout: T})
	case "sub.close.before_lock x Nack":
		rt.AddRule(&hookrt.ParkRule{Point: "gochannel.sub.close.before_lock", Nth: 1, Until: "api.nack", Timeout: T})
	case "unsubscribe.before_remove x Close":
		rt.AddRule(&hookrt.ParkRule{Point: "gochannel.unsubscribe.before_remove", Nth: 1, Until: "api.close.call", Timeout: T})
	case "unsubscribe.wrequest x Publish":
		rt.AddRule(&hookrt.ParkRule{Point: "gochannel.unsubscribe.wrequest", Nth: 1, Until: "gochannel.publish.rlocked", Timeout: T})
	case "close.signalled x Subscribe":
		rt.AddRule(&hookrt.ParkRule{Point: "gochannel.close.signalled", Nth: 1, Until: "gochannel.subscribe.wg_added", Timeout: T})
	case "subscribe.wg_added x Close":
		rt.AddRule(&hookrt.ParkRule{Point: "gochannel.subscribe.wg_added", Nth: 2, Until: "api.close.call", Timeout: T})
	case "publish.wait_ack x cancel":
		rt.AddRule(&hookrt.ParkRule{Point: "gochannel.publish.wait_ack", Nth: 1, Until: "api.cancel", Timeout: T})
	case "publish.fanout x cancel":
		// the fan-out goroutine walks its subscriber snapshot after Publish released its locks:
		// hold it until an earlier-registered subscription has been removed from the list
		rt.AddRule(&hookrt.ParkRule{Point: "gochannel.publish.fanout_start", Nth: 1, Until: "gochannel.unsubscribe.wg_done", Timeout: T})
	case "subscribe.replay x Close":
		// a late subscription has read the stored history and is about to walk it: Close runs meanwhile
		// (it cannot get past its wait for the subscriptions before the replay is done)
		rt.AddRule(&hookrt.ParkRule{Point: "gochannel.subscribe.replay", Nth: 1, Until: "gochannel.close.nil_persisted", Timeout: T})
	case "teardown.woken x queued Sender":
		// the teardown goroutine is held between waking up on the cancelled context and s.Close():
		// the Sender waiting for the Ack and the Senders queued behind it must stay where they are
		rt.AddRule(&hookrt.ParkRule{Point: "gochannel.teardown.woken", Nth: 1, Until: "api.never", Timeout: T})
	case "publish.wait_ack x Subscribe":
		// a Subscribe arriving while a blocking batch Publish waits for the Ack of its first message
		// (no park rule: the first consumer is slow (80 ms per message), the second Subscribe starts at the wait_ack hook)
	}
}

var gcForcedNames = []string{
	"publish.closed_check x Close", "publish.persisted x Subscribe", "publish.snapshot x Subscribe",
	"subscribe.replay x Publish", "subscribe.created x Publish", "send.wait_settle x cancel",
	"send.before_chan x Close", "send.locked x cancel", "sub.close.before_lock x Nack",
	"unsubscribe.before_remove x Close", "unsubscribe.wrequest x Publish", "close.signalled x Subscribe",
	"subscribe.wg_added x Close", "publish.wait_ack x cancel", "publish.fanout x cancel", "publish.wait_ack x Subscribe",
	"teardown.woken x queued Sender", "subscribe.replay x Close",
}

var gcMode string

func gcGenerate(rng *rand.Rand, id int, forced string) *gcScenario {
	sc := &gcScenario{ID: id, Forced: forced, CloseAfter: -1, Closers: 1}
	sc.Buffer = []int{0, 0, 1, 3}[rng.Intn(4)]
	sc.Persistent = rng.Intn(2) == 0 || gcMode == "persistent"
	sc.Blocking = rng.Intn(3) == 0
	ntopics := 1 + rng.Intn(2)
	nsubs := 1 + rng.Intn(4)
	npubs := 1 + rng.Intn(3)
	msg := 0
	totalCalls := 0
	for p := 0; p < npubs; p++ {
		ps := gcPubSpec{Topic: rng.Intn(ntopics)}
		ncalls := 1 + rng.Intn(3)
		for c := 0; c < ncalls; c++ {
			n := 1
			if rng.Intn(3) == 0 {
				n = 2 + rng.Intn(2)
			}
			var call []int
			for j := 0; j < n; j++ {
				msg++
				call = append(call, msg)
			}
			ps.Calls = append(ps.Calls, call)
			totalCalls++
		}
		sc.Pubs = append(sc.Pubs, ps)
	}
	for i := 0; i < nsubs; i++ {
		s := gcSubSpec{Topic: rng.Intn(ntopics), CancelAt: -1}
		switch rng.Intn(8) {
		case 0, 1, 2:
			s.Behaviour = []int{0}
		case 3:
			s.Behaviour = []int{1, 0}
		case 4:
			s.Behaviour = []int{1, 1, 3, 0}
		case 5:
			s.Behaviour = []int{4, 3, 0}
		case 6:
			s.Behaviour = []int{0, 2} // leaves every second message unsettled
		default:
			s.Behaviour = []int{0, 1}
			s.SlowUs = 200 + rng.Intn(2000)
		}
		if rng.Intn(4) == 0 {
			s.CancelAt = 1 + rng.Intn(3)
			s.Drain = rng.Intn(2) == 0
		}
		if (rng.Intn(4) == 0 || (gcMode == "persistent" && rng.Intn(2) == 0)) && totalCalls > 1 {
			s.StartAt = 1 + rng.Intn(totalCalls-1)
		}
		sc.Subs = append(sc.Subs, s)
	}
	if rng.Intn(4) == 0 {
		sc.CloseAfter = 1 + rng.Intn(totalCalls)
	}
	if rng.Intn(4) == 0 {
		sc.Closers = 2 + rng.Intn(2)
	}
	sc.PubAfter = rng.Intn(2) == 0
	// forced overlaps need specific shapes
	switch forced {
	case "publish.closed_check x Close":
		sc.Persistent = true
		sc.CloseAfter = 0
	case "publish.persisted x Subscribe", "subscribe.replay x Publish":
		sc.Persistent = true
		sc.Subs[len(sc.Subs)-1].StartAt = 0
		sc.Subs = append(sc.Subs, gcSubSpec{Topic: sc.Pubs[0].Topic, Behaviour: []int{0}, CancelAt: -1, StartAt: 1})
		if len(sc.Pubs[0].Calls) < 2 {
			msg++
			sc.Pubs[0].Calls = append(sc.Pubs[0].Calls, []int{msg})
		}
	case "publish.snapshot x Subscribe", "subscribe.created x Publish":
		sc.Subs = append(sc.Subs, gcSubSpec{Topic: sc.Pubs[0].Topic, Behaviour: []int{0}, CancelAt: -1, StartAt: 1})
		if len(sc.Pubs[0].Calls) < 2 {
			msg++
			sc.Pubs[0].Calls = append(sc.Pubs[0].Calls, []int{msg})
		}
	case "send.wait_settle x cancel", "send.locked x cancel", "sub.close.before_lock x Nack", "unsubscribe.wrequest x Publish", "publish.wait_ack x cancel":
		sc.Subs[0].Topic = sc.Pubs[0].Topic
		sc.Subs[0].StartAt = 0
		sc.Subs[0].CancelAt = 1
		sc.Subs[0].Drain = forced != "publish.wait_ack x cancel"
		sc.Subs[0].Behaviour = []int{1, 2}
		if forced == "publish.wait_ack x cancel" {
			sc.Blocking = true
			sc.Subs[0].Behaviour = []int{2}
		}
	case "send.before_chan x Close", "unsubscribe.before_remove x Close", "close.signalled x Subscribe", "subscribe.wg_added x Close":
		sc.CloseAfter = 1
		sc.Subs[0].Topic = sc.Pubs[0].Topic
		sc.Subs[0].StartAt = 0
		if forced == "close.signalled x Subscribe" || forced == "subscribe.wg_added x Close" {
			sc.Subs = append(sc.Subs, gcSubSpec{Topic: sc.Pubs[0].Topic, Behaviour: []int{0}, CancelAt: -1, StartAt: 1})
		}
	}
	switch forced {
	case "publish.fanout x cancel":
		// three subscriptions on the publisher's topic; the FIRST registered one is cancelled while the fan-out is held
		sc.Blocking = false
		sc.CloseAfter = -1
		t := sc.Pubs[0].Topic
		sc.Subs = []gcSubSpec{
			{Topic: t, Behaviour: []int{0}, CancelAt: -1, CancelOnHook: "gochannel.publish.fanout_start", Drain: true},
			{Topic: t, Behaviour: []int{0}, CancelAt: -1},
			{Topic: t, Behaviour: []int{0}, CancelAt: -1},
		}
	case "subscribe.replay x Close":
		sc.Persistent = true
		sc.CloseAfter = -1
		sc.CloseOnHook = "gochannel.subscribe.replay"
		t := sc.Pubs[0].Topic
		msg += 3
		sc.Pubs = []gcPubSpec{{Topic: t, Calls: [][]int{{msg - 2, msg - 1, msg}}}}
		sc.Subs = []gcSubSpec{{Topic: t, Behaviour: []int{0}, CancelAt: -1, StartAt: 1}}
	case "teardown.woken x queued Sender":
		// one subscription takes the first message, leaves it unsettled, is cancelled and keeps reading;
		// two more messages are queued behind the unsettled one
		sc.Blocking = false
		sc.CloseAfter = -1
		t := sc.Pubs[0].Topic
		msg += 3
		sc.Pubs = []gcPubSpec{{Topic: t, Calls: [][]int{{msg - 2}, {msg - 1, msg}}}}
		sc.Subs = []gcSubSpec{{Topic: t, Behaviour: []int{2}, CancelAt: 1, Drain: true}}
	case "publish.wait_ack x Subscribe":
		sc.Blocking = true
		sc.Persistent = true
		sc.CloseAfter = -1
		t := sc.Pubs[0].Topic
		msg += 3
		sc.Pubs = []gcPubSpec{{Topic: t, Calls: [][]int{{msg - 2, msg - 1, msg}}}}
		sc.Subs = []gcSubSpec{
			{Topic: t, Behaviour: []int{0}, CancelAt: -1, SlowUs: 80000},
			{Topic: t, Behaviour: []int{0}, CancelAt: -1, StartOnHook: "gochannel.publish.wait_ack"},
		}
	}
	if sc.Blocking {
		// every client program must end in a settle, a cancel or a Close: consumers that leave
		// messages unsettled are cancelled right after (or the driver's Close releases them)
		for i := range sc.Subs {
			for _, b := range sc.Subs[i].Behaviour {
				if b == 2 && sc.Subs[i].CancelAt < 0 {
					sc.Subs[i].CancelAt = 1
				}
			}
		}
	}
	return sc
}

func cmdGoChan(args []string) error {
	fs, out, seed := newFlags("gochan")
	ncases := fs.Int("cases", 60, "random scenarios")
	forcedRounds := fs.Int("forced", 1, "rounds over the forced overlaps")
	only := fs.String("only", "", "only this forced overlap")
	mode := fs.String("mode", "", "\"persistent\": persistent configurations only, more late subscriptions (C11)")
	fs.Parse(args)
	gcMode = *mode
	rng := rand.New(rand.NewSource(*seed))
	rt := hookrt.Install(*seed)
	defer hookrt.Uninstall()
	var all []*gcScenario
	id := 0
	for r := 0; r < *forcedRounds; r++ {
		for _, name := range gcForcedNames {
			if *only != "" && *only != name {
				continue
			}
			id++
			sc := gcGenerate(rng, id, name)
			gcRun(rt, sc, rng)
			all = append(all, sc)
		}
	}
	for i := 0; i < *ncases && *only == ""; i++ {
		id++
		sc := gcGenerate(rng, id, "")
		gcRun(rt, sc, rng)
		all = append(all, sc)
	}
	return writeJSON(*out, all)
}

func init() { register("gochan", cmdGoChan) }

// ---------------------------------------------------------------------------------------------
// D9 (known finding of C05): BlockPublishUntilSubscriberAck, a consumer that publishes (to the
// same GoChannel) before it acks, while a Subscribe call is pending.  The blocking Publish holds
// the read lock while it waits for the Ack; the pending Subscribe has announced a writer; Go
// blocks new readers behind an announced writer, so the consumer's Publish never gets the read
// lock: nobody can move until the Pub/Sub is closed.

type gcD9Result struct {
	NestedPublishReturned bool           `json:"nested_publish_returned"`
	OuterPublishReturned  bool           `json:"outer_publish_returned"`
	SubscribeReturned     bool           `json:"subscribe_returned"`
	ReleasedByClose       bool           `json:"released_by_close"`
	Events                []hookrt.Event `json:"events"`
	// the same consumer-publishes-before-ack program WITHOUT a pending Subscribe must terminate
	Nested []gcNestedResult `json:"nested"`
	// non-unique UUIDs: what an early and a late (persistent replay) subscriber received
	Dup []gcDupResult `json:"dup"`
	// Subscribe with an already cancelled context, then Close
	PreCancelled []gcPreCancelResult `json:"pre_cancelled"`
}

type gcNestedResult struct {
	Persistent     bool `json:"persistent"`
	NestedReturned bool `json:"nested_returned"`
	OuterReturned  bool `json:"outer_returned"`
}

type gcDupResult struct {
	Persistent bool     `json:"persistent"`
	Published  []string `json:"published"` // "uuid|payload", in publish order
	Early      []string `json:"early"`     // payloads received by a subscriber that existed before
	Late       []string `json:"late"`      // payloads received by a subscriber created afterwards (persistent only)
}

func gcWaited(c chan struct{}, d time.Duration) bool {
	select {
	case <-c:
		return true
	case <-time.After(d):
		return false
	}
}

// BlockPublishUntilSubscriberAck: the consumer publishes to another topic of the same GoChannel
// from its receive loop before it acks; nothing else is going on.  Must terminate.
func gcNested(persistent bool) gcNestedResult {
	ps := gochannel.NewGoChannel(gochannel.Config{BlockPublishUntilSubscriberAck: true, Persistent: persistent}, watermill.NopLogger{})
	res := gcNestedResult{Persistent: persistent}
	ch, err := ps.Subscribe(context.Background(), "topic-0")
	if err != nil {
		return res
	}
	outer, nested := make(chan struct{}), make(chan struct{})
	go func() { ps.Publish("topic-0", gcMakeMsg(1)); close(outer) }()
	go func() {
		m := <-ch
		ps.Publish("topic-1", gcMakeMsg(2))
		close(nested)
		m.Ack()
	}()
	res.NestedReturned = gcWaited(nested, 2*time.Second)
	res.OuterReturned = gcWaited(outer, 500*time.Millisecond)
	closed := make(chan struct{})
	go func() { ps.Close(); close(closed) }()
	gcWaited(closed, 3*time.Second)
	return res
}

// messages need not have unique UUIDs: three different messages with the same UUID (and one with
// an empty UUID twice) are published; every subscriber that existed receives all of them, and in
// persistent mode a subscriber created afterwards does too
func gcDup(persistent bool) gcDupResult {
	ps := gochannel.NewGoChannel(gochannel.Config{Persistent: persistent, OutputChannelBuffer: 16}, watermill.NopLogger{})
	res := gcDupResult{Persistent: persistent, Published: []string{}, Early: []string{}, Late: []string{}}
	collect := func(ch <-chan *message.Message, into *[]string, n int, done chan struct{}) {
		defer close(done)
		for i := 0; i < n; i++ {
			select {
			case m, ok := <-ch:
				if !ok {
					return
				}
				*into = append(*into, m.UUID+"|"+string(m.Payload))
				m.Ack()
			case <-time.After(1500 * time.Millisecond):
				return
			}
		}
	}
	early, err := ps.Subscribe(context.Background(), "t")
	if err != nil {
		return res
	}
	msgs := []*message.Message{
		message.NewMessage("same", []byte("a")), message.NewMessage("same", []byte("b")), message.NewMessage("other", []byte("c")),
		message.NewMessage("same", []byte("d")), message.NewMessage("", []byte("e")), message.NewMessage("", []byte("f")),
	}
	d1 := make(chan struct{})
	go collect(early, &res.Early, len(msgs), d1)
	for _, m := range msgs {
		res.Published = append(res.Published, m.UUID+"|"+string(m.Payload))
		ps.Publish("t", m)
	}
	<-d1
	if persistent {
		late, err := ps.Subscribe(context.Background(), "t")
		if err == nil {
			d2 := make(chan struct{})
			go collect(late, &res.Late, len(msgs), d2)
			<-d2
		}
	}
	closed := make(chan struct{})
	go func() { ps.Close(); close(closed) }()
	gcWaited(closed, 3*time.Second)
	return res
}

// Subscribe with a context that is ALREADY cancelled, then (later) Close: the subscription is
// torn down at once (or refused) and Close must still complete; Publish in between must return.
type gcPreCancelResult struct {
	Persistent     bool `json:"persistent"`
	SubscribeOK    bool `json:"subscribe_ok"`
	ChanClosed     bool `json:"chan_closed"`     // the returned channel (if any) got closed
	PublishOK      bool `json:"publish_returned"`
	CloseReturned  bool `json:"close_returned"`
	SecondSubOK    bool `json:"second_subscribe_ok"` // a normal subscription afterwards still works
	SecondReceived bool `json:"second_received"`
}

func gcPreCancelled(persistent bool) gcPreCancelResult {
	ps := gochannel.NewGoChannel(gochannel.Config{Persistent: persistent}, watermill.NopLogger{})
	res := gcPreCancelResult{Persistent: persistent}
	ctx, cancel := context.WithCancel(context.Background())
	cancel()
	ch, err := ps.Subscribe(ctx, "t")
	res.SubscribeOK = err == nil && ch != nil
	if res.SubscribeOK {
		done := make(chan struct{})
		go func() {
			for range ch {
			}
			close(done)
		}()
		res.ChanClosed = gcWaited(done, 2*time.Second)
	} else {
		res.ChanClosed = true
	}
	ch2, err2 := ps.Subscribe(context.Background(), "t")
	res.SecondSubOK = err2 == nil && ch2 != nil
	pubDone := make(chan struct{})
	go func() { ps.Publish("t", gcMakeMsg(1)); close(pubDone) }()
	res.PublishOK = gcWaited(pubDone, 2*time.Second)
	if res.SecondSubOK {
		select {
		case m := <-ch2:
			m.Ack()
			res.SecondReceived = true
		case <-time.After(2 * time.Second):
		}
	}
	closed := make(chan struct{})
	go func() { ps.Close(); close(closed) }()
	res.CloseReturned = gcWaited(closed, 3*time.Second)
	return res
}

func cmdGoChanD9(args []string) error {
	fs, out, seed := newFlags("gochan-d9")
	fs.Parse(args)
	rt := hookrt.Install(*seed)
	defer hookrt.Uninstall()
	rt.Reset()
	rt.Filter(func(point string, keys []string) bool {
		return strings.HasPrefix(point, "gochannel.") || strings.HasPrefix(point, "api.")
	})
	ps := gochannel.NewGoChannel(gochannel.Config{BlockPublishUntilSubscriberAck: true}, watermill.NopLogger{})
	ch, err := ps.Subscribe(context.Background(), "topic-0")
	if err != nil {
		return err
	}
	res := &gcD9Result{}
	outerDone := make(chan struct{})
	nestedDone := make(chan struct{})
	subDone := make(chan struct{})
	go func() {
		rt.Stamp("api.d9.outer_publish.call")
		ps.Publish("topic-0", gcMakeMsg(1))
		rt.Stamp("api.d9.outer_publish.ret")
		close(outerDone)
	}()
	m := <-ch // the consumer holds message 1 unsettled
	go func() {
		rt.Stamp("api.d9.subscribe.call")
		ps.Subscribe(context.Background(), "topic-1")
		rt.Stamp("api.d9.subscribe.ret")
		close(subDone)
	}()
	// wait until the Subscribe has requested the write lock (it cannot get it: the outer Publish reads)
	decoWaitCount(rt, "gochannel.subscribe.wrequest", 2, 2*time.Second)
	time.Sleep(50 * time.Millisecond) // wrequest is stamped before Lock(): let the writer announce itself
	go func() {
		rt.Stamp("api.d9.nested_publish.call")
		ps.Publish("topic-1", gcMakeMsg(2)) // the consumer publishes BEFORE acking
		rt.Stamp("api.d9.nested_publish.ret")
		close(nestedDone)
		m.Ack()
	}()
	res.NestedPublishReturned = gcWaited(nestedDone, 1500*time.Millisecond)
	res.OuterPublishReturned = gcWaited(outerDone, 10*time.Millisecond)
	res.SubscribeReturned = gcWaited(subDone, 10*time.Millisecond)
	rt.Stamp("api.d9.verdict")
	closed := make(chan struct{})
	go func() { ps.Close(); close(closed) }()
	res.ReleasedByClose = gcWaited(closed, 3*time.Second) && gcWaited(nestedDone, time.Second) && gcWaited(outerDone, time.Second)
	res.Events = rt.Log()
	rt.Filter(func(point string, keys []string) bool { return false })
	res.Nested = []gcNestedResult{gcNested(false), gcNested(true)}
	res.Dup = []gcDupResult{gcDup(false), gcDup(true)}
	res.PreCancelled = []gcPreCancelResult{gcPreCancelled(false), gcPreCancelled(true)}
	return writeJSON(*out, res)
}

func init() { register("gochan-d9", cmdGoChanD9) }
