//go:build verif

package main

import (
	"context"
	"errors"
	"fmt"
	"math/rand"
	"strconv"
	"strings"
	"sync"
	"time"

	"github.com/ThreeDotsLabs/watermill"
	"github.com/ThreeDotsLabs/watermill/message"
	"github.com/ThreeDotsLabs/watermill/message/router/middleware"

	"wmverif/hookrt"
	"wmverif/script"
)

// C13 with the REAL Retry middleware inside the poison queue: PoisonQueue(Retry(h)).
// One case = one message; the scripted handler's k-th invocation behaves as the k-th entry of
// the script (the last entry repeats).  Sequential: Retry builds its state per invocation and
// the in-flight behaviour of the poison queue is covered by the c13 command.

type c13rAttempt struct {
	Outs []int  `json:"outs"`
	Err  int    `json:"err"` // interned error text, 0 = nil
	err  string
}

type c13rCase struct {
	ID         string        `json:"id"`
	Router     bool          `json:"router"`
	Topic      int           `json:"topic"`
	Filter     interface{}   `json:"filter"`
	PP         []interface{} `json:"pp"`
	Ctx        [3]int        `json:"ctx"`
	Msg        c13Snap       `json:"msg"`
	MaxRetries int           `json:"max_retries"`
	Script     []c13rAttempt `json:"script"`
	PB         int           `json:"pb"`

	Calls int             `json:"calls"`
	Trace [][]interface{} `json:"trace"`
	Final int             `json:"final"`
	Res   []interface{}   `json:"res"`
	MF    c13Snap         `json:"mf"`
	Desc  map[string]interface{} `json:"desc"`

	ppub     int
	seq      int
	mu       sync.Mutex
	msg      *message.Message
	produced map[*message.Message]int
	done     chan struct{}
	once     sync.Once
}

func (c *c13rCase) rec(ev ...interface{}) {
	c.mu.Lock()
	c.Trace = append(c.Trace, ev)
	c.mu.Unlock()
}

type c13rGroup struct {
	in     *script.Interner
	g13    *c13Group // only for snap()
	filter *fSpec
	topic  string
	maxRetries int
	cur    *c13rCase // the message being handled (sequential)
	mu     sync.Mutex
}

func (g *c13rGroup) current() *c13rCase { g.mu.Lock(); defer g.mu.Unlock(); return g.cur }

func (g *c13rGroup) handler(msg *message.Message) ([]*message.Message, error) {
	c := g.current()
	c.mu.Lock()
	k := c.Calls
	c.Calls++
	c.mu.Unlock()
	if k == 0 {
		c.rec("call")
	}
	if k >= len(c.Script) {
		k = len(c.Script) - 1
	}
	a := c.Script[k]
	var outs []*message.Message
	for _, o := range a.Outs {
		m := message.NewMessage(fmt.Sprintf("%s#%d", c.ID, o), []byte("out"))
		c.mu.Lock()
		c.produced[m] = o
		c.mu.Unlock()
		outs = append(outs, m)
	}
	if a.err == "" {
		return outs, nil
	}
	return outs, c13Sentinel(a.err)
}

func (c *c13rCase) ids(msgs []*message.Message) []int {
	ids := []int{}
	c.mu.Lock()
	defer c.mu.Unlock()
	for _, m := range msgs {
		if id, ok := c.produced[m]; ok {
			ids = append(ids, id)
		} else {
			ids = append(ids, -1)
		}
	}
	return ids
}

func (g *c13rGroup) recorder(h message.HandlerFunc) message.HandlerFunc {
	return func(msg *message.Message) (outs []*message.Message, err error) {
		c := g.current()
		defer func() {
			if r := recover(); r != nil {
				c.mu.Lock()
				c.Res = []interface{}{"panic"}
				c.mu.Unlock()
				panic(r)
			}
		}()
		outs, err = h(msg)
		ids := c.ids(outs)
		c.mu.Lock()
		c.Res = []interface{}{"ret", ids, errTree(g.in, err)}
		c.mu.Unlock()
		return outs, err
	}
}

func (g *c13rGroup) run(rt *hookrt.Runtime, cases []*c13rCase, router bool) error {
	ppub := &script.Publisher{OnPublish: func(call int, topic string, msgs []*message.Message) error {
		c := g.current()
		if len(msgs) != 1 {
			c.rec("ppublish-n", len(msgs))
			return nil
		}
		c.rec("ppublish", g.in.ID(topic), g.g13.snap(msgs[0]), script.Settlement(c.msg), msgs[0] == c.msg)
		switch c.ppub {
		case 0:
			c.rec("ppubret", true)
			return nil
		case 1:
			c.rec("ppubret", false)
			return c13Sentinel("P")
		default:
			c.rec("ppubpanic")
			panic("scripted poison publisher panic")
		}
	}}
	var pq message.HandlerMiddleware
	var err error
	if g.filter.K == "default" {
		pq, err = middleware.PoisonQueue(ppub, g.topic)
	} else {
		pq, err = middleware.PoisonQueueWithFilter(ppub, g.topic, func(e error) bool {
			g.current().rec("filter", errTree(g.in, e))
			return g.filter.eval(e, 0)
		})
	}
	if err != nil {
		return err
	}
	retry := middleware.Retry{MaxRetries: g.maxRetries, InitialInterval: 200 * time.Microsecond, MaxInterval: time.Millisecond, Multiplier: 1}
	rt.Reset()
	rt.Filter(func(point string, keys []string) bool {
		c := g.current()
		if c == nil { // sequential: every settle call belongs to the message being handled, whatever its UUID
			return false
		}
		switch point {
		case "message.ack.locked":
			c.rec("settle", true)
		case "message.nack.locked":
			c.rec("settle", false)
		case "message.ack.unlock", "message.nack.unlock":
			c.once.Do(func() { close(c.done) })
		}
		return false
	})
	var r *message.Router
	var sub *script.Subscriber
	runErr := make(chan error, 1)
	var direct message.HandlerFunc
	if router {
		r, err = message.NewRouter(message.RouterConfig{CloseTimeout: 60 * time.Second}, watermill.NopLogger{})
		if err != nil {
			return err
		}
		sub = script.NewSubscriber(true)
		pub := &script.Publisher{OnPublish: func(call int, topic string, msgs []*message.Message) error {
			c := g.current()
			c.rec("publish", c.ids(msgs), script.Settlement(c.msg))
			switch c.PB {
			case 0:
				c.rec("pubret", true)
				return nil
			default:
				c.rec("pubret", false)
				return errors.New("scripted publish error")
			}
		}}
		r.AddMiddleware(g.recorder, pq, retry.Middleware)
		r.AddHandler("hr", "inr", c13NamedSub{sub, "SubR"}, "outr", pub, g.handler)
		ctx, cancel := context.WithCancel(context.Background())
		defer cancel()
		go func() { runErr <- r.Run(ctx) }()
		select {
		case <-r.Running():
		case <-time.After(60 * time.Second):
			return errors.New("router did not start")
		}
	} else {
		direct = g.recorder(pq(retry.Middleware(g.handler)))
	}
	for _, c := range cases {
		c.Router, c.Topic, c.Filter, c.MaxRetries = router, g.in.ID(g.topic), g.filter.tree(g.in), g.maxRetries
		c.produced, c.done = map[*message.Message]int{}, make(chan struct{})
		uuid, payload := c.ID, []byte("payload of "+c.ID)
		switch c.seq % 7 { // boundary inputs: empty UUID, a UUID shared by several messages, nil / empty payload
		case 0:
			uuid, payload = "", nil
		case 1:
			uuid, payload = "shared-uuid", []byte{}
		}
		c.msg = message.NewMessage(uuid, payload)
		c.msg.Metadata.Set("reason_poisoned", "old")
		c.msg.Metadata.Set("k", c.ID)
		c.Msg = g.g13.snap(c.msg)
		switch c.ppub {
		case 0:
			c.PP = []interface{}{"accept"}
		case 1:
			c.PP = []interface{}{"error", []interface{}{"base", g.in.ID("P")}}
		default:
			c.PP = []interface{}{"panic"}
		}
		for i := range c.Script {
			c.Script[i].Err = g.in.ID(c.Script[i].err)
			if c.Script[i].Outs == nil {
				c.Script[i].Outs = []int{}
			}
		}
		g.mu.Lock()
		g.cur = c
		g.mu.Unlock()
		if router {
			c.Ctx = [3]int{g.in.ID("inr"), g.in.ID("hr"), g.in.ID("SubR")}
			if !sub.Emit("inr", c.msg, 30*time.Second) {
				c.rec("not-taken")
				continue
			}
			select {
			case <-c.done:
			case <-time.After(20 * time.Second):
			}
			c.Final = script.Settlement(c.msg)
		} else {
			func() {
				defer func() { recover() }()
				direct(c.msg)
			}()
		}
		c.MF = g.g13.snap(c.msg)
		sc := []string{}
		for _, a := range c.Script {
			s := a.err
			if s == "" {
				s = "ok"
			}
			sc = append(sc, s+strings.ReplaceAll(fmt.Sprint(a.Outs), " ", ","))
		}
		c.Desc = map[string]interface{}{"mode": map[bool]string{true: "PoisonQueue(Retry(h)) inside a Router", false: "PoisonQueue(Retry(h)) called directly"}[router],
			"filter": g.filter.String(), "max_retries": g.maxRetries, "script": strings.Join(sc, " ; "),
			"poison_publisher": c.PP[0], "handler_calls": strconv.Itoa(c.Calls), "uuid": c.msg.UUID}
	}
	if router {
		if err := r.Close(); err != nil {
			return err
		}
		select {
		case <-runErr:
		case <-time.After(60 * time.Second):
			return errors.New("Run did not return after Close")
		}
	}
	return nil
}

func cmdC13Retry(args []string) error {
	fs, out, seed := newFlags("c13retry")
	fs.Parse(args)
	rt := hookrt.Install(*seed)
	defer hookrt.Uninstall()
	in := script.NewInterner()
	for _, s := range []string{"reason_poisoned", "topic_poisoned", "handler_poisoned", "subscriber_poisoned", "cannot publish message to poison queue"} {
		in.ID(s)
	}
	rng := rand.New(rand.NewSource(*seed))
	// scripts: every failing prefix length 0..4 followed by success or failing for ever, with
	// DIFFERENT errors per attempt so that "the last error" is distinguishable
	errsSeq := []string{"A", "B", "A", "C", "B", "C"}
	var scripts [][]c13rAttempt
	for fails := 0; fails <= 4; fails++ {
		for _, ends := range []string{"ok", "fail"} {
			for _, rot := range []int{0, 1} {
				var s []c13rAttempt
				for k := 0; k < fails; k++ {
					s = append(s, c13rAttempt{err: errsSeq[(k+rot)%len(errsSeq)], Outs: [][]int{nil, {1}}[rng.Intn(2)]})
				}
				if ends == "ok" {
					s = append(s, c13rAttempt{Outs: [][]int{nil, {1}, {1, 2}}[rng.Intn(3)]})
				} else {
					s = append(s, c13rAttempt{err: errsSeq[(fails+rot)%len(errsSeq)], Outs: [][]int{nil, {2}}[rng.Intn(2)]})
				}
				scripts = append(scripts, s)
			}
		}
	}
	filters := []*fSpec{{K: "default"}, {K: "is", S: "A"}, {K: "eq", S: "B"}, {K: "const", B: false}, {K: "not", F: &fSpec{K: "is", S: "C"}}}
	var all []*c13rCase
	n := 0
	for _, f := range filters {
		for _, mr := range []int{0, 1, 2, 3} {
			for _, router := range []bool{true, false} {
				g := &c13rGroup{in: in, g13: &c13Group{in: in}, filter: f, topic: "poison", maxRetries: mr}
				var cases []*c13rCase
				for _, s := range scripts {
					n++
					cs := append([]c13rAttempt(nil), s...)
					cases = append(cases, &c13rCase{ID: fmt.Sprintf("r%d", n), seq: n, Script: cs, ppub: []int{0, 0, 1, 2}[rng.Intn(4)], PB: []int{0, 0, 1}[rng.Intn(3)]})
				}
				if err := g.run(rt, cases, router); err != nil {
					return err
				}
				all = append(all, cases...)
			}
		}
	}
	return writeJSON(*out, map[string]interface{}{"cases": all, "strings": in.Tab})
}

func init() { register("c13retry", cmdC13Retry) }
