//go:build verif

package main

import (
	"context"
	"fmt"
	"math/rand"
	"sync"
	"time"

	"github.com/ThreeDotsLabs/watermill"
	"github.com/ThreeDotsLabs/watermill/message"
	"github.com/ThreeDotsLabs/watermill/message/router/middleware"
	"github.com/ThreeDotsLabs/watermill/pubsub/gochannel"

	"wmverif/script"
)

// C12 — drives the real middleware.Retry.  A *group* is ONE Retry value and ONE wrapped handler
// (retry.Middleware(h)) through which 1..6 messages go, sequentially or concurrently with
// staggered starts; a *case* is one message.  Every invocation of h, every Logger.Error and
// every OnRetryHook call is recorded with monotonic timestamps (ns since the group started) and
// attributed to the message by the goroutine that made it.

type c12Cfg struct {
	MR   int      `json:"mr"`
	Init int64    `json:"init"` // ns
	MaxI int64    `json:"maxi"` // ns
	Mult [2]int64 `json:"mult"` // numerator, denominator (dyadic or small)
	ME   int64    `json:"me"`   // ns
	RF   [2]int64 `json:"rf"`
	Hook bool     `json:"hook"`
	Log  bool     `json:"log"`
}

type c12Step struct {
	Outs  int   `json:"outs"`  // number of fresh messages returned
	Err   bool  `json:"err"`   // returns a (fresh) error
	Sleep int64 `json:"sleep"` // ns spent inside the handler
}

type c12Case struct {
	ID          string    `json:"id"`
	Group       int       `json:"group"`
	Family      string    `json:"family"`
	Mode        string    `json:"mode"` // seq | conc
	InFlight    int       `json:"inflight"`
	Cfg         c12Cfg    `json:"cfg"`
	Script      []c12Step `json:"script"`
	CancelKind  int       `json:"cancelkind"` // 0 none, 1 by the handler during attempt CancelAt, 2 by another goroutine CancelDelay after attempt CancelAt ended
	CancelAt    int       `json:"cancelat"`
	CancelDelay int64     `json:"canceldelay"`
	StartDelay  int64     `json:"startdelay"`

	Trace     [][]int64 `json:"trace"` // [0,k,ts,te,sameMsg] | [1,n,d,mr,errOK] | [2,n,d]
	Outs      []int64   `json:"outs"`
	Err       int64     `json:"err"`
	TRet      int64     `json:"tret"`
	CPre      int64     `json:"cpre"` // -1 = never cancelled
	CPost     int64     `json:"cpost"`
	Done      bool      `json:"done"`
	Pub       int       `json:"pub"`       // router mode: publisher behaviour 0 accept, 1 error
	Published [][]int64 `json:"published"` // router mode: the Publish calls carrying this message's outputs
	Settle    int       `json:"settle"`    // router mode: 1 acked, 2 nacked, 0 unsettled; -1 = not run through a Router

	mu       sync.Mutex
	msg      *message.Message
	cancel   context.CancelFunc
	calls    int
	produced map[*message.Message]int64
	errs     map[error]int64
	lastErr  error
	wg       sync.WaitGroup
}

type c12Err struct{ id int64 }

func (e *c12Err) Error() string { return fmt.Sprintf("scripted failure %d", e.id) }

type c12Group struct {
	closeRouter func() // router-close mode: closes the Router (once)
	closeOnce   sync.Once
	closePre    int64 // instant before Router.Close() was called (-1: not called)
	base        time.Time
	byUUID      map[string]*c12Case
	mu          sync.Mutex
	byGid       map[int64]*c12Case
}

func (g *c12Group) now() int64 { return int64(time.Since(g.base)) }

func (g *c12Group) caseOfGoroutine() *c12Case {
	id := c12gid()
	g.mu.Lock()
	defer g.mu.Unlock()
	return g.byGid[id]
}

func (g *c12Group) handler(msg *message.Message) ([]*message.Message, error) {
	ts := g.now()
	c := g.byUUID[msg.UUID]
	if c == nil {
		return nil, fmt.Errorf("unknown message %s", msg.UUID)
	}
	c.mu.Lock()
	if c.Done { // a redelivery (GoChannel resends a nacked message) after the case is over: not part of it
		c.mu.Unlock()
		return nil, fmt.Errorf("case %s is over", c.ID)
	}
	k := c.calls
	c.calls++
	if c.msg == nil { // router-close mode: GoChannel delivers its own copy; bind it at the first attempt
		c.msg = msg
		c.wg.Add(1)
		go func() { // the instant the message context is seen done
			defer c.wg.Done()
			select {
			case <-msg.Context().Done():
				post := g.now()
				c.mu.Lock()
				c.CPost = post
				c.mu.Unlock()
			case <-time.After(20 * time.Second):
			}
		}()
	}
	same := int64(0)
	if msg == c.msg {
		same = 1
	}
	c.mu.Unlock()
	st := c.Script[len(c.Script)-1]
	if k < len(c.Script) {
		st = c.Script[k]
	}
	if st.Sleep > 0 {
		time.Sleep(time.Duration(st.Sleep))
	}
	var outs []*message.Message
	var err error
	c.mu.Lock()
	for i := 0; i < st.Outs; i++ {
		m := message.NewMessage(fmt.Sprintf("%s-out-%d-%d", c.ID, k, i), nil)
		c.produced[m] = int64(k*10 + i + 1)
		outs = append(outs, m)
	}
	if st.Err {
		e := &c12Err{id: int64(100 + k)}
		c.errs[e] = e.id
		c.lastErr = e
		err = e
	}
	c.mu.Unlock()
	if c.CancelKind == 1 && c.CancelAt == k {
		pre := g.now()
		c.cancel()
		post := g.now()
		c.mu.Lock()
		c.CPre, c.CPost = pre, post
		c.mu.Unlock()
	}
	if c.CancelKind == 3 && c.CancelAt == k && g.closeRouter != nil {
		c.wg.Add(1)
		go func() {
			defer c.wg.Done()
			time.Sleep(time.Duration(c.CancelDelay))
			g.closeOnce.Do(func() {
				g.mu.Lock()
				g.closePre = g.now()
				g.mu.Unlock()
				g.closeRouter()
			})
		}()
	}
	if c.CancelKind == 2 && c.CancelAt == k {
		c.wg.Add(1)
		go func() {
			defer c.wg.Done()
			time.Sleep(time.Duration(c.CancelDelay))
			pre := g.now()
			c.cancel()
			post := g.now()
			c.mu.Lock()
			c.CPre, c.CPost = pre, post
			c.mu.Unlock()
		}()
	}
	te := g.now()
	c.mu.Lock()
	c.Trace = append(c.Trace, []int64{0, int64(k), ts, te, same})
	c.mu.Unlock()
	return outs, err
}

func (g *c12Group) hook(n int, d time.Duration) {
	c := g.caseOfGoroutine()
	if c == nil {
		return
	}
	c.mu.Lock()
	c.Trace = append(c.Trace, []int64{2, int64(n), int64(d)})
	c.mu.Unlock()
}

// scripted LoggerAdapter
type c12Logger struct{ g *c12Group }

func (l c12Logger) Error(msg string, err error, f watermill.LogFields) {
	c := l.g.caseOfGoroutine()
	if c == nil {
		return
	}
	n, _ := f["retry_no"].(int)
	mr, ok := f["max_retries"].(int)
	if !ok {
		mr = -999
	}
	d, ok := f["wait_time"].(time.Duration)
	if !ok {
		d = -999
	}
	c.mu.Lock()
	errOK := int64(0)
	if err != nil && err == c.lastErr {
		errOK = 1
	}
	errID := int64(999) // identity of the error handed to the logger
	if id, ok := c.errs[err]; ok {
		errID = id
	}
	c.Trace = append(c.Trace, []int64{1, int64(n), int64(d), int64(mr), errOK, errID})
	c.mu.Unlock()
}
func (l c12Logger) Info(string, watermill.LogFields)                 {}
func (l c12Logger) Debug(string, watermill.LogFields)                {}
func (l c12Logger) Trace(string, watermill.LogFields)                {}
func (l c12Logger) With(watermill.LogFields) watermill.LoggerAdapter { return l }

func c12gid() int64 {
	// same parsing as hookrt.gid (not exported there)
	return goroutineID()
}

func (g *c12Group) runCase(c *c12Case, wrapped message.HandlerFunc) {
	done := make(chan struct{})
	go func() {
		defer close(done)
		id := c12gid()
		g.mu.Lock()
		g.byGid[id] = c
		g.mu.Unlock()
		if c.StartDelay > 0 {
			time.Sleep(time.Duration(c.StartDelay))
		}
		c.msg.UUID = c.ID // redelivery family: the object is shared, the handler attributes by UUID
		outs, err := wrapped(c.msg)
		tret := g.now()
		c.record(outs, err, tret)
		g.mu.Lock()
		delete(g.byGid, id)
		g.mu.Unlock()
	}()
	select {
	case <-done:
	case <-time.After(30 * time.Second):
	}
	c.wg.Wait()
	c.cancel()
}

func (c *c12Case) record(outs []*message.Message, err error, tret int64) {
	{
		c.mu.Lock()
		c.TRet = tret
		c.Outs = []int64{}
		for _, m := range outs {
			if id, ok := c.produced[m]; ok {
				c.Outs = append(c.Outs, id)
			} else {
				c.Outs = append(c.Outs, 9999)
			}
		}
		if err == nil {
			c.Err = 0
		} else if id, ok := c.errs[err]; ok {
			c.Err = id
		} else {
			c.Err = 999
		}
		c.Done = true
		c.mu.Unlock()
	}
}

// router-close mode: a real Router over a real GoChannel; the Router is closed while Retry
// sleeps in a long back-off: Run cancels its context, GoChannel's subscription context and with
// it the context of the delivered message end, and Retry must give up (C12_gives_up_when_context_ends).
func (g *c12Group) runRouterClose(cases []*c12Case, retryMw message.HandlerMiddleware) {
	g.closePre = -1
	router, err := message.NewRouter(message.RouterConfig{CloseTimeout: 8 * time.Second}, watermill.NopLogger{})
	if err != nil {
		return
	}
	ps := gochannel.NewGoChannel(gochannel.Config{}, watermill.NopLogger{})
	router.AddHandler("h", "in", ps, "out", ps, g.handler)
	router.AddMiddleware(g.recorderMw(), retryMw)
	g.closeRouter = func() { _ = router.Close() }
	ctx, cancel := context.WithCancel(context.Background())
	defer cancel()
	runDone := make(chan struct{})
	go func() { _ = router.Run(ctx); close(runDone) }()
	select {
	case <-router.Running():
	case <-time.After(5 * time.Second):
		return
	}
	for _, c := range cases {
		c.mu.Lock()
		c.msg = nil
		c.mu.Unlock()
		if c.StartDelay > 0 {
			time.Sleep(time.Duration(c.StartDelay))
		}
		_ = ps.Publish("in", message.NewMessage(c.ID, []byte("p")))
	}
	// wait until every case has returned (the close is triggered from inside the handler)
	deadline := time.Now().Add(25 * time.Second)
	for time.Now().Before(deadline) {
		all := true
		for _, c := range cases {
			c.mu.Lock()
			if !c.Done {
				all = false
			}
			c.mu.Unlock()
		}
		if all {
			break
		}
		time.Sleep(2 * time.Millisecond)
	}
	g.closeOnce.Do(func() { _ = router.Close() })
	select {
	case <-runDone:
	case <-time.After(10 * time.Second):
	}
	_ = ps.Close()
	for _, c := range cases {
		c.wg.Wait()
		c.mu.Lock()
		g.mu.Lock()
		c.CPre = g.closePre
		g.mu.Unlock()
		if c.CPre < 0 {
			c.CPost = -1
		}
		c.mu.Unlock()
	}
}

func (g *c12Group) recorderMw() message.HandlerMiddleware {
	return func(next message.HandlerFunc) message.HandlerFunc {
		return func(msg *message.Message) ([]*message.Message, error) {
			c := g.byUUID[msg.UUID]
			id := c12gid()
			g.mu.Lock()
			g.byGid[id] = c
			g.mu.Unlock()
			outs, err := next(msg)
			tret := g.now()
			if c != nil {
				c.mu.Lock()
				first := !c.Done
				c.mu.Unlock()
				if first { // GoChannel redelivers a nacked message: only the first delivery is the case
					c.record(outs, err, tret)
				}
			}
			g.mu.Lock()
			delete(g.byGid, id)
			g.mu.Unlock()
			return outs, err
		}
	}
}

// router mode: the wrapped handler is a middleware of a handler of a real Router; a recorder
// middleware outside of it sees what Retry returned; the Router's own goroutine per message
// runs recorder, Retry, handler, hook and logger.
func (g *c12Group) runRouter(cases []*c12Case, retryMw message.HandlerMiddleware) {
	router, err := message.NewRouter(message.RouterConfig{CloseTimeout: 5 * time.Second}, watermill.NopLogger{})
	if err != nil {
		return
	}
	sub := script.NewSubscriber(true)
	pub := &script.Publisher{}
	if cases[0].Pub == 1 {
		pub.OnPublish = func(int, string, []*message.Message) error { return fmt.Errorf("scripted publish failure") }
	}
	h := router.AddHandler("h", "in", sub, "out", pub, g.handler)
	recorder := func(next message.HandlerFunc) message.HandlerFunc {
		return func(msg *message.Message) ([]*message.Message, error) {
			c := g.byUUID[msg.UUID]
			id := c12gid()
			g.mu.Lock()
			g.byGid[id] = c
			g.mu.Unlock()
			outs, err := next(msg)
			tret := g.now()
			if c != nil {
				c.record(outs, err, tret)
			}
			g.mu.Lock()
			delete(g.byGid, id)
			g.mu.Unlock()
			return outs, err
		}
	}
	h.AddMiddleware(recorder, retryMw)
	ctx, cancel := context.WithCancel(context.Background())
	defer cancel()
	go func() { _ = router.Run(ctx) }()
	select {
	case <-router.Running():
	case <-time.After(5 * time.Second):
		return
	}
	var wg sync.WaitGroup
	for _, c := range cases {
		wg.Add(1)
		go func(c *c12Case) {
			defer wg.Done()
			if c.StartDelay > 0 {
				time.Sleep(time.Duration(c.StartDelay))
			}
			if !sub.Emit("in", c.msg, 5*time.Second) {
				return
			}
			st := script.WaitSettled(c.msg, 30*time.Second)
			c.mu.Lock()
			c.Settle = st
			c.mu.Unlock()
		}(c)
	}
	wg.Wait()
	cancel()
	_ = router.Close()
	for _, call := range pub.Snapshot() {
		if len(call.Msgs) == 0 {
			continue
		}
		for _, c := range cases {
			c.mu.Lock()
			if _, ok := c.produced[call.Msgs[0]]; ok {
				ids := []int64{}
				for _, m := range call.Msgs {
					if id, ok := c.produced[m]; ok {
						ids = append(ids, id)
					} else {
						ids = append(ids, 9999)
					}
				}
				c.Published = append(c.Published, ids)
			}
			c.mu.Unlock()
		}
	}
}

func c12RunGroup(cases []*c12Case) {
	g := &c12Group{base: time.Now(), byUUID: map[string]*c12Case{}, byGid: map[int64]*c12Case{}}
	cfg := cases[0].Cfg
	r := middleware.Retry{
		MaxRetries:          cfg.MR,
		InitialInterval:     time.Duration(cfg.Init),
		MaxInterval:         time.Duration(cfg.MaxI),
		Multiplier:          float64(cfg.Mult[0]) / float64(cfg.Mult[1]),
		MaxElapsedTime:      time.Duration(cfg.ME),
		RandomizationFactor: float64(cfg.RF[0]) / float64(cfg.RF[1]),
	}
	if cfg.Hook {
		r.OnRetryHook = g.hook
	}
	if cfg.Log {
		r.Logger = c12Logger{g}
	}
	wrapped := r.Middleware(g.handler) // ONE wrapped handler for all messages of the group
	for _, c := range cases {
		c.msg = message.NewMessage(c.ID, []byte("p"))
		ctx, cancel := context.WithCancel(context.Background())
		c.msg.SetContext(ctx)
		c.cancel = cancel
		c.produced = map[*message.Message]int64{}
		c.errs = map[error]int64{}
		c.CPre, c.CPost = -1, -1
		c.Settle = -1
		g.byUUID[c.ID] = c
	}
	if cases[0].Family == "redelivery" {
		// the SAME message object (and its context, which only the harness may end) goes through the
		// wrapped handler once per case: what Retry did to the message during one delivery must not
		// decide the next one (MaxElapsedTime derives a context per call; the message keeps its own)
		for i, c := range cases {
			if i > 0 {
				c.cancel() // the context made above for this case is not used
				c.msg = cases[0].msg
			}
			c.cancel = func() {}
		}
	}
	if cases[0].Mode == "router-close" {
		g.runRouterClose(cases, r.Middleware)
		return
	}
	if cases[0].Mode == "router" {
		for _, c := range cases {
			c.Settle = 0
		}
		g.runRouter(cases, r.Middleware)
		return
	}
	if cases[0].Mode == "seq" {
		for _, c := range cases {
			g.runCase(c, wrapped)
		}
		return
	}
	var wg sync.WaitGroup
	for _, c := range cases {
		wg.Add(1)
		go func(c *c12Case) { defer wg.Done(); g.runCase(c, wrapped) }(c)
	}
	wg.Wait()
}

// ---------------------------------------------------------------- generator

const c12ms = int64(time.Millisecond)

func c12pick64(rng *rand.Rand, xs ...int64) int64 { return xs[rng.Intn(len(xs))] }
func c12pick(rng *rand.Rand, xs ...int) int       { return xs[rng.Intn(len(xs))] }

var c12mults = [][2]int64{{1, 1}, {3, 2}, {2, 1}, {9, 4}, {3, 1}, {1, 2}, {4, 1}, {5, 4}}
var c12rfs = [][2]int64{{0, 1}, {0, 1}, {1, 4}, {1, 2}, {1, 1}}

func c12notes(rng *rand.Rand, c *c12Cfg) {
	switch rng.Intn(8) {
	case 0:
		c.Hook, c.Log = false, false
	case 1:
		c.Hook, c.Log = false, true
	case 2, 3:
		c.Hook, c.Log = true, true
	default:
		c.Hook, c.Log = true, false
	}
}

// fail^i then succeed, or fail forever; outputs also together with errors
func c12script(rng *rand.Rand, fails int, forever bool) []c12Step {
	var s []c12Step
	for i := 0; i < fails; i++ {
		s = append(s, c12Step{Outs: c12pick(rng, 0, 0, 1, 2), Err: true})
	}
	if forever {
		s = append(s, c12Step{Outs: c12pick(rng, 0, 0, 1, 2), Err: true})
	} else {
		s = append(s, c12Step{Outs: c12pick(rng, 0, 1, 1, 2, 3)})
	}
	return s
}

func c12iters(mr int) int {
	if mr < 1 {
		return 1
	}
	return mr
}

func c12randScript(rng *rand.Rand, mr int) []c12Step {
	it := c12iters(mr)
	switch rng.Intn(6) {
	case 0:
		return c12script(rng, 0, false)
	case 1, 2:
		return c12script(rng, it+1, true) // exhausts the retries
	case 3:
		return c12script(rng, it, false) // succeeds at the very last retry
	default:
		return c12script(rng, 1+rng.Intn(it), false)
	}
}

func c12smallCfg(rng *rand.Rand) c12Cfg {
	c := c12Cfg{
		MR:   c12pick(rng, 1, 1, 2, 2, 3, 3, 4, 5, 6, 8),
		Init: c12pick64(rng, 0, 1, 2, 3, 5, 5, 7, 8) * c12ms,
		MaxI: c12pick64(rng, 5, 10, 12, 20, 20, 40) * c12ms,
		Mult: c12mults[rng.Intn(len(c12mults))],
		RF:   c12rfs[rng.Intn(len(c12rfs))],
	}
	if c.MR >= 6 && c.MaxI > 20*c12ms {
		c.MaxI = 20 * c12ms
	}
	if rng.Intn(6) == 0 { // odd nanosecond values: truncation of cur*Multiplier and of the randomised value
		c.Init += c12pick64(rng, 1, 3, 7, 333)
		c.MaxI += c12pick64(rng, 1, 5, 11)
	}
	c12notes(rng, &c)
	return c
}

// a configuration whose (j+1)-th wait is >= 400 ms while the waits before are short
func c12longAfter(rng *rand.Rand, j int) c12Cfg {
	c := c12Cfg{RF: [2]int64{0, 1}, MaxI: 4000 * c12ms, MR: j + 1 + rng.Intn(3)}
	switch j {
	case 0:
		c.Init, c.Mult = c12pick64(rng, 400, 1000, 3000)*c12ms, [2]int64{c12pick64(rng, 1, 2), 1}
	case 1:
		c.Init, c.Mult = c12pick64(rng, 1, 2, 5)*c12ms, [2]int64{512, 1}
	case 2:
		c.Init, c.Mult = 2*c12ms, [2]int64{16, 1}
	case 3:
		c.Init, c.Mult = c12ms, [2]int64{8, 1}
	case 4:
		c.Init, c.Mult = 2*c12ms, [2]int64{4, 1}
	case 5:
		c.Init, c.Mult = 2*c12ms, [2]int64{3, 1}
	default: // 6, 7: 2 ms * 2^j
		c.Init, c.Mult = 4*c12ms, [2]int64{2, 1}
	}
	if rng.Intn(3) == 0 {
		c.RF = [2]int64{1, 4}
		c.Init = c.Init * 4 / 3
	}
	c12notes(rng, &c)
	return c
}

func c12Generate(seed int64, scale int) [][]*c12Case {
	rng := rand.New(rand.NewSource(seed))
	var groups [][]*c12Case
	add := func(family, mode string, cfg c12Cfg, n int, mk func(i int, c *c12Case)) {
		gi := len(groups)
		var cs []*c12Case
		for i := 0; i < n; i++ {
			c := &c12Case{ID: fmt.Sprintf("g%d-m%d", gi, i), Group: gi, Family: family, Mode: mode, Cfg: cfg, InFlight: 1}
			if mode == "conc" || mode == "router" {
				c.InFlight = n
			}
			mk(i, c)
			cs = append(cs, c)
		}
		groups = append(groups, cs)
	}
	for rep := 0; rep < scale; rep++ {
		// F1: sequential runs through one wrapped handler
		for i := 0; i < 14; i++ {
			cfg := c12smallCfg(rng)
			add("sequential", "seq", cfg, 1+rng.Intn(3), func(i int, c *c12Case) { c.Script = c12randScript(rng, cfg.MR) })
		}
		// F2: concurrent messages, interleaved failures, staggered so that one message's Reset falls
		// in the middle of another one's schedule
		for i := 0; i < 10; i++ {
			cfg := c12smallCfg(rng)
			if rng.Intn(4) != 0 {
				cfg.RF = [2]int64{0, 1}
			}
			if cfg.Mult[0] <= cfg.Mult[1] {
				cfg.Mult = [2]int64{2, 1}
			}
			if cfg.Init == 0 {
				cfg.Init = 3 * c12ms
			}
			if cfg.MR < 3 {
				cfg.MR = 3 + rng.Intn(3)
			}
			if cfg.MaxI < 4*cfg.Init {
				cfg.MaxI = 40 * c12ms
			}
			add("concurrent", "conc", cfg, 3+rng.Intn(4), func(i int, c *c12Case) {
				c.Script = c12randScript(rng, cfg.MR)
				if len(c.Script) < 3 {
					c.Script = c12script(rng, 2+rng.Intn(cfg.MR), rng.Intn(2) == 0)
				}
				c.StartDelay = int64(i) * c12pick64(rng, 3, 6, 9, 14) * c12ms
			})
		}
		// F2b: the same through a real Router: Retry is a handler middleware, 2..5 messages in flight
		for i := 0; i < 5; i++ {
			cfg := c12smallCfg(rng)
			if cfg.MR > 5 {
				cfg.MR = 5
			}
			pubBeh := 0
			if i%3 == 2 {
				pubBeh = 1
			}
			add("router", "router", cfg, 2+rng.Intn(4), func(i int, c *c12Case) {
				c.Pub = pubBeh
				c.Script = c12randScript(rng, cfg.MR)
				c.StartDelay = int64(i) * c12pick64(rng, 0, 2, 5, 9) * c12ms
			})
		}
		// F2c: Router closing while a retry sleeps in a long back-off (real Router over a real GoChannel)
		for j := 0; j <= 2; j++ {
			cfg := c12longAfter(rng, j)
			cfg.MR = j + 2 + rng.Intn(2)
			add("router-close", "router-close", cfg, 1, func(i int, c *c12Case) {
				c.Script = c12script(rng, cfg.MR+2, true)
				c.CancelKind, c.CancelAt, c.CancelDelay = 3, j, c12pick64(rng, 1, 10, 30)*c12ms
			})
		}
		// F2d: ZERO back-off and an ended context: the zero-value configuration Retry{MaxRetries: n},
		// the "examples" configuration Retry{MaxRetries, InitialInterval} (Multiplier 0: every wait after
		// the first is 0) and MaxInterval 0; the handler cancels the message context in attempt j. Both
		// select cases are ready, each iteration may go either way - but not 40+ times in a row.
		for i := 0; i < 8; i++ {
			cfg := c12Cfg{MR: c12pick(rng, 50, 64, 80), Mult: [2]int64{0, 1}, RF: c12rfs[rng.Intn(len(c12rfs))]}
			switch i % 3 {
			case 1:
				cfg.Init = c12pick64(rng, 1, 3, 5) * c12ms
			case 2:
				cfg.Init, cfg.Mult = c12pick64(rng, 1, 3)*c12ms, [2]int64{2, 1}
			}
			c12notes(rng, &cfg)
			j := rng.Intn(4)
			add("cancel-in-attempt/zero-backoff", c12pickMode(rng), cfg, 1+rng.Intn(2), func(i int, c *c12Case) {
				c.Script = c12script(rng, 3, true)
				c.CancelKind, c.CancelAt = 1, j
			})
		}
		// F3: the handler cancels the message context during attempt j; the next wait is long
		for j := 0; j <= 7; j++ {
			cfg := c12longAfter(rng, j)
			add("cancel-in-attempt/long-wait", c12pickMode(rng), cfg, 1+rng.Intn(2), func(i int, c *c12Case) {
				c.Script = c12script(rng, cfg.MR+2, true)
				c.CancelKind, c.CancelAt = 1, j
			})
		}
		// F4: the same with short waits (the select may see both cases ready: either outcome)
		for i := 0; i < 6; i++ {
			cfg := c12smallCfg(rng)
			add("cancel-in-attempt/short-wait", "seq", cfg, 2, func(i int, c *c12Case) {
				c.Script = c12script(rng, cfg.MR+2, true)
				c.CancelKind, c.CancelAt = 1, rng.Intn(c12iters(cfg.MR)+1)
			})
		}
		// F5: another goroutine cancels in the middle of a long wait
		for j := 0; j <= 4; j++ {
			cfg := c12longAfter(rng, j)
			add("cancel-during-wait", c12pickMode(rng), cfg, 1+rng.Intn(2), func(i int, c *c12Case) {
				c.Script = c12script(rng, cfg.MR+2, true)
				c.CancelKind, c.CancelAt, c.CancelDelay = 2, j, c12pick64(rng, 1, 5, 20)*c12ms
			})
		}
		// F6: MaxElapsedTime ends in the middle of a long wait (>= 1.7 s, never waited out by the real code)
		for j := 0; j <= 3; j++ {
			cfg := c12Cfg{RF: [2]int64{0, 1}, MaxI: 8000 * c12ms, MR: j + 1 + rng.Intn(3)}
			switch j {
			case 0:
				cfg.Init, cfg.Mult = c12pick64(rng, 2000, 3000)*c12ms, [2]int64{1, 1}
			case 1:
				cfg.Init, cfg.Mult = c12pick64(rng, 4, 5)*c12ms, [2]int64{512, 1}
			case 2:
				cfg.Init, cfg.Mult = 2*c12ms, [2]int64{32, 1}
			case 3:
				cfg.Init, cfg.Mult = c12ms, [2]int64{12, 1}
			}
			c12notes(rng, &cfg)
			cfg.ME = c12pick64(rng, 25, 40, 60)*c12ms + cfg.sumWaits(j)
			add("max-elapsed/long-wait", "seq", cfg, 1, func(i int, c *c12Case) { c.Script = c12script(rng, cfg.MR+2, true) })
		}
		// F7: MaxElapsedTime passes while the handler runs: NextBackOff returns Stop, timer and Done race
		for i := 0; i < 6; i++ {
			cfg := c12Cfg{MR: c12pick(rng, 3, 5, 8), Init: c12pick64(rng, 1, 2, 4) * c12ms, MaxI: 10 * c12ms, Mult: [2]int64{c12pick64(rng, 1, 2), 1},
				RF: c12rfs[rng.Intn(len(c12rfs))], ME: c12pick64(rng, 15, 25, 40) * c12ms}
			c12notes(rng, &cfg)
			add("max-elapsed/slow-handler", "seq", cfg, 1+rng.Intn(2), func(i int, c *c12Case) {
				c.Script = c12script(rng, cfg.MR+2, rng.Intn(3) != 0)
				for k := range c.Script {
					c.Script[k].Sleep = c12pick64(rng, 0, 8, 12, 20, 30) * c12ms
				}
			})
		}
		// F9: configurations the code does not validate: Multiplier <= 0, negative intervals,
		// negative MaxElapsedTime (rf = 0: the randomisation window would be inverted otherwise)
		for i := 0; i < 12; i++ {
			cfg := c12Cfg{MR: c12pick(rng, 2, 3, 4), Init: c12pick64(rng, 2, 5) * c12ms, MaxI: c12pick64(rng, 6, 10) * c12ms,
				Mult: [2]int64{2, 1}, RF: [2]int64{0, 1}}
			switch i % 6 {
			case 5: // RandomizationFactor > 1: negative draws do not delay
				cfg.RF = [2]int64{c12pick64(rng, 3, 5), 2}
			case 0:
				cfg.Mult = [2]int64{c12pick64(rng, -2, -1, -3), c12pick64(rng, 1, 2)}
			case 1:
				cfg.Mult = [2]int64{0, 1}
				if rng.Intn(2) == 0 {
					cfg.MaxI = -4 * c12ms
				}
			case 2:
				cfg.Init = -c12pick64(rng, 3, 7) * c12ms
			case 3:
				cfg.MaxI = -c12pick64(rng, 2, 4) * c12ms
				if rng.Intn(2) == 0 {
					cfg.Mult = [2]int64{-2, 1}
					cfg.Init = -5 * c12ms
				}
			case 4:
				cfg.ME = -c12pick64(rng, 1, 20) * c12ms
			}
			c12notes(rng, &cfg)
			add("unvalidated-config", c12pickMode(rng), cfg, 1+rng.Intn(2), func(i int, c *c12Case) { c.Script = c12randScript(rng, cfg.MR) })
		}
		// F8: boundaries: MaxRetries 0 / negative / 1, zero intervals, Initial > Max, Multiplier < 1, rf = 1
		for i := 0; i < 12; i++ {
			cfg := c12smallCfg(rng)
			switch i % 6 {
			case 0:
				cfg.MR = c12pick(rng, 0, 0, -1, -3)
			case 1:
				cfg.Init, cfg.MaxI = 0, c12pick64(rng, 0, 5)*c12ms
			case 2:
				cfg.Init, cfg.MaxI = 12*c12ms, 5*c12ms
			case 3:
				cfg.Mult, cfg.Init = [2]int64{1, 2}, 16*c12ms+c12pick64(rng, 0, 1, 3)
			case 4:
				cfg.RF, cfg.Init = [2]int64{1, 1}, 4*c12ms
			case 5:
				cfg.MR, cfg.Init, cfg.MaxI = 1, 5*c12ms, 5*c12ms
			}
			add("boundary", c12pickMode(rng), cfg, 1+rng.Intn(3), func(i int, c *c12Case) { c.Script = c12randScript(rng, cfg.MR) })
		}
		// F9: redelivery: one message object delivered 2..3 times through the same wrapped handler,
		// MaxElapsedTime set and far away, the message context alive throughout
		for i := 0; i < 4; i++ {
			cfg := c12smallCfg(rng)
			cfg.ME = c12pick64(rng, 5000, 8000) * c12ms
			if cfg.MR > 4 {
				cfg.MR = 4
			}
			add("redelivery", "seq", cfg, 2+rng.Intn(2), func(i int, c *c12Case) {
				c.Script = c12script(rng, 1+rng.Intn(cfg.MR+1), rng.Intn(2) == 0)
			})
		}
	}
	return groups
}

func c12pickMode(rng *rand.Rand) string {
	if rng.Intn(2) == 0 {
		return "conc"
	}
	return "seq"
}

// sum of the first j waits (rf = 0) of a configuration, ns
func (c c12Cfg) sumWaits(j int) int64 {
	cur, sum := c.Init, int64(0)
	for i := 0; i < j; i++ {
		sum += cur
		if cur*c.Mult[0] >= c.MaxI*c.Mult[1] {
			cur = c.MaxI
		} else {
			cur = cur * c.Mult[0] / c.Mult[1]
		}
	}
	return sum
}

func cmdC12(args []string) error {
	fs, out, seed := newFlags("c12")
	scale := fs.Int("scale", 1, "repetitions of the scenario families")
	par := fs.Int("par", 8, "groups run in parallel")
	fs.Parse(args)
	groups := c12Generate(*seed, *scale)
	sem := make(chan struct{}, *par)
	var wg sync.WaitGroup
	for _, g := range groups {
		wg.Add(1)
		sem <- struct{}{}
		go func(g []*c12Case) {
			defer wg.Done()
			defer func() { <-sem }()
			c12RunGroup(g)
		}(g)
	}
	wg.Wait()
	var all []*c12Case
	for _, g := range groups {
		for _, c := range g {
			c.mu.Lock()
			all = append(all, c)
		}
	}
	return writeJSON(*out, all)
}

func init() { register("c12", cmdC12) }
