//go:build verif

package main

// C16, round "proofs": ties the Gallina model of encoding/json's string escaping / unescaping,
// of base64 and of the envelope's JSON text (coq/Value/Json.v) to the Go libraries and to the
// real forwarder functions.  The one oracle the model still has — splitting the text of a JSON
// object into the raw texts of its members — is computed here by splitObject.

import (
	"bytes"
	"context"
	"encoding/base64"
	"encoding/hex"
	"encoding/json"
	"fmt"
	"strings"
	"unicode/utf8"

	"github.com/ThreeDotsLabs/watermill/components/cqrs"
	"github.com/ThreeDotsLabs/watermill/components/forwarder"
	"github.com/ThreeDotsLabs/watermill/message"

	"wmverif/c16types"
)

// ---------------------------------------------------------------- strings

type jsCase struct {
	Kind  string `json:"kind"`
	S     string `json:"s"`      // input of the encoder (hex)
	Enc   string `json:"enc"`    // json.Marshal(string(s)) (hex)
	Lit   string `json:"lit"`    // a string literal fed to the decoder (hex)
	DecOK bool   `json:"dec_ok"` // json.Unmarshal(lit, &string) succeeded
	Dec   string `json:"dec"`    // its result (hex)
}

func jsOne(kind string, s []byte, lit []byte) jsCase {
	enc, err := json.Marshal(string(s))
	if err != nil {
		panic(err)
	}
	if lit == nil {
		lit = enc
	}
	c := jsCase{Kind: kind, S: hex.EncodeToString(s), Enc: hex.EncodeToString(enc), Lit: hex.EncodeToString(lit)}
	var out string
	if err := json.Unmarshal(lit, &out); err == nil {
		c.DecOK = true
		c.Dec = hx(out)
	}
	return c
}

func (g *gen) jsCases(n int) []jsCase {
	var out []jsCase
	add := func(kind string, s []byte, lit []byte) {
		out = append(out, jsOne(kind, s, lit))
		g.count("json-string:" + kind)
	}
	for b := 0; b < 256; b++ { // every single byte, alone and between two letters
		add("single-byte", []byte{byte(b)}, nil)
		add("single-byte", []byte{'a', byte(b), 'z'}, nil)
	}
	for _, r := range []rune{0, 0x1f, 0x20, 0x7f, 0x80, 0x7ff, 0x800, 0x2027, 0x2028, 0x2029, 0x202a, 0xd7ff, 0xe000, 0xfffd, 0xfffe, 0xffff, 0x10000, 0x1f600, 0x10ffff} {
		add("boundary-code-point", []byte(string(r)), nil)
		add("boundary-code-point", []byte("x"+string(r)+string(r)+"y"), nil)
	}
	for _, s := range []string{"\xed\xa0\x80", "\xed\xbf\xbf", "\xed\xa0\x80\xed\xb0\x80", "\xc0\x80", "\xe0\x80\x80", "\xf0\x80\x80\x80", "\xf4\x90\x80\x80", "\xe2\x80", "\xe2", "\xf0\x9f\x98", "a\xe2\x80\xa8\xff\xe2\x80\xa9", "\xef\xbf\xbd\xff"} {
		add("surrogates-overlong-truncated-as-bytes", []byte(s), nil)
	}
	for i := 0; i < n; i++ {
		switch g.r.Intn(4) {
		case 0:
			b := make([]byte, g.r.Intn(12))
			g.r.Read(b)
			add("random-bytes", b, nil)
		case 1:
			var sb strings.Builder
			for sb.Len() < 600+g.r.Intn(1500) {
				sb.WriteString(g.str(true))
			}
			add("long", []byte(sb.String()), nil)
		default:
			add("pool", []byte(g.str(true)+g.str(true)), nil)
		}
	}
	// decoder-only: literals the encoder never writes
	lits := []string{
		`"\/"`, `"\u0041\u00e9\u20ac"`, `"\ud83d\ude00"`, `"\uD83D\uDE00x"`, `"\ud800"`, `"\udc00"`, `"\ud800A"`, `"\ud800\u0041"`, `"\ud800\udc00"`,
		`"\udbff\udfff"`, `"\ud800\udbff"`, `"\uDC00\uD800"`, `"\ud800\uZZZZ"`, `"\ud800\u12"`, `"\u12"`, `"\u123g"`, `"\uffff"`, `"\u0000"`, `"\u001F"`,
		`"\x41"`, `"\'"`, `"\a"`, `"\"`, `"`, `""`, `"\\"`, `"a"b"`, "\"\x01\"", "\"\x1f\"", "\"\x7f\"", "\"\n\"", "\"\t\"",
		"\"\xff\"", "\"a\xc3\"", "\"\xed\xa0\x80\"", "\"\xe2\x80\xa8\"", "\"\xf0\x9f\x98\x80\"", "\"\xc0\x80\"", `"\b\f\n\r\t\"\\\/"`, `"\B"`, `"\U0041"`,
		`"\u00e9\u00E9"`, `"\u003c\u003e\u0026"`, `"<>&"`, `"\ud83d"`, `"\ud83d\u"`, `"\ud83d\ude0"`, `"\ud83d\\ude00"`, `"\u2028\u2029\ufffd"`, `"\ud83d\ude00\ud83d"`,
	}
	for _, l := range lits {
		add("decoder-literal", nil, []byte(l))
	}
	for i := 0; i < n/2; i++ { // mutated encoder outputs
		enc, _ := json.Marshal(g.str(true) + g.str(true))
		if len(enc) > 2 {
			p := 1 + g.r.Intn(len(enc)-2)
			switch g.r.Intn(3) {
			case 0:
				enc[p] = byte(g.r.Intn(256))
			case 1:
				enc = append(enc[:p:p], enc[p+1:]...)
			case 2:
				enc = append(enc[:p:p], append([]byte{'\\'}, enc[p:]...)...)
			}
		}
		add("decoder-mutated-literal", nil, enc)
	}
	return out
}

// ---------------------------------------------------------------- base64

type b64Case struct {
	Kind  string `json:"kind"`
	B     string `json:"b"`
	Enc   string `json:"enc"`
	In    string `json:"in"`
	DecOK bool   `json:"dec_ok"`
	Dec   string `json:"dec"`
}

func (g *gen) b64Cases(n int) []b64Case {
	var out []b64Case
	add := func(kind string, b []byte, in []byte) {
		enc := []byte(base64.StdEncoding.EncodeToString(b))
		if in == nil {
			in = enc
		}
		c := b64Case{Kind: kind, B: hex.EncodeToString(b), Enc: hex.EncodeToString(enc), In: hex.EncodeToString(in)}
		buf := make([]byte, base64.StdEncoding.DecodedLen(len(in)))
		if k, err := base64.StdEncoding.Decode(buf, in); err == nil { // the call encoding/json makes for []byte
			c.DecOK = true
			c.Dec = hex.EncodeToString(buf[:k])
		}
		out = append(out, c)
		g.count("base64:" + kind)
	}
	for l := 0; l <= 9; l++ {
		b := make([]byte, l)
		g.r.Read(b)
		add("short", b, nil)
	}
	add("all-256", append([]byte{}, allBytes...), nil)
	for _, x := range []byte{0, 0xff, 0x3f, 0xfc, 0x03, 0xf0, 0x0f} {
		add("patterns", []byte{x}, nil)
		add("patterns", []byte{x, x}, nil)
		add("patterns", []byte{x, x, x}, nil)
	}
	for i := 0; i < n; i++ {
		b := make([]byte, g.r.Intn(80))
		g.r.Read(b)
		add("random", b, nil)
	}
	for _, s := range []string{"", "A", "AA", "AAA", "AAAA", "AA==", "AB==", "AAA=", "AAB=", "A===", "====", "AA=A", "=AAA", "AA==AAAA", "AAAA=", "AAAAAA==", "AA\n==", "A\nA=\r\n=", "AA==\n", "\nAA==", "AAAA\nAAAA", "AA= =", "AA-_", "AA+/", "AA*A", "AAA", "AAAAA", "AA==\n\n", "A A A A"} {
		add("decoder-input", nil, []byte(s))
	}
	for i := 0; i < n; i++ {
		b := make([]byte, 1+g.r.Intn(20))
		g.r.Read(b)
		enc := []byte(base64.StdEncoding.EncodeToString(b))
		p := g.r.Intn(len(enc))
		switch g.r.Intn(4) {
		case 0:
			enc[p] = byte(g.r.Intn(128))
		case 1:
			enc = append(enc[:p:p], enc[p+1:]...)
		case 2:
			enc = append(enc[:p:p], append([]byte{'\n'}, enc[p:]...)...)
		case 3:
			enc = append(enc[:p:p], append([]byte{'='}, enc[p:]...)...)
		}
		add("decoder-mutated", nil, enc)
	}
	return out
}

// ---------------------------------------------------------------- object framing (the remaining oracle)

// splitObject returns the raw texts of the members of the JSON object text (key literal, value
// text), in order, or ok=false if text is not valid JSON or not an object.
func splitObject(text []byte) (members [][2]string, ok bool) {
	if !json.Valid(text) {
		return nil, false
	}
	t := bytes.TrimSpace(text)
	if len(t) < 2 || t[0] != '{' || t[len(t)-1] != '}' {
		return nil, false
	}
	members = [][2]string{}
	i := 1
	skipWS := func() {
		for i < len(t) && (t[i] == ' ' || t[i] == '\t' || t[i] == '\n' || t[i] == '\r') {
			i++
		}
	}
	str := func() { // t[i] == '"': advance past the closing quote
		i++
		for t[i] != '"' {
			if t[i] == '\\' {
				i++
			}
			i++
		}
		i++
	}
	for {
		skipWS()
		if t[i] == '}' {
			return members, true
		}
		if t[i] == ',' {
			i++
			continue
		}
		ks := i
		str()
		key := t[ks:i]
		skipWS()
		i++ // ':'
		skipWS()
		vs := i
		depth := 0
		for {
			c := t[i]
			if c == '"' {
				str()
				continue
			}
			if c == '{' || c == '[' {
				depth++
			} else if c == '}' || c == ']' {
				if depth == 0 {
					break
				}
				depth--
			} else if c == ',' && depth == 0 {
				break
			}
			i++
		}
		val := bytes.TrimRight(t[vs:i], " \t\r\n")
		members = append(members, [2]string{hex.EncodeToString(key), hex.EncodeToString(val)})
	}
}

type frameEntry struct {
	Text    string      `json:"text"`
	Members [][2]string `json:"members"` // null = not an object
}

// frames answers every unframe question the model can ask about payload: the payload itself and
// every member value that is itself an object
func frames(payload []byte) []frameEntry {
	var out []frameEntry
	ms, ok := splitObject(payload)
	e := frameEntry{Text: hex.EncodeToString(payload)}
	if ok {
		e.Members = ms
	}
	out = append(out, e)
	for _, m := range ms {
		v, _ := hex.DecodeString(m[1])
		if len(v) > 0 && v[0] == '{' {
			if inner, ok := splitObject(v); ok {
				out = append(out, frameEntry{Text: m[1], Members: inner})
			}
		}
	}
	return out
}

// ---------------------------------------------------------------- envelope text

type jwCase struct {
	Kind   string       `json:"kind"`
	Dest   string       `json:"dest"`
	M      *jMsg        `json:"m,omitempty"` // wrap cases: the message wrapped
	Valid  bool         `json:"valid"`       // all strings valid UTF-8
	P      *string      `json:"p"`           // payload of the (real or hand-made) envelope message
	Frames []frameEntry `json:"frames"`
	Got    unwRes       `json:"got"` // real unwrapMessageFromEnvelope
}

func (g *gen) jwCases(n, big int) []jwCase {
	var out []jwCase
	for i := 0; i < n; i++ {
		invalid := g.r.Intn(6) == 0
		gm := g.msg(invalid, big)
		dest := ""
		for dest == "" {
			dest = g.str(invalid)
		}
		m := gm.lit()
		w, err := forwarder.VerifWrapMessageInEnvelope(dest, m)
		if err != nil {
			panic(err)
		}
		o := obsMsg(m)
		c := jwCase{Kind: "wrap", Dest: hx(dest), M: &o, P: hexp(w.Payload), Frames: frames(w.Payload), Got: doUnwrap(w)}
		c.Valid = utf8.ValidString(dest) && utf8.ValidString(m.UUID)
		for k, v := range m.Metadata {
			c.Valid = c.Valid && utf8.ValidString(k) && utf8.ValidString(v)
		}
		g.count(fmt.Sprintf("envelope-text:wrap:valid-utf8=%v", c.Valid))
		out = append(out, c)
	}
	jstr := func(s string) string { b, _ := json.Marshal(s); return string(b) }
	hand := func(kind string, p []byte) {
		w := message.NewMessage("w", p)
		out = append(out, jwCase{Kind: kind, P: hexp(p), Frames: frames(p), Got: doUnwrap(w)})
		g.count("envelope-text:unwrap-only:" + kind)
	}
	for i := 0; i < n/2; i++ {
		t := jstr(g.destTopic(false))
		switch g.r.Intn(22) {
		case 0:
			hand("nil-payload", nil)
		case 1:
			hand("garbage", []byte(g.str(true)))
		case 2:
			hand("empty-object", []byte("{}"))
		case 3:
			hand("only-destination", []byte(`{"destination_topic":`+t+`}`))
		case 4:
			hand("nulls", []byte(`{"destination_topic":`+t+`,"uuid":null,"payload":null,"metadata":null}`))
		case 5:
			hand("null-after-value", []byte(`{"destination_topic":`+t+`,"uuid":"u","uuid":null,"payload":"AA==","payload":null,"metadata":{"a":"b"},"metadata":null,"destination_topic":null}`))
		case 6:
			hand("wrong-type", []byte(`{"destination_topic":`+t+`,"uuid":5}`))
		case 7:
			hand("wrong-type-after-good-fields", []byte(`{"destination_topic":`+t+`,"payload":{},"uuid":"u"}`))
		case 8:
			hand("bad-base64", []byte(`{"destination_topic":`+t+`,"payload":"!!!"}`))
		case 9:
			hand("base64-with-escapes-and-newlines", []byte(`{"destination_topic":`+t+`,"payload":"AQID\nBA\/\/"}`))
		case 10:
			hand("metadata-non-string-value", []byte(`{"destination_topic":`+t+`,"metadata":{"a":1}}`))
		case 11:
			hand("metadata-null-value", []byte(`{"destination_topic":`+t+`,"metadata":{"a":null,"b":"x"}}`))
		case 12:
			hand("metadata-merged", []byte(`{"destination_topic":`+t+`,"metadata":{"a":"1","k":"1"},"metadata":{"k":"2","b":`+jstr(g.str(false))+`}}`))
		case 13:
			hand("duplicate-fields", []byte(`{"destination_topic":"t1","destination_topic":`+t+`,"uuid":"a","uuid":"b","metadata":{"k":"1","k":"2"}}`))
		case 14:
			hand("case-insensitive-names", []byte(`{"Destination_Topic":`+t+`,"extra":[1,2,{"x":null,"y":"}"}],"UUID":`+jstr(g.str(false))+`,"PayLoad":"AAEC","METADATA":{"K":"v"}}`))
		case 15:
			hand("escaped-names", []byte(`{"destination\u005ftopic":`+t+`,"\u0075uid":"x"}`))
		case 16:
			hand("whitespace", []byte(" {\n \"destination_topic\" :\t"+t+" ,\r\n \"metadata\" : { \"a\" : \"b\" , \"c\":\"d\" } , \"uuid\":\"u\" } \n"))
		case 17:
			hand("truncated", []byte(`{"destination_topic":`+t+`,"uuid":"u","payload":"AA==","metadata":{"a":"b"}`))
		case 18:
			hand("array", []byte(`["destination_topic",`+t+`]`))
		case 19:
			hand("trailing-data", []byte(`{"destination_topic":`+t+`} x`))
		case 20:
			hand("string-escapes", []byte(`{"destination_topic":"\ud83d\ude00\u00e9\/\ud800","uuid":"a\u0000b","metadata":{"k\u0041":"\n"}}`))
		case 21:
			hand("invalid-utf8-inside", []byte("{\"destination_topic\":\"a\xffb\",\"uuid\":\"\xed\xa0\x80\"}"))
		}
	}
	return out
}

// ---------------------------------------------------------------- message context through the envelope

type ctxKeyT struct{}

func ctxWith(id int) context.Context {
	if id == 0 {
		return nil // no context set: Message.Context() is Background
	}
	return context.WithValue(context.Background(), ctxKeyT{}, id)
}
func ctxID(c context.Context) int {
	if v, ok := c.Value(ctxKeyT{}).(int); ok {
		return v
	}
	return 0
}

type ctxCase struct {
	In        int `json:"in"`        // context of the message being wrapped
	Delivered int `json:"delivered"` // context put on the envelope message before unwrapping (a broker hop)
	Wrapped   int `json:"wrapped"`   // observed on the envelope message
	Unwrapped int `json:"unwrapped"` // observed on the unwrapped message
	Copy      int `json:"copy"`      // observed on m.Copy()
	OrigAfter int `json:"orig_after"`
}

func (g *gen) ctxCases(n int) []ctxCase {
	var out []ctxCase
	for i := 0; i < n; i++ {
		c := ctxCase{In: g.r.Intn(4), Delivered: g.r.Intn(4)}
		m := g.msg(false, 64).lit()
		if ctx := ctxWith(c.In); ctx != nil {
			m.SetContext(ctx)
		}
		cp := m.Copy()
		c.Copy = ctxID(cp.Context())
		cp.SetContext(ctxWith(3)) // a context set on the copy must not show on the original
		c.OrigAfter = ctxID(m.Context())
		w, err := forwarder.VerifWrapMessageInEnvelope("t", m)
		if err != nil {
			panic(err)
		}
		c.Wrapped = ctxID(w.Context())
		w2 := message.NewMessage(w.UUID, w.Payload) // what a subscriber hands over
		if ctx := ctxWith(c.Delivered); ctx != nil {
			w2.SetContext(ctx)
		}
		_, u, err := forwarder.VerifUnwrapMessageFromEnvelope(w2)
		if err != nil {
			panic(err)
		}
		c.Unwrapped = ctxID(u.Context())
		g.count(fmt.Sprintf("envelope-context:in=%v,delivered=%v", c.In != 0, c.Delivered != 0))
		out = append(out, c)
	}
	return out
}

// ---------------------------------------------------------------- different marshalers on the two sides

type ccCase struct {
	C     cqCase `json:"c"`      // writer side + oracles; unmarshal fields = what the READER returned
	KindU int    `json:"kind_u"` // reader: 1 ProtoMarshaler, 2 ProtobufMarshaler
	NoFBU bool   `json:"nofb_u"`
}

func (g *gen) ccCases(n int) []ccCase {
	var out []ccCase
	mk := func(kind int, nofb bool) cqrs.CommandEventMarshaler {
		if kind == 1 {
			return cqrs.ProtoMarshaler{}
		}
		return cqrs.ProtobufMarshaler{DisableStdProtoFallback: nofb}
	}
	name := func(kind int, nofb bool) string {
		if kind == 1 {
			return "Proto"
		}
		return fmt.Sprintf("gogo(nofb=%v)", nofb)
	}
	for i := 0; i < n; i++ {
		v, desc := c16types.Generate(g.r, 2, g.str)
		kw, ku := 1+g.r.Intn(2), 1+g.r.Intn(2)
		nw, nu := g.r.Intn(2) == 0, g.r.Intn(2) == 0
		if kw == 1 {
			nw = false
		}
		if ku == 1 {
			nu = false
		}
		c := cqCase{Kind: kw, NoFB: nw, TypeStr: hx(fmt.Sprintf("%T", v)), V: hx(c16types.Render(v)), Desc: desc}
		c.IsMsg, c.IsGogo = c16types.IsStdProto(v), c16types.IsGogoProto(v)
		c.VEnc, c.GEnc = c16types.StdEnc(v), c16types.GogoEnc(v)
		w, r := mk(kw, nw), mk(ku, nu)
		c.Name = hx(w.Name(v))
		c.NameOther = c.Name
		g.count("cross-config:" + name(kw, nw) + "->" + name(ku, nu) + ":" + strings.SplitN(desc, ":", 2)[0])
		msg, err := w.Marshal(v)
		if err != nil {
			c.MarshalE = classifyCqErr(err)
			if c.MarshalE == "ELib" {
				c.MarshalE = "ELibMarshal"
			}
		} else {
			o := obsMsg(msg)
			normUUID(&o)
			c.Msg = &o
			c.NFM = hx(r.NameFromMessage(msg))
			c.VDec = c16types.StdDec(msg.Payload, v)
			c.GDec = c16types.GogoDec(msg.Payload, v)
			fresh := c16types.Fresh(v)
			if err := r.Unmarshal(msg, fresh); err != nil {
				c.UnmE = classifyCqErr(err)
				if c.UnmE == "ELib" {
					c.UnmE = "ELibUnmarshal"
				}
			} else {
				c.Unm = hx(c16types.Render(fresh))
			}
		}
		out = append(out, ccCase{C: c, KindU: ku, NoFBU: nu})
	}
	return out
}

// ---------------------------------------------------------------- integers as JSON text (round "proofs 2")

type jiCase struct {
	Z     string `json:"z"`   // decimal
	Enc   string `json:"enc"` // json.Marshal(int64) (hex)
	In    string `json:"in"`  // text fed to json.Unmarshal(.., &int64) (hex)
	DecOK bool   `json:"dec_ok"`
	Dec   string `json:"dec"` // decimal
}

func (g *gen) jiCases(n int) []jiCase {
	var out []jiCase
	add := func(z int64, in []byte) {
		enc, _ := json.Marshal(z)
		if in == nil {
			in = enc
		}
		c := jiCase{Z: fmt.Sprint(z), Enc: hex.EncodeToString(enc), In: hex.EncodeToString(in)}
		var v int64
		if err := json.Unmarshal(in, &v); err == nil {
			c.DecOK, c.Dec = true, fmt.Sprint(v)
		}
		out = append(out, c)
	}
	for _, z := range []int64{0, 1, -1, 9, 10, -10, 99, 100, 1 << 53, -(1 << 53) - 1, 1<<63 - 1, -(1 << 63), 1234567890123} {
		add(z, nil)
	}
	for i := 0; i < n; i++ {
		z := g.r.Int63() - g.r.Int63()
		if g.r.Intn(2) == 0 {
			z = int64(g.r.Intn(2001) - 1000)
		}
		add(z, nil)
	}
	// ill-formed or non-integer numerals (leading zeros, whitespace and values outside int64 are not modelled)
	for _, s := range []string{"-0", "1.5", "1e2", "1E2", "", "abc", "+1", "--1", "-", "1-", "1 2", "0x10", "1,", "null1", "\"1\"", "1.0", "-1.0e0"} {
		add(0, []byte(s))
	}
	g.count(fmt.Sprintf("json-int:%d", len(out)))
	return out
}
