//go:build verif

package main

import (
	"context"
	"fmt"
	"math/rand"
	"strconv"
	"strings"

	"github.com/ThreeDotsLabs/watermill/message"
)

// c03world: seeded random sequential programs over a WORLD of real messages (NewMessage, the zero
// value, Copy() of any existing message in any state, Ack/Nack/reads on any of them, Metadata
// Set/Get through any of them, SetContext/Context), every operation's result recorded.  The same
// programs are run on coq/Message/World.v.
//
// op codes: 0 new(uuid,payload) 1 zero 2 copy(i) 3 settle(i,op) 4 metaset(i,k,v) 5 metaget(i,k)
//           6 setctx(i,c) 7 getctx(i) 8 content(i)
// result codes: ["id",i] ["res",code] ["unit"] ["val",v] ["cont",uuid,[bytes]] ["panic"]
type c03WorldOp struct {
	Op      int   `json:"op"`
	I       int   `json:"i"`
	A       int   `json:"a"`
	B       int   `json:"b"`
	Payload []int `json:"payload,omitempty"`
}

type c03WorldCase struct {
	Ops []c03WorldOp    `json:"ops"`
	Res [][]interface{} `json:"res"`
}

type c03CtxKey struct{}

func c03Num(s, prefix string) int {
	if s == "" {
		return 0
	}
	if !strings.HasPrefix(s, prefix) {
		return 999999
	}
	n, err := strconv.Atoi(s[len(prefix):])
	if err != nil {
		return 999999
	}
	return n
}

func c03WorldDo(msgs *[]*message.Message, o c03WorldOp) (res []interface{}) {
	defer func() {
		if r := recover(); r != nil {
			res = []interface{}{"panic"}
		}
	}()
	switch o.Op {
	case 0:
		p := make([]byte, len(o.Payload))
		for i, b := range o.Payload {
			p[i] = byte(b)
		}
		*msgs = append(*msgs, message.NewMessage(fmt.Sprintf("u%d", o.A), p))
		return []interface{}{"id", len(*msgs) - 1}
	case 1:
		*msgs = append(*msgs, &message.Message{})
		return []interface{}{"id", len(*msgs) - 1}
	case 2:
		*msgs = append(*msgs, (*msgs)[o.I].Copy())
		return []interface{}{"id", len(*msgs) - 1}
	case 3:
		return []interface{}{"res", c03Do((*msgs)[o.I], o.A)}
	case 4:
		(*msgs)[o.I].Metadata.Set(fmt.Sprintf("k%d", o.A), fmt.Sprintf("v%d", o.B))
		return []interface{}{"unit"}
	case 5:
		return []interface{}{"val", c03Num((*msgs)[o.I].Metadata.Get(fmt.Sprintf("k%d", o.A)), "v")}
	case 6:
		if o.A == 0 {
			(*msgs)[o.I].SetContext(nil) //nolint:staticcheck // the nil context is what the zero field is
		} else {
			(*msgs)[o.I].SetContext(context.WithValue(context.Background(), c03CtxKey{}, o.A))
		}
		return []interface{}{"unit"}
	case 7:
		ctx := (*msgs)[o.I].Context()
		if ctx == nil {
			return []interface{}{"val", 999998}
		}
		if ctx == context.Background() {
			return []interface{}{"val", 0}
		}
		v, _ := ctx.Value(c03CtxKey{}).(int)
		if v == 0 {
			v = 999997
		}
		return []interface{}{"val", v}
	default:
		m := (*msgs)[o.I]
		p := make([]int, len(m.Payload))
		for i, b := range m.Payload {
			p[i] = int(b)
		}
		return []interface{}{"cont", c03Num(m.UUID, "u"), p}
	}
}

func cmdC03World(args []string) error {
	fs, out, seed := newFlags("c03world")
	n := fs.Int("cases", 300, "programs")
	fs.Parse(args)
	rng := rand.New(rand.NewSource(*seed))
	var cases []c03WorldCase
	for ci := 0; ci < *n; ci++ {
		var msgs []*message.Message
		var c c03WorldCase
		l := 6 + rng.Intn(40)
		pCopy := 0.05 + rng.Float64()*0.3
		for k := 0; k < l; k++ {
			var o c03WorldOp
			if len(msgs) == 0 || rng.Float64() < 0.08 {
				if rng.Intn(5) == 0 {
					o = c03WorldOp{Op: 1}
				} else {
					p := make([]int, rng.Intn(4))
					for i := range p {
						p[i] = rng.Intn(256)
					}
					o = c03WorldOp{Op: 0, A: rng.Intn(50), Payload: p}
				}
			} else {
				i := rng.Intn(len(msgs))
				if rng.Intn(2) == 0 {
					i = len(msgs) - 1 // the newest message (often a copy) and ...
				} else if rng.Intn(3) == 0 && len(msgs) > 1 {
					i = len(msgs) - 2 // ... its predecessor (often its source) get most of the traffic
				}
				x := rng.Float64()
				switch {
				case x < pCopy:
					o = c03WorldOp{Op: 2, I: i}
				case x < pCopy+0.3:
					o = c03WorldOp{Op: 3, I: i, A: rng.Intn(4)}
				case x < pCopy+0.42:
					o = c03WorldOp{Op: 4, I: i, A: 1 + rng.Intn(3), B: 1 + rng.Intn(9)}
				case x < pCopy+0.54:
					o = c03WorldOp{Op: 5, I: i, A: 1 + rng.Intn(3)}
				case x < pCopy+0.6:
					o = c03WorldOp{Op: 6, I: i, A: rng.Intn(4)}
				case x < pCopy+0.66:
					o = c03WorldOp{Op: 7, I: i}
				default:
					o = c03WorldOp{Op: 8, I: i}
				}
			}
			c.Ops = append(c.Ops, o)
			c.Res = append(c.Res, c03WorldDo(&msgs, o))
		}
		cases = append(cases, c)
	}
	return writeJSON(*out, cases)
}

func init() { register("c03world", cmdC03World) }
