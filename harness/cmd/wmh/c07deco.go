//go:build verif

package main

// c07deco: GoChannel wrapped in 1..2 MessageTransform subscriber decorators (message/decorator.go).
// A consumer reads some of the published messages and then stops (or keeps) reading; then the
// decorated subscriber is closed or the subscription context is cancelled.  Observed: whether
// Close returned, whether every decorated channel got closed (via the pump hook, because a
// channel nobody reads cannot be observed otherwise), panics, what was received, and the
// stamped log (replayed on Decorator/Pump.v for the one-layer scenarios).

import (
	"bytes"
	"context"
	"fmt"
	"math/rand"
	"runtime"
	"strings"
	"sync"
	"time"

	"github.com/ThreeDotsLabs/watermill"
	"github.com/ThreeDotsLabs/watermill/message"
	"github.com/ThreeDotsLabs/watermill/pubsub/gochannel"

	"wmverif/hookrt"
)

type decoScenario struct {
	ID      int    `json:"id"`
	Layers  int    `json:"layers"`
	Buffer  int    `json:"buffer"`
	N       int    `json:"n"`      // messages published
	Read    int    `json:"read"`   // messages the consumer receives (and acks) before it stops
	Action  string `json:"action"` // "close", "cancel", "cancel+close"
	Drain   bool   `json:"drain"`  // consumer keeps reading after the action
	Settle  int    `json:"settle"` // 0 ack, 1 nack once then ack, 2 leave the last one unsettled
	Closers int    `json:"closers"` // concurrent Close callers on the decorated subscriber

	Events        []hookrt.Event `json:"events"`
	Panics        []string       `json:"panics"`
	Hung          []string       `json:"hung"`
	Received      []int          `json:"received"`
	Transformed   bool           `json:"transformed"` // every received message carried every layer's mark exactly once
	OutClosedSeen int            `json:"out_closed_seen"`
	Leaked        int            `json:"leaked"`
}

func decoLeaked() int {
	buf := make([]byte, 1<<20)
	n := runtime.Stack(buf, true)
	count := 0
	for _, g := range bytes.Split(buf[:n], []byte("\n\n")) {
		if bytes.Contains(g, []byte("messageTransformSubscriberDecorator")) {
			count++
		}
	}
	return count
}

func decoCount(rt *hookrt.Runtime, point string) int {
	n := 0
	for _, e := range rt.Log() {
		if e.Point == point {
			n++
		}
	}
	return n
}

func decoWaitCount(rt *hookrt.Runtime, point string, want int, d time.Duration) bool {
	deadline := time.Now().Add(d)
	for time.Now().Before(deadline) {
		if decoCount(rt, point) >= want {
			return true
		}
		time.Sleep(5 * time.Millisecond)
	}
	return decoCount(rt, point) >= want
}

func decoRun(rt *hookrt.Runtime, sc *decoScenario, rng *rand.Rand) {
	rt.Reset()
	rt.Filter(func(point string, keys []string) bool {
		return strings.HasPrefix(point, "decorator.") || strings.HasPrefix(point, "api.")
	})
	rt.Perturb("*", 0.25)
	rt.MaxNap(80 * time.Microsecond)

	var mu sync.Mutex
	var panics []string
	guard := func(what string, f func()) {
		defer func() {
			if r := recover(); r != nil {
				mu.Lock()
				panics = append(panics, fmt.Sprintf("%s: %v", what, r))
				mu.Unlock()
			}
		}()
		f()
	}

	ps := gochannel.NewGoChannel(gochannel.Config{OutputChannelBuffer: int64(sc.Buffer)}, watermill.NopLogger{})
	var sub message.Subscriber = ps
	for i := 0; i < sc.Layers; i++ {
		key := fmt.Sprintf("layer%d", i)
		dec := message.MessageTransformSubscriberDecorator(func(m *message.Message) {
			m.Metadata.Set(key, m.Metadata.Get(key)+"x")
		})
		sub, _ = dec(sub)
	}
	ctx, cancel := context.WithCancel(context.Background())
	defer cancel()
	rt.Register(1)
	ch, err := sub.Subscribe(ctx, "t")
	if err != nil {
		sc.Panics = append(sc.Panics, "Subscribe: "+err.Error())
		return
	}
	rt.Stamp("api.subscribed")

	var received []int
	transformed := true
	stopReading := make(chan struct{})
	resume := make(chan struct{})
	consumerDone := make(chan struct{})
	chanClosed := make(chan struct{})
	go func() {
		defer close(consumerDone)
		rt.Register(2)
		handle := func(m *message.Message, last bool) {
			n := msg_no(m.UUID)
			mu.Lock()
			received = append(received, n)
			for i := 0; i < sc.Layers; i++ {
				if m.Metadata.Get(fmt.Sprintf("layer%d", i)) != "x" {
					transformed = false
				}
			}
			mu.Unlock()
			rt.Stamp("api.recv", m.UUID)
			switch {
			case sc.Settle == 2 && last:
				rt.Stamp("api.leave", m.UUID)
			default:
				rt.Stamp("api.ack", m.UUID)
				m.Ack()
			}
		}
		for i := 0; i < sc.Read; i++ {
			m, ok := <-ch
			if !ok {
				rt.Stamp("api.chan_closed")
				close(chanClosed)
				return
			}
			handle(m, i == sc.Read-1)
		}
		close(stopReading)
		<-resume
		for m := range ch {
			handle(m, false)
		}
		rt.Stamp("api.chan_closed")
		close(chanClosed)
	}()

	go func() {
		rt.Register(3)
		for i := 1; i <= sc.N; i++ {
			guard("Publish", func() { ps.Publish("t", message.NewMessage(fmt.Sprintf("msg-%d", i), []byte{byte(i)})) })
		}
	}()

	select {
	case <-stopReading:
	case <-time.After(3 * time.Second):
		sc.Hung = append(sc.Hung, "consumer did not receive the first messages")
	}
	// let the pumps take what they can (a pump parks in  out <- msg  when nobody reads)
	gcQuiesce(rt, 40*time.Millisecond)
	if sc.Drain {
		close(resume)
	}

	closeDone := make(chan struct{})
	closeStarted := false
	doClose := func() {
		if closeStarted {
			return
		}
		closeStarted = true
		if sc.Closers < 1 {
			sc.Closers = 1
		}
		var wg sync.WaitGroup
		for c := 0; c < sc.Closers; c++ {
			wg.Add(1)
			go func(c int) {
				defer wg.Done()
				rt.Register(4 + c)
				rt.Stamp("api.close.call", fmt.Sprint(c))
				guard("Close", func() { sub.Close() })
				rt.Stamp("api.close.ret", fmt.Sprint(c))
			}(c)
		}
		go func() { wg.Wait(); close(closeDone) }()
	}
	T := 2 * time.Second
	switch sc.Action {
	case "close":
		doClose()
	case "cancel", "cancel+close":
		rt.Stamp("api.cancel")
		cancel()
	}
	// every decorated channel must get closed without anybody reading it
	if !decoWaitCount(rt, "decorator.pump.closing_out", sc.Layers, T) {
		sc.Hung = append(sc.Hung, fmt.Sprintf("decorated output channel not closed %v after %s although the subscription ended (unread channel)", T, sc.Action))
	}
	if sc.Action == "cancel+close" {
		doClose()
	}
	if sc.Action != "cancel" {
		select {
		case <-closeDone:
		case <-time.After(T):
			sc.Hung = append(sc.Hung, "decorated Close did not return")
		}
	}
	if sc.Drain {
		select {
		case <-chanClosed:
		case <-time.After(T):
			sc.Hung = append(sc.Hung, "reading consumer never saw the decorated channel closed")
		}
	}
	sc.OutClosedSeen = decoCount(rt, "decorator.pump.closing_out")
	rt.Stamp("api.verdict")
	// clean up whatever is still parked so that the next scenario starts clean
	if !sc.Drain {
		close(resume)
	}
	cancel()
	if sc.Action == "cancel" {
		doClose()
	}
	select {
	case <-closeDone:
	case <-time.After(3 * time.Second):
	}
	select {
	case <-consumerDone:
	case <-time.After(time.Second):
	}
	leaked := 0
	for try := 0; try < 40; try++ {
		leaked = decoLeaked()
		if leaked == 0 {
			break
		}
		time.Sleep(25 * time.Millisecond)
	}
	mu.Lock()
	sc.Panics = append(sc.Panics, panics...)
	sc.Received = received
	sc.Transformed = transformed
	mu.Unlock()
	sc.Leaked = leaked
	sc.Events = rt.Log()
}

func msg_no(uuid string) int {
	n := 0
	fmt.Sscanf(uuid, "msg-%d", &n)
	return n
}

func cmdC07Deco(args []string) error {
	fs, out, seed := newFlags("c07deco")
	ncases := fs.Int("cases", 24, "random scenarios (after the fixed matrix)")
	fs.Parse(args)
	rng := rand.New(rand.NewSource(*seed))
	rt := hookrt.Install(*seed)
	defer hookrt.Uninstall()
	var all []*decoScenario
	id := 0
	// fixed matrix: the unread-channel cases first
	for _, layers := range []int{1, 2} {
		for _, action := range []string{"close", "cancel", "cancel+close"} {
			for _, drain := range []bool{false, true} {
				id++
				sc := &decoScenario{ID: id, Layers: layers, Buffer: 0, N: 3, Read: 1, Action: action, Drain: drain, Closers: 1 + id%3}
				decoRun(rt, sc, rng)
				all = append(all, sc)
			}
		}
	}
	for i := 0; i < *ncases; i++ {
		id++
		sc := &decoScenario{ID: id, Layers: 1 + rng.Intn(2), Buffer: []int{0, 0, 1, 3}[rng.Intn(4)], N: 1 + rng.Intn(5)}
		sc.Read = rng.Intn(sc.N + 1)
		sc.Action = []string{"close", "cancel", "cancel+close"}[rng.Intn(3)]
		sc.Drain = rng.Intn(2) == 0
		sc.Closers = 1 + rng.Intn(3)
		sc.Settle = rng.Intn(3)
		if sc.Settle == 1 {
			sc.Settle = 0
		}
		decoRun(rt, sc, rng)
		all = append(all, sc)
	}
	return writeJSON(*out, all)
}

func init() { register("c07deco", cmdC07Deco) }
