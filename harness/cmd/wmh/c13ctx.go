//go:build verif

package main

import (
	"context"
	"errors"
	"fmt"
	"sync"
	"time"

	"github.com/ThreeDotsLabs/watermill"
	"github.com/ThreeDotsLabs/watermill/message"
	"github.com/ThreeDotsLabs/watermill/message/router/middleware"

	"wmverif/script"
)

// C13: where the context values the poison queue writes come from (router_context.go readers,
// Router.addHandlerContext).  A message is consumed by handler B either fresh from the
// subscriber or as the very object handler A produced earlier (re-emitted without a new
// context); B fails, the poison queue stamps and publishes it.  Observed: the five context
// values inside B's handler and the published metadata.

type c13xCase struct {
	ID      string   `json:"id"`
	Via     bool     `json:"via"`
	A       [5]int   `json:"a"` // name, publisher name, subscriber name, subscribe topic, publish topic
	B       [5]int   `json:"b"`
	Seen    [5]int   `json:"seen"`
	Reason  int      `json:"reason"`
	Before  c13Snap  `json:"before"`
	Pub     *c13Snap `json:"pub"`
	Final   int      `json:"final"`
	Desc    map[string]interface{} `json:"desc"`
}

func cmdC13Ctx(args []string) error {
	fs, out, _ := newFlags("c13ctx")
	fs.Parse(args)
	in := script.NewInterner()
	for _, s := range []string{"reason_poisoned", "topic_poisoned", "handler_poisoned", "subscriber_poisoned", "cannot publish message to poison queue"} {
		in.ID(s)
	}
	g13 := &c13Group{in: in}
	var all []*c13xCase
	n := 0
	for _, via := range []bool{false, true} {
		for _, subA := range []string{"SubA", ""} {
			for _, subB := range []string{"SubB", ""} {
				for _, bKind := range []int{0, 1} { // 0 AddNoPublisherHandler, 1 AddHandler with a named publisher
					n++
					c := &c13xCase{ID: fmt.Sprintf("x%d", n), Via: via}
					var mu sync.Mutex
					var produced *message.Message
					ppub := &script.Publisher{OnPublish: func(call int, topic string, msgs []*message.Message) error {
						mu.Lock()
						if len(msgs) == 1 {
							s := g13.snap(msgs[0])
							c.Pub = &s
						}
						mu.Unlock()
						return nil
					}}
					pq, err := middleware.PoisonQueue(ppub, "poison")
					if err != nil {
						return err
					}
					r, err := message.NewRouter(message.RouterConfig{CloseTimeout: 60 * time.Second}, watermill.NopLogger{})
					if err != nil {
						return err
					}
					r.AddMiddleware(pq)
					sA, sB := script.NewSubscriber(true), script.NewSubscriber(true)
					pubA := &script.Publisher{Name: "PubA", OnPublish: func(call int, topic string, msgs []*message.Message) error {
						mu.Lock()
						produced = msgs[0]
						mu.Unlock()
						return nil
					}}
					r.AddHandler("hA", "inA", c13NamedSub{sA, subA}, "outA", pubA, func(msg *message.Message) ([]*message.Message, error) {
						x := message.NewMessage(c.ID, []byte("made by hA"))
						x.Metadata.Set("k", "v")
						return []*message.Message{x}, nil
					})
					c.A = [5]int{in.ID("hA"), in.ID("PubA"), in.ID(subA), in.ID("inA"), in.ID("outA")}
					boom := errors.New("boom " + c.ID)
					hB := func(msg *message.Message) error {
						ctx := msg.Context()
						mu.Lock()
						c.Seen = [5]int{in.ID(message.HandlerNameFromCtx(ctx)), in.ID(message.PublisherNameFromCtx(ctx)), in.ID(message.SubscriberNameFromCtx(ctx)),
							in.ID(message.SubscribeTopicFromCtx(ctx)), in.ID(message.PublishTopicFromCtx(ctx))}
						c.Before = g13.snap(msg)
						mu.Unlock()
						return boom
					}
					if bKind == 0 {
						r.AddNoPublisherHandler("hB", "inB", c13NamedSub{sB, subB}, hB)
						c.B = [5]int{in.ID("hB"), in.ID("message.disabledPublisher"), in.ID(subB), in.ID("inB"), 0}
					} else {
						r.AddHandler("hB", "inB", c13NamedSub{sB, subB}, "outB", &script.Publisher{Name: "PubB"}, func(msg *message.Message) ([]*message.Message, error) { return nil, hB(msg) })
						c.B = [5]int{in.ID("hB"), in.ID("PubB"), in.ID(subB), in.ID("inB"), in.ID("outB")}
					}
					c.Reason = in.ID(boom.Error())
					ctx, cancel := context.WithCancel(context.Background())
					runErr := make(chan error, 1)
					go func() { runErr <- r.Run(ctx) }()
					select {
					case <-r.Running():
					case <-time.After(60 * time.Second):
						cancel()
						return errors.New("router did not start")
					}
					var x *message.Message
					if via {
						trig := message.NewMessage("trigger-"+c.ID, nil)
						if sA.Emit("inA", trig, 30*time.Second) {
							script.WaitSettled(trig, 30*time.Second)
						}
						mu.Lock()
						x = produced
						mu.Unlock()
					} else {
						x = message.NewMessage(c.ID, []byte("fresh"))
						x.Metadata.Set("k", "v")
					}
					if x != nil && sB.Emit("inB", x, 30*time.Second) {
						c.Final = script.WaitSettled(x, 30*time.Second)
					}
					c.Desc = map[string]interface{}{"message": map[bool]string{false: "fresh from the subscriber", true: "the object handler hA produced, re-emitted"}[via],
						"subscriber_name_A": subA, "subscriber_name_B": subB, "handler_B": []string{"AddNoPublisherHandler", "AddHandler with publisher PubB"}[bKind]}
					r.Close()
					cancel()
					select {
					case <-runErr:
					case <-time.After(60 * time.Second):
					}
					all = append(all, c)
				}
			}
		}
	}
	return writeJSON(*out, map[string]interface{}{"cases": all, "strings": in.Tab})
}

func init() { register("c13ctx", cmdC13Ctx) }
