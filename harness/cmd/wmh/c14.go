//go:build verif

package main

// C14 — Deduplicator.  Three scenario families, all driving the real
// message/router/middleware/deduplicator.go:
//   c14conc : 1..32 goroutines race messages (middleware calls and decorator batches) through
//             ONE Deduplicator value backed by the real map repository; "race" cases use a
//             window nothing can outlive, "expiry" cases a short real window with the real
//             clean-up goroutine; the stamped hook log (with monotonic clock readings) and
//             every call's outcome are written out.
//   c14hash : the three built-in hashers on generated payload pairs / metadata, together with
//             an oracle table of the stdlib digest of EVERY prefix of each payload.
//   c14seq  : the glue: scripted KeyFactory / Repository (errors, timeouts), nil defaults.

import (
	"context"
	"crypto/sha256"
	"errors"
	"fmt"
	"hash/adler32"
	"math"
	"math/rand"
	"strings"
	"sync"
	"time"

	"github.com/ThreeDotsLabs/watermill/message"
	"github.com/ThreeDotsLabs/watermill/message/router/middleware"

	"wmverif/c14rt"
	"wmverif/script"
)

func init() {
	register("c14conc", runC14Conc)
	register("c14hash", runC14Hash)
	register("c14seq", runC14Seq)
}

// ---------------------------------------------------------------- shared

type c14Msg struct {
	ID   int `json:"id"`
	Key  int `json:"key"`  // interned key, -1 if the hasher fails
	Err  int `json:"err"`  // interned error text, 0 if none
	HRet int `json:"hret"` // handler script: 0 (nil,nil) 1 ([1 msg],nil) 2 (nil,err) 3 ([2 msgs],err)
	msg  *message.Message
}

type c14Op struct {
	Kind      string   `json:"kind"` // mw | dec | sleep
	Msgs      []c14Msg `json:"msgs,omitempty"`
	SleepNs   int64    `json:"sleep_ns,omitempty"`
	InnerErr  bool     `json:"inner_err,omitempty"` // script of the inner publisher for this op
	Start     int64    `json:"start"`
	End       int64    `json:"end"`
	Handler   []int    `json:"handler"`     // message ids the handler was invoked with
	Ret       string   `json:"ret"`         // mw: dropped | pass | err | other ; dec: inner | err | other
	RetErr    int      `json:"ret_err"`     // interned error text for Ret == err
	Settle    []int    `json:"settle"`      // per message after the call: 0 none 1 acked 2 nacked
	Inner     [][]int  `json:"inner"`       // calls of the inner publisher made by this op
	InnerSame bool     `json:"inner_topic"` // topic passed through
}

type c14Thread struct {
	Tid int     `json:"tid"`
	Ops []c14Op `json:"ops"`
}

type c14Case struct {
	Mode     string        `json:"mode"`
	Hasher   string        `json:"hasher"`
	Limit    int64         `json:"limit"`
	WNs      int64         `json:"w_ns"`
	T0Ns     int64         `json:"t0_ns"`
	Threads  []c14Thread   `json:"threads"`
	Log      []c14rt.Event `json:"log"`
	NKeys    int           `json:"nkeys"`
	Drained  bool          `json:"drained"`
	DrainMs  int64         `json:"drain_ms"`
	LenEnd   int           `json:"len_end"`
	Seed     int64         `json:"seed"`
	Panicked string        `json:"panicked,omitempty"`
	Forced   string        `json:"forced,omitempty"` // forced overlap "second lookup of a key while the first caller is between its lookup and its insert": achieved | infeasible | unused
}

func c14Hasher(kind string, limit int64) middleware.MessageHasher {
	switch kind {
	case "adler":
		return middleware.NewMessageHasherAdler32(limit)
	case "sha":
		return middleware.NewMessageHasherSHA256(limit)
	default:
		return middleware.NewMessageHasherFromMetadataField("dedup")
	}
}

func c14EffLimit(limit int64) int {
	if limit < 64 {
		return 64
	}
	if limit > 1<<20 {
		return 1 << 20
	}
	return int(limit)
}

var c14Limits = []int64{math.MinInt64, -1, 0, 1, 63, 64, 65, 66, 80, 100, 127, 128, 129, math.MaxInt64}

// ---------------------------------------------------------------- c14conc

type c14World struct {
	rt     *c14rt.RT
	mu     sync.Mutex
	byMsg  map[*message.Message]*c14Msg
	herr   error
	calls  map[int][]int   // tid -> handler invocations (message ids) of the current op
	inner  map[int][][]int // tid -> inner publisher calls of the current op
	topics map[int]bool
	ierr   map[int]bool // tid -> inner publisher fails for the current op
	hres   map[int]c14HRes
}

type c14HRes struct {
	out []*message.Message
	err error
}

var c14InnerErr = errors.New("inner publisher refuses")

func (w *c14World) handler(msg *message.Message) ([]*message.Message, error) {
	tid := w.rt.TidOfCaller()
	w.mu.Lock()
	cm := w.byMsg[msg]
	id := -1
	hret := 0
	if cm != nil {
		id = cm.ID
		hret = cm.HRet
	}
	w.calls[tid] = append(w.calls[tid], id)
	var r c14HRes
	switch hret {
	case 1:
		r.out = []*message.Message{message.NewMessage("out", []byte("o"))}
	case 2:
		r.err = w.herr
	case 3:
		r.out = []*message.Message{message.NewMessage("out1", []byte("o")), message.NewMessage("out2", nil)}
		r.err = w.herr
	}
	w.hres[tid] = r
	w.mu.Unlock()
	return r.out, r.err
}

type c14Inner struct{ w *c14World }

func (p c14Inner) Publish(topic string, msgs ...*message.Message) error {
	w := p.w
	tid := w.rt.TidOfCaller()
	w.mu.Lock()
	ids := []int{}
	for _, m := range msgs {
		if cm := w.byMsg[m]; cm != nil {
			ids = append(ids, cm.ID)
		} else {
			ids = append(ids, -1)
		}
	}
	w.inner[tid] = append(w.inner[tid], ids)
	w.topics[tid] = topic == "c14-topic"
	fail := w.ierr[tid]
	w.mu.Unlock()
	if fail {
		return c14InnerErr
	}
	return nil
}
func (p c14Inner) Close() error { return nil }

// how long the map is given to empty itself after the last call (windows are <= 100 ms)
var c14DrainWait = 15 * time.Second

func runC14Conc(args []string) error {
	fs, out, seed := newFlags("c14conc")
	nrace := fs.Int("race", 40, "race cases")
	nexp := fs.Int("expiry", 8, "expiry cases")
	nsteady := fs.Int("steady", 3, "steady-stream cases")
	maxG := fs.Int("maxg", 32, "max goroutines")
	fs.Parse(args)
	rng := rand.New(rand.NewSource(*seed))
	rt := c14rt.Install(*seed)
	defer c14rt.Uninstall()
	cases := []c14Case{}
	for i := 0; i < *nrace+*nexp+*nsteady; i++ {
		mode := "race"
		if i >= *nrace+*nexp {
			mode = "steady"
		} else if i >= *nrace {
			mode = "expiry"
		}
		cases = append(cases, c14RunConc(rt, rng, mode, *maxG, *seed*100000+int64(i)))
	}
	return writeJSON(*out, cases)
}

func c14RunConc(rt *c14rt.RT, rng *rand.Rand, mode string, maxG int, cseed int64) (res c14Case) {
	in := script.NewInterner()
	hk := []string{"adler", "sha", "meta"}[rng.Intn(3)]
	limit := c14Limits[rng.Intn(len(c14Limits))]
	eff := c14EffLimit(limit)
	if eff > 200 {
		eff = 200 // the generated payloads are shorter than that: everything is hashed
	}
	w := time.Hour
	if mode != "race" {
		w = time.Duration(40+20*rng.Intn(4)) * time.Millisecond
	}
	res = c14Case{Mode: mode, Hasher: hk, Limit: limit, WNs: int64(w), Seed: cseed}
	hasher := c14Hasher(hk, limit)
	// key material: nk bases; a message of base b is the base prefix (>= the effective limit
	// for half of the bases, so that tails are ignored) plus a random tail
	nk := 1 + rng.Intn(4)
	if mode == "steady" {
		nk = 1 + rng.Intn(3)
	}
	bases := make([][]byte, nk)
	for b := range bases {
		l := eff
		if rng.Intn(2) == 0 {
			l = rng.Intn(eff + 1)
		}
		bases[b] = make([]byte, l)
		rng.Read(bases[b])
	}
	nextID := 1
	world := &c14World{rt: rt, byMsg: map[*message.Message]*c14Msg{}, herr: errors.New("handler fails"),
		calls: map[int][]int{}, inner: map[int][][]int{}, topics: map[int]bool{}, ierr: map[int]bool{}, hres: map[int]c14HRes{}}
	newMsgOf := func(b int) c14Msg {
		p := append([]byte(nil), bases[b]...)
		if len(p) >= eff && rng.Intn(2) == 0 {
			tail := make([]byte, 1+rng.Intn(5))
			rng.Read(tail)
			p = append(p, tail...)
		}
		m := message.NewMessage(fmt.Sprintf("m%d", nextID), p)
		if hk == "meta" {
			switch r := rng.Intn(10); {
			case mode == "steady":
				m.Metadata.Set("dedup", fmt.Sprintf("v%d", b))
			case r == 0: // field absent: the hasher fails
			case r == 1:
				m.Metadata.Set("dedup", "")
			default:
				m.Metadata.Set("dedup", fmt.Sprintf("v%d", b))
			}
		}
		cm := c14Msg{ID: nextID, HRet: rng.Intn(4), msg: m, Key: -1}
		nextID++
		k, err := hasher(m)
		if err != nil {
			cm.Err = in.ID(err.Error())
		} else {
			cm.Key = in.ID("k:" + k)
		}
		return cm
	}
	newMsg := func() c14Msg { return newMsgOf(rng.Intn(nk)) }
	G := 1 + rng.Intn(maxG)
	if mode == "steady" {
		G = 1 + rng.Intn(3)
	}
	if mode == "expiry" && G > 8 {
		G = 1 + rng.Intn(8)
	}
	threads := make([]c14Thread, G)
	if mode == "steady" {
		// ONE small set of keys, each sent once at the start and then steadily, every w/8..w/4,
		// for 12 windows; no other key ever arrives and nobody calls Len() meanwhile
		for t := range threads {
			threads[t].Tid = t
			if t == 0 {
				for b := 0; b < nk; b++ {
					threads[0].Ops = append(threads[0].Ops, c14Op{Kind: "mw", Msgs: []c14Msg{newMsgOf(b)}})
				}
			} else {
				threads[t].Ops = append(threads[t].Ops, c14Op{Kind: "sleep", SleepNs: int64(w) / 4})
			}
			iv := int64(w) / int64(4+rng.Intn(5))
			for spent := int64(0); spent < 12*int64(w); spent += iv {
				threads[t].Ops = append(threads[t].Ops, c14Op{Kind: "sleep", SleepNs: iv})
				if rng.Intn(3) == 0 {
					threads[t].Ops = append(threads[t].Ops, c14Op{Kind: "dec", Msgs: []c14Msg{newMsg()}})
				} else {
					threads[t].Ops = append(threads[t].Ops, c14Op{Kind: "mw", Msgs: []c14Msg{newMsg()}})
				}
			}
		}
	}
	for t := range threads {
		if mode == "steady" {
			break
		}
		threads[t].Tid = t
		nops := 1 + rng.Intn(3)
		for o := 0; o < nops; o++ {
			if mode == "expiry" && rng.Intn(2) == 0 {
				fr := []float64{0.1, 0.3, 0.6, 1.1, 1.6, 2.2}[rng.Intn(6)]
				threads[t].Ops = append(threads[t].Ops, c14Op{Kind: "sleep", SleepNs: int64(fr * float64(w))})
			}
			if rng.Intn(3) == 0 {
				op := c14Op{Kind: "dec", InnerErr: rng.Intn(5) == 0}
				for n := rng.Intn(5); n > 0; n-- {
					if len(op.Msgs) > 0 && rng.Intn(6) == 0 {
						op.Msgs = append(op.Msgs, op.Msgs[rng.Intn(len(op.Msgs))]) // the same object twice
					} else {
						op.Msgs = append(op.Msgs, newMsg())
					}
				}
				threads[t].Ops = append(threads[t].Ops, op)
			} else {
				threads[t].Ops = append(threads[t].Ops, c14Op{Kind: "mw", Msgs: []c14Msg{newMsg()}})
			}
		}
	}
	if mode == "expiry" { // thread 0 probes every key again at the very end, after the drain
		threads[0].Ops = append(threads[0].Ops, c14Op{Kind: "sleep", SleepNs: -1})
		for b := 0; b < nk; b++ {
			threads[0].Ops = append(threads[0].Ops, c14Op{Kind: "mw", Msgs: []c14Msg{newMsg()}})
		}
	}
	for t := range threads {
		for o := range threads[t].Ops {
			for i := range threads[t].Ops[o].Msgs {
				cm := &threads[t].Ops[o].Msgs[i]
				world.byMsg[cm.msg] = cm
			}
		}
	}
	repo, err := middleware.NewMapExpiringKeyRepository(w)
	if err != nil {
		res.Panicked = "NewMapExpiringKeyRepository: " + err.Error()
		return
	}
	prob := 0.25 + 0.5*rng.Float64()
	rt.Begin(fmt.Sprintf("%p", repo), cseed, prob, time.Duration(20+rng.Intn(200))*time.Microsecond)
	if mode == "race" && rng.Intn(4) == 0 {
		rt.Park("dedup.isduplicate.lookup", 25*time.Millisecond)
	}
	res.T0Ns = rt.Now()
	d := &middleware.Deduplicator{KeyFactory: hasher, Repository: repo, Timeout: time.Second}
	h := d.Middleware(world.handler)
	pub, err := d.PublisherDecorator()(c14Inner{world})
	if err != nil {
		res.Panicked = "PublisherDecorator: " + err.Error()
		return
	}
	lenOf := repo.(interface{ Len() int })
	start := make(chan struct{})
	drained := make(chan struct{})
	var wg, pre sync.WaitGroup
	var pmu sync.Mutex
	pre.Add(len(threads))
	for t := range threads {
		wg.Add(1)
		go func(th *c14Thread) {
			defer wg.Done()
			defer func() {
				if r := recover(); r != nil {
					pmu.Lock()
					res.Panicked = fmt.Sprint(r)
					pmu.Unlock()
				}
			}()
			rt.Register(th.Tid)
			preDone := false
			defer func() {
				if !preDone {
					pre.Done()
				}
			}()
			<-start
			for o := range th.Ops {
				op := &th.Ops[o]
				switch op.Kind {
				case "sleep":
					if op.SleepNs < 0 {
						preDone = true
						pre.Done()
						<-drained
					} else {
						time.Sleep(time.Duration(op.SleepNs))
					}
				case "mw":
					cm := &op.Msgs[0]
					world.mu.Lock()
					world.calls[th.Tid] = nil
					world.mu.Unlock()
					op.Start = rt.Now()
					outs, err := h(cm.msg)
					op.End = rt.Now()
					world.mu.Lock()
					op.Handler = append([]int{}, world.calls[th.Tid]...)
					hr := world.hres[th.Tid]
					world.mu.Unlock()
					op.Settle = []int{script.Settlement(cm.msg)}
					switch {
					case len(op.Handler) > 0:
						same := err == hr.err && len(outs) == len(hr.out)
						for i := 0; same && i < len(outs); i++ {
							same = outs[i] == hr.out[i]
						}
						if same {
							op.Ret = "pass"
						} else {
							op.Ret = "other"
						}
					case outs == nil && err == nil:
						op.Ret = "dropped"
					case outs == nil && err != nil:
						op.Ret = "err"
						op.RetErr = in.ID(err.Error())
					default:
						op.Ret = "other"
					}
				case "dec":
					world.mu.Lock()
					world.inner[th.Tid] = nil
					world.ierr[th.Tid] = op.InnerErr
					world.topics[th.Tid] = true
					world.mu.Unlock()
					ms := make([]*message.Message, len(op.Msgs))
					for i := range op.Msgs {
						ms[i] = op.Msgs[i].msg
					}
					op.Start = rt.Now()
					err := pub.Publish("c14-topic", ms...)
					op.End = rt.Now()
					world.mu.Lock()
					op.Inner = append([][]int{}, world.inner[th.Tid]...)
					op.InnerSame = world.topics[th.Tid]
					world.mu.Unlock()
					for i := range op.Msgs {
						op.Settle = append(op.Settle, script.Settlement(op.Msgs[i].msg))
					}
					switch {
					case len(op.Inner) > 0 && ((op.InnerErr && err == c14InnerErr) || (!op.InnerErr && err == nil)):
						op.Ret = "inner"
					case len(op.Inner) == 0 && err != nil:
						op.Ret = "err"
						op.RetErr = in.ID(err.Error())
					default:
						op.Ret = "other"
					}
				}
			}
		}(&threads[t])
	}
	close(start)
	if mode == "expiry" {
		// everybody has finished (thread 0: reached its final probe): the clean-up must now
		// empty the map by itself; 15 s is two orders of magnitude more than the window
		pre.Wait()
		t0 := time.Now()
		for lenOf.Len() > 0 && time.Since(t0) < c14DrainWait {
			time.Sleep(time.Millisecond)
		}
		res.Drained = lenOf.Len() == 0
		res.DrainMs = int64(time.Since(t0) / time.Millisecond)
		close(drained)
	}
	wg.Wait()
	if mode != "race" {
		// liveness of the clean-up: after the last calls the map must empty itself again
		t0 := time.Now()
		for lenOf.Len() > 0 && time.Since(t0) < c14DrainWait {
			time.Sleep(time.Millisecond)
		}
		if lenOf.Len() > 0 {
			c14DrainWait = time.Second // fail fast: the verdict is in, later cases need not wait as long
		}
	}
	res.LenEnd = lenOf.Len()
	res.Forced = rt.ParkResult()
	res.Threads = threads
	res.Log = rt.Log()
	for i := range res.Log { // keys are raw digests: intern them (JSON would mangle the bytes)
		e := &res.Log[i]
		if (strings.HasPrefix(e.Point, "dedup.isduplicate.") || e.Point == "dedup.cleanout.removed") && len(e.Keys) > 0 {
			e.Keys[0] = fmt.Sprint(in.ID("k:" + e.Keys[0]))
		}
	}
	res.NKeys = len(in.Tab)
	rt.Begin("", 0, 0, 0) // stop stamping this repository (its clean-up goroutine lives on)
	return
}

// ---------------------------------------------------------------- c14hash

type c14HashCase struct {
	Kind   string  `json:"kind"` // adler | sha | meta
	Limit  int64   `json:"limit"`
	P1     []int   `json:"p1"`
	P2     []int   `json:"p2"`
	K1     []int   `json:"k1"` // key bytes returned by the real hasher
	K2     []int   `json:"k2"`
	E1     bool    `json:"e1"` // hasher returned an error
	E2     bool    `json:"e2"`
	Tab1   []c14TabEntry `json:"tab1"` // stdlib digests of prefixes of P1 (a superset of the plausible read lengths)
	Tab2   []c14TabEntry `json:"tab2"`
	Shape  string  `json:"shape"`
	// metadata hasher
	Field     int      `json:"field"`
	Meta      [][2]int `json:"meta"`
	UUID      int      `json:"uuid"`
	MKey      int      `json:"mkey"`      // interned key, -1 on error
	MErrNames bool     `json:"merr_names"` // the error text names the message uuid and the quoted field
	MKeyEmpty bool     `json:"mkey_empty"` // on error the returned key is ""
}

func c14Bytes(b []byte) []int {
	r := make([]int, len(b))
	for i, x := range b {
		r[i] = int(x)
	}
	return r
}

func c14Digest(kind string, b []byte) []byte {
	if kind == "adler" {
		h := adler32.New()
		h.Write(b)
		return h.Sum(nil)
	}
	s := sha256.Sum256(b)
	return s[:]
}

type c14TabEntry struct {
	N int   `json:"n"`
	D []int `json:"d"`
}

// the oracle table: digest of the first n bytes for every n anyone could plausibly have read
// (all of it, nothing, the minimum 64 +-1, the limit as given +-1, two random lengths)
func c14Table(kind string, p []byte, limit int64, rng *rand.Rand) []c14TabEntry {
	cand := map[int]bool{0: true, 1: true, len(p): true, len(p) - 1: true, 63: true, 64: true, 65: true,
		rng.Intn(len(p) + 1): true, rng.Intn(len(p) + 1): true}
	if limit > -2 && limit < 1<<20 {
		cand[int(limit)-1], cand[int(limit)], cand[int(limit)+1] = true, true, true
	}
	t := []c14TabEntry{}
	for n := 0; n <= len(p); n++ {
		if cand[n] {
			t = append(t, c14TabEntry{N: n, D: c14Bytes(c14Digest(kind, p[:n]))})
		}
	}
	return t
}

func runC14Hash(args []string) error {
	fs, out, seed := newFlags("c14hash")
	n := fs.Int("cases", 300, "cases")
	fs.Parse(args)
	rng := rand.New(rand.NewSource(*seed))
	cases := []c14HashCase{}
	for i := 0; i < *n; i++ {
		if i%6 == 5 {
			cases = append(cases, c14MetaCase(rng))
			continue
		}
		kind := []string{"adler", "sha"}[rng.Intn(2)]
		limit := c14Limits[rng.Intn(len(c14Limits))]
		eff := c14EffLimit(limit)
		if eff > 160 {
			eff = 160
		}
		var p1, p2 []byte
		shape := ""
		rb := func(n int) []byte { b := make([]byte, n); rng.Read(b); return b }
		switch rng.Intn(11) {
		case 0: // equal up to the limit, different tails
			shape = "same-prefix/different-tails"
			pre := rb(eff)
			p1 = append(append([]byte{}, pre...), rb(1+rng.Intn(6))...)
			p2 = append(append([]byte{}, pre...), rb(1+rng.Intn(6))...)
		case 1: // one is exactly the limit, the other longer
			shape = "limit/limit+k"
			pre := rb(eff)
			p1 = pre
			p2 = append(append([]byte{}, pre...), rb(1+rng.Intn(3))...)
		case 2: // differ in the last byte inside the limit
			shape = "differ-at-limit-1"
			p1 = rb(eff + rng.Intn(3))
			p2 = append([]byte{}, p1...)
			p2[eff-1] ^= byte(1 + rng.Intn(255))
		case 3: // differ in the first byte after the limit
			shape = "differ-at-limit"
			p1 = rb(eff + 1 + rng.Intn(3))
			p2 = append([]byte{}, p1...)
			p2[eff] ^= byte(1 + rng.Intn(255))
		case 4: // lengths limit-1 / limit (prefix of one another)
			shape = "limit-1/limit"
			p2 = rb(eff)
			p1 = p2[:eff-1]
		case 5: // differ somewhere inside
			shape = "differ-inside"
			p1 = rb(1 + rng.Intn(eff))
			p2 = append([]byte{}, p1...)
			p2[rng.Intn(len(p2))] ^= byte(1 + rng.Intn(255))
		case 6: // short and empty payloads
			shape = "short/empty"
			p1 = rb(rng.Intn(4))
			p2 = rb(rng.Intn(4))
		case 7: // adversarial: the other payload IS the raw digest of this one's prefix at the read limit
			shape = "digest-of-prefix-as-payload"
			p1 = rb(eff - 2 + rng.Intn(40))
			n := len(p1)
			if n > eff {
				n = eff
			}
			p2 = c14Digest(kind, p1[:n])
		case 8: // adversarial: the other payload is the raw digest of the whole payload / of a short one
			shape = "digest-of-whole-as-payload"
			if rng.Intn(2) == 0 {
				p1 = rb(33 + rng.Intn(eff))
			} else {
				p1 = rb(rng.Intn(40))
			}
			p2 = c14Digest(kind, p1)
		case 9: // adversarial: the other payload is the key the hasher under test itself returned
			shape = "own-key-as-payload"
			p1 = rb(5 + rng.Intn(eff+8))
			k, _ := c14Hasher(kind, limit)(message.NewMessage("u0", p1))
			p2 = []byte(k)
			if rng.Intn(3) == 0 { // and once more: the key of the key
				k2, _ := c14Hasher(kind, limit)(message.NewMessage("u0", p2))
				p1, p2 = p2, []byte(k2)
			}
		default: // identical contents, distinct messages; lengths around the boundary
			shape = "identical"
			p1 = rb(eff - 1 + rng.Intn(3))
			p2 = append([]byte{}, p1...)
		}
		hs := c14Hasher(kind, limit)
		c := c14HashCase{Kind: kind, Limit: limit, P1: c14Bytes(p1), P2: c14Bytes(p2), Shape: shape,
			Tab1: c14Table(kind, p1, limit, rng), Tab2: c14Table(kind, p2, limit, rng)}
		m1 := message.NewMessage("u1", p1)
		m2 := message.NewMessage("u2", p2)
		m1.Metadata.Set("x", "1") // metadata and uuid must not influence the key
		k1, e1 := hs(m1)
		k2, e2 := hs(m2)
		c.K1, c.E1 = c14Bytes([]byte(k1)), e1 != nil
		c.K2, c.E2 = c14Bytes([]byte(k2)), e2 != nil
		cases = append(cases, c)
	}
	return writeJSON(*out, cases)
}

func c14MetaCase(rng *rand.Rand) c14HashCase {
	in := script.NewInterner()
	names := []string{"", "dedup", "hash", "Dedup", "a b", "q\"uote"}
	field := names[rng.Intn(len(names))]
	uuid := fmt.Sprintf("uuid-%d", rng.Intn(1000))
	m := message.NewMessage(uuid, []byte("payload"))
	c := c14HashCase{Kind: "meta", Field: in.ID(field), UUID: in.ID(uuid), Shape: "meta"}
	for _, n := range names {
		if rng.Intn(3) == 0 || (n == field && rng.Intn(2) == 0) {
			v := []string{"", "v1", "v2", n}[rng.Intn(4)]
			m.Metadata.Set(n, v)
			c.Meta = append(c.Meta, [2]int{in.ID(n), in.ID(v)})
		}
	}
	if c.Meta == nil {
		c.Meta = [][2]int{}
	}
	k, err := middleware.NewMessageHasherFromMetadataField(field)(m)
	if err != nil {
		c.MKey = -1
		c.MErrNames = strings.Contains(err.Error(), "#"+uuid) && strings.Contains(err.Error(), fmt.Sprintf("%q", field))
		c.MKeyEmpty = k == ""
	} else {
		c.MKey = in.ID(k)
	}
	return c
}

// ---------------------------------------------------------------- c14seq

type c14SeqMsg struct {
	ID     int `json:"id"`
	Key    int `json:"key"`  // scripted KeyFactory: interned key, -1 = fails
	Err    int `json:"err"`  // interned error
	Answer int `json:"ans"`  // scripted repository, if asked for this message: 0 new 1 dup 2 fails
	AErr   int `json:"aerr"` // interned repository error
}

type c14SeqCase struct {
	Kind      string      `json:"kind"` // mw | dec | defaults-mw | defaults-dec | nil-publisher
	TimeoutNs int64       `json:"timeout_ns"`
	CtxDone   bool        `json:"ctx_done"` // the message's context is already cancelled
	Msgs      []c14SeqMsg `json:"msgs"`
	HRet      int         `json:"hret"`
	InnerErr  bool        `json:"inner_err"`
	// observed
	RepoKeys  []int   `json:"repo_keys"`
	Handler   []int   `json:"handler"`
	Ret       string  `json:"ret"`
	RetErr    int     `json:"ret_err"`
	Settle    []int   `json:"settle"`
	Inner     [][]int `json:"inner"`
	DeadlineLo bool   `json:"deadline_lo"` // every repository call: deadline >= call start + effective timeout
	DeadlineHi bool   `json:"deadline_hi"` // deadline <= now + effective timeout at the time of the repository call
	CtxSeen   bool    `json:"ctx_seen"`    // the repository saw a cancelled context iff the message's was
	Detail    string  `json:"detail,omitempty"`
	// raw numbers for the Coq comparators (Glue.eff_timeout, Glue.window_ok)
	RepoCalls   int   `json:"repo_calls"`
	HasDeadline bool  `json:"has_deadline"`
	DlLoNs      int64 `json:"dl_lo_ns"`  // min over repository calls of deadline - (clock before the call into the middleware/decorator)
	DlHiNs      int64 `json:"dl_hi_ns"`  // max of deadline - (clock read inside the repository call)
	WindowNs    int64 `json:"window_ns"` // kind == window
	WindowErr   bool  `json:"window_err"`
}

type c14Repo struct {
	mu      sync.Mutex
	answers map[string]c14SeqMsg
	keys    []string
	in      *script.Interner
	t0      time.Time
	eff     time.Duration
	lo, hi  bool
	calls   int
	hasDl   bool
	dlLo    int64
	dlHi    int64
	ctxDone bool
	ctxOK   bool
}

func (r *c14Repo) IsDuplicate(ctx context.Context, key string) (bool, error) {
	now := time.Now()
	r.mu.Lock()
	defer r.mu.Unlock()
	r.keys = append(r.keys, key)
	dl, ok := ctx.Deadline()
	r.calls++
	if ok {
		lo, hi := int64(dl.Sub(r.t0)), int64(dl.Sub(now))
		if !r.hasDl || lo < r.dlLo {
			r.dlLo = lo
		}
		if !r.hasDl || hi > r.dlHi {
			r.dlHi = hi
		}
		r.hasDl = true
	} else {
		r.hasDl, r.calls = false, -1000000 // a call without deadline poisons the case
	}
	if !ok {
		r.lo, r.hi = false, false
	} else {
		if dl.Before(r.t0.Add(r.eff)) {
			r.lo = false
		}
		if dl.After(now.Add(r.eff)) {
			r.hi = false
		}
	}
	if r.ctxDone != (ctx.Err() == context.Canceled) {
		r.ctxOK = false
	}
	a := r.answers[key]
	switch a.Answer {
	case 1:
		return true, nil
	case 2:
		return false, errors.New(r.in.Tab[a.AErr])
	}
	return false, nil
}

func runC14Seq(args []string) error {
	fs, out, seed := newFlags("c14seq")
	n := fs.Int("cases", 300, "cases")
	fs.Parse(args)
	rng := rand.New(rand.NewSource(*seed))
	cases := []c14SeqCase{}
	for i := 0; i < *n; i++ {
		switch {
		case i%25 == 24:
			cases = append(cases, c14DefaultsCase(rng, i))
		case i%25 == 12: // the window validation of NewMapExpiringKeyRepository
			cases = append(cases, c14DefaultsCase(rng, 75))
		default:
			cases = append(cases, c14SeqOne(rng))
		}
	}
	return writeJSON(*out, cases)
}

func c14SeqOne(rng *rand.Rand) c14SeqCase {
	in := script.NewInterner()
	c := c14SeqCase{Kind: []string{"mw", "dec", "dec"}[rng.Intn(3)], HRet: rng.Intn(4), InnerErr: rng.Intn(4) == 0, CtxDone: rng.Intn(5) == 0}
	c.TimeoutNs = []int64{-5, 0, 1, int64(time.Millisecond), 4999999, 5000000, 5000001, int64(50 * time.Millisecond), int64(time.Second), int64(time.Minute)}[rng.Intn(10)]
	eff := time.Duration(c.TimeoutNs)
	if eff < 5*time.Millisecond {
		eff = 5 * time.Millisecond
	}
	nm := 1
	if c.Kind == "dec" {
		nm = rng.Intn(6)
	}
	repo := &c14Repo{answers: map[string]c14SeqMsg{}, in: in, eff: eff, lo: true, hi: true, ctxDone: c.CtxDone, ctxOK: true}
	msgs := make([]*message.Message, nm)
	byMsg := map[*message.Message]int{}
	keyOf := map[*message.Message]c14SeqMsg{}
	for i := 0; i < nm; i++ {
		sm := c14SeqMsg{ID: i + 1}
		if rng.Intn(6) == 0 {
			sm.Key = -1
			sm.Err = in.ID(fmt.Sprintf("hasher fails on %d", i+1))
		} else {
			// distinct keys per message so that the scripted answer is per message
			sm.Key = in.ID(fmt.Sprintf("key-%d", i+1))
			switch r := rng.Intn(8); {
			case r < 3:
				sm.Answer = 1
			case r == 3:
				sm.Answer = 2
				sm.AErr = in.ID(fmt.Sprintf("repository fails on %d", i+1))
			}
			repo.answers[in.Tab[sm.Key]] = sm
		}
		c.Msgs = append(c.Msgs, sm)
		msgs[i] = message.NewMessage(fmt.Sprintf("u%d", i+1), []byte("p"))
		if c.CtxDone {
			ctx, cancel := context.WithCancel(context.Background())
			cancel()
			msgs[i].SetContext(ctx)
		}
		byMsg[msgs[i]] = i + 1
		keyOf[msgs[i]] = sm
	}
	if c.Msgs == nil {
		c.Msgs = []c14SeqMsg{}
	}
	d := &middleware.Deduplicator{
		KeyFactory: func(m *message.Message) (string, error) {
			sm := keyOf[m]
			if sm.Key < 0 {
				return "", errors.New(in.Tab[sm.Err])
			}
			return in.Tab[sm.Key], nil
		},
		Repository: repo,
		Timeout:    time.Duration(c.TimeoutNs),
	}
	herr := errors.New("handler fails")
	var hout []*message.Message
	var hreterr error
	handler := func(m *message.Message) ([]*message.Message, error) {
		c.Handler = append(c.Handler, byMsg[m])
		switch c.HRet {
		case 1:
			hout = []*message.Message{message.NewMessage("o", nil)}
		case 2:
			hreterr = herr
		case 3:
			hout = []*message.Message{message.NewMessage("o", nil), message.NewMessage("o2", nil)}
			hreterr = herr
		}
		return hout, hreterr
	}
	inner := &script.Publisher{}
	inner.OnPublish = func(int, string, []*message.Message) error {
		if c.InnerErr {
			return c14InnerErr
		}
		return nil
	}
	c.Handler = []int{}
	if c.Kind == "mw" {
		h := d.Middleware(handler)
		repo.t0 = time.Now()
		outs, err := h(msgs[0])
		switch {
		case len(c.Handler) > 0:
			same := err == hreterr && len(outs) == len(hout)
			for i := 0; same && i < len(outs); i++ {
				same = outs[i] == hout[i]
			}
			c.Ret = "other"
			if same {
				c.Ret = "pass"
			}
		case outs == nil && err == nil:
			c.Ret = "dropped"
		case outs == nil:
			c.Ret, c.RetErr = "err", in.ID(err.Error())
		default:
			c.Ret = "other"
		}
	} else {
		pub, err := d.PublisherDecorator()(inner)
		if err != nil {
			c.Ret, c.Detail = "other", "decorator: "+err.Error()
			return c
		}
		repo.t0 = time.Now()
		err = pub.Publish("c14-topic", msgs...)
		calls := inner.Snapshot()
		switch {
		case len(calls) > 0 && ((c.InnerErr && err == c14InnerErr) || (!c.InnerErr && err == nil)):
			c.Ret = "inner"
		case len(calls) == 0 && err != nil:
			c.Ret, c.RetErr = "err", in.ID(err.Error())
		default:
			c.Ret = "other"
		}
		for _, call := range calls {
			ids := []int{}
			for _, m := range call.Msgs {
				ids = append(ids, byMsg[m])
			}
			c.Inner = append(c.Inner, ids)
			if call.Topic != "c14-topic" {
				c.Detail = "topic changed"
			}
		}
	}
	if c.Inner == nil {
		c.Inner = [][]int{}
	}
	for _, m := range msgs {
		c.Settle = append(c.Settle, script.Settlement(m))
	}
	if c.Settle == nil {
		c.Settle = []int{}
	}
	c.RepoKeys = []int{}
	for _, k := range repo.keys {
		c.RepoKeys = append(c.RepoKeys, in.ID(k))
	}
	c.DeadlineLo, c.DeadlineHi, c.CtxSeen = repo.lo, repo.hi, repo.ctxOK
	c.RepoCalls, c.HasDeadline, c.DlLoNs, c.DlHiNs = repo.calls, repo.hasDl, repo.dlLo, repo.dlHi
	return c
}

// nil fields / nil receiver / nil publisher: the documented defaults
func c14DefaultsCase(rng *rand.Rand, i int) c14SeqCase {
	c := c14SeqCase{Msgs: []c14SeqMsg{}, RepoKeys: []int{}, Handler: []int{}, Settle: []int{}, Inner: [][]int{}}
	long := make([]byte, 100+rng.Intn(100))
	rng.Read(long)
	other := append([]byte{}, long...)
	other[len(other)-1] ^= 0x55 // differs only in the last byte: the default hasher reads everything
	switch (i / 25) % 4 {
	case 3:
		c.Kind = "window"
		ws := []int64{math.MinInt64, -int64(time.Second), -1, 0, 1, 999999, 1000000, 1000001, int64(2 * time.Millisecond), int64(time.Minute)}
		c.WindowNs = ws[rng.Intn(len(ws))]
		_, err := middleware.NewMapExpiringKeyRepository(time.Duration(c.WindowNs))
		c.WindowErr = err != nil
	case 0:
		c.Kind = "defaults-mw"
		var d *middleware.Deduplicator
		if rng.Intn(2) == 0 {
			d = &middleware.Deduplicator{}
		}
		n := 0
		h := d.Middleware(func(m *message.Message) ([]*message.Message, error) { n++; return nil, nil })
		_, e1 := h(message.NewMessage("a", long))
		_, e2 := h(message.NewMessage("b", long))
		_, e3 := h(message.NewMessage("c", other))
		c.Ret = fmt.Sprintf("handled=%d errs=%v", n, e1 != nil || e2 != nil || e3 != nil)
		c.Detail = "handled=2 errs=false"
	case 1:
		c.Kind = "defaults-dec"
		inner := &script.Publisher{}
		var d *middleware.Deduplicator
		if rng.Intn(2) == 0 {
			d = &middleware.Deduplicator{}
		}
		pub, err := d.PublisherDecorator()(inner)
		if err != nil {
			c.Ret = "error " + err.Error()
		} else {
			a, b, x := message.NewMessage("a", long), message.NewMessage("b", long), message.NewMessage("c", other)
			e := pub.Publish("t", a, b, x)
			calls := inner.Snapshot()
			ok := len(calls) == 1 && len(calls[0].Msgs) == 2 && calls[0].Msgs[0] == a && calls[0].Msgs[1] == x
			c.Ret = fmt.Sprintf("ok=%v err=%v settle=%d%d%d", ok, e != nil, script.Settlement(a), script.Settlement(b), script.Settlement(x))
		}
		c.Detail = "ok=true err=false settle=010"
	default:
		c.Kind = "nil-publisher"
		d := &middleware.Deduplicator{}
		pub, err := d.PublisherDecorator()(nil)
		c.Ret = fmt.Sprintf("pub-nil=%v err=%v", pub == nil, err != nil)
		c.Detail = "pub-nil=true err=true"
	}
	return c
}
