//go:build verif

package main

// C16, round "seeds 3": Unmarshal into a target that is REUSED for consecutive messages (or was
// pre-filled), and on payloads that are not the output of Marshal.  For every step the harness
// records what the target held before, what the library calls the marshaler is documented to make
// return when applied to an independent copy of that target (and to a fresh one), and what the
// real Unmarshal left in the target.

import (
	"fmt"
	"strings"

	"github.com/ThreeDotsLabs/watermill/components/cqrs"
	"github.com/ThreeDotsLabs/watermill/message"

	"wmverif/c16types"
)

type tgStep struct {
	What     string          `json:"what"`
	V        *string         `json:"v"` // rendering of the value marshalled (null: the payload is not from Marshal)
	MarshalE string          `json:"marshal_err,omitempty"`
	Payload  *string         `json:"payload"`
	Prev     string          `json:"prev"`
	VInto    c16types.LibRes `json:"vinto"`
	VFresh   c16types.LibRes `json:"vfresh"`
	GInto    c16types.LibRes `json:"ginto"`
	GLeft    string          `json:"gleft"`
	GFresh   c16types.LibRes `json:"gfresh"`
	UnmE     string          `json:"unmarshal_err,omitempty"`
	Unm      string          `json:"unm"`
}

type tgCase struct {
	Kind   int      `json:"kind"`
	NoFB   bool     `json:"nofb"`
	IsMsg  bool     `json:"ismsg"`
	IsGogo bool     `json:"isgogo"`
	Desc   string   `json:"desc"`
	Steps  []tgStep `json:"steps"`
}

// the library calls behind one Unmarshal of the given marshaler kind, on target t
func libInto(kind int, payload []byte, t interface{}) (v, g c16types.LibRes, gleft string) {
	switch kind {
	case 0:
		return c16types.JSONDecInto(payload, t), c16types.LibRes{}, ""
	case 1:
		return c16types.StdDecInto(payload, t), c16types.LibRes{}, ""
	}
	g = c16types.GogoDecInto(payload, t) // the gogo attempt comes first, on the same target ...
	gleft = hx(c16types.Render(t))
	if g.Kind == "ok" {
		return c16types.LibRes{Kind: "na"}, g, gleft
	}
	return c16types.StdDecInto(payload, t), g, gleft // ... and the fallback works on what it left behind
}

func (g *gen) tgCases(n int) []tgCase {
	var out []tgCase
	for i := 0; i < n; i++ {
		kind := g.r.Intn(3)
		mk, desc := c16types.ReuseFamily(g.r, kind, g.str)
		c := tgCase{Kind: kind, Desc: desc}
		var m cqrs.CommandEventMarshaler
		switch kind {
		case 0:
			m = cqrs.JSONMarshaler{}
		case 1:
			m = cqrs.ProtoMarshaler{}
		default:
			c.NoFB = g.r.Intn(4) == 0
			m = cqrs.ProtobufMarshaler{DisableStdProtoFallback: c.NoFB}
		}
		first := mk()
		c.IsMsg, c.IsGogo = c16types.IsStdProto(first), c16types.IsGogoProto(first)
		var target interface{}
		switch g.r.Intn(3) {
		case 0:
			target = c16types.Fresh(first)
			g.count("reuse:target-starts-fresh")
		default:
			target = mk() // pre-filled (defaults / pooled value)
			g.count("reuse:target-starts-prefilled")
		}
		steps := 2 + g.r.Intn(2)
		for s := 0; s < steps; s++ {
			st := tgStep{Prev: hx(c16types.Render(target))}
			var payload []byte
			if g.r.Intn(6) == 0 { // not the output of Marshal
				v := mk()
				if msg, err := m.Marshal(v); err == nil {
					payload = msg.Payload
				}
				switch g.r.Intn(4) {
				case 0:
					payload = append(append([]byte{}, payload...), []byte(" x")...)
					st.What = "payload+trailing-garbage"
				case 1:
					payload = append(append([]byte{}, payload...), payload...)
					st.What = "payload-twice"
				case 2:
					if len(payload) > 0 {
						payload = payload[:len(payload)-1]
					}
					st.What = "payload-truncated"
				default:
					payload = []byte(g.str(true))
					st.What = "garbage"
				}
			} else {
				v := first
				if s > 0 || g.r.Intn(2) == 0 {
					v = mk()
				}
				st.What = "marshalled"
				st.V = &[]string{hx(c16types.Render(v))}[0]
				msg, err := m.Marshal(v)
				if err != nil {
					st.MarshalE = classifyCqErr(err)
					c.Steps = append(c.Steps, st)
					continue
				}
				payload = msg.Payload
			}
			g.count(fmt.Sprintf("reuse:%s:%s:%s", []string{"JSON", "Proto", "gogo"}[kind], strings.SplitN(desc, "(", 2)[0], st.What))
			st.Payload = hexp(payload)
			st.VInto, st.GInto, st.GLeft = libInto(kind, payload, c16types.Clone(target))
			st.VFresh, st.GFresh, _ = libInto(kind, payload, c16types.Fresh(first))
			if err := m.Unmarshal(message.NewMessage("t", payload), target); err != nil {
				st.UnmE = classifyCqErr(err)
				if st.UnmE == "ELib" {
					st.UnmE = "ELibUnmarshal"
				}
			}
			st.Unm = hx(c16types.Render(target)) // what the target holds now, error or not
			c.Steps = append(c.Steps, st)
		}
		out = append(out, c)
	}
	return out
}
