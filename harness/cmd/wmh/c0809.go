//go:build verif

package main

// C08 / C09 — Router wiring: random and exhaustive REGISTRATION PROGRAMS (AddHandler /
// AddNoPublisherHandler / Router.AddMiddleware / Handler.AddMiddleware / AddPublisherDecorators /
// AddSubscriberDecorators / Run / RunHandlers, interleaved with message deliveries) are executed on a
// REAL message.Router with scripted fan-out subscribers, scripted publishers, tagging middlewares
// and tagging decorators.  For every copy of every delivered message the harness records what acted
// on it, in order.  checks/c08.py and checks/c09.py turn programs + observations into Gallina terms.

import (
	"context"
	"errors"
	"fmt"
	"math/rand"
	"sort"
	"strconv"
	"strings"
	"sync"
	"sync/atomic"
	"time"

	"github.com/ThreeDotsLabs/watermill"
	"github.com/ThreeDotsLabs/watermill/message"

	"wmverif/hookrt"
	"wmverif/script"
)

// ---------------------------------------------------------------- program (plain data)

type wHandler struct {
	Name     string `json:"name"`
	Sub      int    `json:"sub"` // subscriber object index
	SubTopic string `json:"subtopic"`
	PubKind  int    `json:"pubkind"` // 0 real, 1 AddNoPublisherHandler, 2 nil publisher
	Pub      int    `json:"pub"`     // publisher object index (pubkind 0)
	PubTopic string `json:"pubtopic"`
	Fn       int    `json:"fn"` // identity of the handler function
}

type wDelivery struct {
	Sub     int    `json:"sub"`
	Topic   string `json:"topic"`
	OutKind int    `json:"outkind"` // 0 ret, 1 fail, 2 panic
	Outs    []int  `json:"outs"`    // 0 = the consumed object, k>0 = k-th fresh message
	Pb      int    `json:"pb"`      // 0 accept, 1 error, 2 panic
	Chain   int    `json:"chain"`   // >0: the message object is an output of an earlier delivery (carries router context keys)
	Ctx     []int  `json:"ctx"`     // router keys the message context carries on arrival (interned), filled by the harness
	UTag    int    `json:"utag"`    // user value in the arriving message's context (0 = none)
	UCancel bool   `json:"ucancel"` // the arriving message's context is cancelled
}

type wOp struct {
	K       string     `json:"k"` // addhandler addmw addhmw addpubdec addsubdec start deliver
	H       *wHandler  `json:"h,omitempty"`
	Name    string     `json:"name,omitempty"` // addhmw: handler name
	ID      int        `json:"id,omitempty"`   // middleware / decorator id
	App     bool       `json:"app,omitempty"`  // middleware appends message 100+id to a successful result
	D       *wDelivery `json:"d,omitempty"`
	Grp     int        `json:"grp,omitempty"`   // consecutive ops with the same non-zero grp are ONE variadic call / one concurrent batch
	Dup     bool       `json:"dup,omitempty"`   // addhandler: observed DuplicateHandlerNameError panic
	Fails   int        `json:"fails,omitempty"` // addpubdec/addsubdec: the constructor returns an error the first Fails times it is called
	Fail    bool       `json:"fail,omitempty"`  // start: the generator expects RunHandlers to return an error (a constructor still fails)
	Early   bool       `json:"early,omitempty"` // stop: the following ops marked Win run inside the teardown window (name free, Stopped() not closed yet)
	Win     bool       `json:"win,omitempty"`
	Lib     bool       `json:"lib,omitempty"`     // addpubdec/addsubdec: the decorator is the library's own MessageTransform{Publisher,Subscriber}Decorator with a recording transform
	Backlog bool       `json:"backlog,omitempty"` // deliver: the message is already waiting when the preceding start subscribes: new subscriptions get it INSIDE Subscribe
	Names   []string   `json:"names,omitempty"`   // startasync: the handlers whose goroutines are held before their copy of r.middlewares
}

type wCopy struct {
	Owner string          `json:"owner"` // name under which the invoked handler function was registered ("?" = none invoked)
	Trace [][]interface{} `json:"trace"`

	mu       sync.Mutex
	key      string
	msg      *message.Message
	orig     *message.Message
	produced map[int]*message.Message
	d        *wDelivery
}

type wProgram struct {
	Kind    string         `json:"kind"`
	SubTy   []string       `json:"subty"` // StructName of each subscriber object
	PubTy   []string       `json:"pubty"`
	Ops     []*wOp         `json:"ops"`
	Obs     [][]*wCopy     `json:"obs"` // per deliver op, in program order
	Anomaly []string       `json:"anomaly"`
	NameIDs map[string]int `json:"nameids"`
	Skipped bool           `json:"skipped"`
	Seq     bool           `json:"seq"`     // uses the hook runtime (forced teardown window): run alone
	Windows int            `json:"windows"` // forced windows in which the old teardown goroutine was really parked
	Snaps   int            `json:"snaps"`   // handler goroutines really held before their copy of r.middlewares until the snap op
	Plug    []int          `json:"plug"`    // plugins Run called, in order
	PlugRan bool           `json:"plugran"` // Run was called
	PlugOK  bool           `json:"plugok"`  // ... and no plugin returned an error
	Views   [][]string     `json:"views"`   // what each Handlers() call reported (sorted)
	SlowSub []bool         `json:"slowsub"` // subscriber objects whose String() takes a few milliseconds
}

func (c *wCopy) rec(ev ...interface{}) {
	c.mu.Lock()
	c.Trace = append(c.Trace, ev)
	c.mu.Unlock()
}

// ---------------------------------------------------------------- scripted fan-out subscriber

type fanSubscription struct {
	topic string
	ch    chan *message.Message
	done  chan struct{}
	once  sync.Once
}

func (s *fanSubscription) close() { s.once.Do(func() { close(s.done); close(s.ch) }) }

// fanSub hands every emitted message to EVERY subscription of its topic, one fresh copy each.
type fanSub struct {
	mu     sync.Mutex
	subs   []*fanSubscription
	closed bool
	onNew  func(topic string, sub *fanSubscription) // called inside Subscribe, before it returns (backlog)
}

func (s *fanSub) Subscribe(ctx context.Context, topic string) (<-chan *message.Message, error) {
	s.mu.Lock()
	defer s.mu.Unlock()
	if s.closed {
		return nil, errors.New("fanSub closed")
	}
	sub := &fanSubscription{topic: topic, ch: make(chan *message.Message), done: make(chan struct{})}
	s.subs = append(s.subs, sub)
	if s.onNew != nil {
		s.onNew(topic, sub)
	}
	go func() {
		select {
		case <-ctx.Done():
			sub.close()
		case <-sub.done:
		}
	}()
	return sub.ch, nil
}

func (s *fanSub) Close() error {
	s.mu.Lock()
	s.closed = true
	subs := append([]*fanSubscription(nil), s.subs...)
	s.mu.Unlock()
	for _, x := range subs {
		x.close()
	}
	return nil
}

func (s *fanSub) matching(topic string) []*fanSubscription {
	s.mu.Lock()
	defer s.mu.Unlock()
	var r []*fanSubscription
	for _, x := range s.subs {
		select {
		case <-x.done: // ended (handler stopped)
			continue
		default:
		}
		if x.topic == topic {
			r = append(r, x)
		}
	}
	return r
}

func (x *fanSubscription) send(m *message.Message, d time.Duration) (ok bool) {
	defer func() {
		if recover() != nil {
			ok = false
		}
	}()
	select {
	case x.ch <- m:
		return true
	case <-x.done:
		return false
	case <-time.After(d):
		return false
	}
}

// two subscriber Go types: one with a String method (free type name, possibly ""), one without
type namedFanSub struct {
	fanSub
	name string
	slow time.Duration
}

// String is what internal.StructName asks for; a subscriber may need a moment to say who it is
func (s *namedFanSub) String() string {
	if s.slow > 0 {
		time.Sleep(s.slow)
	}
	return s.name
}

type plainFanSub struct{ fanSub }

// publisher with a free type name (possibly ""): script.Publisher falls back to its Go name for ""
type namedPub struct {
	*script.Publisher
	name string
}

func (p *namedPub) String() string { return p.name }

// the "everything else" a message context carries: one user value and cancellation.
// Convention shared with the model (Router/Wiring.v own_ctx): produced message number m carries the
// user value m and is cancelled iff m is even.
type wUserKey struct{}

func wOwnCtx(m int) context.Context {
	ctx := context.WithValue(context.Background(), wUserKey{}, m)
	if m%2 == 0 {
		c, cancel := context.WithCancel(ctx)
		cancel()
		return c
	}
	return ctx
}

func wUser(ctx context.Context) (int, bool) {
	v, _ := ctx.Value(wUserKey{}).(int)
	return v, ctx.Err() != nil
}

var wBarrierTimeouts int32 // after a few timeouts the barrier is switched off (a changed router may never fill it)

// ---------------------------------------------------------------- the run of one program

type wRun struct {
	p      *wProgram
	mu     sync.Mutex
	byPtr  map[*message.Message]*wCopy
	byKey  map[string]*wCopy
	in     *script.Interner
	subs   []message.Subscriber
	fans   []*fanSub
	pubs   []*script.Publisher
	pubIfs []message.Publisher
	nCopy  int
	// barrier: handler functions of one concurrent batch wait for each other
	bmu     sync.Mutex
	inside  int
	want    int
	release chan struct{}
	outputs map[int][]*message.Message // delivery number -> messages its Publish call received (for chained deliveries)
	// backlog deliveries: copies handed to new subscriptions inside Subscribe
	blCopies map[*wDelivery][]*wCopy
	blSubs   map[*wDelivery]map[*fanSubscription]bool
	blWG     map[*wDelivery]*sync.WaitGroup
}

// how long the harness waits for the router before it calls a message "not taken" / "not settled":
// generous, because the machine may be heavily loaded; a router that really loses messages trips the
// fail-fast counter after a few of these
const wPatience = 20 * time.Second

var wAnomalies int32 // once the router misbehaves grossly the remaining programs are skipped (fail fast)

func (r *wRun) anomaly(f string, a ...interface{}) {
	atomic.AddInt32(&wAnomalies, 1)
	r.mu.Lock()
	r.p.Anomaly = append(r.p.Anomaly, fmt.Sprintf(f, a...))
	r.mu.Unlock()
}

func (r *wRun) copyOf(m *message.Message) *wCopy {
	r.mu.Lock()
	defer r.mu.Unlock()
	if c, ok := r.byPtr[m]; ok {
		return c
	}
	if i := strings.IndexByte(m.UUID, '#'); i >= 0 {
		return r.byKey[m.UUID[:i]]
	}
	return nil
}

func (r *wRun) ctx5(ctx context.Context) []int {
	return []int{
		r.in.ID(message.HandlerNameFromCtx(ctx)), r.in.ID(message.PublisherNameFromCtx(ctx)),
		r.in.ID(message.SubscriberNameFromCtx(ctx)), r.in.ID(message.SubscribeTopicFromCtx(ctx)),
		r.in.ID(message.PublishTopicFromCtx(ctx)),
	}
}

func (r *wRun) enterBarrier() {
	r.bmu.Lock()
	r.inside++
	if r.inside >= r.want && r.release != nil {
		select {
		case <-r.release:
		default:
			close(r.release)
		}
	}
	rel := r.release
	r.bmu.Unlock()
	if rel == nil {
		return
	}
	if atomic.LoadInt32(&wBarrierTimeouts) > 6 {
		return
	}
	select {
	case <-rel:
	case <-time.After(1500 * time.Millisecond):
		atomic.AddInt32(&wBarrierTimeouts, 1)
	}
}

// handler function #fn registered under name
func (r *wRun) handlerFunc(name string, fn int) message.HandlerFunc {
	return func(msg *message.Message) ([]*message.Message, error) {
		c := r.copyOf(msg)
		if c == nil {
			r.anomaly("handler function %d got an unknown message %s", fn, msg.UUID)
			return nil, errors.New("unknown message")
		}
		c.mu.Lock()
		if c.Owner == "?" {
			c.Owner = name
		}
		c.mu.Unlock()
		c.rec("fn", fn, r.ctx5(msg.Context()))
		r.enterBarrier()
		d := c.d
		var outs []*message.Message
		for _, o := range d.Outs {
			if o == 0 {
				outs = append(outs, msg)
				continue
			}
			m := message.NewMessage(fmt.Sprintf("%s#%d", c.key, o), []byte(fmt.Sprintf("out %d of %s", o, c.key)))
			m.Metadata.Set("k", strconv.Itoa(o))
			m.SetContext(wOwnCtx(o))
			c.mu.Lock()
			c.produced[o] = m.Copy()
			c.mu.Unlock()
			outs = append(outs, m)
		}
		switch d.OutKind {
		case 0:
			return outs, nil
		case 1:
			return outs, errors.New("scripted handler error")
		default:
			panic("scripted handler panic")
		}
	}
}

// tagging middleware: enter / exit marks on the consumed copy; optionally appends one message
func (r *wRun) middleware(id int, app bool) message.HandlerMiddleware {
	return func(h message.HandlerFunc) message.HandlerFunc {
		return func(msg *message.Message) ([]*message.Message, error) {
			c := r.copyOf(msg)
			if c != nil {
				c.rec("enter", id)
			}
			outs, err := h(msg)
			if c != nil {
				c.rec("exit", id)
			}
			if err == nil && app && c != nil {
				m := message.NewMessage(fmt.Sprintf("%s#%d", c.key, 100+id), []byte("appended by "+strconv.Itoa(id)))
				m.SetContext(wOwnCtx(100 + id))
				c.mu.Lock()
				c.produced[100+id] = m.Copy()
				c.mu.Unlock()
				outs = append(outs, m)
			}
			return outs, err
		}
	}
}

type tagPub struct {
	r     *wRun
	id    int
	inner message.Publisher
}

func (t *tagPub) Publish(topic string, msgs ...*message.Message) error {
	if len(msgs) > 0 {
		if c := t.r.copyOf(msgs[0]); c != nil {
			c.rec("pubdec", t.id, t.r.in.ID(topic), t.r.outIDs(c, msgs))
		} else {
			t.r.anomaly("publisher decorator %d saw an unknown message %s", t.id, msgs[0].UUID)
		}
	} else {
		t.r.anomaly("publisher decorator %d called with an empty batch", t.id)
	}
	return t.inner.Publish(topic, msgs...) // nil interface: panics, as any embedding decorator would
}

func (t *tagPub) Close() error {
	if t == nil || t.inner == nil {
		if t != nil {
			t.r.anomaly("publisher decorator %d: Close on a decorator around a nil publisher", t.id)
		}
		return nil
	}
	return t.inner.Close()
}

func (r *wRun) pubDecorator(id int, fails int, lib bool) message.PublisherDecorator {
	var calls int32
	// the library's transform decorator sees the batch message by message: one "pubdecmsg" mark per message
	// (folded into one batch mark by checks/wiring.py); the topic is the one the message's context names
	libDec := message.MessageTransformPublisherDecorator(func(m *message.Message) {
		if c := r.copyOf(m); c != nil {
			c.rec("pubdecmsg", id, r.in.ID(message.PublishTopicFromCtx(m.Context())), r.outIDs(c, []*message.Message{m})[0])
		} else {
			r.anomaly("publisher decorator %d saw an unknown message %s", id, m.UUID)
		}
	})
	return func(p message.Publisher) (message.Publisher, error) {
		if int(atomic.AddInt32(&calls, 1)) <= fails {
			return nil, fmt.Errorf("scripted failure of publisher decorator %d", id)
		}
		if lib {
			return libDec(p)
		}
		return &tagPub{r: r, id: id, inner: p}, nil
	}
}

type tagSub struct {
	r     *wRun
	id    int
	inner message.Subscriber
}

func (t *tagSub) Subscribe(ctx context.Context, topic string) (<-chan *message.Message, error) {
	in, err := t.inner.Subscribe(ctx, topic)
	if err != nil {
		return nil, err
	}
	out := make(chan *message.Message)
	go func() {
		defer close(out)
		for m := range in {
			if c := t.r.copyOf(m); c != nil {
				c.rec("sub", t.id, t.r.ctx5(m.Context()))
			}
			out <- m
		}
	}()
	return out, nil
}

func (t *tagSub) Close() error { return t.inner.Close() }

func (r *wRun) subDecorator(id int, fails int, lib bool) message.SubscriberDecorator {
	var calls int32
	libDec := message.MessageTransformSubscriberDecorator(func(m *message.Message) {
		if c := r.copyOf(m); c != nil {
			c.rec("sub", id, r.ctx5(m.Context()))
		}
	})
	return func(s message.Subscriber) (message.Subscriber, error) {
		if int(atomic.AddInt32(&calls, 1)) <= fails {
			return nil, fmt.Errorf("scripted failure of subscriber decorator %d", id)
		}
		if lib {
			return libDec(s)
		}
		return &tagSub{r: r, id: id, inner: s}, nil
	}
}

func wSame(a, b *message.Message) bool { return sameContent(a, b) }

// ids of a published batch relative to copy c: 0 consumed object, k fresh, +1000 content changed, 9000+ foreign
func (r *wRun) outIDs(c *wCopy, msgs []*message.Message) []int {
	ids := []int{}
	for _, m := range msgs {
		if m == c.msg {
			if wSame(m, c.orig) {
				ids = append(ids, 0)
			} else {
				ids = append(ids, 1000)
			}
			continue
		}
		id := 9000
		if i := strings.IndexByte(m.UUID, '#'); i >= 0 && m.UUID[:i] == c.key {
			id, _ = strconv.Atoi(m.UUID[i+1:])
			c.mu.Lock()
			orig := c.produced[id]
			c.mu.Unlock()
			if orig == nil || !wSame(orig, m) {
				id += 1000
			}
		}
		ids = append(ids, id)
	}
	return ids
}

func (r *wRun) onPublish(pubIdx int) func(int, string, []*message.Message) error {
	return func(call int, topic string, msgs []*message.Message) error {
		if len(msgs) == 0 {
			r.anomaly("publisher %d: Publish called with an empty batch", pubIdx)
			return nil
		}
		c := r.copyOf(msgs[0])
		if c == nil {
			r.anomaly("publisher %d got an unknown message %s", pubIdx, msgs[0].UUID)
			return nil
		}
		ids := r.outIDs(c, msgs)
		outs := make([]interface{}, 0, len(msgs))
		for i, m := range msgs {
			tag, cancelled := wUser(m.Context())
			outs = append(outs, []interface{}{ids[i], r.ctx5(m.Context()), tag, cancelled})
		}
		c.rec("publish", pubIdx, r.in.ID(topic), outs)
		switch c.d.Pb {
		case 0:
			return nil
		case 1:
			return errors.New("scripted publish error")
		default:
			panic("scripted publisher panic")
		}
	}
}

var wHookRT *hookrt.Runtime // installed only while the programs that force a teardown window run (one at a time)

// tryAddHandler: AddHandler / AddNoPublisherHandler; dup = it panicked with DuplicateHandlerNameError
func (r *wRun) tryAddHandler(router *message.Router, h *wHandler) (hd *message.Handler, dup bool) {
	defer func() {
		if v := recover(); v != nil {
			if _, ok := v.(message.DuplicateHandlerNameError); ok {
				dup = true
			} else {
				r.anomaly("AddHandler panicked with %v", v)
			}
		}
	}()
	switch h.PubKind {
	case 0:
		hd = router.AddHandler(h.Name, h.SubTopic, r.subs[h.Sub], h.PubTopic, r.pubIfs[h.Pub], r.handlerFunc(h.Name, h.Fn))
	case 1:
		f := r.handlerFunc(h.Name, h.Fn)
		hd = router.AddNoPublisherHandler(h.Name, h.SubTopic, r.subs[h.Sub], func(m *message.Message) error {
			_, err := f(m)
			return err
		})
	default:
		hd = router.AddHandler(h.Name, h.SubTopic, r.subs[h.Sub], h.PubTopic, nil, r.handlerFunc(h.Name, h.Fn))
	}
	return hd, false
}

// StructName of the library's own decorator types: what a pre-decorated collaborator reports
const wLibSubTy = "message.messageTransformSubscriberDecorator"
const wLibPubTy = "message.messageTransformPublisherDecorator"

func wRunProgram(p *wProgram, in *script.Interner) {
	r := &wRun{p: p, byPtr: map[*message.Message]*wCopy{}, byKey: map[string]*wCopy{}, in: in, outputs: map[int][]*message.Message{},
		blCopies: map[*wDelivery][]*wCopy{}, blSubs: map[*wDelivery]map[*fanSubscription]bool{}, blWG: map[*wDelivery]*sync.WaitGroup{}}
	for i, ty := range p.SubTy {
		if ty == wLibSubTy {
			// the application hands the router a subscriber it has ALREADY wrapped with the library's transform
			// decorator (once or twice); the same wrapped object is shared by all handlers that use it
			s := &plainFanSub{}
			var w message.Subscriber = s
			for k := 0; k <= i%2; k++ {
				w, _ = message.MessageTransformSubscriberDecorator(func(*message.Message) {})(w)
			}
			r.subs = append(r.subs, w)
			r.fans = append(r.fans, &s.fanSub)
		} else if ty == "main.plainFanSub" {
			s := &plainFanSub{}
			r.subs = append(r.subs, s)
			r.fans = append(r.fans, &s.fanSub)
		} else {
			s := &namedFanSub{name: ty}
			if i < len(p.SlowSub) && p.SlowSub[i] {
				s.slow = 4 * time.Millisecond
			}
			r.subs = append(r.subs, s)
			r.fans = append(r.fans, &s.fanSub)
		}
		_ = i
	}
	for i, ty := range p.PubTy {
		sp := &script.Publisher{Name: ty, OnPublish: r.onPublish(i)}
		r.pubs = append(r.pubs, sp)
		if ty == wLibPubTy {
			sp.Name = ""
			w, _ := message.MessageTransformPublisherDecorator(func(*message.Message) {})(sp)
			r.pubIfs = append(r.pubIfs, w)
		} else if ty == "script.Publisher" {
			r.pubIfs = append(r.pubIfs, sp)
		} else {
			r.pubIfs = append(r.pubIfs, &namedPub{Publisher: sp, name: ty})
		}
	}
	router, err := message.NewRouter(message.RouterConfig{CloseTimeout: 30 * time.Second}, watermill.NopLogger{})
	if err != nil {
		r.anomaly("NewRouter: %v", err)
		return
	}
	handles := map[string]*message.Handler{}
	snapRules := map[string]*hookrt.ParkRule{}
	snapKeys := map[string]string{}
	runReturned := false
	ctx, cancel := context.WithCancel(context.Background())
	defer cancel()
	running := false
	runErr := make(chan error, 1)
	nDeliver := 0
	ops := p.Ops
	blArmed := false
	for i := 0; i < len(ops); {
		if blArmed {
			// the start is over: later subscriptions get no copy of those messages
			for _, f := range r.fans {
				f.mu.Lock()
				f.onNew = nil
				f.mu.Unlock()
			}
			blArmed = false
		}
		o := ops[i]
		j := i + 1
		for o.Grp != 0 && j < len(ops) && ops[j].Grp == o.Grp && ops[j].K == o.K {
			j++
		}
		group := ops[i:j]
		i = j
		switch o.K {
		case "addhandler":
			func() {
				defer func() {
					if v := recover(); v != nil {
						if _, ok := v.(message.DuplicateHandlerNameError); ok {
							o.Dup = true
						} else {
							r.anomaly("AddHandler panicked with %v", v)
						}
					}
				}()
				h := o.H
				var hd *message.Handler
				switch h.PubKind {
				case 0:
					hd = router.AddHandler(h.Name, h.SubTopic, r.subs[h.Sub], h.PubTopic, r.pubIfs[h.Pub], r.handlerFunc(h.Name, h.Fn))
				case 1:
					f := r.handlerFunc(h.Name, h.Fn)
					hd = router.AddNoPublisherHandler(h.Name, h.SubTopic, r.subs[h.Sub], func(m *message.Message) error {
						_, err := f(m)
						return err
					})
				default:
					hd = router.AddHandler(h.Name, h.SubTopic, r.subs[h.Sub], h.PubTopic, nil, r.handlerFunc(h.Name, h.Fn))
				}
				if _, dup := handles[h.Name]; !dup {
					handles[h.Name] = hd
				}
			}()
		case "addmw":
			var ms []message.HandlerMiddleware
			for _, g := range group {
				ms = append(ms, r.middleware(g.ID, g.App))
			}
			router.AddMiddleware(ms...)
		case "addhmw":
			// one variadic call per run of equal handler names
			for a := 0; a < len(group); {
				b := a
				var ms []message.HandlerMiddleware
				for b < len(group) && group[b].Name == group[a].Name {
					ms = append(ms, r.middleware(group[b].ID, group[b].App))
					b++
				}
				hd := handles[group[a].Name]
				if hd == nil {
					r.anomaly("generator: addhmw on unknown handler %q", group[a].Name)
				} else {
					hd.AddMiddleware(ms...)
				}
				a = b
			}
		case "addpubdec":
			var ds []message.PublisherDecorator
			for _, g := range group {
				ds = append(ds, r.pubDecorator(g.ID, g.Fails, g.Lib))
			}
			router.AddPublisherDecorators(ds...)
		case "addsubdec":
			var ds []message.SubscriberDecorator
			for _, g := range group {
				ds = append(ds, r.subDecorator(g.ID, g.Fails, g.Lib))
			}
			router.AddSubscriberDecorators(ds...)
		case "start", "startasync":
			var rules []*hookrt.ParkRule
			if o.K == "startasync" && wHookRT != nil {
				for _, nm := range o.Names {
					rule := wHookRT.AddRule(&hookrt.ParkRule{Point: "router.wiring.before_snapshot", Keys: []string{nm}, Nth: 0,
						Until: "harness.snap", UntilKeys: []string{fmt.Sprintf("%p/%s/%d", r, nm, i)}, Timeout: 60 * time.Second})
					snapKeys[nm] = fmt.Sprintf("%p/%s/%d", r, nm, i)
					rules = append(rules, rule)
					snapRules[nm] = rule
				}
			}
			if o.K == "start" && !o.Fail {
				// messages already waiting on a topic: the deliveries marked Backlog that follow this start are handed
				// to every subscription it creates from INSIDE Subscribe (the context decorator's pump gets them at once)
				for j, k := i, nDeliver; j < len(ops) && ops[j].K == "deliver" && ops[j].Backlog; j++ {
					k++
					d, num := ops[j].D, k
					r.blSubs[d] = map[*fanSubscription]bool{}
					r.blWG[d] = &sync.WaitGroup{}
					fan := r.fans[d.Sub]
					prev := fan.onNew
					fan.onNew = func(topic string, sub *fanSubscription) {
						if prev != nil {
							prev(topic, sub)
						}
						if topic != d.Topic {
							return
						}
						r.nCopy++
						m := message.NewMessage(fmt.Sprintf("m%d", num), []byte(fmt.Sprintf("payload %d", num)))
						m.Metadata.Set("n", strconv.Itoa(num))
						if d.UTag != 0 || d.UCancel {
							uc := context.WithValue(context.Background(), wUserKey{}, d.UTag)
							if d.UCancel {
								cc, cancel := context.WithCancel(uc)
								cancel()
								uc = cc
							}
							m.SetContext(uc)
						}
						c := &wCopy{Owner: "?", key: fmt.Sprintf("m%d.c%d", num, r.nCopy), msg: m, orig: m.Copy(), produced: map[int]*message.Message{}, d: d, Trace: [][]interface{}{}}
						r.mu.Lock()
						r.byPtr[m] = c
						r.byKey[c.key] = c
						r.mu.Unlock()
						r.blCopies[d] = append(r.blCopies[d], c)
						r.blSubs[d][sub] = true
						w := r.blWG[d]
						w.Add(1)
						go func() {
							defer w.Done()
							if !sub.send(m, wPatience) {
								c.rec("not-taken")
								r.anomaly("backlog copy %s was not taken by its subscription", c.key)
								return
							}
							switch script.WaitSettled(m, wPatience) {
							case 1:
								c.rec("settle", true)
							case 2:
								c.rec("settle", false)
							default:
								c.rec("unsettled")
								r.anomaly("backlog copy %s was not settled", c.key)
							}
						}()
					}
				}
				blArmed = true
			}
			if !running {
				running = true
				p.PlugRan = true
				go func() {
					defer func() {
						if v := recover(); v != nil {
							r.anomaly("Run panicked: %v", v)
							runErr <- fmt.Errorf("panic: %v", v)
						}
					}()
					runErr <- router.Run(ctx)
				}()
				select {
				case <-router.Running():
					p.PlugOK = true
					if o.Fail {
						r.anomaly("Run is running although a plugin returns an error")
					}
				case err := <-runErr:
					if o.Fail && err != nil {
						runReturned = true // a plugin returned an error: Run is over, isRunning stays set
						break
					}
					r.anomaly("Run returned early: %v", err)
					return
				case <-time.After(wPatience):
					r.anomaly("router did not start")
					return
				}
			} else {
				func() {
					defer func() {
						if v := recover(); v != nil {
							r.anomaly("RunHandlers panicked: %v", v)
						}
					}()
					err := router.RunHandlers(ctx)
					if (err != nil) != o.Fail {
						r.anomaly("RunHandlers returned %v; a failing decorator constructor expected: %v", err, o.Fail)
					}
				}()
			}
		case "addplugin":
			var ps []message.RouterPlugin
			for _, g := range group {
				g := g
				ps = append(ps, func(rt *message.Router) error {
					// plugins run before any handler: nobody has subscribed yet
					nsubs := 0
					for _, f := range r.fans {
						f.mu.Lock()
						nsubs += len(f.subs)
						f.mu.Unlock()
					}
					if nsubs != 0 || rt != router {
						r.anomaly("plugin %d ran after %d Subscribe calls / on another router", g.ID, nsubs)
					}
					r.mu.Lock()
					p.Plug = append(p.Plug, g.ID)
					r.mu.Unlock()
					if g.Fails > 0 {
						return fmt.Errorf("scripted failure of plugin %d", g.ID)
					}
					return nil
				})
			}
			router.AddPlugin(ps...)
		case "view":
			names := []string{}
			for nm := range router.Handlers() {
				names = append(names, nm)
			}
			sort.Strings(names)
			p.Views = append(p.Views, names)
		case "snap":
			// let handler o.Name's goroutine take its copy of r.middlewares now, and wait until it has
			from := 0
			if wHookRT != nil {
				from = wHookRT.Len()
				wHookRT.Stamp("harness.snap", snapKeys[o.Name])
				deadline := time.Now().Add(wPatience)
				taken := false
				for !taken && time.Now().Before(deadline) {
					for _, e := range wHookRT.Log()[from:] {
						if e.Point == "router.wiring.snapshot_taken" && len(e.Keys) > 0 && e.Keys[0] == o.Name {
							taken = true
						}
					}
					if !taken {
						time.Sleep(100 * time.Microsecond)
					}
				}
				if !taken {
					r.anomaly("handler %q never copied r.middlewares", o.Name)
				}
				if rule := snapRules[o.Name]; rule != nil && rule.Parked > 0 && rule.TimedOut == 0 {
					p.Snaps++
				}
				delete(snapRules, o.Name)
			}
		case "stop":
			hd := handles[o.Name]
			if hd == nil {
				r.anomaly("generator: stop of unknown handler %q", o.Name)
				break
			}
			delete(handles, o.Name)
			var rule *hookrt.ParkRule
			key := fmt.Sprintf("%p/%d", r, i)
			if o.Early && wHookRT != nil {
				rule = wHookRT.AddRule(&hookrt.ParkRule{Point: "router.wiring.handler_removed", Keys: []string{o.Name}, Nth: 0,
					Until: "harness.readded", UntilKeys: []string{key}, Timeout: 5 * time.Second})
			}
			func() {
				defer func() {
					if v := recover(); v != nil {
						r.anomaly("Handler.Stop panicked: %v", v)
					}
				}()
				hd.Stop()
			}()
			if o.Early {
				// the window: the ops marked Win are executed as soon as the name is free, while the
				// teardown goroutine of the old handler is parked right after delete(r.handlers, name)
				for i < len(ops) && ops[i].Win {
					w := ops[i]
					i++
					switch w.K {
					case "addhandler":
						deadline := time.Now().Add(wPatience)
						for {
							hd2, dup := r.tryAddHandler(router, w.H)
							if !dup {
								handles[w.H.Name] = hd2
								break
							}
							if time.Now().After(deadline) {
								r.anomaly("the name %q never became free after Stop", w.H.Name)
								break
							}
							time.Sleep(200 * time.Microsecond)
						}
					case "addhmw":
						if h2 := handles[w.Name]; h2 != nil {
							h2.AddMiddleware(r.middleware(w.ID, w.App))
						}
					}
				}
				if rule != nil {
					wHookRT.Stamp("harness.readded", key)
				}
			}
			select {
			case <-hd.Stopped():
			case <-time.After(wPatience):
				r.anomaly("handler %q did not stop", o.Name)
			}
			if rule != nil && rule.Parked > 0 && rule.TimedOut == 0 {
				p.Windows++
			}
		case "deliver":
			r.deliverBatch(group, &nDeliver)
			if len(p.Anomaly) > 3 {
				// fail fast: the router is not settling messages; the remaining deliveries are not run
				i = len(ops)
			}
		}
	}
	if running {
		if err := router.Close(); err != nil {
			r.anomaly("router close: %v", err)
		}
		if !runReturned {
			select {
			case <-runErr:
			case <-time.After(wPatience):
				r.anomaly("Run did not return after Close")
			}
		}
	}
}

// deliverBatch emits all deliveries of the group concurrently; their handler functions wait for each other
func (r *wRun) deliverBatch(group []*wOp, nDeliver *int) {
	type emit struct {
		c   *wCopy
		sub *fanSubscription
	}
	var emits []emit
	for _, g := range group {
		d := g.D
		*nDeliver++
		k := *nDeliver
		var base *message.Message
		if d.Chain > 0 {
			r.mu.Lock()
			outs := r.outputs[d.Chain]
			r.mu.Unlock()
			if len(outs) > 0 {
				base = outs[0]
			}
		}
		if base == nil {
			d.Chain = 0
		} else {
			d.UTag, d.UCancel = wUser(base.Context())
		}
		obs := append([]*wCopy{}, r.blCopies[d]...)
		for _, sub := range r.fans[d.Sub].matching(d.Topic) {
			if r.blSubs[d][sub] {
				continue // got its copy inside Subscribe
			}
			r.nCopy++
			var m *message.Message
			if base != nil {
				// the SAME Go object an earlier handler published: it carries that handler's context keys
				m = base.Copy()
				m.SetContext(base.Context())
			} else {
				m = message.NewMessage(fmt.Sprintf("m%d", k), []byte(fmt.Sprintf("payload %d", k)))
				m.Metadata.Set("n", strconv.Itoa(k))
				if d.UTag != 0 || d.UCancel {
					uc := context.WithValue(context.Background(), wUserKey{}, d.UTag)
					if d.UCancel {
						cc, cancel := context.WithCancel(uc)
						cancel()
						uc = cc
					}
					m.SetContext(uc)
				}
			}
			c := &wCopy{Owner: "?", key: fmt.Sprintf("m%d.c%d", k, r.nCopy), msg: m, orig: m.Copy(), produced: map[int]*message.Message{}, d: d, Trace: [][]interface{}{}}
			d.Ctx = r.ctx5(m.Context())
			r.mu.Lock()
			r.byPtr[m] = c
			r.byKey[c.key] = c
			r.mu.Unlock()
			obs = append(obs, c)
			emits = append(emits, emit{c, sub})
		}
		if d.Ctx == nil {
			d.Ctx = []int{0, 0, 0, 0, 0}
			if base != nil {
				d.Ctx = r.ctx5(base.Context())
			}
		}
		r.p.Obs = append(r.p.Obs, obs)
	}
	r.bmu.Lock()
	r.inside, r.want, r.release = 0, len(emits), make(chan struct{})
	r.bmu.Unlock()
	var wg sync.WaitGroup
	for _, e := range emits {
		wg.Add(1)
		go func(e emit) {
			defer wg.Done()
			if !e.sub.send(e.c.msg, wPatience) {
				e.c.rec("not-taken")
				r.anomaly("copy %s was not taken by its subscription", e.c.key)
				return
			}
			switch script.WaitSettled(e.c.msg, wPatience) {
			case 1:
				e.c.rec("settle", true)
			case 2:
				e.c.rec("settle", false)
			default:
				e.c.rec("unsettled")
				r.anomaly("copy %s was not settled", e.c.key)
			}
		}(e)
	}
	wg.Wait()
	for _, g := range group {
		if w := r.blWG[g.D]; w != nil {
			w.Wait()
		}
	}
	// remember what each delivery published (first Publish call of its first copy) for chained deliveries
	for gi, g := range group {
		_ = g
		k := *nDeliver - len(group) + gi + 1
		for _, p := range r.pubs {
			for _, call := range p.Snapshot() {
				if len(call.Msgs) == 0 {
					continue
				}
				if c := r.copyOf(call.Msgs[0]); c != nil && strings.HasPrefix(c.key, fmt.Sprintf("m%d.", k)) {
					r.mu.Lock()
					if _, ok := r.outputs[k]; !ok {
						r.outputs[k] = call.Msgs
					}
					r.mu.Unlock()
				}
			}
		}
	}
}

// ---------------------------------------------------------------- generators

var wTopics = []string{"t1", "t2", "t3", ""}
var wNames = []string{"h1", "h2", "h3", "h4", "h5", "h11", ""}

type wGen struct {
	rng         *rand.Rand
	p           *wProgram
	added       []*wHandler // accepted handlers
	started     map[string]bool
	nextID      int
	grp         int
	nDel        int
	pubDels     []int // delivery numbers likely to have published something
	running     bool
	faulty      bool   // decorators registered now may have failing constructors
	decs        []*wOp // decorator registrations, in order (pub and sub), with the remaining failures in budget
	budget      map[int]int
	stress      int
	pluginFails bool // a registered plugin returns an error: the first start (Run) fails and starts nobody
	libPub      bool // the library's MessageTransformPublisherDecorator may be registered (then no nil publishers)
}

func (g *wGen) pick(n int) int { return g.rng.Intn(n) }

func (g *wGen) newHandler(name string) *wHandler {
	h := &wHandler{Name: name, Sub: g.pick(len(g.p.SubTy)), SubTopic: wTopics[g.weighted([]int{5, 4, 2, 1})], Fn: len(g.added) + 1 + 10*g.pick(3)}
	switch x := g.pick(10); {
	case x < 7:
		h.PubKind, h.Pub, h.PubTopic = 0, g.pick(len(g.p.PubTy)), []string{"o1", "o2", "t1", ""}[g.weighted([]int{5, 4, 2, 1})]
	case x < 9:
		h.PubKind = 1
	default:
		h.PubKind, h.PubTopic = 2, "o1"
	}
	return h
}

func (g *wGen) weighted(w []int) int {
	t := 0
	for _, x := range w {
		t += x
	}
	r := g.pick(t)
	for i, x := range w {
		if r < x {
			return i
		}
		r -= x
	}
	return 0
}

func (g *wGen) op(o *wOp) { g.p.Ops = append(g.p.Ops, o) }

func (g *wGen) has(name string) bool {
	for _, h := range g.added {
		if h.Name == name {
			return true
		}
	}
	return false
}

func (g *wGen) addHandler() {
	// mostly a name that is still free (so that programs reach 6 handlers), sometimes a duplicate
	name := wNames[g.weighted([]int{6, 6, 5, 4, 3, 2, 1})]
	if g.pick(8) != 0 {
		for try := 0; try < 20 && g.has(name); try++ {
			name = wNames[g.pick(len(wNames))]
		}
	}
	h := g.newHandler(name)
	g.op(&wOp{K: "addhandler", H: h})
	if !g.has(name) {
		g.added = append(g.added, h)
	}
}

func (g *wGen) delivery(sub int, topic string) *wDelivery {
	d := &wDelivery{Sub: sub, Topic: topic}
	switch x := g.pick(20); {
	case x < 14:
		d.OutKind = 0
		d.Outs = [][]int{{}, {1}, {1, 2}, {3, 1, 2}, {0}, {0, 1}, {1, 0}, {2, 2}}[g.pick(8)]
	case x < 17:
		d.OutKind = 1
		d.Outs = [][]int{{}, {1, 2}, {0}}[g.pick(3)]
	default:
		d.OutKind = 2
		d.Outs = []int{}
	}
	d.Pb = g.weighted([]int{8, 1, 1})
	if g.pick(4) == 0 {
		d.UTag = 900 + g.pick(3) // the arriving message carries a user value of its own
	}
	d.UCancel = g.pick(10) == 0
	if len(g.pubDels) > 0 && g.pick(4) == 0 {
		d.Chain = g.pubDels[g.pick(len(g.pubDels))]
	}
	return d
}

func (g *wGen) pushDelivery(d *wDelivery, grp int) {
	g.nDel++
	if d.OutKind == 0 && d.Pb == 0 {
		g.pubDels = append(g.pubDels, g.nDel)
	}
	g.op(&wOp{K: "deliver", D: d, Grp: grp})
}

// which decorator constructor fails at the next RunHandlers (nil = none): the constructors of the first
// waiting handler are called publisher decorators last-added first, then subscriber decorators in order
func (g *wGen) nextFailing() *wOp {
	var pubs, subs []*wOp
	for _, o := range g.decs {
		if o.K == "addpubdec" {
			pubs = append(pubs, o)
		} else {
			subs = append(subs, o)
		}
	}
	for i := len(pubs) - 1; i >= 0; i-- {
		if g.budget[pubs[i].ID] > 0 {
			return pubs[i]
		}
	}
	for _, o := range subs {
		if g.budget[o.ID] > 0 {
			return o
		}
	}
	return nil
}

func (g *wGen) unstartedHandlers() []*wHandler {
	var r []*wHandler
	for _, h := range g.added {
		if !g.started[h.Name] {
			r = append(r, h)
		}
	}
	return r
}

// start (retried while a decorator constructor fails) + one warm-up delivery per newly started handler
// (so that its goroutine has taken its middleware snapshot before the program goes on registering)
func (g *wGen) start() {
	if !g.running && g.pluginFails {
		// Run: a plugin returns an error, RunHandlers is not called; isRunning stays set, the next start is a RunHandlers
		g.op(&wOp{K: "start", Fail: true})
		g.running = true
		if g.pick(2) == 0 {
			g.op(&wOp{K: "view"})
		}
		for _, h := range g.unstartedHandlers() {
			if g.pick(2) == 0 {
				g.pushDelivery(g.delivery(h.Sub, h.SubTopic), 0) // nobody was started
			}
		}
		if g.pick(3) == 0 {
			g.nextID++
			g.op(&wOp{K: "addplugin", ID: g.nextID}) // too late: never called
		}
	}
	waiting := g.unstartedHandlers()
	for len(waiting) > 0 {
		f := g.nextFailing()
		if f == nil {
			break
		}
		g.budget[f.ID]--
		g.op(&wOp{K: "start", Fail: true})
		switch g.pick(4) {
		case 0: // nobody was started
			h := waiting[g.pick(len(waiting))]
			g.pushDelivery(g.delivery(h.Sub, h.SubTopic), 0)
		case 1: // the lists of the moment of the SUCCESSFUL attempt count
			g.nextID++
			g.op(&wOp{K: []string{"addmw", "addpubdec", "addsubdec"}[g.pick(3)], ID: g.nextID})
			if o := g.p.Ops[len(g.p.Ops)-1]; o.K != "addmw" {
				g.decs = append(g.decs, o)
			}
		}
	}
	g.op(&wOp{K: "start"})
	g.running = true
	seen := map[string]bool{}
	ordinary := false
	for _, h := range g.added {
		if g.started[h.Name] {
			continue
		}
		g.started[h.Name] = true
		key := fmt.Sprintf("%d/%s", h.Sub, h.SubTopic)
		if seen[key] {
			continue
		}
		seen[key] = true
		d := g.delivery(h.Sub, h.SubTopic)
		if g.pick(2) == 0 && !ordinary {
			// the message is already waiting on the topic when the handler subscribes
			d.Chain = 0
			g.pushDelivery(d, 0)
			g.p.Ops[len(g.p.Ops)-1].Backlog = true
		} else {
			ordinary = true // the backlog deliveries directly follow the start
			g.pushDelivery(d, 0)
		}
	}
}

// RunHandlers returns, the new handlers' goroutines are held before their copy of r.middlewares; middlewares
// (and decorators, which must NOT apply any more) are registered in that window; the copies are released one
// by one, with further registrations in between and after
func (g *wGen) startAsync() {
	waiting := g.unstartedHandlers()
	var names []string
	for _, h := range waiting {
		names = append(names, h.Name)
		g.started[h.Name] = true
	}
	g.op(&wOp{K: "startasync", Names: names})
	g.running = true
	g.p.Seq = true
	reg := func() {
		g.nextID++
		switch k := g.pick(6); {
		case k < 3 || len(g.added) == 0:
			g.op(&wOp{K: "addmw", ID: g.nextID, App: g.pick(6) == 0})
		case k < 5:
			g.op(&wOp{K: "addhmw", Name: g.added[g.pick(len(g.added))].Name, ID: g.nextID})
		default:
			o := &wOp{K: []string{"addpubdec", "addsubdec"}[g.pick(2)], ID: g.nextID}
			g.op(o)
			g.decs = append(g.decs, o)
		}
	}
	g.rng.Shuffle(len(names), func(a, b int) { names[a], names[b] = names[b], names[a] })
	for _, nm := range append([]string(nil), names...) {
		for k := g.pick(4); k > 0; k-- {
			reg()
		}
		g.op(&wOp{K: "snap", Name: nm})
	}
	for k := g.pick(3); k > 0; k-- {
		reg()
	}
	seen := map[string]bool{}
	for _, h := range waiting {
		key := fmt.Sprintf("%d/%s", h.Sub, h.SubTopic)
		if !seen[key] {
			seen[key] = true
			g.pushDelivery(g.delivery(h.Sub, h.SubTopic), 0)
		}
	}
}

// Handler.Stop of a started handler (another handler stays, or the router would close itself), usually
// followed by a new handler under the same name with middlewares of its own; early = the re-registration
// happens as soon as the name is free, before Stopped() is closed
func (g *wGen) stopAndReadd() {
	var cands []*wHandler
	for _, h := range g.added {
		if g.started[h.Name] {
			cands = append(cands, h)
		}
	}
	if len(g.added) < 2 || len(cands) == 0 {
		return
	}
	h := cands[g.pick(len(cands))]
	early := g.pick(2) == 0
	g.op(&wOp{K: "stop", Name: h.Name, Early: early})
	if early {
		g.p.Seq = true
	}
	kept := g.added[:0:0]
	for _, x := range g.added {
		if x != h {
			kept = append(kept, x)
		}
	}
	g.added = kept
	delete(g.started, h.Name)
	if g.pick(4) == 0 {
		return
	}
	if !early && g.pick(3) == 0 {
		g.pushDelivery(g.delivery(h.Sub, h.SubTopic), 0) // the stopped handler receives nothing any more
	}
	nh := g.newHandler(h.Name)
	if g.pick(2) == 0 {
		nh.Sub, nh.SubTopic = h.Sub, h.SubTopic
	}
	g.op(&wOp{K: "addhandler", H: nh, Win: early})
	g.added = append(g.added, nh)
	for k := g.pick(3); k > 0; k-- {
		g.nextID++
		g.op(&wOp{K: "addhmw", Name: nh.Name, ID: g.nextID, App: g.pick(5) == 0, Win: early})
	}
}

func (g *wGen) deliveries() {
	n := 1 + g.pick(3)
	for b := 0; b < n; b++ {
		size := []int{1, 1, 2, 3, 4}[g.pick(5)]
		g.grp++
		for k := 0; k < size; k++ {
			var sub int
			var topic string
			if len(g.added) > 0 && g.pick(8) != 0 {
				h := g.added[g.pick(len(g.added))]
				sub, topic = h.Sub, h.SubTopic
			} else {
				sub, topic = g.pick(len(g.p.SubTy)), wTopics[g.pick(len(wTopics))]
			}
			g.pushDelivery(g.delivery(sub, topic), g.grp)
		}
	}
}

func (g *wGen) registration() {
	n := 1
	if g.pick(3) == 0 {
		n = 2 + g.pick(2)
	}
	grp := 0
	if n > 1 {
		g.grp++
		grp = g.grp
	}
	kind := g.weighted([]int{4, 5, 2, 2})
	if kind == 1 && len(g.added) == 0 {
		kind = 0
	}
	var hname string
	if kind == 1 {
		hname = g.added[g.pick(len(g.added))].Name
	}
	for i := 0; i < n; i++ {
		g.nextID++
		switch kind {
		case 0:
			g.op(&wOp{K: "addmw", ID: g.nextID, App: g.pick(5) == 0, Grp: grp})
		case 1:
			g.op(&wOp{K: "addhmw", Name: hname, ID: g.nextID, App: g.pick(4) == 0, Grp: grp})
		default:
			o := &wOp{K: []string{"addpubdec", "addsubdec"}[kind-2], ID: g.nextID, Grp: grp}
			o.Lib = g.pick(2) == 0
			if g.faulty && g.running && g.pick(2) == 0 {
				o.Fails = 1 + g.pick(2)
				g.budget[o.ID] = o.Fails
			}
			g.op(o)
			g.decs = append(g.decs, o)
		}
	}
}

func newProgram(rng *rand.Rand, kind string) *wGen {
	p := &wProgram{Kind: kind, Obs: [][]*wCopy{}, Anomaly: []string{}}
	nsub := 1 + rng.Intn(3)
	subTypes := []string{"main.plainFanSub", "gochannel.GoChannel", "fan.Sub", "", "fan.Sub", wLibSubTy, wLibSubTy}
	for i := 0; i < nsub; i++ {
		p.SubTy = append(p.SubTy, subTypes[rng.Intn(len(subTypes))])
		p.SlowSub = append(p.SlowSub, rng.Intn(3) == 0)
	}
	npub := 1 + rng.Intn(3)
	pubTypes := []string{"script.Publisher", "kafka.Publisher", "", "kafka.Publisher", wLibPubTy}
	for i := 0; i < npub; i++ {
		p.PubTy = append(p.PubTy, pubTypes[rng.Intn(len(pubTypes))])
	}
	// a nil publisher under the library's embedding publisher decorator panics in Close() when the handler stops
	// (the whole process): programs use either nil publishers or the library's publisher decorator, not both
	return &wGen{rng: rng, p: p, started: map[string]bool{}, budget: map[int]int{}, libPub: rng.Intn(2) == 0}
}

// random program: phases of registrations and AddHandler calls, each closed by a start and deliveries
// stress: 0 = plain mix; 1 = Stop / re-add heavy; 2 = failing decorator constructors heavy
func genRandom(rng *rand.Rand, maxHandlers, maxRegs int, stress int) *wProgram {
	g := newProgram(rng, []string{"random", "restart", "faulty", "window"}[stress])
	g.stress = stress
	phases := 1 + g.pick(3)
	if stress > 0 {
		phases = 2 + g.pick(2)
	}
	nh := 1 + g.pick(maxHandlers)
	regs := g.pick(maxRegs + 1)
	for ph := 0; ph < phases; ph++ {
		hs := nh / phases
		if ph == 0 {
			hs = nh - (phases-1)*(nh/phases)
		}
		rs := regs / phases
		if ph == 0 {
			rs = regs - (phases-1)*(regs/phases)
		}
		g.faulty = false
		if ph == 0 && g.pick(3) == 0 {
			n := 1 + g.pick(3)
			grp := 0
			if n > 1 && g.pick(2) == 0 {
				g.grp++
				grp = g.grp
			}
			for k := 0; k < n; k++ {
				g.nextID++
				o := &wOp{K: "addplugin", ID: g.nextID, Grp: grp}
				if g.pick(5) == 0 {
					o.Fails = 1
					g.pluginFails = true
				}
				g.op(o)
			}
		}
		if ph > 0 {
			if g.pick(3) == 0 || stress == 1 {
				g.stopAndReadd()
			}
			if g.pick(4) == 0 || stress == 2 {
				// a phase in which decorator constructors may fail: handlers are added to the running router
				g.faulty = true
				if hs == 0 {
					hs = 1
				}
				if rs < 2 {
					rs = 2 + g.pick(3)
				}
			}
		}
		// interleave hs AddHandler calls with rs registrations in a random order
		seq := make([]int, 0, hs+rs)
		for i := 0; i < hs; i++ {
			seq = append(seq, 0)
		}
		for i := 0; i < rs; i++ {
			seq = append(seq, 1)
		}
		rng.Shuffle(len(seq), func(a, b int) { seq[a], seq[b] = seq[b], seq[a] })
		for _, s := range seq {
			if s == 0 {
				g.addHandler()
			} else {
				g.registration()
			}
		}
		if ph > 0 && g.pick(3) == 0 {
			g.deliveries() // handlers added while running, RunHandlers not called yet: they must not receive anything
		}
		if g.pick(4) == 0 {
			g.op(&wOp{K: "view"})
		}
		if stress == 3 && len(g.unstartedHandlers()) > 0 && g.nextFailing() == nil && !(g.pluginFails && !g.running) {
			g.startAsync()
		} else {
			g.start()
		}
		g.deliveries()
	}
	return g.p
}

// exhaustive registration sequences over {router-level, handler A, handler B}: the two AddHandler calls
// and one optional extra start are placed at seeded positions
func genSequence(rng *rand.Rand, seq []int) *wProgram {
	g := newProgram(rng, "sequence")
	g.p.SubTy, g.p.PubTy = []string{"fan.Sub"}, []string{"script.Publisher"}
	firstA, firstB := len(seq), len(seq)
	for i, s := range seq {
		if s == 1 && firstA == len(seq) {
			firstA = i
		}
		if s == 2 && firstB == len(seq) {
			firstB = i
		}
	}
	posA, posB := rng.Intn(firstA+1), rng.Intn(firstB+1)
	sameTopic := rng.Intn(3) == 0
	midStart := -1
	if rng.Intn(3) == 0 {
		midStart = rng.Intn(len(seq) + 1)
	}
	hA := &wHandler{Name: "A", Sub: 0, SubTopic: "ta", PubKind: 0, Pub: 0, PubTopic: "oa", Fn: 1}
	hB := &wHandler{Name: "B", Sub: 0, SubTopic: "tb", PubKind: 0, Pub: 0, PubTopic: "ob", Fn: 2}
	if sameTopic {
		hB.SubTopic = "ta"
	}
	for i := 0; i <= len(seq); i++ {
		if i == posA {
			g.op(&wOp{K: "addhandler", H: hA})
			g.added = append(g.added, hA)
		}
		if i == posB {
			g.op(&wOp{K: "addhandler", H: hB})
			g.added = append(g.added, hB)
		}
		if i == midStart {
			g.start()
		}
		if i == len(seq) {
			break
		}
		g.nextID++
		switch seq[i] {
		case 0:
			g.op(&wOp{K: "addmw", ID: g.nextID})
		case 1:
			g.op(&wOp{K: "addhmw", Name: "A", ID: g.nextID})
		default:
			g.op(&wOp{K: "addhmw", Name: "B", ID: g.nextID})
		}
	}
	g.start()
	g.grp++
	g.pushDelivery(&wDelivery{Sub: 0, Topic: "ta", Outs: []int{1}}, g.grp)
	if !sameTopic {
		g.pushDelivery(&wDelivery{Sub: 0, Topic: "tb", Outs: []int{1, 2}}, g.grp)
	}
	return g.p
}

// decorator lists up to length n for one handler with and one without publisher
func genDecorators(rng *rand.Rand, npub, nsub int) *wProgram {
	g := newProgram(rng, "decorators")
	g.p.SubTy, g.p.PubTy = []string{"fan.Sub"}, []string{"script.Publisher"}
	hA := &wHandler{Name: "A", Sub: 0, SubTopic: "ta", PubKind: 0, Pub: 0, PubTopic: "oa", Fn: 1}
	hB := &wHandler{Name: "B", Sub: 0, SubTopic: "ta", PubKind: 1 + rng.Intn(2), PubTopic: "", Fn: 2}
	if hB.PubKind == 2 {
		hB.PubTopic = "ob"
	}
	if rng.Intn(2) == 0 {
		// both handlers share ONE subscriber object that the application pre-decorated with the library's transform decorator
		g.p.SubTy = []string{wLibSubTy}
	}
	if rng.Intn(3) == 0 {
		g.p.PubTy = []string{wLibPubTy}
	}
	seq := []int{}
	for i := 0; i < npub; i++ {
		seq = append(seq, 0)
	}
	for i := 0; i < nsub; i++ {
		seq = append(seq, 1)
	}
	rng.Shuffle(len(seq), func(a, b int) { seq[a], seq[b] = seq[b], seq[a] })
	posA, posB := rng.Intn(len(seq)+1), rng.Intn(len(seq)+1)
	for i := 0; i <= len(seq); i++ {
		if i == posA {
			g.op(&wOp{K: "addhandler", H: hA})
			g.added = append(g.added, hA)
		}
		if i == posB {
			g.op(&wOp{K: "addhandler", H: hB})
			g.added = append(g.added, hB)
		}
		if i == len(seq) {
			break
		}
		g.nextID++
		if seq[i] == 0 {
			g.op(&wOp{K: "addpubdec", ID: g.nextID, Lib: rng.Intn(2) == 0})
		} else {
			g.op(&wOp{K: "addsubdec", ID: g.nextID, Lib: rng.Intn(2) == 0})
		}
	}
	g.nextID++
	g.op(&wOp{K: "addhmw", Name: "B", ID: g.nextID, App: true}) // B's chain returns a message although B has no publisher
	g.start()
	g.grp++
	g.pushDelivery(&wDelivery{Sub: 0, Topic: "ta", Outs: []int{1, 0}}, g.grp)
	return g.p
}

func cmdC0809(args []string) error {
	fs, out, seed := newFlags("c0809")
	nrandom := fs.Int("random", 150, "number of random programs")
	seqlen := fs.Int("seqlen", 6, "exhaustive registration sequences up to this length")
	maxh := fs.Int("maxh", 6, "handlers per random program")
	maxr := fs.Int("maxr", 20, "registrations per random program")
	nrestart := fs.Int("restart", 60, "programs with Handler.Stop / re-added names")
	nfaulty := fs.Int("faulty", 60, "programs with failing decorator constructors")
	nwindow := fs.Int("window", 60, "programs registering between RunHandlers' return and the handler goroutines' copy of r.middlewares")
	fs.Parse(args)
	rng := rand.New(rand.NewSource(*seed))
	in := script.NewInterner()
	in.ID("message.disabledPublisher") // 1
	in.ID("<nil>")                     // 2
	var progs []*wProgram
	// exhaustive sequences
	var rec func(seq []int)
	rec = func(seq []int) {
		progs = append(progs, genSequence(rng, append([]int(nil), seq...)))
		if len(seq) == *seqlen {
			return
		}
		for s := 0; s < 3; s++ {
			rec(append(seq, s))
		}
	}
	if *seqlen >= 0 {
		rec(nil)
	}
	for np := 0; np <= 5; np++ {
		for ns := 0; ns <= 5; ns++ {
			progs = append(progs, genDecorators(rng, np, ns))
		}
	}
	for i := 0; i < *nrandom; i++ {
		progs = append(progs, genRandom(rng, *maxh, *maxr, 0))
	}
	for i := 0; i < *nrestart; i++ {
		progs = append(progs, genRandom(rng, 4, 8, 1))
	}
	for i := 0; i < *nfaulty; i++ {
		progs = append(progs, genRandom(rng, 4, 8, 2))
	}
	for i := 0; i < *nwindow; i++ {
		progs = append(progs, genRandom(rng, 4, 8, 3))
	}
	// run them, a few at a time; the ones that force a teardown window afterwards, one at a time
	sem := make(chan struct{}, 8)
	var wg sync.WaitGroup
	for _, p := range progs {
		if p.Seq {
			continue
		}
		wg.Add(1)
		sem <- struct{}{}
		go func(p *wProgram) {
			defer wg.Done()
			defer func() { <-sem }()
			if atomic.LoadInt32(&wAnomalies) > 12 {
				p.Skipped = true
				return
			}
			wRunProgram(p, in)
		}(p)
	}
	wg.Wait()
	wHookRT = hookrt.Install(*seed)
	wHookRT.Filter(func(point string, keys []string) bool { return strings.HasPrefix(point, "router.wiring.") })
	for _, p := range progs {
		if !p.Seq {
			continue
		}
		if atomic.LoadInt32(&wAnomalies) > 12 {
			p.Skipped = true
			continue
		}
		wHookRT.Reset()
		wRunProgram(p, in)
	}
	hookrt.Uninstall()
	wHookRT = nil
	for _, p := range progs {
		p.NameIDs = map[string]int{}
		for _, o := range p.Ops {
			if o.H != nil {
				for _, s := range []string{o.H.Name, o.H.SubTopic, o.H.PubTopic} {
					p.NameIDs[s] = in.ID(s)
				}
			}
			if o.K == "addhmw" || o.K == "stop" || o.K == "snap" {
				p.NameIDs[o.Name] = in.ID(o.Name)
			}
			if o.D != nil {
				p.NameIDs[o.D.Topic] = in.ID(o.D.Topic)
			}
		}
		for _, s := range append(append([]string{"?"}, p.SubTy...), p.PubTy...) {
			p.NameIDs[s] = in.ID(s)
		}
		for _, obs := range p.Obs {
			for _, c := range obs {
				p.NameIDs[c.Owner] = in.ID(c.Owner)
			}
		}
	}
	return writeJSON(*out, map[string]interface{}{"programs": progs, "intern": in.Tab})
}

func init() { register("c0809", cmdC0809) }
