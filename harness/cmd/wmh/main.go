//go:build verif

// wmh — the verification harness binary: one sub-command per scenario family.
// Every sub-command drives the real watermill code (module replaced by /repo) and writes
// what it observed as JSON to the file given with -out.
package main

import (
	"encoding/json"
	"flag"
	"fmt"
	"os"
)

type cmdFn func(args []string) error

var commands = map[string]cmdFn{}

func register(name string, f cmdFn) { commands[name] = f }

func writeJSON(path string, v interface{}) error {
	f, err := os.Create(path)
	if err != nil {
		return err
	}
	defer f.Close()
	enc := json.NewEncoder(f)
	return enc.Encode(v)
}

func main() {
	if len(os.Args) < 2 {
		fmt.Fprintln(os.Stderr, "usage: wmh <command> [flags]")
		os.Exit(2)
	}
	f, ok := commands[os.Args[1]]
	if !ok {
		fmt.Fprintln(os.Stderr, "unknown command", os.Args[1])
		os.Exit(2)
	}
	if err := f(os.Args[2:]); err != nil {
		fmt.Fprintln(os.Stderr, "error:", err)
		os.Exit(3)
	}
}

func newFlags(name string) (*flag.FlagSet, *string, *int64) {
	fs := flag.NewFlagSet(name, flag.ExitOnError)
	out := fs.String("out", "/dev/stdout", "output file")
	seed := fs.Int64("seed", 1, "PRNG seed")
	return fs, out, seed
}
