//go:build verif

package main

import (
	"bytes"
	"context"
	"errors"
	"fmt"
	"math/rand"
	"runtime"
	"sort"
	"strconv"
	"strings"
	"sync"
	"sync/atomic"
	"time"

	"github.com/ThreeDotsLabs/watermill"
	"github.com/ThreeDotsLabs/watermill/message"
	"github.com/ThreeDotsLabs/watermill/message/router/middleware"
	multierror "github.com/hashicorp/go-multierror"
	pkgerrors "github.com/pkg/errors"

	"wmverif/hookrt"
	"wmverif/script"
)

// ---------------------------------------------------------------- errors and filters as data

// errSpec describes an error value: base (a shared sentinel), std (fmt.Errorf("p: %w")),
// cause (pkg/errors.Wrap), multi (*multierror.Error).
type errSpec struct {
	K string
	S string
	E *errSpec
	L []*errSpec
}

func eb(s string) *errSpec                 { return &errSpec{K: "base", S: s} }
func estd(p string, e *errSpec) *errSpec   { return &errSpec{K: "std", S: p, E: e} }
func ecause(p string, e *errSpec) *errSpec { return &errSpec{K: "cause", S: p, E: e} }
func emulti(l ...*errSpec) *errSpec        { return &errSpec{K: "multi", L: l} }

var c13Sentinels = map[string]error{}

func c13Sentinel(s string) error {
	if e, ok := c13Sentinels[s]; ok {
		return e
	}
	var e error
	switch s {
	case "context canceled": // the library sentinels a change might single out
		e = context.Canceled
	case "context deadline exceeded":
		e = context.DeadlineExceeded
	default:
		e = errors.New(s)
	}
	c13Sentinels[s] = e
	return e
}

func (s *errSpec) build() error {
	switch s.K {
	case "base":
		return c13Sentinel(s.S)
	case "std":
		return fmt.Errorf("%s: %w", s.S, s.E.build())
	case "cause":
		return pkgerrors.Wrap(s.E.build(), s.S)
	default:
		m := &multierror.Error{}
		for _, x := range s.L {
			m.Errors = append(m.Errors, x.build())
		}
		return m
	}
}

func (s *errSpec) String() string {
	switch s.K {
	case "base":
		return s.S
	case "std":
		return "fmt(" + s.S + ": " + s.E.String() + ")"
	case "cause":
		return "Wrap(" + s.E.String() + ", " + s.S + ")"
	default:
		p := []string{}
		for _, x := range s.L {
			p = append(p, x.String())
		}
		return "multi[" + strings.Join(p, ", ") + "]"
	}
}

// errTree projects an error VALUE (as returned by the code) to the same shape.
func errTree(in *script.Interner, e error) interface{} {
	if e == nil {
		return nil
	}
	if m, ok := e.(*multierror.Error); ok {
		l := []interface{}{}
		if m != nil {
			for _, x := range m.Errors {
				l = append(l, errTree(in, x))
			}
		}
		return []interface{}{"multi", l}
	}
	tn := fmt.Sprintf("%T", e)
	if c, ok := e.(interface{ Cause() error }); ok && c.Cause() != nil {
		inner := c.Cause()
		if tn == "*errors.withStack" { // pkg/errors: Wrap = withStack{withMessage{cause}}; the stack layer has no text
			return errTree(in, inner)
		}
		return []interface{}{"cause", in.ID(strings.TrimSuffix(e.Error(), ": "+inner.Error())), errTree(in, inner)}
	}
	if u, ok := e.(interface{ Unwrap() error }); ok && u.Unwrap() != nil {
		inner := u.Unwrap()
		return []interface{}{"std", in.ID(strings.TrimSuffix(e.Error(), ": "+inner.Error())), errTree(in, inner)}
	}
	return []interface{}{"base", in.ID(e.Error())}
}

type fSpec struct {
	K string // default | const | eq | is | cause | not | panic | nilfunc | first
	B bool
	S string
	F *fSpec
}

func (f *fSpec) String() string {
	switch f.K {
	case "const":
		return fmt.Sprintf("const(%v)", f.B)
	case "eq", "is", "cause":
		return f.K + "(" + f.S + ")"
	case "not":
		return "not(" + f.F.String() + ")"
	}
	return f.K
}

func (f *fSpec) tree(in *script.Interner) interface{} {
	switch f.K {
	case "default":
		return nil
	case "const":
		return []interface{}{"const", f.B}
	case "eq", "is", "cause":
		return []interface{}{f.K, in.ID(f.S)}
	case "not":
		return []interface{}{"not", f.F.tree(in)}
	}
	return []interface{}{f.K}
}

// eval answers the nth (0-based) question asked about one message
func (f *fSpec) eval(err error, nth int) bool {
	switch f.K {
	case "first": // a stateful filter: yes to the first question about a message, no to any later one
		return nth == 0
	case "const":
		return f.B
	case "eq":
		return err == c13Sentinel(f.S)
	case "is":
		return errors.Is(err, c13Sentinel(f.S))
	case "cause":
		return pkgerrors.Cause(err) == c13Sentinel(f.S)
	case "not":
		return !f.F.eval(err, nth)
	case "panic":
		panic("scripted filter panic")
	}
	return true
}

// ---------------------------------------------------------------- cases

type c13Snap struct {
	UUID    int      `json:"uuid"`
	Payload []int    `json:"payload"`
	Meta    [][2]int `json:"meta"` // sorted by key id
	MetaNil bool     `json:"meta_nil"`
}

type c13Case struct {
	ID     string        `json:"id"`
	Router bool          `json:"router"`
	Topic  int           `json:"topic"`
	Filter interface{}   `json:"filter"`
	PP     []interface{} `json:"pp"`
	Ctx    [3]int        `json:"ctx"`
	Msg    c13Snap       `json:"msg"`
	Pre    int           `json:"pre"`
	Acts   []interface{} `json:"acts"`
	Out    []interface{} `json:"out"`
	PK     int           `json:"pk"`
	PB     int           `json:"pb"`
	Reason int           `json:"reason"`
	Flight int           `json:"flight"`
	Place  int           `json:"place"` // 0 router-level middleware, 1 handler-level on every handler, 2 called directly

	Trace [][]interface{} `json:"trace"`
	Final int             `json:"final"`
	Res   []interface{}   `json:"res"`
	MF    c13Snap         `json:"mf"`
	Desc  map[string]interface{} `json:"desc"`

	// script (not exported)
	h        int
	acts     [][]string
	outKind  int // 0 ret 1 fail 2 panic
	outs     []int
	errSpec  *errSpec
	herr     error
	ppub     int // 0 accept 1 error 2 panic
	ppubSpec *errSpec
	metaKind int
	// the consumed message's UUID: 0 unique (= the case id), 1 empty (NewMessage("", ...) is legal),
	// 2 a UUID shared by several messages of the group (UUIDs need not be unique)
	uuidKind int
	// state of the message's context: 0 live; 1 already cancelled when delivered; 2 deadline already
	// exceeded when delivered; 3 cancelled by the handler (SetContext of a cancelled child);
	// 4 cancelled from outside while the handler runs; 5 its deadline passes while the handler runs
	ctxKind int
	ctx     context.Context
	cancel  context.CancelFunc
	payload  []byte

	mu       sync.Mutex
	msg      *message.Message
	produced map[int]*message.Message
	inPre    bool
	arrived  bool
	filterCalls int
	group    *c13Group
	// closed when the Router's own Ack()/Nack() call on the consumed message has completed
	routerDone chan struct{}
	doneOnce   sync.Once
}

func (c *c13Case) rec(ev ...interface{}) {
	c.mu.Lock()
	c.Trace = append(c.Trace, ev)
	c.mu.Unlock()
}

type c13Group struct {
	in      *script.Interner
	router  bool
	topic   string
	filter  *fSpec
	ppubNil bool
	place   int
	cases   []*c13Case
	byID    map[string]*c13Case
	byPtr   map[*message.Message]*c13Case // attribution never relies on the UUID

	mu      sync.Mutex
	byGid   map[int64]*c13Case
	stray   []string
	// "n in flight" barrier inside the handler
	inside  int
	want    int
	release chan struct{}
	// rendezvous: every case of the batch is either finished or parked at its first
	// collaborator call (filter / poison publisher)
	rdvN    int
	rdvCh   chan struct{}
	timeouts int32
	batches, batchesMet int // batches of >= 2 messages / those in which the rendezvous was complete
	rt       *hookrt.Runtime
	batchKey string
	rules    []*hookrt.ParkRule
}

func c13gid() int64 {
	var buf [64]byte
	n := runtime.Stack(buf[:], false)
	f := strings.Fields(string(buf[:n]))
	if len(f) < 2 {
		return -1
	}
	id, _ := strconv.ParseInt(f[1], 10, 64)
	return id
}

func (g *c13Group) register(c *c13Case) {
	g.mu.Lock()
	g.byGid[c13gid()] = c
	g.mu.Unlock()
}

func (g *c13Group) current(what string) *c13Case {
	g.mu.Lock()
	defer g.mu.Unlock()
	c := g.byGid[c13gid()]
	if c == nil {
		g.stray = append(g.stray, what)
	}
	return c
}

// count registers the arrival of c at the rendezvous; it reports the batch key when this
// arrival completed it (the caller then stamps "c13.met", which releases the goroutines parked
// by the hook rule at poison.default_filter)
func (g *c13Group) count(c *c13Case) (first bool, met string, ch chan struct{}) {
	c.mu.Lock()
	first = !c.arrived
	c.arrived = true
	c.mu.Unlock()
	g.mu.Lock()
	defer g.mu.Unlock()
	if first {
		g.rdvN++
		if g.rdvN >= g.want {
			select {
			case <-g.rdvCh:
			default:
				close(g.rdvCh)
				met = g.batchKey
			}
		}
	}
	return first, met, g.rdvCh
}

// arriveInHook runs inside the hook runtime's callback (its lock is held): it must not stamp
// synchronously and does not wait itself - the park rule does
func (g *c13Group) arriveInHook(c *c13Case) {
	if _, met, _ := g.count(c); met != "" {
		go g.rt.Stamp("c13.met", met)
	}
}

func (g *c13Group) arrive(c *c13Case, wait bool) {
	first, met, ch := g.count(c)
	if met != "" {
		g.rt.Stamp("c13.met", met)
	}
	if !first {
		return
	}
	if wait {
		select {
		case <-ch:
		case <-time.After(400 * time.Millisecond):
			atomic.AddInt32(&g.timeouts, 1)
		}
	}
}

func (g *c13Group) enter() {
	g.mu.Lock()
	g.inside++
	if g.inside >= g.want {
		select {
		case <-g.release:
		default:
			close(g.release)
		}
	}
	rel := g.release
	g.mu.Unlock()
	select {
	case <-rel:
	case <-time.After(2 * time.Second):
		atomic.AddInt32(&g.timeouts, 1)
	}
}

func (g *c13Group) snap(m *message.Message) c13Snap {
	s := c13Snap{UUID: g.in.ID(m.UUID), Payload: []int{}, Meta: [][2]int{}}
	for _, b := range m.Payload {
		s.Payload = append(s.Payload, int(b))
	}
	if m.Metadata == nil {
		s.MetaNil = true
		return s
	}
	for k, v := range m.Metadata {
		s.Meta = append(s.Meta, [2]int{g.in.ID(k), g.in.ID(v)})
	}
	sort.Slice(s.Meta, func(i, j int) bool { return s.Meta[i][0] < s.Meta[j][0] })
	return s
}

// the scripted handler at the bottom of the chain
func (g *c13Group) handler(msg *message.Message) ([]*message.Message, error) {
	c := g.current("handler")
	if c == nil {
		return nil, errors.New("unknown message")
	}
	c.rec("call")
	g.enter()
	switch c.ctxKind {
	case 3:
		ctx, cancel := context.WithCancel(msg.Context())
		msg.SetContext(ctx)
		cancel()
	case 4:
		go c.cancel()
		<-c.ctx.Done()
	case 5:
		<-c.ctx.Done()
	}
	for _, a := range c.acts {
		switch a[0] {
		case "setmeta":
			if msg.Metadata == nil {
				msg.Metadata = message.Metadata{}
			}
			msg.Metadata.Set(a[1], a[2])
		case "setpayload":
			msg.Payload = []byte(a[1])
		case "dropctx":
			msg.SetContext(context.Background())
		}
	}
	if c.Pre != 0 {
		c.mu.Lock()
		c.inPre = true
		c.mu.Unlock()
		var ret bool
		if c.Pre == 1 {
			ret = msg.Ack()
		} else {
			ret = msg.Nack()
		}
		c.mu.Lock()
		c.inPre = false
		c.mu.Unlock()
		c.rec("pre", c.Pre == 1, ret)
	}
	var outs []*message.Message
	for _, o := range c.outs {
		if o == 0 {
			outs = append(outs, msg)
		} else {
			m := message.NewMessage(fmt.Sprintf("%s#%d", c.ID, o), []byte(fmt.Sprintf("out %d of %s", o, c.ID)))
			c.mu.Lock()
			c.produced[o] = m
			c.mu.Unlock()
			outs = append(outs, m)
		}
	}
	switch c.outKind {
	case 0:
		return outs, nil
	case 1:
		return outs, c.herr
	default:
		panic("scripted handler panic")
	}
}

func (c *c13Case) outIDs(msgs []*message.Message) []int {
	ids := []int{}
	for _, m := range msgs {
		if m == c.msg {
			ids = append(ids, 0)
			continue
		}
		id := -1
		c.mu.Lock()
		for k, p := range c.produced {
			if p == m {
				id = k
			}
		}
		c.mu.Unlock()
		ids = append(ids, id)
	}
	return ids
}

// recorded call of the chain (poison queue outermost but for this recorder)
func (g *c13Group) recorded(c *c13Case, h message.HandlerFunc, msg *message.Message) (outs []*message.Message, err error) {
	g.register(c)
	defer func() {
		if r := recover(); r != nil {
			c.mu.Lock()
			c.Res = []interface{}{"panic"}
			c.mu.Unlock()
			g.arrive(c, false)
			panic(r)
		}
	}()
	outs, err = h(msg)
	c.mu.Lock()
	c.Res = []interface{}{"ret", c.outIDs2(outs), errTree(g.in, err)}
	c.mu.Unlock()
	g.arrive(c, false)
	return outs, err
}

func (c *c13Case) outIDs2(msgs []*message.Message) []int { // caller holds c.mu
	ids := []int{}
	for _, m := range msgs {
		if m == c.msg {
			ids = append(ids, 0)
			continue
		}
		id := -1
		for k, p := range c.produced {
			if p == m {
				id = k
			}
		}
		ids = append(ids, id)
	}
	return ids
}

func (g *c13Group) recorderMw(h message.HandlerFunc) message.HandlerFunc {
	return func(msg *message.Message) ([]*message.Message, error) {
		c := g.byPtr[msg]
		if c == nil {
			g.mu.Lock()
			g.stray = append(g.stray, "recorder:"+msg.UUID)
			g.mu.Unlock()
			return h(msg)
		}
		return g.recorded(c, h, msg)
	}
}

func (g *c13Group) filterFn() func(error) bool {
	return func(err error) bool {
		c := g.current("filter")
		if c == nil {
			return g.filter.eval(err, 0)
		}
		c.rec("filter", errTree(g.in, err))
		c.mu.Lock()
		nth := c.filterCalls
		c.filterCalls++
		c.mu.Unlock()
		g.arrive(c, true)
		return g.filter.eval(err, nth)
	}
}

func (g *c13Group) onPoisonPublish(call int, topic string, msgs []*message.Message) error {
	c := g.current("poison-publish")
	if c == nil {
		return nil
	}
	if len(msgs) != 1 {
		c.rec("ppublish-n", len(msgs))
		return nil
	}
	c.rec("ppublish", g.in.ID(topic), g.snap(msgs[0]), script.Settlement(c.msg), msgs[0] == c.msg)
	g.arrive(c, true)
	switch c.ppub {
	case 0:
		c.rec("ppubret", true)
		return nil
	case 1:
		c.rec("ppubret", false)
		return c.ppubSpec.build()
	default:
		c.rec("ppubpanic")
		panic("scripted poison publisher panic")
	}
}

func (g *c13Group) onPublish(call int, topic string, msgs []*message.Message) error {
	c := g.current("publish")
	if c == nil {
		return nil
	}
	if len(msgs) == 0 {
		c.rec("publish-empty")
		return nil
	}
	ids := c.outIDs(msgs)
	if topic != fmt.Sprintf("out%d", c.h) {
		ids = append(ids, 9999)
	}
	c.rec("publish", ids, script.Settlement(c.msg))
	switch c.PB {
	case 0:
		c.rec("pubret", true)
		return nil
	case 1:
		c.rec("pubret", false)
		return errors.New("scripted publish error")
	default:
		c.rec("pubpanic")
		panic("scripted publisher panic")
	}
}

// a subscriber whose Router-visible name is scripted (internal.StructName honours fmt.Stringer)
type c13NamedSub struct {
	*script.Subscriber
	name string
}

func (s c13NamedSub) String() string { return s.name }

var c13SubNames = []string{"SubA", "script.Subscriber", ""}

func (g *c13Group) makeMiddleware(pp message.Publisher) (message.HandlerMiddleware, error) {
	if g.filter.K == "default" {
		return middleware.PoisonQueue(pp, g.topic)
	}
	if g.filter.K == "nilfunc" {
		return middleware.PoisonQueueWithFilter(pp, g.topic, nil)
	}
	return middleware.PoisonQueueWithFilter(pp, g.topic, g.filterFn())
}

func (g *c13Group) prepare(c *c13Case) {
	c.produced = map[int]*message.Message{}
	c.routerDone = make(chan struct{})
	c.msg = message.NewMessage([]string{c.ID, "", "shared-uuid"}[c.uuidKind], c.payload)
	switch c.ctxKind {
	case 1:
		c.ctx, c.cancel = context.WithCancel(context.Background())
		c.cancel()
	case 2:
		c.ctx, c.cancel = context.WithDeadline(context.Background(), time.Now().Add(-time.Hour))
	case 4:
		c.ctx, c.cancel = context.WithCancel(context.Background())
	case 5:
		c.ctx, c.cancel = context.WithTimeout(context.Background(), 2*time.Millisecond)
	}
	if c.ctx != nil {
		c.msg.SetContext(c.ctx) // the Router derives its value context from this one
	}
	switch c.metaKind {
	case 0:
		c.msg.Metadata = nil
	case 1:
	case 2:
		c.msg.Metadata.Set("a", "1")
	case 3: // redelivery of an already poisoned message
		c.msg.Metadata.Set("reason_poisoned", "old reason")
		c.msg.Metadata.Set("topic_poisoned", "old topic")
		c.msg.Metadata.Set("handler_poisoned", "old handler")
		c.msg.Metadata.Set("subscriber_poisoned", "old subscriber")
		c.msg.Metadata.Set("z", "")
	case 4:
		c.msg.Metadata.Set("reason_poisoned", "")
		c.msg.Metadata.Set("b", "2")
	case 5:
		c.msg.Metadata.Set("", "empty key")
		c.msg.Metadata.Set("topic_poisoned", "in0")
	}
	c.Msg = g.snap(c.msg)
	if c.errSpec != nil {
		c.herr = c.errSpec.build()
		c.Reason = g.in.ID(c.herr.Error())
	}
	// the script, interned
	c.Router, c.Topic, c.Filter, c.Place = g.router, g.in.ID(g.topic), g.filter.tree(g.in), g.place
	switch {
	case g.ppubNil:
		c.PP = []interface{}{"nil"}
	case c.ppub == 0:
		c.PP = []interface{}{"accept"}
	case c.ppub == 1:
		c.PP = []interface{}{"error", errTree(g.in, c.ppubSpec.build())}
	default:
		c.PP = []interface{}{"panic"}
	}
	if g.router {
		c.Ctx = [3]int{g.in.ID(fmt.Sprintf("in%d", c.h)), g.in.ID(fmt.Sprintf("h%d", c.h)), g.in.ID(c13SubNames[c.h])}
		c.PK = c.h
	} else {
		c.PK = 0
	}
	c.Acts = []interface{}{}
	if c.ctxKind >= 3 {
		c.Acts = append(c.Acts, []interface{}{"cancelctx"})
	}
	for _, a := range c.acts {
		switch a[0] {
		case "setmeta":
			c.Acts = append(c.Acts, []interface{}{"setmeta", g.in.ID(a[1]), g.in.ID(a[2])})
		case "setpayload":
			p := []int{}
			for _, b := range []byte(a[1]) {
				p = append(p, int(b))
			}
			c.Acts = append(c.Acts, []interface{}{"setpayload", p})
		default:
			c.Acts = append(c.Acts, []interface{}{"dropctx"})
		}
	}
	outs := c.outs
	if outs == nil {
		outs = []int{}
	}
	switch c.outKind {
	case 0:
		c.Out = []interface{}{"ret", outs}
	case 1:
		c.Out = []interface{}{"fail", errTree(g.in, c.herr), outs}
	default:
		c.Out = []interface{}{"panic"}
	}
	es := ""
	if c.errSpec != nil {
		es = c.errSpec.String()
	}
	c.Desc = map[string]interface{}{
		"mode": map[bool]string{true: "inside a Router", false: "middleware called directly"}[g.router], "poison_topic": g.topic,
		"filter": g.filter.String(), "poison_publisher": c.PP[0], "handler": c.h, "handler_error": es,
		"handler_outcome": []string{"returns", "fails", "panics"}[c.outKind], "outs": outs, "acts": c.acts,
		"uuid": []string{"unique", "empty", "shared by several messages"}[c.uuidKind],
		"message_context": []string{"live", "already cancelled at delivery", "deadline already exceeded at delivery", "cancelled by the handler", "cancelled from outside while the handler runs", "deadline passes while the handler runs"}[c.ctxKind],
		"pre_settle": []string{"none", "ack", "nack"}[c.Pre], "metadata": []string{"nil map", "empty", "{a:1}", "already poisoned (all four keys + z:\"\")", "{reason_poisoned:\"\", b:2}", "{\"\":..., topic_poisoned:in0}"}[c.metaKind],
		"payload_len": len(c.payload), "router_publisher": []string{"accept", "error", "panic"}[c.PB],
		"middleware_placement": []string{"router-level", "handler-level (same value on every handler)", "direct call"}[g.place],
	}
}

var c13Abort bool

func (g *c13Group) run(rt *hookrt.Runtime) error {
	g.byID, g.byGid, g.byPtr = map[string]*c13Case{}, map[int64]*c13Case{}, map[*message.Message]*c13Case{}
	for _, c := range g.cases {
		c.group = g
		g.byID[c.ID] = c
		g.prepare(c)
		g.byPtr[c.msg] = c
	}
	var ppub message.Publisher
	if !g.ppubNil {
		ppub = &script.Publisher{OnPublish: g.onPoisonPublish}
	}
	mw, err := g.makeMiddleware(ppub)
	if err != nil {
		return err
	}
	rt.Reset()
	rt.Perturb("router.handle.before_publish", 0.3)
	rt.Perturb("router.handle.before_settle", 0.3)
	g.rt = rt
	rt.Filter(func(point string, keys []string) bool {
		if point == "poison.default_filter" {
			// the no-filter path's parking point between the handler's return and the salvage:
			// count the arrival here, the park rule of the batch holds the goroutine
			g.mu.Lock()
			c := g.byGid[c13gid()]
			g.mu.Unlock()
			if c != nil {
				g.arriveInHook(c)
			}
			return true
		}
		if point == "message.ack.unlock" || point == "message.nack.unlock" {
			g.mu.Lock()
			c := g.byGid[c13gid()] // the settle call runs on the goroutine that handles the message
			g.mu.Unlock()
			if c != nil {
				c.mu.Lock()
				pre := c.inPre
				c.mu.Unlock()
				if !pre {
					c.doneOnce.Do(func() { close(c.routerDone) })
				}
			}
			return false
		}
		ack := point == "message.ack.locked"
		if !ack && point != "message.nack.locked" {
			return strings.HasPrefix(point, "router.handle.")
		}
		g.mu.Lock()
		c := g.byGid[c13gid()]
		g.mu.Unlock()
		if c != nil {
			c.mu.Lock()
			pre := c.inPre
			c.mu.Unlock()
			if !pre {
				c.rec("settle", ack)
			}
		}
		return false
	})

	var router *message.Router
	subs := make([]*script.Subscriber, 3)
	var wrapped [3]message.HandlerFunc
	runErr := make(chan error, 1)
	if g.router {
		router, err = message.NewRouter(message.RouterConfig{CloseTimeout: 60 * time.Second}, watermill.NopLogger{})
		if err != nil {
			return err
		}
		pub := &script.Publisher{OnPublish: g.onPublish}
		for i := range subs {
			subs[i] = script.NewSubscriber(true)
		}
		var sub0, sub2 message.Subscriber = c13NamedSub{subs[0], c13SubNames[0]}, c13NamedSub{subs[2], c13SubNames[2]}
		router.AddMiddleware(g.recorderMw)
		if g.place == 0 {
			router.AddMiddleware(mw)
		}
		h0 := router.AddHandler("h0", "in0", sub0, "out0", pub, g.handler)
		h1 := router.AddNoPublisherHandler("h1", "in1", subs[1], func(msg *message.Message) error {
			_, err := g.handler(msg)
			return err
		})
		h2 := router.AddHandler("h2", "in2", sub2, "out2", nil, g.handler)
		if g.place == 1 {
			h0.AddMiddleware(mw)
			h1.AddMiddleware(mw)
			h2.AddMiddleware(mw)
		}
		ctx, cancel := context.WithCancel(context.Background())
		defer cancel()
		go func() { runErr <- router.Run(ctx) }()
		select {
		case <-router.Running():
		case <-time.After(60 * time.Second):
			return errors.New("router did not start")
		}
	} else {
		for i := range wrapped {
			wrapped[i] = mw(g.handler) // the same middleware value around three handlers
		}
	}

	sizes := []int{1, 2, 4, 8, 3, 5}
	i, b := 0, 0
	var unsettled int32
	for i < len(g.cases) {
		if atomic.LoadInt32(&unsettled) >= 3 || c13Abort {
			c13Abort = true
			for _, c := range g.cases[i:] {
				c.rec("not-run")
			}
			break
		}
		n := sizes[b%len(sizes)]
		b++
		if i+n > len(g.cases) {
			n = len(g.cases) - i
		}
		batch := g.cases[i : i+n]
		i += n
		g.mu.Lock()
		g.inside, g.want, g.release = 0, n, make(chan struct{})
		g.rdvN, g.rdvCh = 0, make(chan struct{})
		g.batchKey = fmt.Sprintf("batch%d", b)
		key := g.batchKey
		g.mu.Unlock()
		if n > 1 {
			g.rules = append(g.rules, rt.AddRule(&hookrt.ParkRule{Point: "poison.default_filter", Until: "c13.met", UntilKeys: []string{key}, Timeout: 400 * time.Millisecond}))
		}
		var wg sync.WaitGroup
		for _, c := range batch {
			c.Flight = n
			wg.Add(1)
			go func(c *c13Case) {
				defer wg.Done()
				if g.router {
					if !subs[c.h].Emit(fmt.Sprintf("in%d", c.h), c.msg, 30*time.Second) {
						c.rec("not-taken")
						return
					}
					// the Router's own settle call ends handleMessage (the handler may have settled earlier)
					select {
					case <-c.routerDone:
					case <-time.After(20 * time.Second): // generous: only a tree that never settles gets here
					}
					c.Final = script.Settlement(c.msg)
					if c.Final == 0 {
						atomic.AddInt32(&unsettled, 1)
					}
				} else {
					func() {
						defer func() { recover() }()
						g.recorded(c, wrapped[c.h], c.msg)
					}()
					c.Final = script.Settlement(c.msg)
				}
				c.mu.Lock()
				c.MF = g.snap(c.msg)
				c.mu.Unlock()
				if c.cancel != nil {
					c.cancel()
				}
			}(c)
		}
		wg.Wait()
		rt.Stamp("c13.met", key) // makes the batch's rule inert whatever happened
		if n > 1 {
			g.mu.Lock()
			g.batches++
			if g.rdvN >= n {
				g.batchesMet++
			}
			g.mu.Unlock()
		}
	}
	if g.router {
		if err := router.Close(); err != nil {
			return fmt.Errorf("router close: %w", err)
		}
		select {
		case <-runErr:
		case <-time.After(60 * time.Second):
			return errors.New("Run did not return after Close")
		}
	}
	return nil
}

// ---------------------------------------------------------------- generation

var c13Errs = []*errSpec{
	eb("A"), eb("B"),
	estd("ctx", eb("A")), ecause("wrapped", eb("A")),
	estd("outer", ecause("inner", eb("A"))), ecause("outer", estd("inner", eb("A"))),
	emulti(eb("A"), eb("B")), emulti(eb("B")), emulti(),
	estd("w", emulti(eb("B"), eb("A"))), ecause("c", eb("B")), emulti(ecause("c", eb("A"))),
	ecause("c2", ecause("c1", eb("A"))), estd("", eb("A")),
	eb("context canceled"), estd("handler interrupted", eb("context canceled")), ecause("timeout", eb("context deadline exceeded")),
}

var c13Filters = []*fSpec{
	{K: "default"}, {K: "const", B: true}, {K: "const", B: false},
	{K: "eq", S: "A"}, {K: "is", S: "A"}, {K: "cause", S: "A"},
	{K: "not", F: &fSpec{K: "is", S: "A"}}, {K: "not", F: &fSpec{K: "cause", S: "A"}},
	{K: "panic"}, {K: "nilfunc"}, {K: "first"},
}

var c13Acts = [][][]string{
	nil, nil, nil,
	{{"setmeta", "k", "v"}},
	{{"setmeta", "reason_poisoned", "set by the handler"}},
	{{"setpayload", "changed by the handler"}},
	{{"dropctx"}},
	{{"setmeta", "handler_poisoned", ""}, {"dropctx"}, {"setmeta", "k2", "v2"}},
}

var c13Outs = [][]int{nil, nil, {1}, {0}, {1, 0, 2}}

var c13Payloads = [][]byte{nil, {}, []byte("abc"), bytes.Repeat([]byte{0xff, 0x00, 'x', '\n'}, 16), bytes.Repeat([]byte("p"), 65)}

func c13Generate(rng *rand.Rand, tier string) []*c13Group {
	n := 0
	pick := func(k int) int { return rng.Intn(k) }
	newCase := func(g *c13Group) *c13Case {
		n++
		c := &c13Case{ID: fmt.Sprintf("m%d", n)}
		c.h = pick(3)
		c.Pre = []int{0, 0, 0, 1, 2}[pick(5)]
		c.acts = c13Acts[pick(len(c13Acts))]
		c.metaKind = []int{0, 1, 2, 3, 3, 4, 5, 2}[pick(8)]
		c.uuidKind = []int{0, 0, 0, 0, 0, 1, 2, 2}[pick(8)]
		c.ctxKind = []int{0, 0, 0, 0, 1, 2, 3, 4, 5, 4}[pick(10)]
		c.payload = c13Payloads[pick(len(c13Payloads))]
		c.PB = []int{0, 0, 1, 2}[pick(4)]
		c.ppub = []int{0, 0, 1, 2}[pick(4)]
		c.ppubSpec = []*errSpec{eb("P"), emulti(eb("A")), ecause("down", eb("P"))}[pick(3)]
		c.outs = c13Outs[pick(len(c13Outs))]
		c.outKind = 1
		c.errSpec = c13Errs[pick(len(c13Errs))]
		return c
	}
	fix := func(g *c13Group, c *c13Case) {
		if g.router && c.h == 1 {
			c.outs = nil // NoPublishHandlerFunc cannot return messages
		}
		if c.outKind != 1 {
			c.errSpec = nil
		}
		g.cases = append(g.cases, c)
	}
	var groups []*c13Group
	topics := []string{"poison", "dead letters", "in0"}
	addGroup := func(router bool, f *fSpec, ppubNil bool, place int, random int) {
		g := &c13Group{router: router, filter: f, ppubNil: ppubNil, place: place, topic: topics[pick(len(topics))]}
		if !router {
			g.place = 2
		}
		if random == 0 {
			// every error shape x every poison publisher behaviour, the other dimensions drawn
			for _, e := range c13Errs {
				for pp := 0; pp < 3; pp++ {
					c := newCase(g)
					c.errSpec, c.ppub = e, pp
					fix(g, c)
				}
			}
			for _, o := range c13Outs[1:] {
				c := newCase(g)
				c.outKind, c.outs = 0, o
				fix(g, c)
			}
			c := newCase(g)
			c.outKind = 2
			fix(g, c)
			// nil metadata / already poisoned with a failing handler, whatever was drawn above
			for _, mk := range []int{0, 3} {
				for pp := 0; pp < 3; pp++ {
					c := newCase(g)
					c.metaKind, c.ppub, c.Pre = mk, pp, 0
					fix(g, c)
				}
			}
			// boundary UUIDs (empty; shared by several messages) with a failing handler x every poison publisher behaviour
			for _, uk := range []int{1, 2, 2} {
				for pp := 0; pp < 3; pp++ {
					c := newCase(g)
					c.uuidKind, c.ppub, c.Pre = uk, pp, 0
					if c.metaKind == 0 {
						c.metaKind = 1
					}
					fix(g, c)
				}
			}
			// every state of the message context with a failing handler x every poison publisher behaviour
			for ck := 1; ck <= 5; ck++ {
				for pp := 0; pp < 3; pp++ {
					c := newCase(g)
					c.ctxKind, c.ppub, c.Pre = ck, pp, 0
					if c.metaKind == 0 {
						c.metaKind = 2
					}
					fix(g, c)
				}
			}
			rng.Shuffle(len(g.cases), func(i, j int) { g.cases[i], g.cases[j] = g.cases[j], g.cases[i] })
		} else {
			for k := 0; k < random; k++ {
				c := newCase(g)
				c.outKind = []int{1, 1, 1, 1, 0, 0, 2}[pick(7)]
				fix(g, c)
			}
		}
		groups = append(groups, g)
	}
	for _, f := range c13Filters {
		addGroup(true, f, false, pick(2), 0)
		addGroup(false, f, false, 2, 0)
	}
	addGroup(true, c13Filters[0], true, 0, 0)
	addGroup(false, c13Filters[4], true, 2, 0)
	rounds := 6
	if tier == "thorough" {
		rounds = 40
	}
	for k := 0; k < rounds; k++ {
		addGroup(k%3 != 2, c13Filters[pick(len(c13Filters))], pick(12) == 0, pick(2), 40)
	}
	return groups
}

func cmdC13(args []string) error {
	fs, out, seed := newFlags("c13")
	tier := fs.String("tier", "quick", "quick|thorough")
	fs.Parse(args)
	rt := hookrt.Install(*seed)
	defer hookrt.Uninstall()
	in := script.NewInterner()
	// fixed numbers of the documented literals (Handler/Poison.v K_REASON .. WRAP_MSG)
	for _, s := range []string{"reason_poisoned", "topic_poisoned", "handler_poisoned", "subscriber_poisoned", "cannot publish message to poison queue"} {
		in.ID(s)
	}
	rng := rand.New(rand.NewSource(*seed))
	groups := c13Generate(rng, *tier)
	var all []*c13Case
	var stray []string
	timeouts, batches, batchesMet, hookParked, hookTimedOut := 0, 0, 0, 0, 0
	for _, g := range groups {
		g.in = in
		if err := g.run(rt); err != nil {
			return err
		}
		all = append(all, g.cases...)
		stray = append(stray, g.stray...)
		timeouts += int(g.timeouts)
		batches += g.batches
		batchesMet += g.batchesMet
		for _, r := range g.rules {
			hookParked += r.Parked
			hookTimedOut += r.TimedOut
		}
	}
	// the constructors
	type ctor struct {
		Topic      int  `json:"topic"`
		WithFilter bool `json:"with_filter"`
		GotMw      bool `json:"got_mw"`
		ErrIsDoc   bool `json:"err_is_documented"`
	}
	var ctors []ctor
	for _, t := range []string{"", "t", " "} {
		for _, wf := range []bool{false, true} {
			var mw message.HandlerMiddleware
			var err error
			if wf {
				mw, err = middleware.PoisonQueueWithFilter(&script.Publisher{}, t, func(error) bool { return true })
			} else {
				mw, err = middleware.PoisonQueue(&script.Publisher{}, t)
			}
			ctors = append(ctors, ctor{in.ID(t), wf, mw != nil && err == nil, err == nil || errors.Is(err, middleware.ErrInvalidPoisonQueueTopic)})
		}
	}
	return writeJSON(*out, map[string]interface{}{"cases": all, "ctors": ctors, "stray": stray, "timeouts": timeouts, "strings": in.Tab,
		"batches": batches, "batches_met": batchesMet, "hook_parked": hookParked, "hook_timed_out": hookTimedOut})
}

func init() { register("c13", cmdC13) }
