//go:build verif

package main

// C19 — the simple middlewares (Timeout, CorrelationID, Recoverer, IgnoreErrors, InstantAck,
// Throttle, CircuitBreaker(closed), DelayOnError) alone, stacked, and under the real Retry,
// around a scripted handler.  Every random choice comes from -seed.  Output: groups of cases
// (one chain VALUE shared by the 1..4 messages of a group, which are in flight together) with,
// per invocation, what the handler saw, what the chain returned and the message afterwards;
// plus handler start times through one Throttle value.

import (
	"context"
	"fmt"
	"math/rand"
	"runtime"
	"sort"
	"strconv"
	"strings"
	"sync"
	"time"

	"github.com/pkg/errors"
	"github.com/sony/gobreaker"

	"github.com/ThreeDotsLabs/watermill/components/delay"
	"github.com/ThreeDotsLabs/watermill/message"
	"github.com/ThreeDotsLabs/watermill/message/router/middleware"

	"wmverif/script"
)

type jv = []interface{}

type c19Mw struct {
	K    string `json:"k"` // timeout corr rec ign ack thr cb delay retry
	D    int64  `json:"d,omitempty"`
	L    []int  `json:"l,omitempty"`
	Init int64  `json:"init,omitempty"`
	Max  int64  `json:"max,omitempty"`
	Num  int64  `json:"num,omitempty"`
	Den  int64  `json:"den,omitempty"`
	MaxR int    `json:"maxr"`
	P    float32 `json:"p,omitempty"` // RandomFail / RandomPanic probability
}

type c19Res struct {
	K    string `json:"k"` // ret fail panic
	Outs []jv   `json:"outs"`
	Err  jv     `json:"err,omitempty"`
	PV   jv     `json:"pv,omitempty"`
}

type c19Call struct {
	Pre []jv   `json:"pre"`
	Res c19Res `json:"res"`
	// interpretation on the Go side
	pre  []func(c *c19Case)
	outs []c19OutSpec
	err  error
	pv   interface{}
	pvOK bool
}

type c19OutSpec struct {
	self    bool
	id      int
	uuid    string
	payload string
	meta    map[string]string
}

type c19V struct {
	Meta   []jv   `json:"meta"`
	Same   bool   `json:"same"`
	Done   bool   `json:"done"`
	DL     *int64 `json:"dl"`
	Settle int    `json:"settle"`
}

type c19Inv struct {
	Trace []jv   `json:"trace"`
	Res   c19Res `json:"res"`
	After c19V   `json:"after"`
}

type c19Case struct {
	Group  int       `json:"group"`
	Flight int       `json:"flight"`
	Mws    []c19Mw   `json:"mws"`
	Script []c19Call `json:"script"`
	Init   c19V      `json:"init"`
	Invs   []c19Inv  `json:"invs"`
	NInv   int       `json:"ninv"`
	X      *c19X     `json:"x,omitempty"`

	mu      sync.Mutex
	msg     *message.Message
	base    context.Context
	cancel  context.CancelFunc
	calls   int
	cur     []jv
	errs    map[error]jv
	fresh   map[*message.Message]int
	uuid    string
	g       *c19Group
	entered bool
	until    map[string][2]int64
	invStart time.Time
}

type c19Group struct {
	cases  map[string]*c19Case
	bygid  sync.Map
	mu     sync.Mutex
	inside int
	want   int
	rel    chan struct{}
}

var c19In *script.Interner

const hourNs = int64(time.Hour)

func c19Val(key, v string) jv {
	switch key {
	case delay.DelayedForKey:
		if d, err := time.ParseDuration(v); err == nil && v != "" {
			return jv{"d", int64(d)}
		}
	}
	return jv{"s", c19In.ID(v)}
}

func c19Meta(c *c19Case, m message.Metadata) []jv {
	keys := []string{}
	for k, v := range m {
		if v != "" {
			keys = append(keys, k)
		}
	}
	sort.Strings(keys)
	res := []jv{}
	for _, k := range keys {
		v := m[k]
		if k == delay.DelayedUntilKey && c != nil {
			// RFC3339 (whole seconds) -> distance from the start of the invocation that first showed
			// this value; the model's MUntil d is compared with a tolerance of 3 s
			// the value t (whole seconds) was written as (moment of the call)+d at some moment between the
			// start of this invocation and now: t-now <= d < t-invStart+1s.  Remembered per raw string.
			if u, ok := c.until[v]; ok {
				res = append(res, jv{c19In.ID(k), jv{"u", u[0], u[1]}})
				continue
			}
			if t, err := time.Parse(time.RFC3339, v); err == nil {
				u := [2]int64{int64(t.Sub(time.Now().UTC())) - int64(time.Second), int64(t.Sub(c.invStart)) + 2*int64(time.Second)}
				c.until[v] = u
				res = append(res, jv{c19In.ID(k), jv{"u", u[0], u[1]}})
				continue
			}
		}
		res = append(res, jv{c19In.ID(k), c19Val(k, v)})
	}
	return res
}

func (c *c19Case) view() c19V {
	ctx := c.msg.Context()
	v := c19V{Meta: c19Meta(c, c.msg.Metadata), Same: ctx == c.base, Done: ctx.Err() != nil, Settle: script.Settlement(c.msg)}
	if dl, ok := ctx.Deadline(); ok {
		rem := time.Until(dl)
		h := (int64(rem) + hourNs/2) / hourNs
		ns := h * hourNs
		v.DL = &ns
	}
	return v
}

func c19gid() int64 {
	var buf [64]byte
	n := runtime.Stack(buf[:], false)
	f := strings.Fields(string(buf[:n]))
	id, _ := strconv.ParseInt(f[1], 10, 64)
	return id
}

func (g *c19Group) handler(msg *message.Message) ([]*message.Message, error) {
	c := g.cases[msg.UUID]
	if c == nil {
		return nil, errors.New("unknown message")
	}
	c.mu.Lock()
	k := c.calls
	c.calls++
	c.cur = append(c.cur, jv{"call", k, c.view()})
	first := !c.entered
	c.entered = true
	c.mu.Unlock()
	if first && g.want > 1 { // all messages of the group are inside the chain together
		g.mu.Lock()
		g.inside++
		if g.inside >= g.want {
			close(g.rel)
		}
		g.mu.Unlock()
		select {
		case <-g.rel:
		case <-time.After(2 * time.Second):
		}
	}
	var sc *c19Call
	if len(c.Script) == 0 {
		return nil, nil
	}
	if k < len(c.Script) {
		sc = &c.Script[k]
	} else {
		sc = &c.Script[len(c.Script)-1]
	}
	for _, f := range sc.pre {
		f(c)
	}
	var outs []*message.Message
	for _, o := range sc.outs {
		if o.self {
			outs = append(outs, msg)
			continue
		}
		m := message.NewMessage(o.uuid, []byte(o.payload))
		for k, v := range o.meta {
			m.Metadata.Set(k, v)
		}
		c.mu.Lock()
		c.fresh[m] = o.id
		c.mu.Unlock()
		outs = append(outs, m)
	}
	switch sc.Res.K {
	case "ret":
		return outs, nil
	case "fail":
		return outs, sc.err
	default:
		panic(sc.pv)
	}
}

// ---- decoding what came back

func (c *c19Case) decErr(e error) jv {
	if s, ok := c.errs[e]; ok {
		return s
	}
	if rp, ok := errors.Cause(e).(middleware.RecoveredPanicError); ok {
		if !strings.Contains(rp.Stacktrace, "goroutine") {
			return jv{"unk", c19In.ID("recovered-without-stack")}
		}
		return jv{"rec", c.decPV(rp.V)}
	}
	if e.Error() == "random fail occurred" {
		return jv{"base", c19In.ID(e.Error())}
	}
	return jv{"unk", c19In.ID("unknown error: " + fmt.Sprintf("%T", e))}
}

func (c *c19Case) decPV(v interface{}) jv {
	switch x := v.(type) {
	case nil:
		return jv{"none"}
	case string:
		return jv{"str", c19In.ID(x)}
	case *runtime.PanicNilError:
		return jv{"nil"}
	case error:
		return jv{"err", c.decErr(x)}
	}
	return jv{"str", c19In.ID(fmt.Sprintf("other %T", v))}
}

func (c *c19Case) decOuts(outs []*message.Message) []jv {
	res := []jv{}
	for _, m := range outs {
		if m == c.msg {
			res = append(res, jv{"self"})
			continue
		}
		c.mu.Lock()
		id, ok := c.fresh[m]
		c.mu.Unlock()
		if !ok {
			id = 999
		}
		res = append(res, jv{"msg", id, c19In.ID(m.UUID), c19In.ID(string(m.Payload)), c19Meta(nil, m.Metadata)})
	}
	return res
}

func (c *c19Case) invoke(h message.HandlerFunc) {
	var outs []*message.Message
	var err error
	var pv interface{}
	panicked := true
	c.mu.Lock()
	c.invStart = time.Now().UTC()
	c.mu.Unlock()
	func() {
		defer func() {
			if panicked {
				pv = recover()
			}
		}()
		outs, err = h(c.msg)
		panicked = false
	}()
	c.mu.Lock()
	inv := c19Inv{Trace: c.cur, After: c.view()}
	c.cur = nil
	c.mu.Unlock()
	if inv.Trace == nil {
		inv.Trace = []jv{}
	}
	switch {
	case panicked:
		inv.Res = c19Res{K: "panic", PV: c.decPV(pv), Outs: []jv{}}
	case err != nil:
		inv.Res = c19Res{K: "fail", Err: c.decErr(err), Outs: c.decOuts(outs)}
	default:
		inv.Res = c19Res{K: "ret", Outs: c.decOuts(outs)}
	}
	c.Invs = append(c.Invs, inv)
}

// ---- building the real chain

func (g *c19Group) build(mws []c19Mw) message.HandlerFunc {
	return g.buildOn(mws, g.handler)
}

func (g *c19Group) buildOn(mws []c19Mw, inner message.HandlerFunc) message.HandlerFunc {
	h := inner
	for i := len(mws) - 1; i >= 0; i-- {
		m := mws[i]
		switch m.K {
		case "timeout":
			h = middleware.Timeout(time.Duration(m.D))(h)
		case "corr":
			h = middleware.CorrelationID(h)
		case "rec":
			h = middleware.Recoverer(h)
		case "ign":
			var l []error
			for _, t := range m.L {
				l = append(l, errors.New(c19In.Tab[t]))
			}
			h = middleware.NewIgnoreErrors(l).Middleware(h)
		case "ack":
			h = middleware.InstantAck(h)
		case "thr":
			h = middleware.NewThrottle(1000, time.Second).Middleware(h)
		case "cb":
			h = middleware.NewCircuitBreaker(gobreaker.Settings{Name: "c19", ReadyToTrip: func(gobreaker.Counts) bool { return false }}).Middleware(h)
		case "delay":
			d := &middleware.DelayOnError{InitialInterval: time.Duration(m.Init), MaxInterval: time.Duration(m.Max), Multiplier: float64(m.Num) / float64(m.Den)}
			h = d.Middleware(h)
		case "dup":
			h = middleware.Duplicator(h)
		case "rfail":
			h = middleware.RandomFail(m.P)(h)
		case "rpanic":
			h = middleware.RandomPanic(m.P)(h)
		case "retry":
			r := middleware.Retry{MaxRetries: m.MaxR, InitialInterval: time.Millisecond, MaxInterval: time.Millisecond, Multiplier: 1,
				RandomizationFactor: 0, OnRetryHook: func(n int, _ time.Duration) {
					if c, ok := g.bygid.Load(c19gid()); ok {
						cc := c.(*c19Case)
						cc.mu.Lock()
						cc.cur = append(cc.cur, jv{"hook", n})
						cc.mu.Unlock()
					}
				}}
			h = r.Middleware(h)
		}
	}
	return h
}

// ---- generation

type c19Gen struct {
	r      *rand.Rand
	next   int
	forceK int
}

var c19Kinds = []string{"timeout", "corr", "rec", "ign", "ack", "thr", "cb", "delay", "retry"}
var c19ErrTexts = []string{"boom", "other", "ctx: boom", "std: boom", "deep: std: boom", "std2: ctx: boom"}

// multipliers as dyadic fractions (float64 arithmetic exact), DESIGN 4.4
var c19Mults = [][2]int64{{1, 1}, {3, 2}, {2, 1}, {9, 4}, {3, 1}, {5, 4}, {3, 2}, {7, 4}}
var c19Durs = []int64{0, 1, 3, int64(100 * time.Millisecond), int64(time.Second), int64(1500 * time.Millisecond), int64(7 * time.Second), 333333333}

func (g *c19Gen) mw(kind string) c19Mw {
	r := g.r
	m := c19Mw{K: kind}
	switch kind {
	case "timeout":
		m.D = int64(1+r.Intn(5)) * hourNs
	case "ign":
		n := r.Intn(3)
		for i := 0; i <= n; i++ {
			m.L = append(m.L, c19In.ID(c19ErrTexts[r.Intn(len(c19ErrTexts))]))
		}
	case "delay":
		mu := c19Mults[r.Intn(len(c19Mults))]
		m.Num, m.Den = mu[0], mu[1]
		m.Init = c19Durs[1+r.Intn(len(c19Durs)-1)]
		switch r.Intn(4) {
		case 0:
			m.Max = m.Init // never grows
		case 1:
			m.Max = m.Init * 2
		default:
			m.Max = m.Init*int64(2+r.Intn(40)) + int64(r.Intn(3))
		}
	case "retry":
		m.MaxR = r.Intn(5)
		if r.Intn(8) == 0 {
			m.MaxR = -1
		}
	}
	return m
}

func (g *c19Gen) chain() []c19Mw {
	r := g.r
	n := 1 + r.Intn(3)
	if r.Intn(12) == 0 {
		n = 0
	}
	var res []c19Mw
	hasRetry := false
	for i := 0; i < n; i++ {
		k := c19Kinds[r.Intn(len(c19Kinds))]
		if k == "retry" {
			if hasRetry {
				k = "timeout"
			}
			hasRetry = true
		}
		res = append(res, g.mw(k))
	}
	if r.Intn(10) == 0 { // nested Timeouts, the longer one outside: the shorter deadline must be the visible one
		in := g.mw("timeout")
		out := g.mw("timeout")
		out.D = in.D + int64(1+r.Intn(3))*hourNs
		mid := g.mw(c19Kinds[r.Intn(len(c19Kinds)-1)])
		if r.Intn(2) == 0 {
			return []c19Mw{out, in}
		}
		return []c19Mw{out, mid, in}
	}
	if r.Intn(6) == 0 && !hasRetry { // the compositions the property names: Retry around the chain
		res = append([]c19Mw{g.mw("retry")}, res...)
		if len(res) > 3 {
			res = res[:3]
		}
	}
	return res
}

// error trees over the texts above; returns the Go error and its spec
func (g *c19Gen) err(c *c19Case) (error, jv) {
	r := g.r
	base := errors.New([]string{"boom", "other"}[r.Intn(2)])
	var e error = base
	spec := jv{"base", c19In.ID(base.Error())}
	c.errs[e] = spec
	for d := r.Intn(3); d > 0; d-- {
		if r.Intn(2) == 0 {
			e = errors.Wrap(e, []string{"ctx", "deep"}[r.Intn(2)])
			spec = jv{"wc", c19In.ID(e.Error()), spec}
		} else {
			e = fmt.Errorf("%s: %w", []string{"std", "std2"}[r.Intn(2)], e)
			spec = jv{"ws", c19In.ID(e.Error()), spec}
		}
		c.errs[e] = spec
	}
	return e, spec
}

func (g *c19Gen) outs(c *c19Case, sc *c19Call) {
	r := g.r
	n := []int{0, 0, 1, 1, 2, 3}[r.Intn(6)]
	sc.Res.Outs = []jv{}
	for i := 0; i < n; i++ {
		if r.Intn(7) == 0 {
			sc.outs = append(sc.outs, c19OutSpec{self: true})
			sc.Res.Outs = append(sc.Res.Outs, jv{"self"})
			continue
		}
		g.next++
		o := c19OutSpec{id: g.next, uuid: fmt.Sprintf("out-%d", g.next), payload: fmt.Sprintf("payload %d", r.Intn(3)), meta: map[string]string{}}
		switch r.Intn(3) {
		case 0:
			o.meta[middleware.CorrelationIDMetadataKey] = fmt.Sprintf("own-%d", r.Intn(2))
		case 1:
			if r.Intn(3) == 0 {
				o.meta[middleware.CorrelationIDMetadataKey] = "" // present but empty
			}
		}
		if r.Intn(2) == 0 {
			o.meta["k1"] = fmt.Sprintf("v%d", r.Intn(3))
		}
		if r.Intn(4) == 0 {
			o.meta[delay.DelayedForKey] = "9s"
		}
		sc.outs = append(sc.outs, o)
		sc.Res.Outs = append(sc.Res.Outs, jv{"msg", o.id, c19In.ID(o.uuid), c19In.ID(o.payload), c19Meta(nil, message.Metadata(o.meta))})
	}
}

func (g *c19Gen) call(c *c19Case, kind int) c19Call {
	r := g.r
	sc := c19Call{Pre: []jv{}}
	for n := []int{0, 0, 0, 1, 1, 2}[r.Intn(6)]; n > 0; n-- {
		switch r.Intn(9) {
		case 0, 1:
			sc.Pre = append(sc.Pre, jv{"ack"})
			sc.pre = append(sc.pre, func(c *c19Case) { c.msg.Ack() })
		case 2, 3:
			sc.Pre = append(sc.Pre, jv{"nack"})
			sc.pre = append(sc.pre, func(c *c19Case) { c.msg.Nack() })
		case 4:
			sc.Pre = append(sc.Pre, jv{"cancel"})
			sc.pre = append(sc.pre, func(c *c19Case) { c.cancel() })
		case 5:
			k, v := delay.DelayedForKey, []string{"2s", "bad", "40ms"}[r.Intn(3)]
			sc.Pre = append(sc.Pre, jv{"set", c19In.ID(k), c19Val(k, v)})
			sc.pre = append(sc.pre, func(c *c19Case) { c.msg.Metadata.Set(k, v) })
		case 6:
			k, v := middleware.CorrelationIDMetadataKey, []string{"late-corr", ""}[r.Intn(2)]
			sc.Pre = append(sc.Pre, jv{"set", c19In.ID(k), c19Val(k, v)})
			sc.pre = append(sc.pre, func(c *c19Case) { c.msg.Metadata.Set(k, v) })
		default:
			k, v := []string{"k1", "k2"}[r.Intn(2)], fmt.Sprintf("w%d", r.Intn(3))
			sc.Pre = append(sc.Pre, jv{"set", c19In.ID(k), c19Val(k, v)})
			sc.pre = append(sc.pre, func(c *c19Case) { c.msg.Metadata.Set(k, v) })
		}
	}
	if kind < 0 {
		kind = []int{0, 0, 0, 1, 1, 1, 1, 1, 2, 2}[r.Intn(10)]
	}
	switch kind {
	case 0:
		sc.Res.K = "ret"
		g.outs(c, &sc)
	case 1:
		sc.Res.K = "fail"
		g.outs(c, &sc)
		sc.err, sc.Res.Err = g.err(c)
	default:
		sc.Res.K = "panic"
		sc.Res.Outs = []jv{}
		switch r.Intn(4) {
		case 0:
			s := fmt.Sprintf("panic text %d", r.Intn(2))
			sc.pv, sc.Res.PV = s, jv{"str", c19In.ID(s)}
		case 1:
			e, spec := g.err(c)
			sc.pv, sc.Res.PV = e, jv{"err", spec}
		case 2:
			sc.pv, sc.Res.PV = nil, jv{"nil"}
		default:
			s := "boom" // a panic whose text equals a listed error text
			sc.pv, sc.Res.PV = s, jv{"str", c19In.ID(s)}
		}
	}
	return sc
}

func (g *c19Gen) newCase(grp *c19Group, gi, flight int, mws []c19Mw, focusDelay bool) *c19Case {
	r := g.r
	g.next++
	c := &c19Case{Group: gi, Flight: flight, Mws: mws, errs: map[error]jv{}, fresh: map[*message.Message]int{}, g: grp, until: map[string][2]int64{}, invStart: time.Now().UTC(),
		uuid: fmt.Sprintf("in-%d", g.next)}
	c.msg = message.NewMessage(c.uuid, []byte("consumed"))
	c.base, c.cancel = context.WithCancel(context.Background())
	if r.Intn(6) == 0 { // the message arrives with a deadline already on its context (whole hours, like the Timeouts)
		var c2 context.CancelFunc
		c.base, c2 = context.WithTimeout(c.base, time.Duration(1+r.Intn(7))*time.Hour)
		_ = c2 // released through the parent's cancel
	}
	c.msg.SetContext(c.base)
	switch r.Intn(3) {
	case 0:
		c.msg.Metadata.Set(middleware.CorrelationIDMetadataKey, fmt.Sprintf("corr-%d", r.Intn(3)))
	case 1:
		if r.Intn(3) == 0 {
			c.msg.Metadata.Set(middleware.CorrelationIDMetadataKey, "")
		}
	}
	if r.Intn(2) == 0 {
		c.msg.Metadata.Set("k2", "init")
	}
	switch r.Intn(8) {
	case 0:
		c.msg.Metadata.Set(delay.DelayedForKey, "1s")
	case 1:
		c.msg.Metadata.Set(delay.DelayedForKey, "abc")
	case 2:
		c.msg.Metadata.Set(delay.DelayedForKey, []string{"0s", "250ms", "1h", "-1s"}[r.Intn(4)])
	}
	if r.Intn(10) == 0 {
		c.cancel() // the message arrives with a dead context
	}
	if r.Intn(12) == 0 {
		if r.Intn(2) == 0 {
			c.msg.Ack()
		} else {
			c.msg.Nack()
		}
	}
	c.Init = c.view()
	if focusDelay { // k consecutive failures, then a success, then whatever
		k := 1 + r.Intn(6)
		if g.forceK > 0 {
			k = g.forceK
		}
		for i := 0; i < k; i++ {
			c.Script = append(c.Script, g.call(c, 1))
		}
		c.Script = append(c.Script, g.call(c, 0))
		c.NInv = k + 1 + r.Intn(2)
	} else {
		n := 1 + r.Intn(4)
		for i := 0; i < n; i++ {
			c.Script = append(c.Script, g.call(c, -1))
		}
		c.NInv = 1 + r.Intn(3)
	}
	return c
}

func c19RunGroup(g *c19Gen, gi int, mws []c19Mw, flight int, focusDelay bool) []*c19Case {
	grp := &c19Group{cases: map[string]*c19Case{}, want: flight, rel: make(chan struct{})}
	var cases []*c19Case
	for i := 0; i < flight; i++ {
		c := g.newCase(grp, gi, flight, mws, focusDelay)
		grp.cases[c.uuid] = c
		cases = append(cases, c)
	}
	h := grp.build(mws)
	var wg sync.WaitGroup
	for _, c := range cases {
		wg.Add(1)
		go func(c *c19Case) {
			defer wg.Done()
			id := c19gid()
			grp.bygid.Store(id, c)
			for i := 0; i < c.NInv; i++ {
				c.invoke(h)
			}
		}(c)
	}
	wg.Wait()
	for _, c := range cases {
		c.cancel()
	}
	return cases
}

// ---- Throttle: handler start times through one value

type c19Thr struct {
	Count    int64     `json:"count"`
	Duration int64     `json:"duration"`
	Workers  int       `json:"workers"`
	Mode     string    `json:"mode"`   // contexts of the messages: alive | done | mixed
	Kinds    [][]int   `json:"kinds"`  // per worker, per call: 0 alive, 1 already cancelled, 2 cancelled during the wait,
	// 3 deadline expires during the wait, 4 deadline already passed
	DoneSeen [][]bool  `json:"done_seen"` // msg.Context().Err() != nil when the handler started
	Starts   [][]int64 `json:"starts"`    // per worker, in call order
	First    int64     `json:"first"`     // before the first call entered the middleware
	Last     int64     `json:"last"`      // the latest recorded start
	N        int       `json:"n"`
	Want     int       `json:"want"` // calls made = handler starts expected
}

// Handler start times through ONE Throttle value; the messages come with live, already ended and
// ending-while-waiting contexts (the rate is a property of the handler starts whatever the message context is).
func c19Throttle(r *rand.Rand, count int64, dur time.Duration, workers, n int, mode string) c19Thr {
	period := dur / time.Duration(count)
	per := n / workers
	res := c19Thr{Count: count, Duration: int64(dur), Workers: workers, Mode: mode, Starts: make([][]int64, workers),
		Kinds: make([][]int, workers), DoneSeen: make([][]bool, workers), Want: per * workers}
	for w := 0; w < workers; w++ {
		for i := 0; i < per; i++ {
			k := 0
			switch mode {
			case "done":
				k = []int{1, 1, 4, 2, 3}[r.Intn(5)]
			case "mixed":
				k = []int{0, 0, 0, 1, 1, 2, 3, 4}[r.Intn(8)]
			}
			res.Kinds[w] = append(res.Kinds[w], k)
		}
	}
	t := middleware.NewThrottle(count, dur)
	t0 := time.Now()
	var mu sync.Mutex
	mk := func(w int) message.HandlerFunc {
		return t.Middleware(func(msg *message.Message) ([]*message.Message, error) {
			d := int64(time.Since(t0))
			done := msg.Context().Err() != nil
			mu.Lock()
			res.Starts[w] = append(res.Starts[w], d)
			res.DoneSeen[w] = append(res.DoneSeen[w], done)
			if d > res.Last {
				res.Last = d
			}
			res.N++
			mu.Unlock()
			return nil, nil
		})
	}
	var wg sync.WaitGroup
	res.First = int64(time.Since(t0))
	for w := 0; w < workers; w++ {
		wg.Add(1)
		h := mk(w)
		kinds := res.Kinds[w]
		go func() {
			defer wg.Done()
			for _, k := range kinds {
				msg := message.NewMessage("t", nil)
				ctx, cancel := context.WithCancel(context.Background())
				switch k {
				case 1:
					cancel()
				case 2:
					tm := time.AfterFunc(period/3, cancel)
					defer tm.Stop()
				case 3:
					var c2 context.CancelFunc
					ctx, c2 = context.WithTimeout(ctx, period/3)
					defer c2()
				case 4:
					var c2 context.CancelFunc
					ctx, c2 = context.WithDeadline(ctx, time.Now().Add(-time.Second))
					defer c2()
				}
				msg.SetContext(ctx)
				_, _ = h(msg)
				cancel()
			}
		}()
	}
	wg.Wait()
	return res
}

// ---- a deadline visible during the call: the handler blocks on Done() under small Timeouts

type c19DL struct {
	Mws         []c19Mw `json:"mws"`
	DMin        int64   `json:"dmin"`  // the shortest Timeout of the chain
	Dones       []int64 `json:"dones"` // per attempt: when the handler saw Done(), since just before the chain was called
	Want        int     `json:"want"`  // attempts expected
	DeadlineOK  []bool  `json:"deadline_ok"`  // Deadline() present and no later than (handler entry + shortest timeout)
	ErrDeadline []bool  `json:"err_deadline"` // Err() == context.DeadlineExceeded once Done() fired
	NeverDone   bool    `json:"never_done"`   // Done() did not fire within 20 s
	Restored    bool    `json:"restored"`     // afterwards msg.Context() is the original object and alive
}

func c19Deadline(g *c19Gen) c19DL {
	r := g.r
	small := []int64{8, 15, 25, 40}
	var mws []c19Mw
	n := 1 + r.Intn(3)
	pos := r.Intn(n)
	for i := 0; i < n; i++ {
		k := []string{"timeout", "corr", "rec", "ack", "cb", "thr", "delay", "ign"}[r.Intn(8)]
		if i == pos {
			k = "timeout"
		}
		m := g.mw(k)
		if k == "timeout" {
			m.D = small[r.Intn(len(small))] * int64(time.Millisecond)
		}
		mws = append(mws, m)
	}
	res := c19DL{Want: 1}
	for _, m := range mws {
		if m.K == "timeout" && (res.DMin == 0 || m.D < res.DMin) {
			res.DMin = m.D
		}
	}
	if r.Intn(2) == 0 {
		rt := c19Mw{K: "retry", MaxR: 1 + r.Intn(2)}
		mws = append([]c19Mw{rt}, mws...)
		res.Want = 1 + rt.MaxR
	}
	res.Mws = mws
	var t0 time.Time
	grp := &c19Group{cases: map[string]*c19Case{}}
	h := grp.buildOn(mws, func(msg *message.Message) ([]*message.Message, error) {
		ctx := msg.Context()
		dl, ok := ctx.Deadline()
		res.DeadlineOK = append(res.DeadlineOK, ok && !dl.After(time.Now().Add(time.Duration(res.DMin))))
		select {
		case <-ctx.Done():
		case <-time.After(20 * time.Second):
			res.NeverDone = true
		}
		res.Dones = append(res.Dones, int64(time.Since(t0)))
		res.ErrDeadline = append(res.ErrDeadline, ctx.Err() == context.DeadlineExceeded)
		return nil, errors.New("blocked until the deadline")
	})
	msg := message.NewMessage("dl", nil)
	base, cancel := context.WithCancel(context.Background())
	defer cancel()
	msg.SetContext(base)
	t0 = time.Now()
	_, _ = h(msg)
	res.Restored = msg.Context() == base && msg.Context().Err() == nil
	return res
}

// ---- Duplicator / RandomFail / RandomPanic between two chains of simple middlewares

type c19X struct {
	K    string  `json:"k"` // dup rfail rpanic
	P    float32 `json:"p"`
	Pre  []c19Mw `json:"pre"`
	Post []c19Mw `json:"post"`
	Hits []bool  `json:"hits"` // per invocation: rand.Float32() <= p (math/rand seeded per invocation, mirrored)
}

func c19RunExtra(g *c19Gen, gi int) *c19Case {
	r := g.r
	simple := []string{"timeout", "corr", "rec", "ign", "ack", "thr", "cb", "delay"}
	x := &c19X{K: []string{"dup", "dup", "rfail", "rpanic"}[r.Intn(4)], P: []float32{0, 0.25, 0.5, 0.75, 1}[r.Intn(5)], Pre: []c19Mw{}, Post: []c19Mw{}}
	for n := r.Intn(3); n > 0; n-- {
		x.Pre = append(x.Pre, g.mw(simple[r.Intn(len(simple))]))
	}
	for n := r.Intn(3); n > 0; n-- {
		x.Post = append(x.Post, g.mw(simple[r.Intn(len(simple))]))
	}
	mws := append(append(append([]c19Mw{}, x.Pre...), c19Mw{K: x.K, P: x.P}), x.Post...)
	grp := &c19Group{cases: map[string]*c19Case{}, want: 1, rel: make(chan struct{})}
	c := g.newCase(grp, gi, 1, mws, false)
	c.X = x
	grp.cases[c.uuid] = c
	h := grp.build(mws)
	for i := 0; i < c.NInv; i++ {
		k := r.Int63()
		rand.Seed(k) //nolint:staticcheck // the middleware draws from the global source
		hit := false
		if x.K != "dup" {
			hit = rand.New(rand.NewSource(k)).Float32() <= x.P
		}
		x.Hits = append(x.Hits, hit)
		c.invoke(h)
	}
	c.cancel()
	return c
}

func runC19(args []string) error {
	fs, out, seed := newFlags("c19")
	n := fs.Int("n", 500, "number of groups")
	thr := fs.Int("thr", 5, "number of Throttle timing scenarios")
	nx := fs.Int("extra", 160, "number of Duplicator / RandomFail / RandomPanic cases")
	ndl := fs.Int("dl", 6, "number of blocking-handler deadline scenarios")
	witness := fs.Bool("witness", false, "prepend the D2/D3 witnesses")
	_ = fs.Parse(args)
	c19In = script.NewInterner()
	c19In.ID(middleware.CorrelationIDMetadataKey) // 1
	c19In.ID(delay.DelayedForKey)                 // 2
	c19In.ID(delay.DelayedUntilKey)               // 3
	for _, t := range c19ErrTexts {
		c19In.ID(t)
	}
	c19In.ID("random fail occurred")  // 10 = Simple/Extra.v T_RFAIL
	c19In.ID("random panic occurred") // 11 = T_RPANIC
	g := &c19Gen{r: rand.New(rand.NewSource(*seed))}
	var all []*c19Case
	gi := 0
	if *witness {
		g.forceK = 4
		// D3: Retry(Timeout(h)), h always fails; D2: DelayOnError with multiplier 1.5, three failures
		all = append(all, c19RunGroup(g, gi, []c19Mw{{K: "retry", MaxR: 3}, {K: "timeout", D: hourNs}}, 1, true)...)
		gi++
		all = append(all, c19RunGroup(g, gi, []c19Mw{{K: "delay", Init: int64(100 * time.Millisecond), Max: int64(10 * time.Second), Num: 3, Den: 2}}, 1, true)...)
		gi++
		g.forceK = 0
	}
	for i := 0; i < *n; i++ {
		mws := g.chain()
		focus := false
		if g.r.Intn(5) == 0 { // DelayOnError somewhere, failure runs
			focus = true
			d := g.mw("delay")
			switch g.r.Intn(3) {
			case 0:
				mws = []c19Mw{d}
			case 1:
				mws = append(mws, d)
			default:
				mws = append([]c19Mw{d}, mws...)
			}
			if len(mws) > 3 {
				mws = mws[:3]
			}
		}
		flight := []int{1, 1, 1, 2, 4}[g.r.Intn(5)]
		all = append(all, c19RunGroup(g, gi, mws, flight, focus)...)
		gi++
	}
	var thrs []c19Thr
	cfgs := [][3]int64{{100, int64(time.Second), 1}, {50, int64(time.Second), 4}, {3, int64(50 * time.Millisecond), 3}, {200, int64(time.Second), 2}}
	for i := 0; i < *thr; i++ {
		c := cfgs[(i+int(*seed))%len(cfgs)]
		mode := []string{"mixed", "done", "alive", "mixed", "done", "mixed"}[i%6]
		thrs = append(thrs, c19Throttle(g.r, c[0], time.Duration(c[1]), int(c[2]), 12, mode))
	}
	var dls []c19DL
	for i := 0; i < *ndl; i++ {
		dls = append(dls, c19Deadline(g))
	}
	var extra []*c19Case
	for i := 0; i < *nx; i++ {
		extra = append(extra, c19RunExtra(g, gi))
		gi++
	}
	return writeJSON(*out, map[string]interface{}{"cases": all, "extra": extra, "throttle": thrs, "deadline": dls, "strings": c19In.Tab})
}

func init() { register("c19", runC19) }
