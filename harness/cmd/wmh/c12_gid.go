//go:build verif

package main

import (
	"bytes"
	"runtime"
	"strconv"
)

// goroutineID parses the id of the calling goroutine out of its stack header.
func goroutineID() int64 {
	var buf [64]byte
	n := runtime.Stack(buf[:], false)
	b := bytes.TrimPrefix(buf[:n], []byte("goroutine "))
	i := bytes.IndexByte(b, ' ')
	if i < 0 {
		return -1
	}
	id, _ := strconv.ParseInt(string(b[:i]), 10, 64)
	return id
}
