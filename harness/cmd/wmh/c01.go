//go:build verif

package main

// C01 — end-to-end at-least-once through Router pipelines under faults.
//
// REAL message.Router(s) (one router with k handlers, or k routers) over REAL GoChannel
// topics t0 -> h0 -> t1 -> ... -> h(k-1) -> tk, a plain subscription on tk as the sink.
// Every handler is wrapped by a fault-injecting handler and every handler publisher by a
// fault-injecting publisher, both driven by the same script the Coq model gets: the fault at
// call number n of stage s is none / handler error / handler panic / publish failure after
// forwarding the first j outputs (error or panic).  Recorded per delivery attempt (= per
// handler invocation): stage, call number, the message as the handler saw it (lineage and
// path from the METADATA of the delivered copy), the Router-level events (call, publish with
// the settlement of the consumed copy sampled inside Publish, publish return, settle), what
// the next topic accepted, the final settlement; plus every arrival at the sink.

import (
	"context"
	"errors"
	"fmt"
	"math/rand"
	"runtime"
	"strconv"
	"strings"
	"sync"
	"sync/atomic"
	"time"

	"github.com/ThreeDotsLabs/watermill"
	"github.com/ThreeDotsLabs/watermill/message"
	"github.com/ThreeDotsLabs/watermill/pubsub/gochannel"

	"wmverif/hookrt"
	"wmverif/script"
)

type c01Msg struct {
	Lin  int   `json:"lin"`
	Path []int `json:"path"`
}

// fault kinds: 0 none, 1 handler error, 2 handler panic, 3 publish error after J, 4 publish panic after J
type c01Fault struct {
	Kind int `json:"kind"`
	J    int `json:"j"`
}

type c01Delivery struct {
	Seq    int             `json:"seq"` // global order of handler entry
	Stage  int             `json:"stage"`
	Call   int             `json:"call"`
	Msg    c01Msg          `json:"msg"`
	Fault  c01Fault        `json:"fault"`
	Events [][]interface{} `json:"events"`
	Fwd    []c01Msg        `json:"fwd"`
	Final  int             `json:"final"` // 0 unsettled, 1 acked, 2 nacked
	// the context of the delivered copy was live at handler entry; when it is not, the
	// (context-aware) handler fails with the context's error whatever the script says
	CtxLive bool `json:"ctx_live"`
	// which Router the stage's handler lives on, the handler's name, and the ids of the middlewares
	// that were entered for this call, outermost first
	Router int    `json:"router"`
	HName  string `json:"hname"`
	Mws    []int  `json:"mws"`

	mu   sync.Mutex
	copy *message.Message
}

func (d *c01Delivery) rec(ev ...interface{}) {
	d.mu.Lock()
	d.Events = append(d.Events, ev)
	d.mu.Unlock()
}

type c01Case struct {
	ID         int          `json:"id"`
	K          int          `json:"k"`
	Fans       [][]int      `json:"fans"`   // per stage: fan-out by lineage mod len
	Script     [][]c01Fault `json:"script"` // per stage, per call number
	NSrc       int          `json:"nsrc"`
	FailSrc    []int        `json:"failsrc"` // lineages whose source Publish fails (never really published)
	Publishers int          `json:"publishers"`
	Early      int          `json:"early"` // persistent only: this many sources are published before the routers start
	Persistent bool         `json:"persistent"`
	Buffer     int          `json:"buffer"`
	Blocking   bool         `json:"blocking"`
	OneRouter  bool         `json:"one_router"`
	SharedPS   bool         `json:"shared_pubsub"` // one GoChannel for all topics / one per topic
	Perturb    bool         `json:"perturb"`
	PanicVal   int          `json:"panicval"` // 0 string, 1 error, 2 nil
	Kind       string       `json:"kind"`
	SameUUID   bool         `json:"same_uuid"` // every message carries the same (empty) UUID: UUIDs need not be unique
	CtxErr     bool         `json:"ctx_err"`   // a failing handler leaves a cancelled derived context on its copy
	// a second, unrelated subscription on pipeline topic Bystander (-1: none) of the same GoChannel:
	// it Nacks its first message once, Acks the rest and cancels itself after BystanderCancel
	// receives, in the middle of the run - its redeliveries, cancel and teardown must not disturb
	// the stage's own subscription (C01_gochannel_refines_topic_step: steps of other subscriptions
	// are stutters).  Not in blocking mode (that would be D9).
	// bystander HANDLERS on the pipeline's Router(s): 0 none, 1 one handler registered under the
	// EMPTY name, 2 that one and a named one; each is subscribed to a topic of its own and carries
	// handler-level middlewares of its own (one swallows errors, one Acks before the handler runs);
	// ByFirst: they are registered before the stages.  Regs = every middleware registration of every
	// Router in registration order.
	Bystanders int            `json:"bystanders"`
	ByFirst    bool           `json:"by_first"`
	Regs       [][]c01MwReg   `json:"regs"`
	Bystander       int `json:"bystander"`
	BystanderCancel int `json:"bystander_cancel"`
	BystanderGot    int `json:"bystander_got"`

	Srcs   []int          `json:"srcs"` // lineages whose source Publish returned nil
	Log    []*c01Delivery `json:"log"`
	Sink   []c01Msg       `json:"sink"`
	Quiet  bool           `json:"quiet"`
	NotRun bool           `json:"not_run"`
	Notes  []string       `json:"notes"`
	Dump   string         `json:"dump,omitempty"` // goroutine dump taken when the case stalled
	// source publishes made on the pipeline's own topic-0 GoChannel after it had been closed with
	// messages still in flight downstream
	LateOnClosed int `json:"late_on_closed"`

	mu       sync.Mutex
	calls    []int
	accepted []int // per topic: publications accepted (counted from just before the real Publish call)
	acked    []int // per stage: deliveries acked
	srcOpen  int
	lastEv   time.Time
	lastTick int64 // value of c01Ticks at the last event
	mwSeen   map[*message.Message][]int // middleware ids entered for a copy, before its handler ran
	stRouter []int
	stName   []string
	deadCtx  int   // deliveries that arrived with a dead context
	aborted  bool  // too many of them: the fault never stops, the case is given up
	done     chan struct{}
	wg       sync.WaitGroup
}

type c01MwReg struct {
	RouterLevel bool   `json:"router_level"`
	HName       string `json:"hname"`
	ID          int    `json:"id"`
}

type c01Key struct{}

// fan-out value that marks a passthrough handler (returns the consumed message object itself)
const c01Passthrough = 9

func c01Name(m c01Msg) string {
	parts := make([]string, len(m.Path))
	for i, p := range m.Path {
		parts[i] = strconv.Itoa(p)
	}
	return fmt.Sprintf("L%d/%s", m.Lin, strings.Join(parts, "."))
}

// set per case (cases run one after the other)
var c01SameUUID bool

func c01Make(m c01Msg) *message.Message {
	name := c01Name(m)
	msg := message.NewMessage(name, []byte("payload of "+name))
	if c01SameUUID {
		msg.UUID = ""
	}
	msg.Metadata.Set("lin", strconv.Itoa(m.Lin))
	parts := make([]string, len(m.Path))
	for i, p := range m.Path {
		parts[i] = strconv.Itoa(p)
	}
	msg.Metadata.Set("path", strings.Join(parts, "."))
	return msg
}

// c01Read reconstructs (lineage, path) from the metadata of a received copy; anything
// inconsistent (UUID / payload / metadata disagree, extra keys) yields a lineage >= 100000.
func c01Read(msg *message.Message) c01Msg {
	bad := c01Msg{Lin: 100000, Path: []int{}}
	lin, err := strconv.Atoi(msg.Metadata.Get("lin"))
	if err != nil {
		return bad
	}
	m := c01Msg{Lin: lin, Path: []int{}}
	if p := msg.Metadata.Get("path"); p != "" {
		for _, x := range strings.Split(p, ".") {
			v, err := strconv.Atoi(x)
			if err != nil {
				return bad
			}
			m.Path = append(m.Path, v)
		}
	}
	name := c01Name(m)
	if (msg.UUID != name && !(c01SameUUID && msg.UUID == "")) || string(msg.Payload) != "payload of "+name || len(msg.Metadata) != 2 {
		m.Lin += 100000
	}
	return m
}

// c01Ticks is advanced every millisecond by a probe goroutine.  Idle time is measured in
// probe ticks AND wall-clock: when the whole process is starved or the VM is paused the ticks
// stop as well, so a frozen machine is never mistaken for a stuck pipeline.
var c01Ticks int64

func (c *c01Case) touch() { c.lastEv = time.Now(); c.lastTick = atomic.LoadInt64(&c01Ticks) }

// c01Wait waits until ch is closed/readable or ms milliseconds of PROBE time have passed
// (a starved process or a paused VM does not consume the budget); true = ch fired.
func c01Wait(ch <-chan struct{}, ms int64) bool {
	start := atomic.LoadInt64(&c01Ticks)
	for {
		select {
		case <-ch:
			return true
		case <-time.After(5 * time.Millisecond):
			if atomic.LoadInt64(&c01Ticks)-start > ms {
				return false
			}
		}
	}
}

func (c *c01Case) note(s string) {
	c.mu.Lock()
	c.Notes = append(c.Notes, s)
	c.mu.Unlock()
}

func (c *c01Case) fan(stage, lin int) int {
	if stage >= len(c.Fans) || len(c.Fans[stage]) == 0 {
		return 1
	}
	row := c.Fans[stage]
	return row[lin%len(row)]
}

func (c *c01Case) noteMw(msg *message.Message, id int) {
	c.mu.Lock()
	c.mwSeen[msg] = append(c.mwSeen[msg], id)
	c.mu.Unlock()
}

// a middleware that only records that it ran
func (c *c01Case) mwRecord(id int) message.HandlerMiddleware {
	return func(h message.HandlerFunc) message.HandlerFunc {
		return func(msg *message.Message) ([]*message.Message, error) {
			c.noteMw(msg, id)
			return h(msg)
		}
	}
}

// a best-effort middleware: the owning handler's errors are swallowed
func (c *c01Case) mwSwallow(id int) message.HandlerMiddleware {
	return func(h message.HandlerFunc) message.HandlerFunc {
		return func(msg *message.Message) ([]*message.Message, error) {
			c.noteMw(msg, id)
			outs, err := h(msg)
			if err != nil {
				return nil, nil
			}
			return outs, nil
		}
	}
}

// an instant-ack middleware: the owning handler's messages are Acked before it runs
func (c *c01Case) mwInstantAck(id int) message.HandlerMiddleware {
	return func(h message.HandlerFunc) message.HandlerFunc {
		return func(msg *message.Message) ([]*message.Message, error) {
			c.noteMw(msg, id)
			msg.Ack()
			return h(msg)
		}
	}
}

func (c *c01Case) handler(stage int) message.HandlerFunc {
	return func(msg *message.Message) ([]*message.Message, error) {
		// every handler is context-aware, as handlers with I/O or a Timeout middleware are: with
		// an already-done context it fails with the context's error
		ctxErr := msg.Context().Err()
		c.mu.Lock()
		if c.aborted {
			c.mu.Unlock()
			return nil, errors.New("case given up")
		}
		if ctxErr != nil {
			c.deadCtx++
			if c.deadCtx >= 25 {
				c.aborted = true
			}
		}
		call := c.calls[stage]
		c.calls[stage]++
		d := &c01Delivery{Seq: len(c.Log), Stage: stage, Call: call, copy: msg, Fwd: []c01Msg{}, CtxLive: ctxErr == nil,
			Router: c.stRouter[stage], HName: c.stName[stage], Mws: append([]int{}, c.mwSeen[msg]...)}
		delete(c.mwSeen, msg)
		if call < len(c.Script[stage]) {
			d.Fault = c.Script[stage][call]
		}
		if ctxErr != nil {
			d.Fault = c01Fault{Kind: 1}
		}
		c.Log = append(c.Log, d)
		c.touch()
		c.mu.Unlock()
		d.Msg = c01Read(msg)
		d.rec("call")
		// the final settlement of this copy
		c.wg.Add(1)
		go func() {
			defer c.wg.Done()
			select {
			case <-msg.Acked():
				d.rec("settle", true)
				c.mu.Lock()
				d.Final = 1
				c.acked[stage]++
				c.touch()
				c.mu.Unlock()
			case <-msg.Nacked():
				d.rec("settle", false)
				c.mu.Lock()
				d.Final = 2
				c.touch()
				c.mu.Unlock()
			case <-c.done:
			}
		}()
		if ctxErr != nil {
			return nil, fmt.Errorf("context-aware work: %w", ctxErr)
		}
		fan := c.fan(stage, d.Msg.Lin%100000)
		var outs []*message.Message
		if fan == c01Passthrough {
			// a passthrough handler: returns the CONSUMED object itself (same UUID, payload, metadata;
			// the Router publishes the very object it is about to Ack)
			msg.SetContext(context.WithValue(msg.Context(), c01Key{}, d))
			outs = []*message.Message{msg}
			fan = 0
		} else {
			// a handler may do what it likes with ITS copy: the next attempt must not see it
			msg.Metadata.Set("lin", "77777")
			msg.Metadata.Set("path", "9.9.9")
			msg.Metadata.Set("attempt", strconv.Itoa(call))
		}
		for j := 0; j < fan; j++ {
			o := c01Make(c01Msg{Lin: d.Msg.Lin, Path: append(append([]int{}, d.Msg.Path...), j)})
			o.SetContext(context.WithValue(context.Background(), c01Key{}, d))
			outs = append(outs, o)
		}
		switch d.Fault.Kind {
		case 1:
			if c.CtxErr {
				// what a timeout-style handler does: a derived context, cancelled on the way out
				ctx, cancel := context.WithCancel(msg.Context())
				msg.SetContext(ctx)
				cancel()
			}
			return outs, errors.New("scripted handler error")
		case 2:
			switch c.PanicVal {
			case 0:
				panic("scripted handler panic")
			case 1:
				panic(errors.New("scripted handler panic (error)"))
			default:
				panic(nil)
			}
		}
		return outs, nil
	}
}

type c01Publisher struct {
	c     *c01Case
	stage int
	real  message.Publisher
	topic string
}

func (p *c01Publisher) Close() error { return nil }

func (p *c01Publisher) forward(d *c01Delivery, msgs []*message.Message) bool {
	if len(msgs) == 0 {
		return true
	}
	c := p.c
	c.mu.Lock()
	c.accepted[p.stage+1] += len(msgs)
	c.touch()
	c.mu.Unlock()
	// strip the harness' context value: what travels is the message, not the context
	for _, m := range msgs {
		if m != d.copy { // (a passthrough output IS the consumed copy: its context stays)
			m.SetContext(context.Background())
		}
	}
	if err := p.real.Publish(p.topic, msgs...); err != nil {
		c.mu.Lock()
		c.accepted[p.stage+1] -= len(msgs)
		c.mu.Unlock()
		d.rec("reject", err.Error())
		return false
	}
	d.mu.Lock()
	for _, m := range msgs {
		d.Fwd = append(d.Fwd, c01Read(m))
	}
	d.mu.Unlock()
	return true
}

func (p *c01Publisher) Publish(topic string, msgs ...*message.Message) error {
	var d *c01Delivery
	if len(msgs) > 0 {
		d, _ = msgs[0].Context().Value(c01Key{}).(*c01Delivery)
	}
	if d == nil {
		p.c.mu.Lock()
		p.c.Notes = append(p.c.Notes, fmt.Sprintf("stage %d: Publish with %d messages that no handler call produced", p.stage, len(msgs)))
		p.c.mu.Unlock()
		return errors.New("unattributed publish")
	}
	ids := make([]c01Msg, len(msgs))
	for i, m := range msgs {
		ids[i] = c01Read(m)
	}
	if topic != p.topic {
		ids = append(ids, c01Msg{Lin: 200000})
	}
	d.rec("publish", ids, script.Settlement(d.copy))
	switch d.Fault.Kind {
	case 3, 4:
		j := d.Fault.J
		if j > len(msgs) {
			j = len(msgs)
		}
		p.forward(d, msgs[:j])
		if d.Fault.Kind == 3 {
			d.rec("pubret", false)
			return errors.New("scripted publish error")
		}
		d.rec("pubpanic")
		panic("scripted publisher panic")
	}
	if !p.forward(d, msgs) {
		d.rec("pubret", false)
		return errors.New("next topic rejected the messages")
	}
	d.rec("pubret", true)
	return nil
}

func (c *c01Case) quiescent() bool {
	if c.srcOpen != 0 {
		return false
	}
	for t := 0; t < c.K; t++ {
		if c.accepted[t] != c.acked[t] {
			return false
		}
	}
	return len(c.Sink) == c.accepted[c.K]
}

func c01Run(rt *hookrt.Runtime, c *c01Case, stall time.Duration) {
	c.mwSeen = map[*message.Message][]int{}
	c.stRouter = make([]int, c.K)
	c.stName = make([]string, c.K)
	c.Regs = nil
	c.calls = make([]int, c.K)
	c.accepted = make([]int, c.K+1)
	c.acked = make([]int, c.K)
	c.done = make(chan struct{})
	c01SameUUID = c.SameUUID
	c.Srcs, c.Sink, c.Log, c.Notes = []int{}, []c01Msg{}, []*c01Delivery{}, []string{}
	c.touch()
	rt.Reset()
	if c.Perturb {
		rt.MaxNap(200 * time.Microsecond)
		rt.Perturb("*", 0.25)
		rt.Filter(func(point string, keys []string) bool {
			return strings.HasPrefix(point, "gochannel.send.") || strings.HasPrefix(point, "message.") || strings.HasPrefix(point, "router.handle.")
		})
	} else {
		rt.Filter(func(string, []string) bool { return false })
	}
	logger := watermill.NopLogger{}
	cfg := gochannel.Config{OutputChannelBuffer: int64(c.Buffer), Persistent: c.Persistent, BlockPublishUntilSubscriberAck: c.Blocking}
	var pss []*gochannel.GoChannel
	psFor := func(t int) *gochannel.GoChannel {
		if c.SharedPS {
			return pss[0]
		}
		return pss[t]
	}
	n := c.K + 1
	if c.SharedPS {
		n = 1
	}
	for i := 0; i < n; i++ {
		pss = append(pss, gochannel.NewGoChannel(cfg, logger))
	}
	topic := func(t int) string { return fmt.Sprintf("c%d-t%d", c.ID, t) }
	fail := map[int]bool{}
	for _, l := range c.FailSrc {
		fail[l] = true
	}
	closedPS := gochannel.NewGoChannel(cfg, logger)
	closedPS.Close()
	// With one GoChannel per topic the failing source publishes hit the pipeline's OWN topic-0
	// Pub/Sub: it is closed while messages are still in flight further down (as soon as stage 0
	// has acked everything it was given), and the late producers publish to that live-then-closed
	// instance.  With one shared GoChannel that is not possible (closing it would stop the whole
	// pipeline), a closed GoChannel of the same configuration stands in.
	liveClose := !c.SharedPS && len(c.FailSrc) > 0
	var deferred []int
	publishSrc := func(lin int) {
		if fail[lin] && liveClose {
			c.mu.Lock()
			deferred = append(deferred, lin) // published after topic 0's Pub/Sub has been closed
			c.touch()
			c.mu.Unlock()
			return
		}
		if fail[lin] {
			// a REAL failing source publish: the producer's Pub/Sub (a GoChannel with the same
			// configuration) has been closed, Publish returns "Pub/Sub closed"; the message was never
			// really published and must not show up anywhere
			err := closedPS.Publish(topic(0), c01Make(c01Msg{Lin: lin, Path: []int{}}))
			c.mu.Lock()
			if err == nil {
				c.Notes = append(c.Notes, "Publish on a closed Pub/Sub returned nil")
			}
			c.srcOpen--
			c.touch()
			c.mu.Unlock()
			return
		}
		c.mu.Lock()
		c.accepted[0]++
		c.mu.Unlock()
		srcMsg := c01Make(c01Msg{Lin: lin, Path: []int{}})
		err := psFor(0).Publish(topic(0), srcMsg)
		// the producer recycles its message object once Publish has returned: whatever travels
		// through the pipeline afterwards (redeliveries included) must be what was published
		srcMsg.UUID = "recycled-never-published"
		srcMsg.Payload = []byte("recycled-never-published")
		srcMsg.Metadata.Set("lin", "77777")
		c.mu.Lock()
		if err != nil {
			c.accepted[0]--
			c.Notes = append(c.Notes, "source publish failed: "+err.Error())
		} else {
			c.Srcs = append(c.Srcs, lin)
		}
		c.srcOpen--
		c.touch()
		c.mu.Unlock()
	}
	c.srcOpen = c.NSrc
	early := 0
	if c.Persistent {
		early = c.Early
	}
	for lin := 0; lin < early && lin < c.NSrc; lin++ {
		publishSrc(lin)
	}

	// the bystander subscription
	byCtx, byCancel := context.WithCancel(context.Background())
	defer byCancel()
	if c.Bystander >= 0 && c.Bystander <= c.K && !c.Blocking {
		byCh, err := psFor(c.Bystander).Subscribe(byCtx, topic(c.Bystander))
		if err == nil {
			go func() {
				n := 0
				for msg := range byCh {
					n++
					c.mu.Lock()
					c.BystanderGot = n
					c.mu.Unlock()
					if n == 1 {
						msg.Nack()
						continue
					}
					msg.Ack()
					if n == c.BystanderCancel+1 {
						byCancel()
					}
				}
			}()
		}
	}

	// the sink
	sinkCtx, sinkCancel := context.WithCancel(context.Background())
	sinkCh, err := psFor(c.K).Subscribe(sinkCtx, topic(c.K))
	if err != nil {
		c.Notes = append(c.Notes, "sink subscribe: "+err.Error())
		sinkCancel()
		return
	}
	sinkDone := make(chan struct{})
	go func() {
		defer close(sinkDone)
		for msg := range sinkCh {
			m := c01Read(msg)
			c.mu.Lock()
			c.Sink = append(c.Sink, m)
			c.touch()
			c.mu.Unlock()
			msg.Ack()
		}
	}()

	// the routers
	var routers []*message.Router
	newRouter := func() *message.Router {
		r, err := message.NewRouter(message.RouterConfig{CloseTimeout: 2 * time.Second}, logger)
		if err != nil {
			panic(err)
		}
		routers = append(routers, r)
		return r
	}
	// bystander handlers live on a GoChannel of their own
	byPS := gochannel.NewGoChannel(gochannel.Config{}, logger)
	pss = append(pss, byPS) // closed with the others at teardown
	var byTopics []string
	reg := func(ri int, routerLevel bool, hname string, id int) {
		c.Regs[ri] = append(c.Regs[ri], c01MwReg{RouterLevel: routerLevel, HName: hname, ID: id})
	}
	addBystanders := func(r *message.Router, ri int) {
		names := []string{"", "zz"}
		for i := 0; i < c.Bystanders && i < 2; i++ {
			bt := fmt.Sprintf("c%d-by%d-%d", c.ID, ri, i)
			byTopics = append(byTopics, bt)
			calls := 0
			h := r.AddNoPublisherHandler(names[i], bt, byPS, func(msg *message.Message) error {
				calls++
				if calls == 1 {
					return errors.New("bystander handler error (its own middleware swallows it)")
				}
				return nil
			})
			base := 200 + 100*ri + 10*i
			h.AddMiddleware(c.mwSwallow(base))
			reg(ri, false, names[i], base)
			if i == 0 {
				h.AddMiddleware(c.mwInstantAck(base + 1))
				reg(ri, false, names[i], base+1)
			}
		}
	}
	var r *message.Router
	ri := -1
	for s := 0; s < c.K; s++ {
		if s == 0 || !c.OneRouter {
			r = newRouter()
			ri++
			c.Regs = append(c.Regs, []c01MwReg{})
			r.AddMiddleware(c.mwRecord(1 + ri))
			reg(ri, true, "", 1+ri)
			if c.ByFirst {
				addBystanders(r, ri)
			}
		}
		pub := &c01Publisher{c: c, stage: s, real: psFor(s + 1), topic: topic(s + 1)}
		name := fmt.Sprintf("h%d", s)
		c.stRouter[s], c.stName[s] = ri, name
		h := r.AddHandler(name, topic(s), psFor(s), topic(s+1), pub, c.handler(s))
		h.AddMiddleware(c.mwRecord(100 + s))
		reg(ri, false, name, 100+s)
		if !c.ByFirst && (s == c.K-1 || !c.OneRouter) {
			addBystanders(r, ri)
		}
	}
	ctx, cancel := context.WithCancel(context.Background())
	runErrs := make(chan error, len(routers))
	for _, r := range routers {
		r := r
		go func() { runErrs <- r.Run(ctx) }()
	}
	for _, r := range routers {
		if !c01Wait(r.Running(), 20000) {
			c.note("router did not start")
		}
	}
	// persistent + early: subscriptions replay in the background; nothing to wait for.
	for _, bt := range byTopics {
		byPS.Publish(bt, message.NewMessage("by-"+bt, []byte("bystander")))
	}

	// concurrent source publishers
	var pwg sync.WaitGroup
	for p := 0; p < c.Publishers; p++ {
		pwg.Add(1)
		go func(p int) {
			defer pwg.Done()
			for lin := early; lin < c.NSrc; lin++ {
				if (lin-early)%c.Publishers == p {
					publishSrc(lin)
				}
			}
		}(p)
	}

	// wait for exact quiescence (counts, no timing) or for a stall (nothing happened for `stall`)
	for {
		c.mu.Lock()
		q := c.quiescent()
		idle := time.Since(c.lastEv)
		if ticks := time.Duration(atomic.LoadInt64(&c01Ticks)-c.lastTick) * time.Millisecond; ticks < idle {
			idle = ticks
		}
		c.mu.Unlock()
		if liveClose {
			c.mu.Lock()
			ready := len(deferred) > 0 && c.srcOpen == len(deferred) && c.accepted[0] == c.acked[0]
			var late []int
			if ready {
				late, deferred = deferred, nil
			}
			c.mu.Unlock()
			if ready {
				pss[0].Close() // downstream topics may still be busy
				for _, lin := range late {
					err := pss[0].Publish(topic(0), c01Make(c01Msg{Lin: lin, Path: []int{}}))
					c.mu.Lock()
					if err == nil {
						c.Notes = append(c.Notes, "Publish on a closed Pub/Sub returned nil")
					}
					c.srcOpen--
					c.LateOnClosed++
					c.touch()
					c.mu.Unlock()
				}
				continue
			}
		}
		if q {
			// settle: a short grace period, then it must still hold with unchanged counts
			time.Sleep(15 * time.Millisecond)
			c.mu.Lock()
			q2 := c.quiescent() && time.Since(c.lastEv) >= 15*time.Millisecond
			c.mu.Unlock()
			if q2 {
				c.Quiet = true
				break
			}
			continue
		}
		c.mu.Lock()
		ab := c.aborted
		c.mu.Unlock()
		if ab {
			c.note(fmt.Sprintf("given up: %d deliveries arrived with an already-done context and failed for that reason; the fault never stops", 25))
			break
		}
		if idle > stall {
			c.mu.Lock()
			c.Notes = append(c.Notes, fmt.Sprintf("stalled: srcOpen=%d accepted=%v acked=%v sink=%d calls=%v", c.srcOpen, c.accepted, c.acked, len(c.Sink), c.calls))
			buf := make([]byte, 1<<20)
			c.Dump = string(buf[:runtime.Stack(buf, true)])
			c.mu.Unlock()
			break
		}
		time.Sleep(time.Millisecond)
	}
	if c.Quiet {
		pwg.Wait()
	}
	// teardown (in its own goroutine: a hung teardown must not hang the harness)
	tdDone := make(chan struct{})
	go func() {
		defer close(tdDone)
		c.teardown(routers, cancel, runErrs, sinkCancel, pss, sinkDone)
	}()
	if !c01Wait(tdDone, 30000) {
		c.mu.Lock()
		c.Notes = append(c.Notes, "teardown hung")
		buf := make([]byte, 1<<20)
		c.Dump = string(buf[:runtime.Stack(buf, true)])
		// not a C01 verdict: the pipeline had already reached (or failed to reach) quiescence;
		// termination of Router.Close / GoChannel.Close is C06 / C07
		c.mu.Unlock()
	}
	c.mu.Lock()
	defer c.mu.Unlock()
}

func (c *c01Case) teardown(routers []*message.Router, cancel context.CancelFunc, runErrs chan error, sinkCancel context.CancelFunc, pss []*gochannel.GoChannel, sinkDone chan struct{}) {
	for _, r := range routers {
		if err := r.Close(); err != nil && c.Quiet {
			c.note("router close: " + err.Error())
		}
	}
	cancel()
	for range routers {
		select {
		case <-runErrs:
		case <-time.After(5 * time.Second):
			if c.Quiet {
				c.note("Run did not return after Close")
			}
		}
	}
	sinkCancel()
	for _, ps := range pss {
		ps.Close()
	}
	select {
	case <-sinkDone:
	case <-time.After(5 * time.Second):
	}
	close(c.done)
	c.wg.Wait()
}

func c01RandFault(rng *rand.Rand, maxFan int) c01Fault {
	switch rng.Intn(10) {
	case 0, 1, 2:
		return c01Fault{Kind: 1}
	case 3, 4:
		return c01Fault{Kind: 2}
	case 5, 6, 7:
		return c01Fault{Kind: 3, J: rng.Intn(maxFan + 1)}
	default:
		return c01Fault{Kind: 4, J: rng.Intn(maxFan + 1)}
	}
}

// c01Gen draws one random case.
func c01Gen(rng *rand.Rand, id int, big bool) *c01Case {
	c := &c01Case{ID: id, Kind: "random"}
	c.K = 1 + rng.Intn(4)
	c.NSrc = []int{1, 1, 2, 3, 5, 8, 13, 20}[rng.Intn(8)]
	if !big && c.NSrc > 8 && rng.Intn(3) != 0 {
		c.NSrc = 1 + rng.Intn(8)
	}
	c.Publishers = 1 + rng.Intn(3)
	c.Persistent = rng.Intn(3) == 0
	c.Buffer = []int{0, 0, 1, 3, 16}[rng.Intn(5)]
	c.OneRouter = rng.Intn(2) == 0
	c.SharedPS = rng.Intn(3) != 0
	c.Blocking = rng.Intn(4) == 0
	c.Perturb = rng.Intn(3) == 0
	c.PanicVal = rng.Intn(3)
	c.Bystanders = []int{0, 1, 1, 2}[rng.Intn(4)]
	c.ByFirst = rng.Intn(2) == 0
	c.Bystander = -1
	if rng.Intn(3) == 0 {
		c.Bystander = rng.Intn(c.K + 1)
		c.BystanderCancel = 1 + rng.Intn(c.NSrc+1)
	}
	if c.Persistent {
		c.Early = rng.Intn(c.NSrc + 1)
	}
	c.SameUUID = rng.Intn(4) == 0
	c.CtxErr = rng.Intn(2) == 0
	if c.Blocking && c.SharedPS {
		// D9 (known finding, property C05): with blocking Publish a consumer that publishes to the
		// same GoChannel before acking deadlocks behind a pending Subscribe.  Messages replayed
		// while the later handlers are still subscribing would be exactly that; excluded here.
		c.Early = 0
	}
	// fan-out: mostly 1, some 2, rarely 0 or 3; keep the total number of sink arrivals small
	budget := 3
	maxFan := 1
	for s := 0; s < c.K; s++ {
		row := make([]int, 1+rng.Intn(3))
		for i := range row {
			row[i] = 1
			if budget > 0 {
				switch rng.Intn(8) {
				case 0, 1:
					row[i] = 2
					budget--
				case 2:
					row[i] = 3
					budget -= 2
				case 3:
					if rng.Intn(3) == 0 {
						row[i] = 0
					}
				case 4:
					row[i] = c01Passthrough
				}
			}
			if row[i] > maxFan && row[i] != c01Passthrough {
				maxFan = row[i]
			}
		}
		c.Fans = append(c.Fans, row)
	}
	// some source publishes fail
	for lin := 0; lin < c.NSrc; lin++ {
		if rng.Intn(12) == 0 {
			c.FailSrc = append(c.FailSrc, lin)
		}
	}
	if c.FailSrc == nil {
		c.FailSrc = []int{}
	}
	// fault script: per stage a random prefix of calls, density varies
	density := []float64{0, 0.15, 0.35, 0.6}[rng.Intn(4)]
	for s := 0; s < c.K; s++ {
		n := rng.Intn(2*c.NSrc + 4)
		row := make([]c01Fault, n)
		for i := range row {
			if rng.Float64() < density {
				row[i] = c01RandFault(rng, maxFan)
			}
		}
		c.Script = append(c.Script, row)
	}
	return c
}

// c01Single enumerates every placement of one fault (each kind) at call 0..calls-1 of every
// stage of a small pipeline.
func c01Singles(id *int, k, nsrc int, fans [][]int, blocking, persistent bool, buffer int) []*c01Case {
	var out []*c01Case
	kinds := []c01Fault{{Kind: 1}, {Kind: 2}, {Kind: 3, J: 0}, {Kind: 3, J: 1}, {Kind: 3, J: 2}, {Kind: 4, J: 0}, {Kind: 4, J: 1}}
	for s := 0; s < k; s++ {
		for call := 0; call < nsrc+1; call++ {
			for _, f := range kinds {
				c := &c01Case{ID: *id, Kind: "single", Bystander: -1, Bystanders: (*id) % 3, ByFirst: (*id)%2 == 0, K: k, NSrc: nsrc, Fans: fans, Publishers: 1, FailSrc: []int{},
					Blocking: blocking, Persistent: persistent, Buffer: buffer, OneRouter: (*id)%2 == 0, SharedPS: true, PanicVal: (*id) % 3,
					CtxErr: (*id)%2 == 1, SameUUID: (*id)%5 == 0}
				*id++
				for st := 0; st < k; st++ {
					row := []c01Fault{}
					if st == s {
						row = make([]c01Fault, call+1)
						row[call] = f
					}
					c.Script = append(c.Script, row)
				}
				out = append(out, c)
			}
		}
	}
	return out
}

// every placement of two faults (kinds: handler error, publish error after 1, handler panic)
// on a 2-stage pipeline with 2 messages
func c01Doubles(id *int) []*c01Case {
	var out []*c01Case
	kinds := []c01Fault{{Kind: 1}, {Kind: 3, J: 1}, {Kind: 2}, {Kind: 4, J: 0}}
	type pos struct{ s, call int }
	var all []pos
	for s := 0; s < 2; s++ {
		for call := 0; call < 4; call++ {
			all = append(all, pos{s, call})
		}
	}
	for i := 0; i < len(all); i++ {
		for j := i + 1; j < len(all); j++ {
			for a := range kinds {
				for b := range kinds {
					c := &c01Case{ID: *id, Kind: "double", Bystander: -1, K: 2, NSrc: 2, Fans: [][]int{{2}, {1}}, Publishers: 2, FailSrc: []int{},
						Buffer: (*id) % 2, OneRouter: (*id)%4 < 2, SharedPS: true, PanicVal: (*id) % 3}
					*id++
					c.Script = [][]c01Fault{make([]c01Fault, 4), make([]c01Fault, 4)}
					c.Script[all[i].s][all[i].call] = kinds[a]
					c.Script[all[j].s][all[j].call] = kinds[b]
					out = append(out, c)
				}
			}
		}
	}
	return out
}

func cmdC01(args []string) error {
	fs, out, seed := newFlags("c01")
	nrand := fs.Int("n", 120, "random cases")
	singles := fs.Bool("singles", true, "enumerate single-fault placements")
	doubles := fs.Bool("doubles", false, "enumerate double-fault placements (2 stages x 2 messages)")
	big := fs.Bool("big", false, "allow up to 20 source messages in random cases")
	stallMs := fs.Int("stall", 8000, "give a case up when nothing happened for this many ms")
	only := fs.Int("only", -1, "run only the case with this id (debugging)")
	repeat := fs.Int("repeat", 1, "with -only: run it this many times")
	fs.Parse(args)
	rng := rand.New(rand.NewSource(*seed))
	rt := hookrt.Install(*seed)
	defer hookrt.Uninstall()
	go func() { // probe + keep-alive: a deadlocked pipeline is reported by the stall watchdog, not by a runtime abort
		for {
			time.Sleep(time.Millisecond)
			atomic.AddInt64(&c01Ticks, 1)
		}
	}()
	var cases []*c01Case
	id := 0
	if *singles {
		cases = append(cases, c01Singles(&id, 1, 1, [][]int{{2}}, false, false, 0)...)
		cases = append(cases, c01Singles(&id, 2, 2, [][]int{{1}, {2}}, false, false, 1)...)
		cases = append(cases, c01Singles(&id, 2, 1, [][]int{{2}, {1}}, true, false, 0)...)
		cases = append(cases, c01Singles(&id, 3, 1, [][]int{{1}, {1}, {1}}, false, true, 0)...)
		cases = append(cases, c01Singles(&id, 2, 1, [][]int{{c01Passthrough}, {2}}, false, false, 0)...)
	}
	if *doubles {
		cases = append(cases, c01Doubles(&id)...)
	}
	for i := 0; i < *nrand; i++ {
		cases = append(cases, c01Gen(rng, id, *big))
		id++
	}
	if *only >= 0 {
		var sel []*c01Case
		for _, c := range cases {
			if c.ID == *only {
				for i := 0; i < *repeat; i++ {
					cc := *c
					sel = append(sel, &cc)
				}
			}
		}
		cases = sel
	}
	stalled := 0
	for _, c := range cases {
		if stalled >= 2 {
			c.NotRun = true // fail fast: the pipeline loses / blocks messages; the remaining cases are not run
			c.Srcs, c.Sink, c.Log, c.Notes = []int{}, []c01Msg{}, []*c01Delivery{}, []string{}
			continue
		}
		c01Run(rt, c, time.Duration(*stallMs)*time.Millisecond)
		if !c.Quiet {
			stalled++
		}
	}
	return writeJSON(*out, cases)
}

func init() { register("c01", cmdC01) }
