//go:build verif

package main

import (
	"sync"

	"github.com/ThreeDotsLabs/watermill/components/cqrs"
	"github.com/ThreeDotsLabs/watermill/message"

	ct "wmverif/c15types"
	"wmverif/script"
)

// c15RecMarshaler wraps a real marshaler and records which of its methods the buses and the
// processor closures call, on which objects (round "proofs": the marshaler call discipline).
// Calls made for a bus call are attributed through the calling goroutine, calls made for a
// consumed message through the delivery in the message's context.
type c15RecMarshaler struct {
	inner cqrs.CommandEventMarshaler
	in    *script.Interner
	bus   *c15BusScenario
	seen  sync.Map // every object ever handed to Unmarshal
}

func (m *c15RecMarshaler) Marshal(v interface{}) (*message.Message, error) {
	if m.bus != nil {
		if c := m.bus.cur(); c != nil {
			ty, cn := ct.Render(v)
			c.mrec("m-marshal", ty, m.in.ID(cn))
		}
	}
	return m.inner.Marshal(v)
}

func (m *c15RecMarshaler) Name(v interface{}) string {
	if m.bus != nil {
		if c := m.bus.cur(); c != nil {
			ty, cn := ct.Render(v)
			c.mrec("m-name", ty, m.in.ID(cn))
		}
	}
	return m.inner.Name(v)
}

func (m *c15RecMarshaler) NameFromMessage(msg *message.Message) string {
	if d, _ := msg.Context().Value(c15DelivKey{}).(*c15Delivery); d != nil {
		d.mrec("m-namefrom")
	}
	return m.inner.NameFromMessage(msg)
}

func (m *c15RecMarshaler) Unmarshal(msg *message.Message, v interface{}) error {
	d, _ := msg.Context().Value(c15DelivKey{}).(*c15Delivery)
	if d == nil {
		return m.inner.Unmarshal(msg, v)
	}
	tn := m.in.ID(m.inner.Name(v))
	o := d.objNum(v)
	_, loaded := m.seen.LoadOrStore(v, true)
	err := m.inner.Unmarshal(msg, v)
	d.mrec("m-unmarshal", tn, o, !loaded, err == nil)
	return err
}

func (d *c15Delivery) mrec(ev ...interface{}) {
	d.mu.Lock()
	d.MTrace = append(d.MTrace, ev)
	d.mu.Unlock()
}

// objNum numbers the objects of one delivery in order of first appearance.
func (d *c15Delivery) objNum(v interface{}) int {
	d.mu.Lock()
	defer d.mu.Unlock()
	if d.objs == nil {
		d.objs = map[interface{}]int{}
	}
	if n, ok := d.objs[v]; ok {
		return n
	}
	n := len(d.objs)
	d.objs[v] = n
	return n
}

func (c *c15BusCall) mrec(ev ...interface{}) {
	c.mu.Lock()
	c.MTrace = append(c.MTrace, ev)
	c.mu.Unlock()
}
