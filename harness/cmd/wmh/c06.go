//go:build verif

package main

// C06 - Router.Close is graceful.  Drives a REAL message.Router with scripted subscribers
// (honouring or ignoring the Subscribe context), scripted publishers and scripted handlers
// under forced schedules (park/release at hook points: every pause point of a message's path x
// Close / concurrent Close / second Close after a timeout / context cancel, plus the D5 and D6
// witnesses) and under random schedules with seeded yields.  Records the stamped hook log
// (total order); checks/c06.py maps it to labels of coq/Router/Close.v (schedule replay) and
// to the API-level history judged by coq/Router/CloseMonitor.v.

import (
	"context"
	"fmt"
	"math/rand"
	"strings"
	"sync"
	"time"

	"github.com/ThreeDotsLabs/watermill"
	"github.com/ThreeDotsLabs/watermill/message"
	"github.com/ThreeDotsLabs/watermill/verifhook"

	"wmverif/hookrt"
)

type c06Rule struct {
	Point     string   `json:"point"`
	Keys      []string `json:"keys,omitempty"`
	Nth       int      `json:"nth"`
	Until     string   `json:"until"`
	UntilKeys []string `json:"until_keys,omitempty"`
	TimeoutMs int      `json:"timeout_ms"`
	Parked    int      `json:"parked"`
	TimedOut  int      `json:"timed_out"`
}

type c06Handler struct {
	Honour  bool  `json:"honour"`  // the subscriber closes its channel when the Subscribe context ends
	NMsgs   int   `json:"nmsgs"`   // messages the environment tries to emit
	DurMs   []int `json:"dur_ms"`  // handler duration per message (cyclic)
	Publish bool  `json:"publish"` // the handler returns one output message
	NoPub   bool  `json:"nopub"`   // added with AddNoPublisherHandler
	// how the subscriber's own Close() behaves: "" returns once its channel is closed; "settled" first waits until
	// every message it handed out is settled; "slow" first sleeps SubCloseMs; "forever" blocks until the scenario is over
	// how the handler function ends per message (cyclic): "" nil error, "err" returns an error, "panic" panics (recovered by
	// handleMessage), "puberr" returns an output whose Publish fails; the subscriber's / publisher's Close() may return an error
	Outcome     []string `json:"outcome,omitempty"`
	SubCloseErr bool     `json:"sub_close_err,omitempty"`
	PubCloseErr bool     `json:"pub_close_err,omitempty"`
	PubCloseMs  int      `json:"pub_close_ms,omitempty"` // the publisher's Close() takes this long (flush); it can also be parked at api.pub.close
	SubClose   string `json:"sub_close,omitempty"`
	SubCloseMs int    `json:"sub_close_ms,omitempty"`
}

type c06CloseCall struct {
	C     int    `json:"c"`
	Err   string `json:"err"`
	Hung  bool   `json:"hung"`
	DurMs int64  `json:"dur_ms"`
}

type c06Scenario struct {
	ID             int          `json:"id"`
	Name           string       `json:"name"`
	Kind           string       `json:"kind"` // forced | random | witness
	Handlers       []c06Handler `json:"handlers"`
	CloseTimeoutMs int          `json:"close_timeout_ms"`
	Closers        int          `json:"closers"`      // concurrent Close callers of the first wave
	SecondClose    bool         `json:"second_close"` // one more Close after the first wave returned, before the release
	SubsEnd        bool         `json:"subs_end"`     // every subscription ends by itself (the broker closes it; gated by a rule on api.subend.gate)
	Cancel         bool         `json:"cancel"`       // the user cancels Run's context (gated by a rule on api.cancel.gate)
	D6Helper       bool         `json:"d6_helper"`
	Unstarted      int          `json:"unstarted"` // handlers added after Run and never started with RunHandlers
	LateHandler    bool         `json:"late_handler"` // a handler h<n> is added after Run and RunHandlers is called concurrently with the Close calls
	RhRet          string       `json:"rh_ret"`       // what that RunHandlers call returned: "nil", "err:...", "hung"
	LateStarted    bool         `json:"late_started"` // whether the late handler was started
	W1Stuck        bool         `json:"w1_stuck"`  // after a timed-out Close and after EVERY subscription was ended: the handlersWg wait still does not end
	Rules          []c06Rule    `json:"rules"`
	Perturb        float64      `json:"perturb"`

	Events     []hookrt.Event `json:"events"`
	Calls      []c06CloseCall `json:"calls"`
	RunRet     string         `json:"run_ret"` // "nil", "err:...", "hung"
	Hung       []string       `json:"hung"`
	SubCloses  []int          `json:"sub_closes"`
	PubCloses  []int          `json:"pub_closes"`
	Subscribes []int          `json:"subscribes"`
	Panics     []string       `json:"panics"`
}

// ---------------------------------------------------------------- scripted subscriber

// c06Sub is a scripted message.Subscriber for ONE handler.  Emissions and the closing of the
// channel are ordered so that the stamps are a linearisation: an emission that was taken is
// stamped before the emitter leaves emitWg, the channel is closed (stamp immediately before)
// only after all emitters left.
type c06Sub struct {
	h      string
	honour bool

	mu       sync.Mutex
	ch       chan *message.Message
	done     chan struct{}
	chClosed chan struct{}
	closing  bool
	closes   int
	subs     int
	emitWg   sync.WaitGroup

	closeMode string
	closeMs   int
	closeErr  bool
	handed    []*message.Message // messages the pump took
	release   chan struct{}      // closed by the driver when the scenario is over: a blocked Close() gives up
}

func newC06Sub(h string, honour bool) *c06Sub {
	return &c06Sub{h: h, honour: honour, done: make(chan struct{}), chClosed: make(chan struct{}), release: make(chan struct{})}
}

func (s *c06Sub) Subscribe(ctx context.Context, topic string) (<-chan *message.Message, error) {
	s.mu.Lock()
	defer s.mu.Unlock()
	s.subs++
	if s.ch != nil {
		return nil, fmt.Errorf("c06Sub: second Subscribe")
	}
	s.ch = make(chan *message.Message)
	go func() {
		if s.honour {
			select {
			case <-ctx.Done():
				verifhook.At("api.sub.ctx_seen", s.h)
				s.requestClose()
			case <-s.done:
			}
		}
		<-s.done
		s.emitWg.Wait()
		verifhook.At("api.sub.chan_close", s.h)
		close(s.ch)
		close(s.chClosed)
	}()
	return s.ch, nil
}

func (s *c06Sub) requestClose() {
	s.mu.Lock()
	if !s.closing {
		s.closing = true
		close(s.done)
	}
	s.mu.Unlock()
}

func (s *c06Sub) Close() error {
	s.mu.Lock()
	s.closes++
	verifhook.At("api.sub.close_called", s.h)
	subscribed := s.ch != nil
	handed := append([]*message.Message(nil), s.handed...)
	s.mu.Unlock()
	// a broker client may block in Close(): until its in-flight messages are settled, for some time, or for ever
	switch s.closeMode {
	case "settled":
		for _, m := range handed {
			select {
			case <-m.Acked():
			case <-m.Nacked():
			case <-s.release:
			}
		}
	case "slow":
		select {
		case <-time.After(time.Duration(s.closeMs) * time.Millisecond):
		case <-s.release:
		}
	case "forever":
		<-s.release
	}
	s.requestClose()
	if subscribed {
		<-s.chClosed
	}
	if s.closeErr {
		return fmt.Errorf("scripted subscriber close error")
	}
	return nil
}

// Emit offers msg; true when the pump took it.
func (s *c06Sub) Emit(msg *message.Message, d time.Duration) bool {
	s.mu.Lock()
	if s.closing || s.ch == nil {
		s.mu.Unlock()
		return false
	}
	s.emitWg.Add(1)
	ch := s.ch
	s.mu.Unlock()
	defer s.emitWg.Done()
	t := time.NewTimer(d)
	defer t.Stop()
	select {
	case ch <- msg:
		s.mu.Lock()
		s.handed = append(s.handed, msg)
		s.mu.Unlock()
		verifhook.At("api.emit.taken", s.h, msg.UUID)
		return true
	case <-s.done:
		return false
	case <-t.C:
		return false
	}
}

func (s *c06Sub) counts() (closes, subs int) {
	s.mu.Lock()
	defer s.mu.Unlock()
	return s.closes, s.subs
}

type c06Pub struct {
	h        string
	mu       sync.Mutex
	closes   int
	fail     map[string]bool // source message uuids whose Publish fails
	closeErr bool
	closeMs  int
}

func (p *c06Pub) Publish(topic string, msgs ...*message.Message) error {
	src := ""
	if len(msgs) > 0 {
		src = strings.TrimPrefix(msgs[0].UUID, "out-")
	}
	verifhook.At("api.pub.call", p.h, src)
	verifhook.At("api.pub.ret", p.h, src)
	p.mu.Lock()
	fail := p.fail[src]
	p.mu.Unlock()
	if fail {
		return fmt.Errorf("scripted publish error")
	}
	return nil
}

func (p *c06Pub) Close() error {
	p.mu.Lock()
	p.closes++
	p.mu.Unlock()
	verifhook.At("api.pub.close", p.h) // Close() called; a scenario may park it here
	if p.closeMs > 0 {
		time.Sleep(time.Duration(p.closeMs) * time.Millisecond)
	}
	verifhook.At("api.pub.close_done", p.h) // Close() is about to return: the publisher is closed
	if p.closeErr {
		return fmt.Errorf("scripted publisher close error")
	}
	return nil
}

// ---------------------------------------------------------------- driver

func c06UUID(h, k int) string { return fmt.Sprintf("m-%d-%d", h, k) }

func c06Run(rt *hookrt.Runtime, sc *c06Scenario) {
	rt.Reset()
	rt.Filter(func(point string, keys []string) bool {
		if strings.HasPrefix(point, "router.") || strings.HasPrefix(point, "api.") || strings.HasPrefix(point, "decorator.") {
			return true
		}
		if point == "message.ack.locked" || point == "message.nack.locked" {
			return len(keys) > 0 && strings.HasPrefix(keys[0], "m-")
		}
		return false
	})
	if sc.Perturb > 0 {
		rt.Perturb("*", sc.Perturb)
		rt.MaxNap(120 * time.Microsecond)
	}
	rules := make([]*hookrt.ParkRule, len(sc.Rules))
	for i, r := range sc.Rules {
		rules[i] = rt.AddRule(&hookrt.ParkRule{Point: r.Point, Keys: r.Keys, Nth: r.Nth, Until: r.Until, UntilKeys: r.UntilKeys,
			Timeout: time.Duration(r.TimeoutMs) * time.Millisecond})
	}

	var mu sync.Mutex
	guard := func(what string, f func()) {
		defer func() {
			if r := recover(); r != nil {
				mu.Lock()
				sc.Panics = append(sc.Panics, fmt.Sprintf("%s: %v", what, r))
				mu.Unlock()
			}
		}()
		f()
	}

	router, err := message.NewRouter(message.RouterConfig{CloseTimeout: time.Duration(sc.CloseTimeoutMs) * time.Millisecond}, watermill.NopLogger{})
	if err != nil {
		panic(err)
	}
	nh := len(sc.Handlers)
	for h := 0; h <= nh; h++ {
		rt.AddRule(&hookrt.ParkRule{Point: "api.wait.hc", Keys: []string{fmt.Sprintf("h%d", h)}, Until: "router.handler.handleclose.stop",
			UntilKeys: []string{fmt.Sprintf("h%d", h)}, Timeout: 3 * time.Second})
	}
	w1Rule := rt.AddRule(&hookrt.ParkRule{Point: "api.wait.w1", Until: "router.close.loops_done", Timeout: 3 * time.Second})
	rt.AddRule(&hookrt.ParkRule{Point: "api.wait.w2", Until: "router.close.running_unlock", Timeout: 3 * time.Second})
	subs := make([]*c06Sub, nh)
	pubs := make([]*c06Pub, nh)
	for h := range sc.Handlers {
		h := h
		spec := sc.Handlers[h]
		hname := fmt.Sprintf("h%d", h)
		subs[h] = newC06Sub(hname, spec.Honour)
		subs[h].closeMode, subs[h].closeMs = spec.SubClose, spec.SubCloseMs
		subs[h].closeErr = spec.SubCloseErr
		pubs[h] = &c06Pub{h: hname, closeErr: spec.PubCloseErr, closeMs: spec.PubCloseMs}
		fn := func(msg *message.Message) ([]*message.Message, error) {
			verifhook.At("api.handler.start", hname, msg.UUID)
			var k int
			fmt.Sscanf(msg.UUID, fmt.Sprintf("m-%d-%%d", h), &k)
			if len(spec.DurMs) > 0 {
				if d := spec.DurMs[k%len(spec.DurMs)]; d > 0 {
					time.Sleep(time.Duration(d) * time.Millisecond)
				}
			}
			outcome := "ok"
			if len(spec.Outcome) > 0 && spec.Outcome[k%len(spec.Outcome)] != "" {
				outcome = spec.Outcome[k%len(spec.Outcome)]
			}
			if outcome == "puberr" && !(spec.Publish && !spec.NoPub) {
				outcome = "err"
			}
			verifhook.At("api.handler.end", hname, msg.UUID, outcome)
			switch outcome {
			case "err":
				return nil, fmt.Errorf("scripted handler error")
			case "panic":
				panic("scripted handler panic")
			case "puberr":
				pubs[h].mu.Lock()
				if pubs[h].fail == nil {
					pubs[h].fail = map[string]bool{}
				}
				pubs[h].fail[msg.UUID] = true
				pubs[h].mu.Unlock()
			}
			if spec.Publish && !spec.NoPub {
				return []*message.Message{message.NewMessage("out-"+msg.UUID, []byte("o"))}, nil
			}
			return nil, nil
		}
		if spec.NoPub {
			router.AddNoPublisherHandler(hname, "t"+hname, subs[h], func(msg *message.Message) error { _, e := fn(msg); return e })
		} else {
			router.AddHandler(hname, "t"+hname, subs[h], "o"+hname, pubs[h], fn)
		}
	}

	ctx, cancel := context.WithCancel(context.Background())
	defer cancel()
	runDone := make(chan struct{})
	go func() {
		defer close(runDone)
		var e error
		guard("Run", func() { e = router.Run(ctx) })
		if e == nil {
			verifhook.At("api.run.ret", "nil")
			sc.RunRet = "nil"
		} else {
			verifhook.At("api.run.ret", "err")
			sc.RunRet = "err:" + e.Error()
		}
	}()
	select {
	case <-router.Running():
	case <-time.After(5 * time.Second):
		sc.Hung = append(sc.Hung, "router never running")
		rt.ReleaseAll()
		return
	}
	verifhook.At("api.running")
	for i := 0; i < sc.Unstarted; i++ {
		name := fmt.Sprintf("u%d", i)
		router.AddNoPublisherHandler(name, "t"+name, newC06Sub(name, true), func(*message.Message) error { return nil })
	}
	var lateSub *c06Sub
	rhDone := make(chan struct{})
	if sc.LateHandler {
		name := fmt.Sprintf("h%d", nh)
		lateSub = newC06Sub(name, true)
		router.AddNoPublisherHandler(name, "t"+name, lateSub, func(*message.Message) error { return nil })
		go func() {
			defer close(rhDone)
			verifhook.At("api.rh.gate")
			verifhook.At("api.rh.call")
			var e error
			guard("RunHandlers", func() { e = router.RunHandlers(ctx) })
			mu.Lock()
			if e == nil {
				sc.RhRet = "nil"
			} else {
				sc.RhRet = "err:" + e.Error()
			}
			mu.Unlock()
			verifhook.At("api.rh.ret")
		}()
	} else {
		close(rhDone)
	}

	// emitters
	var emitWg sync.WaitGroup
	var taken []string
	for h := range sc.Handlers {
		h := h
		emitWg.Add(1)
		go func() {
			defer emitWg.Done()
			for k := 0; k < sc.Handlers[h].NMsgs; k++ {
				msg := message.NewMessage(c06UUID(h, k), []byte("p"))
				verifhook.At("api.emit.call", fmt.Sprintf("h%d", h), msg.UUID)
				if !subs[h].Emit(msg, 2500*time.Millisecond) {
					verifhook.At("api.emit.refused", fmt.Sprintf("h%d", h), msg.UUID)
					return
				}
				mu.Lock()
				taken = append(taken, msg.UUID)
				mu.Unlock()
			}
		}()
	}

	if sc.D6Helper {
		go func() {
			verifhook.At("api.d6.gate") // parked by a rule until Run is about to cancel
			time.Sleep(4 * time.Millisecond)
			verifhook.At("api.d6.ready")
		}()
	}
	if sc.SubsEnd {
		go func() {
			verifhook.At("api.subend.gate")
			for h := range subs {
				verifhook.At("api.sub.self_end", fmt.Sprintf("h%d", h))
				subs[h].requestClose()
			}
		}()
	}
	if sc.Cancel {
		go func() {
			verifhook.At("api.cancel.gate")
			verifhook.At("api.ctx.cancel")
			cancel()
		}()
	}

	callClose := func(c int, wg *sync.WaitGroup) {
		defer wg.Done()
		verifhook.At("api.close.gate", fmt.Sprint(c))
		if sc.LateHandler {
			time.Sleep(2 * time.Millisecond) // let the RunHandlers call that was just made reach its lock
		}
		verifhook.At("api.close.call", fmt.Sprint(c))
		t0 := time.Now()
		res := make(chan error, 1)
		go func() {
			var e error
			guard("Close", func() { e = router.Close() })
			if e == nil {
				verifhook.At("api.close.ret", fmt.Sprint(c), "nil")
			} else {
				verifhook.At("api.close.ret", fmt.Sprint(c), "err")
			}
			res <- e
		}()
		call := c06CloseCall{C: c}
		select {
		case e := <-res:
			if e != nil {
				call.Err = e.Error()
			}
		case <-time.After(time.Duration(sc.CloseTimeoutMs)*time.Millisecond + 4*time.Second):
			call.Hung = true
		}
		call.DurMs = time.Since(t0).Milliseconds()
		mu.Lock()
		sc.Calls = append(sc.Calls, call)
		if call.Hung {
			sc.Hung = append(sc.Hung, fmt.Sprintf("Close hangs: call %d did not return within CloseTimeout (%d ms) + 4 s", c, sc.CloseTimeoutMs))
		}
		mu.Unlock()
	}
	var wave sync.WaitGroup
	for c := 0; c < sc.Closers; c++ {
		wave.Add(1)
		go callClose(c, &wave)
	}
	wave.Wait()
	next := sc.Closers
	if sc.SecondClose {
		wave.Add(1)
		go callClose(next, &wave)
		wave.Wait()
		next++
	}
	// a late message per handler after the Close calls returned: refused when the subscription has ended,
	// otherwise (Close reported an error and left the subscription open) it is handled like any other
	for h := range sc.Handlers {
		msg := message.NewMessage(c06UUID(h, sc.Handlers[h].NMsgs), []byte("late"))
		verifhook.At("api.emit.call", fmt.Sprintf("h%d", h), msg.UUID)
		if !subs[h].Emit(msg, 20*time.Millisecond) {
			verifhook.At("api.emit.refused", fmt.Sprintf("h%d", h), msg.UUID)
			continue
		}
		mu.Lock()
		taken = append(taken, msg.UUID)
		mu.Unlock()
	}
	verifhook.At("api.release")
	for h := range subs {
		close(subs[h].release)
	}

	// everything must come to rest: Run returns, handlers finish, emitters stop
	select {
	case <-runDone:
	case <-time.After(4 * time.Second):
		sc.RunRet = "hung"
		sc.Hung = append(sc.Hung, "Run did not return within 4 s after Close returned")
	}
	waitWg := func(wg *sync.WaitGroup, what string) {
		ch := make(chan struct{})
		go func() { wg.Wait(); close(ch) }()
		select {
		case <-ch:
		case <-time.After(4 * time.Second):
			sc.Hung = append(sc.Hung, what)
		}
	}
	waitWg(&emitWg, "an emitter is still blocked")
	// every message the pump took is handled to completion (the Router settles whatever it dispatched)
	mu.Lock()
	tk := append([]string(nil), taken...)
	mu.Unlock()
	if missing := c06WaitDone(rt, tk, 4*time.Second); missing != "" {
		sc.Hung = append(sc.Hung, "a message taken from the subscriber was neither handled to completion nor given up by the decorator within 4 s: "+missing)
	}
	// every handleClose goroutine has decided (closed its subscriber or not) before the verdict
	for h := range subs {
		verifhook.At("api.wait.hc", fmt.Sprintf("h%d", h))
	}
	if sc.LateHandler {
		select {
		case <-rhDone:
		case <-time.After(time.Duration(sc.CloseTimeoutMs)*time.Millisecond + 4*time.Second):
			mu.Lock()
			sc.RhRet = "hung"
			mu.Unlock()
			sc.Hung = append(sc.Hung, "RunHandlers hangs: the call made concurrently with Close did not return within CloseTimeout + 4 s")
		}
		for _, e := range rt.Log() {
			if e.Point == "router.handler.handleclose.enter" && len(e.Keys) > 0 && e.Keys[0] == fmt.Sprintf("h%d", nh) {
				sc.LateStarted = true
			}
		}
		if sc.LateStarted {
			verifhook.At("api.wait.hc", fmt.Sprintf("h%d", nh))
		}
	}
	time.Sleep(2 * time.Millisecond)
	verifhook.At("api.quiescent")
	// one more Close after everything is at rest
	wave.Add(1)
	go callClose(next, &wave)
	wave.Wait()
	for h := range subs {
		c, s := subs[h].counts()
		sc.SubCloses = append(sc.SubCloses, c)
		sc.Subscribes = append(sc.Subscribes, s)
		pubs[h].mu.Lock()
		sc.PubCloses = append(sc.PubCloses, pubs[h].closes)
		pubs[h].mu.Unlock()
	}
	verifhook.At("api.final")
	time.Sleep(2 * time.Millisecond)
	sc.Events = rt.Log()
	for i, r := range rules {
		sc.Rules[i].Parked = r.Parked
		sc.Rules[i].TimedOut = r.TimedOut
	}
	// clean-up after the snapshot, so that nothing of this scenario stamps into the next one: end the subscriptions
	// the Router left open (D6 / context-cancel cases) and let the waiter goroutines of a timed-out Close finish
	for h := range subs {
		subs[h].requestClose()
	}
	if lateSub != nil {
		lateSub.requestClose()
		c, s2 := lateSub.counts()
		sc.SubCloses = append(sc.SubCloses, c)
		sc.Subscribes = append(sc.Subscribes, s2)
	}
	timedOut := false
	for _, c := range sc.Calls {
		if c.Err != "" {
			timedOut = true
		}
	}
	if timedOut {
		verifhook.At("api.wait.w1")
		verifhook.At("api.wait.w2")
		sc.W1Stuck = w1Rule.TimedOut > 0
	}
	time.Sleep(2 * time.Millisecond)
}

// c06WaitDone waits until every message the subscriber handed out has either been handled to completion
// (router.handler.msg.done) or been given up by the subscriber decorator (decorator.pump.dropped_*).
func c06WaitDone(rt *hookrt.Runtime, taken []string, d time.Duration) string {
	deadline := time.Now().Add(d)
	for {
		fin := map[string]bool{}
		for _, e := range rt.Log() {
			switch e.Point {
			case "router.handler.msg.done":
				if len(e.Keys) > 1 {
					fin[e.Keys[1]] = true
				}
			case "decorator.pump.dropped_ctx", "decorator.pump.dropped_closing":
				if len(e.Keys) > 0 {
					fin[e.Keys[0]] = true
				}
			}
		}
		missing := ""
		for _, u := range taken {
			if !fin[u] {
				missing = u
				break
			}
		}
		if missing == "" || time.Now().After(deadline) {
			return missing
		}
		time.Sleep(time.Millisecond)
	}
}

// ---------------------------------------------------------------- scenarios

type c06Point struct {
	name    string
	point   string
	publish bool
}

var c06Points = []c06Point{
	{"in-decorator", "decorator.sub.before_out", false},
	{"received-not-dispatched", "router.handler.received", false},
	{"holding-wg-lock", "router.handler.wg_locked", false},
	{"dispatched-not-started", "router.handler.msg.start", false},
	{"in-handler", "api.handler.start", false},
	{"publishing", "api.pub.call", true},
	{"before-settlement", "api.pub.ret", true},
	{"settled-before-done", "router.handler.msg.done", false},
}

func c06Forced(honour bool) []*c06Scenario {
	var out []*c06Scenario
	hs := func(publish bool) []c06Handler {
		return []c06Handler{
			{Honour: honour, NMsgs: 3, DurMs: []int{0}, Publish: publish, Outcome: []string{"puberr", "", "err"}, PubCloseErr: true},
			{Honour: honour, NMsgs: 1, DurMs: []int{1}, Publish: false, NoPub: true, Outcome: []string{map[bool]string{true: "panic", false: "err"}[honour]}, SubCloseErr: true},
		}
	}
	target := c06UUID(0, 1) // the second message of handler 0 is the one that is parked
	hn := map[bool]string{true: "honour", false: "ignore"}[honour]
	for _, p := range c06Points {
		keys := []string{target}
		// Close arrives while the message sits at the point; the message goes on once Close signalled
		out = append(out, &c06Scenario{Name: p.name + "/close/" + hn, Kind: "forced", Handlers: hs(p.publish), CloseTimeoutMs: 2500, Closers: 1,
			Rules: []c06Rule{
				{Point: p.point, Keys: keys, Until: "router.close.signal", TimeoutMs: 400},
				{Point: "api.close.gate", Until: p.point, UntilKeys: keys, TimeoutMs: 400},
			}})
		// the message tries to outwait Close (it cannot: the park gives up, Close returns nil afterwards)
		out = append(out, &c06Scenario{Name: p.name + "/close-held/" + hn, Kind: "forced", Handlers: hs(p.publish), CloseTimeoutMs: 2500, Closers: 1,
			Rules: []c06Rule{
				{Point: p.point, Keys: keys, Until: "api.close.ret", TimeoutMs: 120},
				{Point: "api.close.gate", Until: p.point, UntilKeys: keys, TimeoutMs: 400},
			}})
		// the message outlives CloseTimeout: Close returns an error; a second Close while it still sits there
		out = append(out, &c06Scenario{Name: p.name + "/timeout-second-close/" + hn, Kind: "forced", Handlers: hs(p.publish), CloseTimeoutMs: 50, Closers: 1, SecondClose: true,
			Rules: []c06Rule{
				{Point: p.point, Keys: keys, Until: "api.release", TimeoutMs: 1500},
				{Point: "api.close.gate", Until: p.point, UntilKeys: keys, TimeoutMs: 400},
			}})
		// three concurrent Close callers
		out = append(out, &c06Scenario{Name: p.name + "/concurrent-close/" + hn, Kind: "forced", Handlers: hs(p.publish), CloseTimeoutMs: 2500, Closers: 3,
			Rules: []c06Rule{
				{Point: p.point, Keys: keys, Until: "router.close.signal", TimeoutMs: 400},
				{Point: "api.close.gate", Until: p.point, UntilKeys: keys, TimeoutMs: 400},
			}})
		// three concurrent Close callers that the message tries to outwait: none of them may return while it sits there
		out = append(out, &c06Scenario{Name: p.name + "/concurrent-close-held/" + hn, Kind: "forced", Handlers: hs(p.publish), CloseTimeoutMs: 2500, Closers: 3,
			Rules: []c06Rule{
				{Point: p.point, Keys: keys, Until: "api.close.ret", TimeoutMs: 120},
				{Point: "api.close.gate", Until: p.point, UntilKeys: keys, TimeoutMs: 400},
			}})
		// the user cancels Run's context while the message sits at the point; Close is called once Run returned (or 150 ms later)
		out = append(out, &c06Scenario{Name: p.name + "/ctx-cancel/" + hn, Kind: "forced", Handlers: hs(p.publish), CloseTimeoutMs: 120, Closers: 1, Cancel: true,
			Rules: []c06Rule{
				{Point: p.point, Keys: keys, Until: "api.ctx.cancel", TimeoutMs: 400},
				{Point: "api.cancel.gate", Until: p.point, UntilKeys: keys, TimeoutMs: 400},
				{Point: "api.close.gate", Until: "api.run.ret", TimeoutMs: 150},
			}})
		// Close and the cancel together
		out = append(out, &c06Scenario{Name: p.name + "/close+cancel/" + hn, Kind: "forced", Handlers: hs(p.publish), CloseTimeoutMs: 2500, Closers: 2, Cancel: true,
			Rules: []c06Rule{
				{Point: p.point, Keys: keys, Until: "router.close.signal", TimeoutMs: 400},
				{Point: "api.cancel.gate", Until: "router.close.signal", TimeoutMs: 400},
				{Point: "api.close.gate", Until: p.point, UntilKeys: keys, TimeoutMs: 400},
			}})
	}
	// a subscriber whose own Close() blocks (until its message is settled / longer than CloseTimeout / for ever), with and
	// without a handler that outlives CloseTimeout: Close must return (the error) on time, so must a second and concurrent calls
	for _, mode := range []string{"settled", "slow", "forever"} {
		for _, stuck := range []bool{true, false} {
			for _, closers := range []int{1, 3} {
				hsb := hs(false)
				hsb[0].SubClose, hsb[0].SubCloseMs = mode, 250
				if closers == 3 {
					hsb[1].SubClose, hsb[1].SubCloseMs = mode, 250
				}
				keys := []string{target}
				rules := []c06Rule{{Point: "api.close.gate", Until: "api.handler.start", UntilKeys: keys, TimeoutMs: 400}}
				name := "blocking-subscriber-close/" + mode
				if stuck {
					rules = append(rules, c06Rule{Point: "api.handler.start", Keys: keys, Until: "api.release", TimeoutMs: 9000})
					name += "/handler-outlives"
				} else {
					rules = append(rules, c06Rule{Point: "api.handler.start", Keys: keys, Until: "router.close.signal", TimeoutMs: 400})
					name += "/handler-finishes"
				}
				out = append(out, &c06Scenario{Name: fmt.Sprintf("%s/closers=%d/%s", name, closers, hn), Kind: "forced", Handlers: hsb,
					CloseTimeoutMs: 60, Closers: closers, SecondClose: true, Rules: rules})
			}
		}
	}
	// a handler that was added after Run and never started (no RunHandlers): Close must not wait for it
	for _, closers := range []int{1, 3} {
		out = append(out, &c06Scenario{Name: fmt.Sprintf("handler-added-never-started/closers=%d/%s", closers, hn), Kind: "forced", Handlers: hs(false),
			CloseTimeoutMs: 400, Closers: closers, SecondClose: true, Unstarted: 1,
			Rules: []c06Rule{{Point: "api.close.gate", Until: "api.handler.end", UntilKeys: []string{target}, TimeoutMs: 400}}})
	}
	// RunHandlers (for a handler added to the running router) overlapping Close: RunHandlers holds handlersLock while a
	// Close call enters (holds closedLock, wants handlersLock), or the other way round, or unforced; every call must return
	for _, closers := range []int{1, 3} {
		for _, order := range []string{"runhandlers-holds-lock-while-close-enters", "close-first", "unforced"} {
			sc := &c06Scenario{Name: fmt.Sprintf("runhandlers-overlaps-close/%s/closers=%d/%s", order, closers, hn), Kind: "forced", Handlers: hs(false),
				CloseTimeoutMs: 1500, Closers: closers, SecondClose: true, LateHandler: true}
			switch order {
			case "runhandlers-holds-lock-while-close-enters":
				sc.Rules = []c06Rule{
					{Point: "api.rh.gate", Until: "api.handler.end", UntilKeys: []string{c06UUID(0, 0)}, TimeoutMs: 300},
					{Point: "router.life.rh.locked", Nth: 2, Until: "router.life.close.clocked", TimeoutMs: 300}, // the 1st arrival is Run's own call
					{Point: "api.close.gate", Until: "api.rh.call", TimeoutMs: 400}}
			case "close-first":
				sc.Rules = []c06Rule{
					{Point: "api.close.gate", Until: "api.handler.end", UntilKeys: []string{c06UUID(0, 0)}, TimeoutMs: 300},
					{Point: "api.rh.gate", Until: "router.life.close.clocked", TimeoutMs: 400}}
			default:
				sc.Rules = []c06Rule{
					{Point: "api.close.gate", Until: "api.handler.end", UntilKeys: []string{c06UUID(0, 0)}, TimeoutMs: 300},
					{Point: "api.rh.gate", Until: "api.handler.end", UntilKeys: []string{c06UUID(0, 0)}, TimeoutMs: 300}}
			}
			out = append(out, sc)
		}
	}
	// shutdown orders in which the handler loops end BEFORE the router starts closing (the user cancels Run's context; every
	// subscription ends by itself), with a publisher whose Close() takes time or is parked: whoever returns nil - the
	// router's own Close, Run, a later Close call - may do so only when every publisher's Close() has completed
	for _, how := range []string{"ctx-cancel", "subscriptions-end"} {
		if how == "ctx-cancel" && !honour {
			continue // a subscriber that ignores its context does not end on a cancel
		}
		for _, pub := range []string{"slow-publisher-close", "parked-publisher-close"} {
			hsl := hs(true)
			sc := &c06Scenario{Name: fmt.Sprintf("loops-end-first/%s/%s/%s", how, pub, hn), Kind: "forced", Handlers: hsl, CloseTimeoutMs: 2500,
				Closers: 1, SecondClose: true, Cancel: how == "ctx-cancel", SubsEnd: how == "subscriptions-end"}
			gate := "api.cancel.gate"
			if sc.SubsEnd {
				gate = "api.subend.gate"
			}
			sc.Rules = []c06Rule{
				{Point: gate, Until: "api.handler.start", UntilKeys: []string{c06UUID(0, 0)}, TimeoutMs: 300},
				{Point: "api.close.gate", Until: "api.run.ret", TimeoutMs: 1200}}
			if pub == "slow-publisher-close" {
				hsl[0].PubCloseMs = 150
			} else {
				sc.Rules = append(sc.Rules, c06Rule{Point: "api.pub.close", Keys: []string{"h0"}, Until: "api.close.ret", TimeoutMs: 300})
			}
			out = append(out, sc)
		}
	}
	// D5 witness: a received message is dispatched only after the running-handlers wait of Close finished
	for _, p := range c06Points[:2] {
		keys := []string{target}
		out = append(out, &c06Scenario{Name: p.name + "/dispatch-after-running-wait(D5)/" + hn, Kind: "witness", Handlers: hs(false), CloseTimeoutMs: 2500, Closers: 1,
			Rules: []c06Rule{
				{Point: p.point, Keys: keys, Until: "router.close.running_wait_done", TimeoutMs: 250},
				{Point: "api.close.gate", Until: p.point, UntilKeys: keys, TimeoutMs: 400},
				{Point: "api.handler.start", Keys: keys, Until: "api.close.ret", TimeoutMs: 250},
			}})
	}
	// D6 witness: handleClose reaches its select only after Run cancelled the context
	six := make([]c06Handler, 6)
	for i := range six {
		six[i] = c06Handler{Honour: honour, NMsgs: 1, DurMs: []int{0}}
	}
	out = append(out, &c06Scenario{Name: "handleclose-after-run-cancel(D6)/" + hn, Kind: "witness", Handlers: six, CloseTimeoutMs: 200, Closers: 1, D6Helper: true,
		Rules: []c06Rule{
			{Point: "router.handler.handleclose.enter", Until: "api.d6.ready", TimeoutMs: 1000},
			{Point: "api.d6.gate", Until: "router.close.run_cancel", TimeoutMs: 1000},
			{Point: "api.close.gate", Until: "api.handler.end", UntilKeys: []string{c06UUID(5, 0)}, TimeoutMs: 300},
		}})
	return out
}

func c06Random(rng *rand.Rand) *c06Scenario {
	nh := 1 + rng.Intn(3)
	sc := &c06Scenario{Kind: "random", Perturb: []float64{0.15, 0.3, 0.5}[rng.Intn(3)]}
	outlive := rng.Intn(5) == 0
	sc.Cancel = rng.Intn(4) == 0
	for h := 0; h < nh; h++ {
		spec := c06Handler{Honour: rng.Intn(2) == 0, NMsgs: rng.Intn(5), Publish: rng.Intn(2) == 0, NoPub: rng.Intn(4) == 0}
		for k := 0; k < 3; k++ {
			d := rng.Intn(3)
			if outlive && rng.Intn(2) == 0 {
				d = 90 + rng.Intn(40)
			}
			spec.DurMs = append(spec.DurMs, d)
		}
		for k := 0; k < 3; k++ {
			spec.Outcome = append(spec.Outcome, []string{"", "", "", "err", "panic", "puberr"}[rng.Intn(6)])
		}
		spec.SubCloseErr, spec.PubCloseErr = rng.Intn(4) == 0, rng.Intn(4) == 0
		switch rng.Intn(8) {
		case 0, 1:
			spec.SubClose = "settled"
		case 2:
			spec.SubClose, spec.SubCloseMs = "slow", 1+rng.Intn(60)
		}
		sc.Handlers = append(sc.Handlers, spec)
	}
	if outlive {
		sc.CloseTimeoutMs = 40
	} else if sc.Cancel {
		sc.CloseTimeoutMs = 150
	} else {
		sc.CloseTimeoutMs = 2500
	}
	sc.Closers = []int{1, 1, 2, 3, 8}[rng.Intn(5)]
	sc.SecondClose = rng.Intn(3) == 0
	// Close (and the cancel) start when a random point of a random message's path is reached
	h := rng.Intn(nh)
	pts := []string{"api.emit.call", "decorator.sub.before_out", "router.handler.received", "router.handler.wg_added", "router.handler.msg.start",
		"api.handler.start", "api.handler.end", "message.ack.locked", "router.handler.msg.done"}
	pt := pts[rng.Intn(len(pts))]
	k := 0
	if n := sc.Handlers[h].NMsgs; n > 0 {
		k = rng.Intn(n)
	}
	gateKeys := []string{c06UUID(h, k)}
	sc.Rules = append(sc.Rules, c06Rule{Point: "api.close.gate", Until: pt, UntilKeys: gateKeys, TimeoutMs: 30})
	if sc.Cancel {
		sc.Rules = append(sc.Rules, c06Rule{Point: "api.cancel.gate", Until: pt, UntilKeys: gateKeys, TimeoutMs: 20 + rng.Intn(30)})
	}
	sc.Name = fmt.Sprintf("random/nh=%d/closers=%d/gate=%s", nh, sc.Closers, pt)
	return sc
}

func runC06(args []string) error {
	fs, out, seed := newFlags("c06")
	ncases := fs.Int("cases", 40, "number of random scenarios")
	forced := fs.Int("forced", 1, "rounds of the forced scenarios")
	only := fs.String("only", "", "run only scenarios whose name contains this")
	fs.Parse(args)
	rng := rand.New(rand.NewSource(*seed))
	rt := hookrt.Install(*seed)
	defer hookrt.Uninstall()
	var scs []*c06Scenario
	for r := 0; r < *forced; r++ {
		scs = append(scs, c06Forced(true)...)
		scs = append(scs, c06Forced(false)...)
	}
	for i := 0; i < *ncases; i++ {
		scs = append(scs, c06Random(rng))
	}
	var res []*c06Scenario
	for _, sc := range scs {
		if *only != "" && !strings.Contains(sc.Name, *only) {
			continue
		}
		sc.ID = len(res)
		c06Run(rt, sc)
		res = append(res, sc)
	}
	return writeJSON(*out, res)
}

func init() { register("c06", runC06) }
