//go:build verif

// Package hookrt is the harness side of /repo/verifhook: it stamps every hook call into one
// totally ordered log, perturbs the schedule (seeded yields / micro-sleeps) and parks
// goroutines at sync points to force interleavings.
package hookrt

import (
	"bytes"
	"fmt"
	"math/rand"
	"runtime"
	"strconv"
	"sync"
	"time"

	"github.com/ThreeDotsLabs/watermill/verifhook"
)

// Event is one stamp. Seq is a total order (position in the log).
type Event struct {
	Seq   int      `json:"seq"`
	G     int64    `json:"g"`
	Tid   int      `json:"tid"` // harness thread id registered for the goroutine, -1 if none
	Point string   `json:"p"`
	Keys  []string `json:"k,omitempty"`
	T     int64    `json:"t"` // microseconds since the process started (for liveness verdicts only)
}

var t0 = time.Now()

// ParkRule: the N-th arrival (1-based, 0 = every) at Point whose keys contain all of Keys
// waits until Until has been passed at least once (by anyone, with UntilKeys) or Timeout.
type ParkRule struct {
	Point     string
	Keys      []string
	Nth       int
	Until     string
	UntilKeys []string
	Timeout   time.Duration

	arrivals int
	Parked   int  // how many goroutines were parked by this rule
	TimedOut int  // how many of those gave up on the timeout
}

type Runtime struct {
	mu      sync.Mutex
	log     []Event
	tids    map[int64]int
	seed    int64
	rngs    map[int64]*rand.Rand
	perturb map[string]float64 // point (or "*") -> probability of a yield/sleep after the stamp
	maxNap  time.Duration
	filter  func(point string, keys []string) bool
	rules   []*ParkRule
	passed  map[string][][]string
	cond    *sync.Cond
	enabled bool
	releaseAll bool
	parkedNow  int // goroutines currently held by a park rule
}

var cur *Runtime

// Install creates a fresh runtime and makes it the verifhook handler.
func Install(seed int64) *Runtime {
	r := &Runtime{
		tids: map[int64]int{}, seed: seed, rngs: map[int64]*rand.Rand{},
		perturb: map[string]float64{}, maxNap: 50 * time.Microsecond,
		passed: map[string][][]string{}, enabled: true,
	}
	r.cond = sync.NewCond(&r.mu)
	cur = r
	verifhook.SetHandler(func(point string, keys []string) { r.at(point, keys) })
	return r
}

// Uninstall removes the handler.
func Uninstall() { verifhook.SetHandler(nil); cur = nil }

// Perturb sets the probability of a yield / micro-sleep after a stamp at point ("*" = default).
func (r *Runtime) Perturb(point string, p float64) { r.mu.Lock(); r.perturb[point] = p; r.mu.Unlock() }
func (r *Runtime) MaxNap(d time.Duration)          { r.mu.Lock(); r.maxNap = d; r.mu.Unlock() }

// Filter restricts which hook calls are logged (harness stamps are always logged).
func (r *Runtime) Filter(f func(point string, keys []string) bool) { r.mu.Lock(); r.filter = f; r.mu.Unlock() }

// AddRule registers a park rule and returns it (its counters can be read after the run).
func (r *Runtime) AddRule(rule *ParkRule) *ParkRule {
	r.mu.Lock()
	r.rules = append(r.rules, rule)
	r.mu.Unlock()
	return rule
}

// Register binds the calling goroutine to a harness thread id.
func (r *Runtime) Register(tid int) {
	g := gid()
	r.mu.Lock()
	r.tids[g] = tid
	r.mu.Unlock()
}

// Stamp is used by the harness itself (invocation / response stamps); never parks.
func (r *Runtime) Stamp(point string, keys ...string) int {
	g := gid()
	r.mu.Lock()
	seq := r.append(g, point, keys)
	r.mu.Unlock()
	return seq
}

// Len returns the number of events logged so far.
// ParkedNow reports how many goroutines a park rule is holding at this moment.
func (r *Runtime) ParkedNow() int { r.mu.Lock(); defer r.mu.Unlock(); return r.parkedNow }

func (r *Runtime) Len() int { r.mu.Lock(); defer r.mu.Unlock(); return len(r.log) }

// ReleaseAll makes every parked goroutine continue (end of a scenario).
func (r *Runtime) ReleaseAll() {
	r.mu.Lock()
	r.releaseAll = true
	r.cond.Broadcast()
	r.mu.Unlock()
}

// RuleInfo summarises what the park rules did.
func (r *Runtime) RuleInfo() string {
	r.mu.Lock()
	defer r.mu.Unlock()
	s := ""
	for _, rule := range r.rules {
		s += fmt.Sprintf("%s->%s parked=%d timedout=%d; ", rule.Point, rule.Until, rule.Parked, rule.TimedOut)
	}
	return s
}

// Log returns a copy of the log.
func (r *Runtime) Log() []Event {
	r.mu.Lock()
	defer r.mu.Unlock()
	out := make([]Event, len(r.log))
	copy(out, r.log)
	return out
}

// Reset clears the log, rules and passed-points (between cases).
func (r *Runtime) Reset() {
	r.mu.Lock()
	r.log = nil
	r.rules = nil
	r.passed = map[string][][]string{}
	r.tids = map[int64]int{}
	r.rngs = map[int64]*rand.Rand{}
	r.releaseAll = false
	r.perturb = map[string]float64{}
	r.mu.Unlock()
}

func (r *Runtime) append(g int64, point string, keys []string) int {
	tid, ok := r.tids[g]
	if !ok {
		tid = -1
	}
	seq := len(r.log)
	r.log = append(r.log, Event{Seq: seq, G: g, Tid: tid, Point: point, Keys: append([]string(nil), keys...), T: int64(time.Since(t0) / time.Microsecond)})
	r.passed[point] = append(r.passed[point], keys)
	r.cond.Broadcast()
	return seq
}

func containsAll(have, want []string) bool {
	for _, w := range want {
		found := false
		for _, h := range have {
			if h == w {
				found = true
				break
			}
		}
		if !found {
			return false
		}
	}
	return true
}

func (r *Runtime) hasPassed(point string, keys []string) bool {
	for _, k := range r.passed[point] {
		if containsAll(k, keys) {
			return true
		}
	}
	return false
}

func (r *Runtime) at(point string, keys []string) {
	g := gid()
	r.mu.Lock()
	if r.filter != nil && !r.filter(point, keys) {
		r.mu.Unlock()
		return
	}
	r.append(g, point, keys)
	// parking
	for _, rule := range r.rules {
		if rule.Point != point || !containsAll(keys, rule.Keys) {
			continue
		}
		rule.arrivals++
		if rule.Nth != 0 && rule.arrivals != rule.Nth {
			continue
		}
		if r.hasPassed(rule.Until, rule.UntilKeys) {
			continue
		}
		rule.Parked++
		r.parkedNow++
		deadline := time.Now().Add(rule.Timeout)
		timer := time.AfterFunc(rule.Timeout, func() { r.mu.Lock(); r.cond.Broadcast(); r.mu.Unlock() })
		for !r.hasPassed(rule.Until, rule.UntilKeys) && !r.releaseAll {
			if time.Now().After(deadline) {
				rule.TimedOut++
				break
			}
			r.cond.Wait()
		}
		timer.Stop()
		r.parkedNow--
		seq := len(r.log)
		r.log = append(r.log, Event{Seq: seq, G: g, Tid: r.tidOf(g), Point: point + "#released", Keys: append([]string(nil), keys...)})
	}
	// perturbation
	p, ok := r.perturb[point]
	if !ok {
		p = r.perturb["*"]
	}
	var nap time.Duration
	yield := false
	if p > 0 {
		rng := r.rngs[g]
		if rng == nil {
			rng = rand.New(rand.NewSource(r.seed*1000003 + int64(r.tidOf(g))*7919 + int64(len(r.rngs))))
			r.rngs[g] = rng
		}
		if rng.Float64() < p {
			if rng.Intn(2) == 0 {
				yield = true
			} else {
				nap = time.Duration(rng.Int63n(int64(r.maxNap) + 1))
			}
		}
	}
	r.mu.Unlock()
	if yield {
		runtime.Gosched()
	}
	if nap > 0 {
		time.Sleep(nap)
	}
}

func (r *Runtime) tidOf(g int64) int {
	if t, ok := r.tids[g]; ok {
		return t
	}
	return -1
}

func gid() int64 {
	var buf [64]byte
	n := runtime.Stack(buf[:], false)
	b := buf[:n]
	b = bytes.TrimPrefix(b, []byte("goroutine "))
	i := bytes.IndexByte(b, ' ')
	if i < 0 {
		return -1
	}
	id, _ := strconv.ParseInt(string(b[:i]), 10, 64)
	return id
}
