module wmverif

go 1.21

require github.com/ThreeDotsLabs/watermill v0.0.0

require (
	github.com/cenkalti/backoff/v3 v3.2.2
	github.com/go-chi/chi/v5 v5.1.0
	github.com/gogo/protobuf v1.3.2
	github.com/golang/protobuf v1.5.4
	github.com/google/uuid v1.6.0
	github.com/hashicorp/go-multierror v1.1.1
	github.com/lithammer/shortuuid/v3 v3.0.7
	github.com/oklog/ulid v1.3.1
	github.com/pkg/errors v0.9.1
	github.com/prometheus/client_golang v1.20.2
	github.com/sony/gobreaker v1.0.0
	github.com/stretchr/testify v1.9.0
	google.golang.org/protobuf v1.34.2
	github.com/beorn7/perks v1.0.1
	github.com/cespare/xxhash/v2 v2.3.0
	github.com/davecgh/go-spew v1.1.1
	github.com/hashicorp/errwrap v1.1.0
	github.com/klauspost/compress v1.17.9
	github.com/kr/text v0.2.0
	github.com/munnerz/goautoneg v0.0.0-20191010083416-a7dc8b61c822
	github.com/pmezard/go-difflib v1.0.0
	github.com/prometheus/client_model v0.6.1
	github.com/prometheus/common v0.55.0
	github.com/prometheus/procfs v0.15.1
	golang.org/x/sys v0.24.0
	gopkg.in/yaml.v3 v3.0.1
)

replace github.com/ThreeDotsLabs/watermill => /repo
