module wmverif

go 1.21

require github.com/ThreeDotsLabs/watermill v0.0.0

require (
	github.com/google/uuid v1.6.0 // indirect
	github.com/lithammer/shortuuid/v3 v3.0.7 // indirect
	github.com/oklog/ulid v1.3.1 // indirect
	github.com/pkg/errors v0.9.1 // indirect
)

replace github.com/ThreeDotsLabs/watermill => /repo
