"""Shared machinery of the GoChannel checks (C04, C05, C07, C11): maps the stamped hook log of
a scenario to labels of the two Coq models (Layer A per subscription: GoChannel/Sub.v; Layer B
registry: GoChannel/Reg.v), replays them with coqc/vm_compute, and evaluates API-level acceptors."""
import re
from . import common as C

HEADER = 'From WM Require Import Base.Prelude GoChannel.Sub GoChannel.Reg Corr.GoChannel.\n'
# which variant of the model corresponds to the code in /repo (flipped by the fix: commits)
FIXED_D13 = True
FIXED_D7 = True

def topic_no(s): return int(s.split('-')[1])
def msg_no(u): return int(u.split('-')[1])

class Mapped:
    pass

def map_scenario(sc):
    ev = [e for e in sc['events'] if not e['p'].endswith('#released')]
    m = Mapped()
    m.problems = []
    # ---- identify subscriptions: uuid -> harness index (via goroutine of api.subscribe.call)
    sub_call_g = {}       # goroutine -> sub index (while inside Subscribe)
    uuid2sub = {}
    sub_topic = {}
    for e in ev:
        p, k = e['p'], e.get('k') or []
        if p == 'api.subscribe.call':
            sub_call_g[e['g']] = int(k[0]); sub_topic[int(k[0])] = int(k[1])
        elif p == 'api.subscribe.ret':
            sub_call_g.pop(e['g'], None)
        elif p == 'gochannel.subscribe.created':
            if e['g'] in sub_call_g:
                uuid2sub[k[1]] = sub_call_g[e['g']]
            else:
                m.problems.append('subscribe.created outside a Subscribe call')
    m.uuid2sub = uuid2sub
    nsub = len(sc['subs']) + 1
    # ---- Layer A per subscription
    A = {i: [] for i in range(nsub)}          # list of (pos, seq, label_str, expect)
    sender_tid = {}                            # goroutine -> (sub, tid, pub)
    next_tid = {i: 0 for i in range(nsub)}
    alloc_count = {i: 0 for i in range(nsub)}
    cur_copy = {}                              # goroutine -> current model cid
    sent_q = {}                                # (sub, msg uuid) -> list of dict(sent_seq, cid, g) awaiting recv match
    recv_events = {}                           # (sub, msg uuid) -> list of recv events in order
    copy_of_recv = {}                          # harness copy id (string) -> (sub, model cid)
    for e in ev:
        if e['p'] == 'api.recv':
            recv_events.setdefault((int(e['k'][0]), e['k'][1]), []).append(e)
    recv_idx = {}
    def add(i, pos, seq, lab, exp=None):
        A[i].append((pos, seq, lab, exp))
    cap = sc['buffer']
    # close(s.closing) takes effect somewhere between its 'signal' stamp (placed BEFORE the close)
    # and the first stamp that proves it happened: the teardown's own 'before_lock' stamp or a
    # Sender's observation of the closed channel.  The non-blocking check at the head of the send
    # loop (D13 repair) can still read "open" after the 'signal' stamp, so the model's close step
    # is placed as LATE as the log allows and the Sender's loop-head step (read of s.closing +
    # thread-local copy) as EARLY as it allows (right after the Sender's previous step).
    closed_obs = {}                            # subscription uuid -> [seq of stamps that prove s.closing is closed]
    for e in ev:
        p, k = e['p'], e.get('k') or []
        if p == 'gochannel.sub.close.before_lock':
            closed_obs.setdefault(k[0], []).append(e['seq'])
        elif p in ('gochannel.send.discard_closing', 'gochannel.send.closing_before_send', 'gochannel.send.closing_after_send'):
            closed_obs.setdefault(k[1], []).append(e['seq'])
    last_pos = {}                              # goroutine -> position of its latest Layer A label
    for e in ev:
        p, k, seq, g = e['p'], e.get('k') or [], e['seq'], e['g']
        if p.startswith('gochannel.send.'):
            u = k[1]
            if u not in uuid2sub:
                m.problems.append('send hook for unknown subscription'); continue
            i = uuid2sub[u]; what = p[len('gochannel.send.'):]
            if what == 'start':
                t = next_tid[i]; next_tid[i] += 1
                sender_tid[g] = (i, t, msg_no(k[0]))
                add(i, seq, seq, 'LSpawn %d %d' % (t, msg_no(k[0])))
                continue
            if g not in sender_tid:
                m.problems.append('send hook without start'); continue
            _, t, pub = sender_tid[g]
            if what in ('locked', 'discard_closed', 'discard_closing', 'unlock'):
                add(i, seq, seq, 'LStep %d' % t); last_pos[g] = seq
            elif what == 'before_chan':
                cur_copy[g] = alloc_count[i]; alloc_count[i] += 1
                pos = last_pos.get(g, seq - 0.001) + 0.001
                add(i, min(pos, seq), seq, 'LStep %d' % t)
            elif what == 'sent':
                key = (i, k[0]); n = recv_idx.get(key, 0); recv_idx[key] = n + 1
                rl = recv_events.get(key, [])
                r = rl[n] if n < len(rl) else None
                cid = cur_copy.get(g)
                if r is not None:
                    copy_of_recv[r['k'][2]] = (i, cid)
                if cap == 0:
                    pos = min(seq, r['seq']) if r is not None else seq
                    add(i, pos, seq, 'LHandoff %d' % t, pub)
                    if r is None:
                        m.problems.append('unbuffered send without a receive event')
                else:
                    pos = min(seq, r['seq'] - 0.5) if r is not None else seq
                    add(i, pos, seq, 'LSendBuf %d' % t)
                    if r is not None:
                        add(i, r['seq'], r['seq'], 'LRecv', msg_no(r['k'][1]))
            elif what == 'acked':
                add(i, seq, seq, 'LSeeAcked %d' % t)
            elif what == 'nacked':
                add(i, seq, seq, 'LSeeNacked %d' % t); last_pos[g] = seq
            elif what in ('closing_before_send', 'closing_after_send'):
                add(i, seq, seq, 'LSeeClosing %d' % t)
            elif what in ('wait_settle',):
                pass
        elif p == 'gochannel.subscribe.created':
            if k[1] in uuid2sub: add(uuid2sub[k[1]], seq, seq, 'LTdSpawn')
        elif p == 'gochannel.teardown.woken':
            if k[0] in uuid2sub: add(uuid2sub[k[0]], seq, seq, 'LTdWake')
        elif p == 'gochannel.sub.close.signal':
            later = [x for x in closed_obs.get(k[0], []) if x > seq]
            pos = (min(later) - 0.25) if later else seq
            if k[0] in uuid2sub: add(uuid2sub[k[0]], pos, seq, 'LTdStep')
        elif p in ('gochannel.sub.close.locked', 'gochannel.sub.close.closing_output', 'gochannel.sub.close.unlock'):
            if k[0] in uuid2sub: add(uuid2sub[k[0]], seq, seq, 'LTdStep')
    # consumer settle labels need the model cid of the harness copy: second pass
    for e in ev:
        p, k, seq = e['p'], e.get('k') or [], e['seq']
        if p in ('api.ack', 'api.nack'):
            i = int(k[0])
            if k[2] in copy_of_recv and copy_of_recv[k[2]][1] is not None:
                add(i, seq, seq, ('LAck %d' if p == 'api.ack' else 'LNack %d') % copy_of_recv[k[2]][1])
            else:
                m.problems.append('settle of a copy that no Sender sent (sub %d)' % i)
    m.A = {}
    for i in A:
        A[i].sort(key=lambda x: (x[0], x[1]))
        m.A[i] = [(lab, exp) for _, _, lab, exp in A[i]]
    # a receive without a matching Sender 'sent' (e.g. delivered by something else)
    for key, rl in recv_events.items():
        if recv_idx.get(key, 0) < len(rl) and cap == 0:
            m.problems.append('receive on sub %d of %s without a Sender having sent it' % key)
    # ---- Layer B
    B = []          # (pos, seq, label, expect)
    def addb(pos, seq, lab, exp='ENone'):
        B.append((pos, seq, lab, exp))
    pub_g = {}      # goroutine -> tid of the publish call in progress
    pub_tid = {}
    pub_ret = {}
    close_g = {}
    ntid = [0]
    def newtid():
        ntid[0] += 1; return ntid[0] - 1
    sub_g = dict()  # goroutine -> sub index during Subscribe
    m.pub_calls = []
    for e in ev:
        p, k, seq, g = e['p'], e.get('k') or [], e['seq'], e['g']
        if p == 'api.publish.call':
            t = newtid(); pub_g[g] = t
            ms = [msg_no(u) for u in k[3:]]
            addb(seq, seq, 'GPublish %d %d %s' % (t, int(k[2]), C.coq_list(map(str, ms))))
            m.pub_calls.append(dict(tid=t, topic=int(k[2]), msgs=ms, call=seq, g=g, key=(k[0], k[1])))
        elif p == 'api.publish.ret':
            t = pub_g.pop(g, None)
            for pc in m.pub_calls:
                if pc['tid'] == t: pc['ret'] = seq; pc['ok'] = (k[2] == 'true')
        elif p.startswith('gochannel.publish.'):
            what = p[len('gochannel.publish.'):]
            if what == 'all_acked':
                addb(seq, seq, 'GAllAcked %d' % msg_no(k[0])); continue
            if what == 'fanout_start':      # stamp of the fan-out goroutine (a parking point only; no model step)
                continue
            t = pub_g.get(g)
            if t is None:
                m.problems.append('publish hook outside a Publish call: ' + what); continue
            if what == 'closed_check':
                addb(seq, seq, 'GT %d' % t, 'EClosed %s' % C.coq_bool(k[0] == 'closed'))
                for pc in m.pub_calls:
                    if pc['tid'] == t: pc['saw_closed'] = (k[0] == 'closed')
            elif what in ('rlocked', 'topic_locked', 'before_persist', 'wait_done'):
                addb(seq, seq, 'GT %d' % t)
            elif what == 'snapshot':
                xs = [uuid2sub.get(u, 999) for u in k[2:]]
                addb(seq, seq, 'GT %d' % t, 'ESnap %s' % C.coq_list(map(str, xs)))
                for pc in m.pub_calls:
                    if pc['tid'] == t: pc.setdefault('snapshots', {})[msg_no(k[1])] = (seq, xs)
            elif what == 'topic_unlock':
                addb(seq - 0.5, seq, 'GT %d' % t, 'EMaybeSendEnd')     # PSend [] -> PTUnlock (absent after a panic)
                addb(seq, seq, 'GT %d' % t)
            elif what == 'runlock':
                addb(seq, seq, 'GT %d' % t, 'ERETPLACEHOLDER %d' % t)
        elif p == 'api.subscribe.call':
            sub_g[g] = int(k[0])
            addb(seq, seq, 'GSubscribe %d %d' % (int(k[0]), int(k[1])))
        elif p == 'api.subscribe.ret':
            sub_g.pop(g, None)
        elif p.startswith('gochannel.subscribe.'):
            what = p[len('gochannel.subscribe.'):]
            if what in ('closed', 'wg_added', 'wrequest', 'wlocked', 'topic_locked') :
                x = sub_g.get(g)
                if x is None:
                    m.problems.append('subscribe hook outside a Subscribe call: ' + what); continue
                if what == 'wrequest': continue
                if what == 'wlocked':
                    addb(seq - 0.5, seq, 'GS_ %d' % x)          # tau: writer announcement, as late as possible
                addb(seq, seq, 'GS_ %d' % x)
            else:
                u = k[1] if what in ('created', 'replay', 'registered') else k[0]
                x = uuid2sub.get(u)
                if x is None:
                    m.problems.append('subscribe hook for unknown subscription: ' + what); continue
                if what == 'replay':
                    addb(seq, seq, 'GS_ %d' % x, 'EReplay %s' % C.coq_list([str(msg_no(u2)) for u2 in k[2:]]))
                else:
                    addb(seq, seq, 'GS_ %d' % x)
        elif p == 'api.cancel':
            addb(seq, seq, 'GCancel %d' % int(k[0]))
        elif p == 'gochannel.teardown.woken':
            x = uuid2sub.get(k[0])
            if x is not None: addb(seq, seq, 'GD %d' % x)
        elif p.startswith('gochannel.unsubscribe.'):
            what = p[len('gochannel.unsubscribe.'):]
            x = uuid2sub.get(k[0])
            if x is None: continue
            if what == 'wlocked':
                addb(seq - 0.5, seq, 'GD %d' % x)
            addb(seq, seq, 'GD %d' % x)
        elif p == 'api.close.call':
            t = newtid(); close_g[g] = t
            addb(seq, seq, 'GClose %d' % t)
        elif p == 'api.close.ret':
            close_g.pop(g, None)
        elif p.startswith('gochannel.close.'):
            t = close_g.get(g)
            if t is None:
                m.problems.append('close hook outside a Close call'); continue
            addb(seq, seq, 'GT %d' % t)
    B.sort(key=lambda x: (x[0], x[1]))
    # resolve placeholders: ERet from the api return value; drop the "send end" step after a panic
    okof = {pc['tid']: pc.get('ok') for pc in m.pub_calls}
    m.B = []
    for _, _, lab, exp in B:
        if exp.startswith('ERETPLACEHOLDER'):
            t = int(exp.split()[1]); ok = okof.get(t)
            exp = 'ENone' if ok is None else 'ERet %s' % C.coq_bool(ok)
        m.B.append((lab, exp))
    return m

def a_case_term(cap, labels):
    return '(AC %d %s %s)' % (cap, C.coq_bool(FIXED_D13), C.coq_list(
        ['(%s, %s)' % (lab, 'None' if exp is None else 'Some %d' % exp) for lab, exp in labels]))

def g_case_term(sc, labels):
    labs = []
    for lab, exp in labels:
        if exp == 'EMaybeSendEnd':
            exp = 'ESendEnd'
        labs.append('(%s, %s)' % (lab, exp))
    return '(GC %s %s %s %s)' % (C.coq_bool(sc['persistent']), C.coq_bool(sc['blocking']), C.coq_bool(FIXED_D7), C.coq_list(labs))

def replay_scenarios(pid, name, scs):
    """returns per scenario: dict(A={sub: (code, panicked)}, B=(code, panicked), mapped=m)"""
    mapped = [map_scenario(sc) for sc in scs]
    a_terms, a_index = [], []
    for si, (sc, m) in enumerate(zip(scs, mapped)):
        for i, labs in m.A.items():
            if labs:
                a_terms.append(a_case_term(sc['buffer'], labs)); a_index.append((si, i))
    g_terms = [g_case_term(sc, m.B) for sc, m in zip(scs, mapped)]
    out = [dict(A={}, B=None, mapped=m) for m in mapped]
    for part, chunk in enumerate(C.chunks(list(zip(a_terms, a_index)), 150)):
        r = C.coq_eval(pid, '%s_A_%d' % (name, part), HEADER + 'Definition cases : list a_case := %s.\n' % C.coq_list([t for t, _ in chunk]),
                       [('R', 'a_results cases')])
        for (code, pan), (_, (si, i)) in zip(r['R'], chunk):
            out[si]['A'][i] = (code, pan)
    for part, chunk in enumerate(C.chunks(list(enumerate(g_terms)), 60)):
        r = C.coq_eval(pid, '%s_B_%d' % (name, part), HEADER + 'Definition cases : list g_case := %s.\n' % C.coq_list([t for _, t in chunk]),
                       [('R', 'g_results cases')])
        for (code, pan), (si, _) in zip(r['R'], chunk):
            out[si]['B'] = (code, pan)
    return out

MON_HEADER = 'From WM Require Import Base.Prelude GoChannel.Monitor.\n'
VNAME = {1: 'two messages in flight on one subscription', 2: 'two messages in flight on one subscription while it is being cancelled/closed',
         3: 'redelivery although the previous delivery was not Nacked', 4: 'redelivery after an Ack',
         5: 'delivered copy differs from the published message (UUID/payload/metadata)', 6: 'delivery context not live on receipt / not derived from the Subscribe context / not cancelled after Ack',
         7: 'delivered to a subscription of another topic (or never published)', 8: 'a subscription that existed when Publish was called did not receive the message',
         9: 'persistent + always acking: message received other than exactly once', 10: 'blocking Publish returned before an active subscription acked',
         11: 'blocking mode: one publisher\'s messages received out of order'}

def history(sc):
    """API events of a scenario as (Gallina term, readable) in stamp order; ASubCall is placed at
    the position of its ASubRet (a subscription counts from the moment Subscribe returned)."""
    out = []
    subcall = {}
    pubtid = {}
    n = [0]
    for e in sc['events']:
        p, k = e['p'], e.get('k') or []
        if not p.startswith('api.'): continue
        what = p[4:]
        if what == 'publish.call':
            t = n[0]; n[0] += 1; pubtid[(k[0], k[1])] = t
            out.append(('APubCall %d %d %s' % (t, int(k[2]), C.coq_list([str(msg_no(u)) for u in k[3:]])), e))
        elif what == 'publish.ret':
            t = pubtid.get((k[0], k[1]))
            if t is not None: out.append(('APubRet %d %s' % (t, k[2]), e))
        elif what == 'subscribe.call':
            subcall[k[0]] = int(k[1])
        elif what == 'subscribe.ret':
            out.append(('ASubCall %d %d' % (int(k[0]), subcall.get(k[0], 0)), e))
            out.append(('ASubRet %d %s' % (int(k[0]), k[1]), e))
        elif what == 'recv':
            out.append(('ARecv %d %d %d %s %s %s' % (int(k[0]), msg_no(k[1]), int(k[2]), k[3], k[4], k[5]), e))
        elif what in ('ack', 'nack', 'leave'):
            out.append(('%s %d %d' % ({'ack': 'AAck', 'nack': 'ANack', 'leave': 'ALeave'}[what], int(k[0]), int(k[2])), e))
        elif what == 'ctx_done_after_ack':
            out.append(('ACtxDone %d %d true' % (int(k[0]), int(k[1])), e))
        elif what == 'ctx_not_done_after_ack':
            out.append(('ACtxDone %d %d false' % (int(k[0]), int(k[1])), e))
        elif what == 'cancel':
            out.append(('ACancel %d' % int(k[0]), e))
        elif what == 'chan_closed':
            out.append(('AChanClosed %d' % int(k[0]), e))
        elif what == 'close.call':
            out.append(('ACloseCall', e))
        elif what == 'close.ret':
            out.append(('ACloseRet', e))
        elif what == 'driver.close_to_release':
            out.append(('ADriverClose', e))
        elif what == 'quiescent':
            out.append(('AQuiescent', e))
    return out

def readable(sc, hist, upto=None):
    evs = [dict(seq=e['seq'], event=t) for t, e in hist]
    return dict(config=dict(buffer=sc['buffer'], persistent=sc['persistent'], blocking=sc['blocking']),
                forced=sc['forced'], subs=sc['subs'], pubs=sc['pubs'], api_history=evs if upto is None else evs[:upto + 1])

def run_monitors(pid, name, scs):
    """per scenario: dict(one=[(i,code)], dup=[..], content=[..], replay=[(x,p,code)], delivered=[..], blocking=[..], hist=...)"""
    hists = [history(sc) for sc in scs]
    res = []
    for part, chunk in enumerate(C.chunks(list(range(len(scs))), 40)):
        defs = []
        body = ''
        for j in chunk:
            body += 'Definition h%d : list aev := %s.\n' % (j, C.coq_list(['(%s)' % t for t, _ in hists[j]]))
        for j in chunk:
            owner = [(n, pi) for pi, p in enumerate(scs[j]['pubs']) for call in p['calls'] for n in call]
            body += 'Definition o%d : list (nat * nat) := %s.\n' % (j, C.coq_list(['(%d, %d)' % q for q in owner]))
        terms = C.coq_list(['(mon_one_in_flight h%d, mon_no_dup h%d, mon_content h%d, mon_persistent_replay h%d, mon_delivered h%d, mon_blocking h%d ++ mon_blocking_order o%d h%d)' % ((j,) * 8) for j in chunk])
        r = C.coq_eval(pid, '%s_M_%d' % (name, part), MON_HEADER + body, [('R', terms)])
        for j, v in zip(chunk, r['R']):
            sc = scs[j]
            res.append(dict(one=v[0], dup=v[1], content=v[2], replay=v[3] if sc['persistent'] else [],
                            delivered=v[4], blocking=v[5] if sc['blocking'] else [], hist=hists[j]))
    return res

TRUSTED_BASE = [
    'modelled, not verified: Go runtime semantics of sync.Mutex, sync.RWMutex (writer preference), channels/select (any ready case), sync.WaitGroup, context cancellation; '
    'GoChannel/Sub.v (per-subscription send protocol) and GoChannel/Reg.v (registry protocol) are hand-written from pubsub/gochannel/pubsub.go and tied to it by schedule replay of the stamped hook log',
    'the stamp discipline (acquire: stamp after; release: stamp before; channel hand-off at the earlier completion stamp; RWMutex writer announcement inserted as late as possible) and the Python mapper checks/gochan.py',
    'GoChannel/Monitor.v API-level acceptors are executable oracles on implementation histories (not proved equivalent to the model theorems)',
]
ASSUMPTIONS = [
    'liveness verdicts on the implementation (Close/cancel/blocking Publish return) use bounds of 1.5-3 s after everything else is quiescent; goroutine leaks are detected by a stack dump filtered on pubsub/gochannel frames',
    'data races are outside the models (thorough tier: -race build of the same scenarios)',
]

def run_family(ctx, res, ncases=None, forced_rounds=None, seed_offset=0, race=False, persistent_only=False):
    """runs the scenario family once and returns (scenarios, replays, monitors)"""
    pid, tier, seed = ctx['pid'], ctx['tier'], ctx['seed'] + seed_offset
    binary = C.build_harness(race=race)
    ncases = ncases if ncases is not None else (45 if tier == 'quick' else 400)
    forced_rounds = forced_rounds if forced_rounds is not None else (1 if tier == 'quick' else 6)
    args = ['gochan', '-cases', str(ncases), '-forced', str(forced_rounds), '-seed', str(seed)] + (['-mode', 'persistent'] if persistent_only else [])
    scs, out = C.run_harness(binary, args, pid, 'gochan_%d.json' % seed, timeout=3000)
    reps = replay_scenarios(pid, 'rep%d' % seed, scs)
    mons = run_monitors(pid, 'mon%d' % seed, scs)
    for sc, rp, mo in zip(scs, reps, mons):
        res.evaluations += 1
        res.count('buffer=%d' % sc['buffer']); res.count('persistent' if sc['persistent'] else 'non-persistent'); res.count('blocking' if sc['blocking'] else 'non-blocking')
        res.count('forced' if sc['forced'] else 'random')
        res.count('api events', len(mo['hist'])); res.count('hook events', len(sc['events']))
        nlab = sum(len(v) for v in rp['mapped'].A.values()) + len(rp['mapped'].B)
        res.count('model labels replayed', nlab)
        if len(sc['events']) > 60:
            res.nontrivial.add((sc['buffer'], sc['persistent'], sc['blocking'], sc['forced'], len(sc['events']), nlab))
    if race:
        res.extra['race_detector'] = dict(scenarios=len(scs), races_reported=out.count('WARNING: DATA RACE'))
        if out.count('WARNING: DATA RACE'):
            res.violations.append(dict(signature='%s/data-race' % pid, what='race detector reports a data race in GoChannel', case=dict(report=out[:3000])))
    return scs, reps, mons

def replay_mismatches(res, scs, reps, layers=('A', 'B')):
    """correspondence: the recorded schedule must be accepted label by label by both models"""
    for sc, rp in zip(scs, reps):
        m = rp['mapped']
        for pr in m.problems:
            res.mismatches.append(dict(kind='GoChannel stamp mapping: ' + pr, case=dict(scenario=sc['id'], forced=sc['forced'])))
        if 'A' in layers:
            for i, (code, pan) in rp['A'].items():
                if code:
                    labs = m.A[i]
                    res.mismatches.append(dict(kind='Corr.GoChannel.a_replay (GoChannel/Sub.v sstep vs sendMessageToSubscriber/subscriber.Close): label %d not enabled or observation differs' % (code - 1),
                                               case=dict(scenario=sc['id'], forced=sc['forced'], buffer=sc['buffer'], subscription=i, labels_upto=labs[max(0, code - 8):code])))
        if 'B' in layers and rp['B'] and rp['B'][0]:
            code = rp['B'][0]
            res.mismatches.append(dict(kind='Corr.GoChannel.g_replay (GoChannel/Reg.v gstep vs Publish/Subscribe/teardown/Close): label %d not enabled or observation differs' % (code - 1),
                                       case=dict(scenario=sc['id'], forced=sc['forced'], persistent=sc['persistent'], blocking=sc['blocking'], labels_upto=m.B[max(0, code - 8):code])))

def redelivery_check(res, sc, mo, sig):
    """C04 'keeps receiving it after every Nack until it Acks': for a subscription that stayed open
    (no cancel, no close before quiescence, nothing left unsettled) the LAST delivery of every
    message it received must not be a Nacked one at quiescence."""
    hist = []
    for t, e in mo['hist']:
        if t.startswith('AQuiescent'): break
        hist.append(t.split())
    if any(h[0] in ('ACloseCall', 'ADriverClose') for h in hist):
        return
    gone = {int(h[1]) for h in hist if h[0] in ('ACancel', 'ALeave', 'AChanClosed')}
    last = {}       # (sub, pub) -> copy
    nacked = set()  # (sub, copy)
    for h in hist:
        if h[0] == 'ARecv': last[(int(h[1]), int(h[2]))] = int(h[3])
        elif h[0] == 'ANack': nacked.add((int(h[1]), int(h[2])))
    for (x, p), c in sorted(last.items()):
        if x not in gone and (x, c) in nacked:
            res.violations.append(dict(signature=sig, what='subscription %d Nacked message %d and did not receive it again although it stayed open' % (x, p), case=readable(sc, mo['hist'])))

def liveness_verdicts(sc, m):
    """Time-based verdicts (testing, generous bounds) on one scenario, from the event clock:
    returns list of (signature_suffix, text).  (1) a cancelled subscription whose output channel
    was not closed although the cancel happened >= 700 ms before the driver gave up waiting;
    (2) a blocking Publish still blocked at that moment although every subscription that was
    active for it had acked or been cancelled >= 700 ms earlier."""
    ev = sc['events']
    td = next((e['t'] for e in ev if e['p'] == 'api.driver.close_to_release'), None)
    out = []
    if td is None:
        return out
    sub2uuid = {v: k for k, v in m.uuid2sub.items()}
    closed_out = {}
    for e in ev:
        if e['p'] == 'gochannel.sub.close.closing_output' and e['t'] <= td:
            closed_out[e['k'][0]] = e['t']
    cancel_t = {}
    for e in ev:
        if e['p'] == 'api.cancel' and e['t'] <= td:
            cancel_t.setdefault(int(e['k'][0]), e['t'])
    SLACK = 700000
    for x, tc in cancel_t.items():
        u = sub2uuid.get(x)
        if u is not None and u not in closed_out and td - tc >= SLACK:
            out.append(('cancel-not-completed', 'subscription %d: context cancelled %.0f ms before the driver gave up, output channel still not closed' % (x, (td - tc) / 1000)))
    if sc['blocking']:
        sub_ret = {}; sub_topic = {}
        for e in ev:
            if e['p'] == 'api.subscribe.call': sub_topic[int(e['k'][0])] = int(e['k'][1])
            if e['p'] == 'api.subscribe.ret' and e['k'][1] == 'true': sub_ret[int(e['k'][0])] = e['seq']
        acked = {}      # (sub, msg uuid) -> time of ack
        copy_msg = {}
        for e in ev:
            if e['p'] == 'api.recv': copy_msg[(int(e['k'][0]), e['k'][2])] = e['k'][1]
            if e['p'] == 'api.ack' and e['t'] <= td:
                u = copy_msg.get((int(e['k'][0]), e['k'][2]))
                if u: acked.setdefault((int(e['k'][0]), u), e['t'])
        rets = {(e['k'][0], e['k'][1]) for e in ev if e['p'] == 'api.publish.ret' and e['t'] <= td}
        for e in ev:
            if e['p'] != 'api.publish.call' or e['t'] > td or (e['k'][0], e['k'][1]) in rets or e['k'][0] == '99':
                continue
            topic = int(e['k'][2]); msgs = e['k'][3:]
            active = [x for x, s in sub_ret.items() if s < e['seq'] and sub_topic.get(x) == topic]
            waiting = False; latest = e['t']
            for x in active:
                if x in cancel_t:
                    latest = max(latest, cancel_t[x]); continue
                for u in msgs:
                    if (x, u) in acked: latest = max(latest, acked[(x, u)])
                    else: waiting = True
            if not waiting and td - latest >= SLACK:
                out.append(('blocked-publish', 'blocking Publish of %s still blocked %.0f ms after every subscription that was active for it had acked or been cancelled' % (','.join(msgs), (td - latest) / 1000)))
    return out

def samples(res, scs, mons):
    for sc, mo in list(zip(scs, mons))[:2]:
        r = readable(sc, mo['hist']); r['api_history'] = r['api_history'][:25]
        res.sample(r, limit=2)

RULE = ('random concurrent client programs over GoChannel (buffer 0/1/3, persistent on/off, blocking on/off, 1-2 topics, 1-3 publishers with 1-3 calls of 1-3 messages, '
        '1-4 subscribers with behaviours ack / nack-then-ack / metadata-mutating / slow / leave-unsettled / cancel-after-k (draining or not) / late subscribe, 1-3 concurrent Close callers, '
        'Publish+Subscribe after Close) with seeded yields at every hook, plus 18 forced overlaps (park/release at hook points); '
        'non-trivial = more than 60 stamped events; distinct by configuration, forced overlap and size of the replayed label sequence.')
