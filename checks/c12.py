"""C12 — Retry middleware: bounded attempts, back-off, first success wins, error kept."""
import collections
from . import common as C

HEADER = ('From WM Require Import Base.Prelude Message.Model Handler.RouterHandle Handler.Retry Handler.RetryMonitor Corr.C12.\n'
          'From Coq Require Import QArith.\nOpen Scope Z_scope.\n')

TRUSTED_BASE = [
    'modelled, not verified: github.com/cenkalti/backoff/v3 ExponentialBackOff (Reset / NextBackOff / incrementCurrentInterval / '
    'getRandomValueFromInterval re-modelled from source in Handler/Retry.v over exact rationals; compared with the delays the real library '
    'reports on every run: exactly when RandomizationFactor = 0, by interval membership +-1 ns otherwise); float64 arithmetic is assumed exact '
    'on the compared configurations (dyadic / small-denominator multipliers, intervals < 2^40 ns); IEEE rounding is not modelled',
    'modelled, not verified (oracles of Handler/Retry.v constrained by env_ok): the monotonic clock, time.After (fires no earlier than its duration; '
    'at once for a duration <= 0), context cancellation (Done closed when cancel() returns), context.WithTimeout (Done no earlier than the deadline), '
    'select (a ready case wins, several ready: any), math/rand.Float64 in [0,1)',
    'Handler/Retry.v is hand-written from message/router/middleware/retry.go and tied to it by this check; the harness attributes Logger/OnRetryHook '
    'calls to messages by goroutine id',
]
ASSUMPTIONS = [
    'timing verdicts use slack: a wait may be reported 0.2 ms short; "should have given up" is only claimed when the back-off timer could fire no '
    'earlier than 200 ms after cancel() returned, or 1 s after the MaxElapsedTime deadline (latency bound on the timeout context closing Done)',
    'fair select: when ctx.Done() and a zero/negative back-off timer are both ready Go chooses uniformly at random (language spec); more than 40 retries in a row '
    'after cancel() had returned are rejected (probability <= 2^-40 per case for code that looks at the context in that select; the model admits any number, '
    'C12_zero_wait_race_count / C12_gives_up_within_K_zero_waits state the contract)',
    'handler panics are out of scope (Retry does not recover); float64/int64 overflow and IEEE rounding are outside the model',
]

def zl(l): return C.coq_list([C.coq_Z(x) for x in l])
def q(p): return '(%d#%d)' % (p[0], p[1])
def optz(x): return 'None' if x is None or x < 0 else '(Some %s)' % C.coq_Z(x)

def iters(mr): return max(1, mr)

def outcome_of(c, k):
    st = c['script'][min(k, len(c['script']) - 1)]
    outs = [k * 10 + i + 1 for i in range(st['outs'])]
    return outs, (100 + k if st['err'] else 0)

def outcome_term(o):
    return '(%s, %s)' % (C.coq_list([C.coq_N(x) for x in o[0]]), C.coq_N(o[1]))

def cfg_term(cf):
    return '(Cfg %s %s %s %s %s %s %s %s)' % (C.coq_Z(cf['mr']), C.coq_Z(cf['init']), C.coq_Z(cf['maxi']), q(cf['mult']),
                                               C.coq_Z(cf['me']), q(cf['rf']), C.coq_bool(cf['hook']), C.coq_bool(cf['log']))

def event_term(e):
    if e[0] == 0: return '(ECall %d %s %s)' % (e[1], C.coq_Z(e[2]), C.coq_Z(e[3]))
    if e[0] == 1: return '(ELog %s %s %s)' % (C.coq_Z(e[1]), C.coq_Z(e[2]), C.coq_Z(e[3]))
    return '(EHook %s %s)' % (C.coq_Z(e[1]), C.coq_Z(e[2]))

def case_term(c):
    n = iters(c['cfg']['mr']) + 3
    script = C.coq_list([outcome_term(outcome_of(c, k)) for k in range(n)])
    obs = '(Obs %s %s %s %s %s)' % (C.coq_list([event_term(e) for e in c['trace']]), outcome_term((c['outs'], c['err'])),
                                    C.coq_Z(c['tret']), optz(c['cpre']), optz(c['cpost']))
    return '(C12 %s %s %s)' % (cfg_term(c['cfg']), script, obs)

def ms(x): return round(x / 1e6, 3)

def describe(c):
    cf = c['cfg']
    tr = []
    for e in c['trace']:
        if e[0] == 0: tr.append('call#%d @%sms..%sms' % (e[1], ms(e[2]), ms(e[3])))
        elif e[0] == 1: tr.append('log(retry_no=%d, wait_time=%dns, max_retries=%d)' % (e[1], e[2], e[3]))
        else: tr.append('hook(%d, %dns)' % (e[1], e[2]))
    return dict(id=c['id'], family=c['family'], mode=c['mode'], in_flight=c['inflight'],
                config=dict(MaxRetries=cf['mr'], InitialInterval_ns=cf['init'], MaxInterval_ns=cf['maxi'], Multiplier='%d/%d' % tuple(cf['mult']),
                            MaxElapsedTime_ns=cf['me'], RandomizationFactor='%d/%d' % tuple(cf['rf']), OnRetryHook=cf['hook'], Logger=cf['log']),
                handler_script=[('%d msgs%s%s' % (s['outs'], ' + error' if s['err'] else '', (' after %sms' % ms(s['sleep'])) if s['sleep'] else '')) for s in c['script']],
                cancel=['none', 'by the handler during attempt %d' % c['cancelat'], 'by another goroutine %sms after attempt %d' % (ms(c['canceldelay']), c['cancelat']),
                        'Router.Close() %sms after attempt %d (message context ends with the subscription)' % (ms(c['canceldelay']), c['cancelat'])][c['cancelkind']],
                start_delay_ms=ms(c['startdelay']), observed=tr, returned_msgs=c['outs'], returned_err=c['err'], returned_at_ms=ms(c['tret']),
                cancel_window_ms=[ms(c['cpre']), ms(c['cpost'])] if c['cpre'] >= 0 else None)

def shape(c):
    """what makes a case distinct: configuration, the outcome script, cancellation, how far it got"""
    cf = c['cfg']
    ncalls = sum(1 for e in c['trace'] if e[0] == 0)
    return (cf['mr'], cf['init'], cf['maxi'], tuple(cf['mult']), cf['me'], tuple(cf['rf']), cf['hook'], cf['log'],
            tuple((s['outs'], s['err']) for s in c['script']), c['cancelkind'], c['cancelat'], ncalls, c['err'] == 0, c['inflight'] > 1)

def evaluate(pid, res, data, tag):
    good = []
    for c in data:
        res.evaluations += 1
        ncalls = sum(1 for e in c['trace'] if e[0] == 0)
        cf = c['cfg']
        res.count('family=' + c['family'])
        res.count('in_flight=%d' % c['inflight'])
        res.count('MaxRetries=%d' % cf['mr'])
        res.count('Multiplier=%d/%d' % tuple(cf['mult']))
        res.count('RandomizationFactor=%d/%d' % tuple(cf['rf']))
        res.count('hook=%s,logger=%s' % (cf['hook'], cf['log']))
        res.count('attempts=%d' % ncalls)
        res.count('result=' + ('success' if c['err'] == 0 else 'error'))
        if cf['me']: res.count('MaxElapsedTime>0')
        stops = sum(1 for e in c['trace'] if e[0] in (1, 2) and e[2] == -1)
        if stops: res.count('cases with a Stop (-1) delay reported')
        early = c['err'] != 0 and ncalls < 1 + iters(cf['mr'])
        if early: res.count('gave up early: ' + ('cancel' if c['cancelkind'] else 'max-elapsed'))
        if c['cancelkind'] and c['err'] != 0 and not early: res.count('cancelled but ran to the end')
        if c['cancelkind'] == 1 and c['cpost'] >= 0:
            ends = [e[3] for e in c['trace'] if e[0] == 0]
            late = sum(1 for pe in ends[:-1] if c['cpost'] <= pe)      # re-invocations started after cancel() had returned
            if late: res.count('retries after the context had ended (select race lost to a ready timer)', late)
            if c['family'].endswith('zero-backoff'): res.count('zero-backoff cases: gave up at the first select' if late == 0 else 'zero-backoff cases: lost the race %d time(s)' % late)
        if not c['done']:
            res.violations.append(dict(signature='C12/no-return', what='the wrapped handler did not return within 30 s', case=describe(c)))
            continue
        if any(e[0] == 0 and e[4] != 1 for e in c['trace']):
            res.violations.append(dict(signature='C12/other-message', what='an attempt was handed a different message object', case=describe(c)))
            continue
        if c['mode'] == 'router':
            res.count('router: publisher %s, message %s' % (['accepts', 'fails'][c.get('pub', 0)], ['unsettled', 'acked', 'nacked'][c['settle']]))
        if any(e[0] == 1 and e[4] != 1 for e in c['trace']):
            res.mismatches.append(dict(kind='C12 Logger.Error was not given the error of the attempt that just failed', case=describe(c)))
        good.append(c)
        if ncalls > 1 or early:
            res.nontrivial.add(shape(c))
    for part, chunk in enumerate(C.chunks(good, 400)):
        r = C.coq_eval(pid, 'cases_%s_%d' % (tag, part),
                       HEADER + 'Definition cases : list c12_case := %s.\n' % C.coq_list([case_term(c) for c in chunk]),
                       [('R_mis', 'c12_mismatches cases'), ('R_vio', 'c12_violations cases')])
        for i in r['R_vio']:
            res.violations.append(dict(signature='C12/monitor',
                what='Retry behaviour rejected by retry_monitor (first success wins / <= MaxRetries retries / hook 1,2,.. with the back-off delay / '
                     'waited at least the delay / error kept / gives up only and timely on an ended context, at most 40 zero-wait retries after it ended)', case=describe(chunk[i])))
        for i in r['R_mis']:
            res.mismatches.append(dict(kind='Corr.C12.c12_mismatch (Handler/Retry.v retry vs middleware.Retry)',
                                       explained_by_violation=i in r['R_vio'], case=describe(chunk[i])))
    logged = [c for c in good if c['cfg']['log'] and any(e[0] == 1 for e in c['trace'])]
    for part, chunk in enumerate(C.chunks(logged, 400)):
        terms = ['(C12L %s %s)' % (case_term(c), C.coq_list([C.coq_N(e[5]) for e in c['trace'] if e[0] == 1])) for c in chunk]
        r = C.coq_eval(pid, 'cases_%s_log_%d' % (tag, part), HEADER + 'Definition cases : list c12_log_case := %s.\n' % C.coq_list(terms),
                       [('R_lg', 'c12_log_mismatches cases')])
        for i in r['R_lg']:
            res.mismatches.append(dict(kind='Corr.C12.c12_log_mismatch (Logger.Error was not handed the error of the attempt that just failed: model log_errs vs observed ids %s)'
                                            % [e[5] for e in chunk[i]['trace'] if e[0] == 1], case=describe(chunk[i])))
    routed = [c for c in good if c['mode'] == 'router']
    if routed:
        terms = ['(C12R %s %s %s %s)' % (case_term(c), ['PubAccept', 'PubError'][c.get('pub', 0)], ['Unsettled', 'Acked', 'Nacked'][c['settle']],
                                         C.coq_list([C.coq_list([C.coq_N(x) for x in call]) for call in (c.get('published') or [])])) for c in routed]
        r = C.coq_eval(pid, 'cases_%s_router' % tag, HEADER + 'Definition cases : list c12_router_case := %s.\n' % C.coq_list(terms),
                       [('R_rt', 'c12_router_mismatches cases')])
        for i in r['R_rt']:
            c = routed[i]
            res.mismatches.append(dict(kind='Corr.C12.c12_router_mismatch (Retry composed with C02 handle: settlement / Publish calls of the Router differ from the model; '
                                            'observed %s, published %s)' % (['unsettled', 'acked', 'nacked'][c['settle']], c.get('published')), case=describe(c)))
    return good

def run(ctx):
    pid, tier, seed = ctx['pid'], ctx['tier'], ctx['seed']
    res = C.Result()
    binary = C.build_harness()
    rounds, scale = (1, 4) if tier == 'quick' else (6, 8)
    for rnd in range(rounds):
        data, _ = C.run_harness(binary, ['c12', '-seed', str(seed + 1000 * rnd), '-scale', str(scale), '-par', '8'], pid, 'c12_%d.json' % rnd)
        good = evaluate(pid, res, data, str(rnd))
        if rnd == 0 and good:
            by = collections.OrderedDict()
            for c in good:
                if sum(1 for e in c['trace'] if e[0] == 0) > 2 or c['family'] == 'router-close': by.setdefault(c['family'], c)
            for fam in ('concurrent', 'router-close', 'max-elapsed/slow-handler', 'router'):
                if fam in by: res.sample(describe(by[fam]))
    res.rule = ('one case = one message through a real middleware.Retry value; 1..6 messages share ONE wrapped handler, sequentially or concurrently with staggered '
                'starts, or as handler middleware of a real Router with 2..5 messages in flight, or inside a real Router over a real GoChannel that is closed while Retry sleeps in a long back-off; configurations MaxRetries {-3,-1,0,1..8} x InitialInterval 0..8 ms (+odd ns) x MaxInterval 0..40 ms x Multiplier {1/2,1,5/4,3/2,2,9/4,3,4,..512} x '
                'RandomizationFactor {0,1/4,1/2,1} x OnRetryHook/Logger set or nil; scripts fail^i then succeed (i = 0..MaxRetries) or fail forever, with 0..3 outputs also '
                'next to errors; context cancelled by the handler at every attempt index (long, short and ZERO next wait: zero-value / InitialInterval-only / MaxInterval 0 configurations with 50..80 retries), by another goroutine in the middle of a wait, '
                'MaxElapsedTime ending in a long wait or while a slow handler runs (Stop); non-trivial = at least one retry or an early give-up, distinct by '
                'configuration + script + cancellation + attempts made')
    return res

def search(ctx, res):
    out = C.Result()
    for k in range(1, 4):
        r = run(dict(ctx, seed=ctx['seed'] + 7777 * k))
        out.evaluations += r.evaluations; out.nontrivial |= r.nontrivial; out.violations += r.violations
        if r.violations: break
    return out

def replay(ctx, data):
    return run(dict(ctx, seed=data.get('seed', ctx['seed'])))
