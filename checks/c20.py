"""C20 — Pub/Sub decorators are transparent; delay stamps and metrics count exactly."""
import json
from . import common as C

HEADER = 'From WM Require Import Base.Prelude Message.Model Handler.RouterHandle Decor.Model Decor.Monitor Decor.RouterMetrics Decor.MwStack Corr.C20.\n'
ST = ['Unsettled', 'Acked', 'Nacked']
SIG_TWICE = 'C20/handler-middleware-twice-counts-twice'
SIG_D11 = 'C20/handler-panic-recorded-as-success'
SIG_PUBPANIC = 'C20/publisher-panic-recorded-as-success'
E_PANIC = 3

TRUSTED_BASE = [
    'modelled, not verified: Prometheus CounterVec/HistogramVec as a log of label tuples (a counter value / histogram sample count = number of occurrences), '
    'collectors shared through the registry (AlreadyRegisteredError); context.WithValue marks as one boolean per message object; goroutine-per-message settlement '
    'watchers of the subscriber decorator as a list of pending watchers that fire on the first Ack/Nack; defer/recover/panic semantics of the handler middleware '
    '(panic(nil) included); time.Time.Sub saturation, time.Format(RFC3339) = whole Unix seconds, Duration.String/ParseDuration round trip',
    'Decor/Model.v is hand-written from message/decorator.go, components/delay/{delay,publisher}.go, components/metrics/{publisher,subscriber,handler,ctx,labels,builder}.go and tied to them by this check; '
    'the add-only files components/delay/export_verif.go and components/metrics/export_verif.go (build tag verif) expose the Delay fields and the two context marks to the harness',
    'the harness canonicalises metadata values by key (ParseDuration / RFC 3339), interns strings, numbers message objects by pointer, and reads sample counts with Registry.Gather()',
    'the inner publisher of a Router handler and the metrics decorators are not exercised with a panicking wrapped publisher (outside the property\'s quantifier)',
]
ASSUMPTIONS = [
    'a batch does not contain the same message object twice (the model reads the batch from the heap, runs the call and writes the objects back)',
    'publisher contexts names (handler_name / publisher_name) are only non-empty inside a Router; the standalone stacks run with empty names',
    'the decorated subscriber channel is always read by the scenario (termination of Close with a parked message is property C07 / defect D8, not C20)',
    'concurrent Publish calls use disjoint message objects; they are linearised in the order in which they reached the wrapped publisher',
]

# ------------------------------------------------------------------ JSON -> Gallina
N = C.coq_N
Z = C.coq_Z
B = C.coq_bool
L = C.coq_list

def optN(v):
    return 'None' if v is None else '(Some %s)' % N(v)

def mval(v):
    k = v[0]
    if k == 'a': return 'MAbsent'
    if k == 'e': return 'MEmpty'
    if k == 'r': return '(MRaw %s)' % N(v[1])
    if k == 'd': return '(MDur %s)' % Z(v[1])
    return '(MTime %s)' % Z(v[1])

def delay(sec, dur):
    return '(D %s %s)' % (Z(sec), Z(dur))

def pmsg(m):
    ctx = 'None' if m['ctx'] is None else '(Some %s)' % delay(*m['ctx'])
    gen = '(GDelay %s)' % delay(m['gen'][1], m['gen'][2]) if m['gen'][0] == 'd' else '(GErr %s)' % N(m['gen'][1])
    return '(PM %s %s %s %s %s %s %s %s %s %s)' % (N(m['id']), N(m['rest']), L([N(t) for t in m['trail']]), mval(m['for']), mval(m['until']),
                                                  ctx, gen, B(m['mark']), N(m['h']), N(m['p']))

def pdec(d):
    if d[0] == 'T': return '(PTransform %s)' % N(d[1])
    if d[0] == 'D': return '(PDelay %s %s)' % (B(d[1]), B(d[2]))
    return '(PMetrics %s)' % N(d[1])

def pevent(e):
    if e[0] == 'g': return '(EvGen %s %s)' % (N(e[1]), N(e[2]))
    return '(EvInner %s %s)' % (N(e[1]), L([pmsg(m) for m in e[2]]))

def tab3(rows):
    return L(['((%s, %s, %s), %d)' % (N(r[0]), N(r[1]), B(r[2]), r[3]) for r in rows])

def tab2(rows):
    return L(['((%s, %s), %d)' % (N(r[0]), B(r[1]), r[2]) for r in rows])

def pub_case(c):
    calls = L(['(PC %s %s)' % (N(k['topic']), L([str(i) for i in k['batch']])) for k in c['calls']])
    obs = L(['(PObs %s %s %s %s %s %s)' % (N(k['topic']), L([pmsg(m) for m in k['before']]), L([pevent(e) for e in k['ev']]),
                                           optN(k['answer']), optN(k['res']), L([pmsg(m) for m in k['after']])) for k in c['calls']])
    cl = c['close']
    return '(PubCase %s %s %s %s %s %s %s (%d, %s))' % (
        L([pdec(d) for d in c['stack']]), L([pmsg(m) for m in c['heap']]), L([optN(s) for s in c['script']]), calls, obs,
        tab3(c['tab']), L([pmsg(m) for m in c['final']]), cl[0], L(['(%s, %s)' % (optN(r[0]), optN(r[1])) for r in cl[1]]))

def sdec(d):
    return '(STransform %s)' % N(d[1]) if d[0] == 'T' else '(SMetrics %s)' % N(d[1])

def expand_ops(ops):
    """a draining Close = the wrapped subscriber hands out further messages inside its Close, the consumer
    settles them, then the subscription ends: for the model that IS emit/settle ... then Close"""
    out = []
    for o in ops:
        if o[0] == 'd':
            for it in o[1]:
                out.append(['e', it[0]]); out.append(['s', it[0], it[1]])
            out.append(['c'])
        else:
            out.append(o)
    return out

def sop(o):
    if o[0] == 'e': return '(SoEmit %d)' % o[1]
    if o[0] == 's': return '(SoSettle %d %s)' % (o[1], B(o[2]))
    return 'SoClose'

def sub_case(c):
    heap = L(['(SM %s %s false [] (init CtorNew) 0%%N 0%%N)' % (N(h[0]), L([N(t) for t in h[1]])) for h in c['heap']])
    out = L(['(%d, %s, %s)' % (o[0], N(o[1]), L([N(t) for t in o[2]])) for o in c['out']])
    seen = '(SSeen %s %s %d %s %s)' % (out, L([ST[s] for s in c['final']]), c['closes'],
                                       L(['(%s, %s)' % (optN(r[0]), optN(r[1])) for r in c['close_ret']]), tab3(c['tab']))
    return '(SubCase %s %s %s %s %s)' % (L([sdec(d) for d in c['stack']]), heap, L([sop(o) for o in expand_ops(c['ops'])]), seen, L([B(r) for r in c['rets']]))

HOUT = ['HOk', 'HErr', 'HPanic']
def mw_case(c):
    msgs = L(['(RMsg %s %d %s)' % (HOUT[m['out']], m['nouts'], 'PubPanic' if m.get('pub_panic') else ('PubAccept' if m['pub_ok'] else 'PubError')) for m in c['msgs']])
    return '(MwCase %d %s %s %s %s %s %s %s %s)' % (c['layers'], B(c['router']), N(c['h']), N(c['s']), N(c['p']), msgs,
                                                  tab2(c['htab']), tab3(c['stab']), tab3(c['ptab']))

NS = 10 ** 9
MAXD, MIND = 2 ** 63 - 1, -2 ** 63
def delay_case(c):
    t0 = c['t0'][0] * NS + c['t0'][1]; t1 = c['t1'][0] * NS + c['t1'][1]
    tm = c['time'][0] * NS + c['time'][1]
    if c['until']:
        arg = c['arg'][0] * NS + c['arg'][1]
        now = arg - c['dur']
        if not (MIND <= arg - t0 <= MAXD) or not (MIND < c['dur'] < MAXD):
            now = t0                      # time.Sub saturated: the clock reading cannot be recovered, any reading in the bracket gives the same result
    else:
        arg = c['arg'][0]
        now = tm - c['dur']
    return '(DelayCase %s %s %s %s %s %s)' % (B(c['until']), Z(arg), Z(now), Z(t0), Z(t1), delay(c['time'][0], c['dur']))

# ------------------------------------------------------------------ descriptions
def shape(stack):
    return ''.join(d[0] for d in stack) or '-'

def describe_pub(c, strings):
    def s(i): return None if i is None else strings[i]
    return dict(kind='publisher stack', stack=c['stack'], concurrent=c['concurrent'], script=[s(x) for x in c['script']],
                calls=[dict(topic=s(k['topic']), batch=k['batch'], returned=s(k['res']), events=[(e[0], s(e[1]), e[2] if e[0] == 'g' else [m['id'] for m in e[2]]) for e in k['ev']],
                            before=k['before'], after=k['after']) for k in c['calls']],
                publish_time_seconds=[[s(r[0]), s(r[1])] + r[2:] for r in c['tab']], close=c['close'])

def describe_sub(c, strings):
    return dict(kind='subscriber stack', stack=c['stack'], ops=c['ops'], received=c['out'], final=[ST[x] for x in (c['final'] or [])], closes=c['closes'],
                close_returns=c['close_ret'], ack_nack_returns=c['rets'],
                subscriber_messages_received_total=[[strings[r[0]], strings[r[1]]] + r[2:] for r in (c['tab'] or [])])

def describe_mw(c, strings):
    return dict(kind='handler middleware' + (' in a Router with AddPrometheusRouterMetrics' if c['router'] else ' called directly'), times_applied=c['layers'],
                invocations=[dict(outcome=['ok', 'error', 'panic'][m['out']], outputs=m['nouts'], returns_consumed_message=m.get('pass', False), publisher_accepts=m['pub_ok'], publisher_panics=m.get('pub_panic', False),
                                  panic_value=['string', 'error', 'nil'][m['panicv']] if m['out'] == 2 else None) for m in c['msgs']],
                handler_execution_time_seconds=[[strings[r[0]]] + r[1:] for r in c['htab']],
                subscriber_messages_received_total=[[strings[r[0]], strings[r[1]]] + r[2:] for r in c['stab']],
                publish_time_seconds=[[strings[r[0]], strings[r[1]]] + r[2:] for r in c['ptab']])

def first_decisions(c):
    """for the input distribution only: what the outermost delay layer decides per message"""
    out = []
    lay = next((d for d in c['stack'] if d[0] == 'D'), None)
    if lay is None: return out
    for k in c['calls']:
        for m in k['before']:
            if m['for'][0] not in 'ae': out.append('metadata-present')
            elif m['ctx'] is not None: out.append('context')
            elif lay[1]: out.append('generator' if m['gen'][0] == 'd' else 'generator-error')
            elif lay[2]: out.append('none+AllowNoDelay')
            else: out.append('none-rejected')
    return out

def bad_rows(rows):
    return [r for r in rows if any(isinstance(x, str) for x in r)]

# ------------------------------------------------------------------ the run
def one_round(res, pid, seed, n, rnd, race=False):
    binary = C.build_harness(race=race)
    data, _ = C.run_harness(binary, ['c20', '-seed', str(seed), '-n', str(n)], pid, 'c20_%d.json' % rnd)
    strings = data['strings']
    res.count('delay values built >= 1.1 s before being stamped (context / generator)', data.get('old_delay_picks', 0))
    res.extra['old_delay_age_ms'] = data.get('old_delay_age_ms')
    # ---- glue
    for name, ok in sorted(data['glue'].items()):
        res.evaluations += 1
        if not ok:
            res.violations.append(dict(signature='C20/glue:' + name, what='constructor / error-path expectation failed: ' + name, case=name))
    groups = [('pub', pub_case, describe_pub, 'pub_case', ['c20_pub_mismatches cases', 'c20_pub_violations cases']),
              ('sub', sub_case, describe_sub, 'sub_case', ['c20_sub_mismatches cases', 'c20_sub_violations cases', 'c20_sub_model_rejected cases'])]
    for key, term, desc, typ, fns in groups:
        good = []
        for c in data[key]:
            res.evaluations += 1
            if c.get('problem'):
                res.violations.append(dict(signature='C20/%s:%s' % (key, c['problem']), what=c['problem'], case=desc(c, strings) if c.get('stack') is not None and c.get('calls' if key == 'pub' else 'ops') else c))
                continue
            if bad_rows(c['tab']):
                res.violations.append(dict(signature='C20/%s-bad-label-value' % key, what='a metric carries a label value other than true/false resp. acked/nacked', case=desc(c, strings)))
                continue
            good.append(c)
            res.count('%s stack=%s' % (key, shape(c['stack'])))
            if key == 'pub':
                for k in c['calls']:
                    res.count('pub batch size=%s' % (len(k['batch']) if len(k['batch']) < 2 else 'n'))
                    res.count('pub result=%s' % ('nil' if k['res'] is None else strings[k['res']][:24]))
                    res.count('pub wrapped-publisher calls per Publish=%d' % len([e for e in k['ev'] if e[0] == 'i']))
                    if k['before'] and k['before'][0]['mark']: res.count('pub first object already counted')
                    if len(set(k['batch'])) < len(k['batch']): res.count('pub batch holds the same object more than once')
                    if k['res'] == E_PANIC: res.count('pub wrapped publisher panicked')
                for d in first_decisions(c): res.count('delay decision=' + d)
                if c['concurrent']: res.count('pub concurrent cases')
                res.count('pub objects received through a metrics subscriber before', c['pre_received'])
                if any(k['res'] is not None for k in c['calls']) or len(c['stack']) >= 1:
                    res.nontrivial.add(('pub', shape(c['stack']), tuple(len(k['batch']) for k in c['calls']), tuple(k['res'] for k in c['calls']),
                                        tuple(first_decisions(c)), c['concurrent']))
            else:
                res.count('sub closes=%d' % c['closes'])
                for o in c['ops']:
                    if o[0] == 'd': res.count('sub draining Close handing out %d message(s)' % len(o[1]))
                res.count('sub objects published through a metrics publisher before', c['pre_published'])
                res.count('sub counted=%d' % sum(r[3] for r in c['tab']))
                res.count('sub unsettled at end=%d' % len([x for x in c['final'] if x == 0]))
                if c['stack']:
                    res.nontrivial.add(('sub', shape(c['stack']), json.dumps(c['ops'])))
        for part, chunk in enumerate(C.chunks(good, 150)):
            r = C.coq_eval(pid, 'cases_%s_%d_%d' % (key, rnd, part), HEADER + 'Definition cases : list %s := %s.\n' % (typ, L([term(c) for c in chunk])),
                           [('R_mis', fns[0]), ('R_vio', fns[1])] + ([('R_self', fns[2])] if len(fns) > 2 else []))
            for i in r.get('R_self', []):
                res.mismatches.append(dict(kind='Decor.Monitor.sub_monitor rejects the MODEL\'s own run (acceptor and model disagree)', explained_by_violation=False, case=desc(chunk[i], strings)))
            for i in r['R_vio']:
                what = ('decorated publisher rejected by Decor.Monitor.pub_monitor (one wrapped call with the same objects in order / error and Close pass through / each transform once / '
                        'delay metadata by precedence / nothing published on a rejected batch / one publish observation per counted call with the right label)') if key == 'pub' else \
                       ('decorated subscriber rejected by Decor.Monitor.sub_monitor (same objects in order / transforms once / settling the received message settles the wrapped one / '
                        'Close once with its error / one counter increment per settled delivered message with the right label)')
                sig = 'C20/%s-monitor' % key
                if key == 'pub' and any(k['res'] == E_PANIC for k in chunk[i]['calls']):
                    sig, what = SIG_PUBPANIC, ('PublisherPrometheusMetricsDecorator records a Publish call whose wrapped publisher PANICS with success="true" '
                                               '(the deferred observer sees err == nil while the panic propagates)')
                res.violations.append(dict(signature=sig, what=what, case=desc(chunk[i], strings)))
            for i in r['R_mis']:
                res.mismatches.append(dict(kind='Corr.C20.%s_mismatch (Decor/Model.v vs the real decorator stack)' % key, explained_by_violation=i in r['R_vio'], case=desc(chunk[i], strings)))
        if rnd == 0 and good:
            res.sample(desc(good[len(good) // 3], strings))
    # ---- handler middleware / Router
    good = []
    for c in data['mw']:
        res.evaluations += 1
        if c.get('problem'):
            res.violations.append(dict(signature='C20/mw:' + c['problem'], what=c['problem'], case=describe_mw(c, strings)))
            continue
        if bad_rows(c['htab']) or bad_rows(c['stab']) or bad_rows(c['ptab']):
            res.violations.append(dict(signature='C20/mw-bad-label-value', what='a metric carries an unexpected label value', case=describe_mw(c, strings)))
            continue
        good.append(c)
        res.count('mw %s layers=%d' % ('router' if c['router'] else 'direct', c['layers']))
        for m in c['msgs']: res.count('mw outcome=%s' % ['ok', 'error', 'panic'][m['out']] + ('+outputs' if m['nouts'] else '') + ('(the consumed message itself)' if m.get('pass') else '') + ('' if not m['nouts'] else ('+publisher-panics' if m.get('pub_panic') else ('' if m['pub_ok'] else '+publish-fails'))))
        res.nontrivial.add(('mw', c['router'], c['layers'], tuple((m['out'], m['nouts'], m['pub_ok'], m.get('pass'), m.get('pub_panic')) for m in c['msgs'])))
    if good:
        r = C.coq_eval(pid, 'cases_mw_%d' % rnd, HEADER + 'Definition cases : list mw_case := %s.\n' % L([mw_case(c) for c in good]),
                       [('R_mis', 'c20_mw_mismatches true true cases'), ('R_pin', 'c20_mw_mismatches false true cases'), ('R_twice', 'c20_mw_mismatches true false cases'), ('R_vio', 'c20_mw_violations cases')])
        for i in r['R_vio']:
            c = good[i]
            if i not in r['R_twice'] and c['layers'] > 1:
                sig, what = SIG_TWICE, 'HandlerPrometheusMetricsMiddleware applied %d times observes every handler invocation %d times (no context mark, unlike the decorators)' % (c['layers'], c['layers'])
            elif i not in r['R_pin']:
                sig, what = SIG_D11, 'a panicking handler is recorded with success="true" (the deferred observer sees err == nil while the panic propagates)'
            else:
                sig, what = 'C20/handler-miscount', 'handler/subscriber/publisher metrics of a Router differ from one observation per invocation / settled message / publish call with the right label'
            res.violations.append(dict(signature=sig, what=what, case=describe_mw(c, strings)))
        for i in r['R_mis']:
            res.mismatches.append(dict(kind='Corr.C20.mw_mismatch (Decor/Model.v run_mw + Handler/RouterHandle.v handle vs the real middleware / Router)',
                                       explained_by_violation=i in r['R_vio'], case=describe_mw(good[i], strings)))
        if rnd == 0: res.sample(describe_mw(good[1 if len(good) > 1 else 0], strings))
    # ---- the middleware in handler chains with Retry
    ms = data.get('mwstack', [])
    good = []
    for c in ms:
        res.evaluations += 1
        res.count('mw chain=%s' % '>'.join(c['stack']))
        if c.get('problem') or bad_rows(c['htab']):
            res.violations.append(dict(signature='C20/mwstack:' + str(c.get('problem') or 'bad label value'), what=str(c.get('problem')), case=c)); continue
        if not c['ctx_kept']:
            res.violations.append(dict(signature='C20/mwstack-context-change-lost', what='a context value set by the handler is no longer on the message after the metrics middleware returned', case=c)); continue
        good.append(c)
        res.nontrivial.add(('mwstack', tuple(c['stack']), c['top'], tuple(c['script']), c['same_msg']))
    if good:
        def term(c):
            st = L(['LM' if x == 'M' else '(LR %s)' % x[1:] for x in c['stack']])
            return '(MwStackCase %s 0%%N %d %s %s)' % (st, c['top'], L([HOUT[o] for o in c['script']]), tab2(c['htab']))
        r = C.coq_eval(pid, 'cases_mwstack_%d' % rnd, HEADER + 'Definition cases : list mwstack_case := %s.\n' % L([term(c) for c in good]),
                       [('R_mis', 'c20_mwstack_mismatches true cases'), ('R_pin', 'c20_mwstack_mismatches false cases'), ('R_vio', 'c20_mwstack_violations cases')])
        for i in r['R_vio']:
            if i not in r['R_pin']:
                sig, what = SIG_TWICE, 'the metrics middleware applied more than once in a chain observes a handler invocation more than once'
            else:
                sig, what = 'C20/handler-chain-miscount', 'handler observations of a chain with Retry differ from one per invocation of the outermost application with its outcome'
            res.violations.append(dict(signature=sig, what=what, case=good[i]))
        for i in r['R_mis']:
            res.mismatches.append(dict(kind='Corr.C20.mwstack_mismatch (Decor/MwStack.v hrun vs the real middleware + Retry chain)', explained_by_violation=i in r['R_vio'], case=good[i]))
    # ---- overlapping invocations of a chain (gates between the applications of the middleware)
    mc = data.get('mwconc', [])
    good = []
    for c in mc:
        res.evaluations += 1
        res.count('mw overlapping chain=%s x%d' % ('>'.join(c['stack']), len(c['scripts'])))
        if c.get('problem') or bad_rows(c['htab'] or []):
            res.violations.append(dict(signature='C20/mwconc:' + str(c.get('problem') or 'bad label value'), what=str(c.get('problem')), case=c)); continue
        good.append(c)
        res.nontrivial.add(('mwconc', tuple(c['stack']), json.dumps(c['scripts']), tuple(c['order'])))
    if good:
        def cterm(c):
            st = L(['LM' if x == 'M' else '(LR %s)' % x[1:] for x in c['stack'] if x != 'G'])
            return '(MwConcCase %s %s %s)' % (st, L([L([HOUT[o] for o in sc]) for sc in c['scripts']]), tab2(c['htab']))
        r = C.coq_eval(pid, 'cases_mwconc_%d' % rnd, HEADER + 'Definition cases : list mwconc_case := %s.\n' % L([cterm(c) for c in good]),
                       [('R_mis', 'c20_mwconc_mismatches cases'), ('R_vio', 'c20_mwconc_violations cases')])
        for i in r['R_vio']:
            res.violations.append(dict(signature='C20/handler-overlapping-invocations-miscounted',
                                       what='with overlapping invocations of a chain that applies the metrics middleware more than once, handler observations differ from one per invocation of the outermost application', case=good[i]))
        for i in r['R_mis']:
            res.mismatches.append(dict(kind='Corr.C20.mwconc_mismatch (per-invocation heval logs vs the real chain under a forced interleaving)', explained_by_violation=i in r['R_vio'], case=good[i]))
    # ---- delay constructors
    dc = data['delay']
    for c in dc:
        res.evaluations += 1
        res.count('delay ctor=%s' % ('Until' if c['until'] else 'For'))
    if dc:
        r = C.coq_eval(pid, 'cases_delay_%d' % rnd, HEADER + 'Definition cases : list delay_case := %s.\n' % L([delay_case(c) for c in dc]),
                       [('R_mis', 'c20_delay_mismatches cases'), ('R_vio', 'c20_delay_violations cases'), ('R_sat', 'positions (map saturated cases)')])
        res.count('delay ctor saturated (|t-now| > 292y)', len(r['R_sat']))
        for i in r['R_vio']:
            res.violations.append(dict(signature='C20/delay-for-until-disagree', what='delay.For/Until built a Delay whose time is not clock + duration for any clock reading between the two brackets', case=dc[i]))
        for i in r['R_mis']:
            res.mismatches.append(dict(kind='Corr.C20.delay_mismatch (mk_for/mk_until vs delay.For/Until)', explained_by_violation=i in r['R_vio'], case=dc[i]))
        res.nontrivial.add(('delay', len(dc)))

def run(ctx):
    pid, tier, seed = ctx['pid'], ctx['tier'], ctx['seed']
    res = C.Result()
    rounds, n = (1, 200) if tier == 'quick' else (6, 600)
    for rnd in range(rounds):
        one_round(res, pid, seed * 1000 + rnd, n, rnd)
    if tier == 'thorough':
        # TESTING, not proof: the same scenarios once more on a -race build (concurrent publishes, watcher goroutines,
        # pumps); a detected race makes the harness exit non-zero, which fails the check
        try:
            one_round(res, pid, seed * 1000 + 77, 300, 77, race=True)
            res.extra['race_build'] = 'scenarios re-run on a -race build: no data race reported (testing)'
        except C.CheckError as e:
            if 'DATA RACE' in str(e):
                res.violations.append(dict(signature='C20/data-race', what='the Go race detector reported a data race in a decorator scenario', case=str(e)[-3000:]))
            else:
                raise
    res.rule = ('random decorator stacks of depth 0..3 (transform / delay with generator on-off and AllowNoDelay on-off / Prometheus metrics, incl. the same metrics decorator twice or three times and both '
                'nesting orders) around a scripted publisher (answers per call, Close error) resp. subscriber; batches of 0/1/n objects re-published across calls, delay metadata present / empty / '
                'only one key / garbage, context delays For/Until (zero value, past, now, far future, other zone), generator answers and errors at any index; every 5th publisher case runs its calls '
                'concurrently; subscriber op sequences interleave emit / Ack / Nack / Close / settle-after-close / re-emission; the handler middleware 1..3 times directly and inside a real Router '
                'with AddPrometheusRouterMetrics 1..3 times (ok, ok with outputs, publish failure, error, panic with string/error/nil); delay.For/Until bracketed by two clock readings. '
                'Non-trivial = a non-empty stack or a failing call; distinct by stack shape, batch sizes, results, decisions resp. op sequence.')
    return res

def search(ctx, res):
    out = C.Result()
    for k in range(1, 4):
        one_round(out, ctx['pid'], ctx['seed'] * 1000 + 500 + k, 400, 90 + k)
        if [v for v in out.violations if v['signature'] != SIG_TWICE]: break
    return out

def replay(ctx, data):
    return run(ctx)
