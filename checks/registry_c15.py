"""Manifest fragment for C15 (merged by bin/mkmanifest)."""
CHECKS = {
 'C15': dict(
  text=('Theorems for EVERY marshaler (name generator + codec as Section variables), bus configuration (topic function, OnSend/OnPublish/modify callbacks that edit the message and '
        'return/fail/panic, publisher behaviour), processor configuration (AckCommandHandlingErrors, AckOnUnknownEvent, OnHandle mode), handler list (any length, any types, duplicates), '
        'message and handler behaviour (own settlement of the original message; nil/error/panic) about a hand-written model of the cqrs buses and of the three processor closures composed '
        'with the C02 Router model: a bus call publishes at most once, exactly once iff it succeeds, on the generated topic, carrying name + payload + caller context, nothing on an earlier '
        'error; a handler is invoked iff the names match (and the payload decodes), with the decoded value (= the value sent, under the C16 round-trip law); a group calls the matching '
        'handlers in registration order and nothing after the first failure matters; unknown types are settled per AckOnUnknownEvent (commands: Ack); error => Nack unless '
        'AckCommandHandlingErrors, Unmarshal error and panic always Nack; the handler context exposes the consumed message; exactly one Router settle; registration (AddHandlers / AddHandler / AddHandlersToRouter / AddHandlersGroup, config and deprecated processors) puts exactly one router handler per handler of the longest registrable prefix on the Router, named HandlerName() / the group name, on the generated topic with its own subscriber, a duplicate batch or refused group changes nothing; published payloads are owned by their message (heap model: no later Send/Publish affects the bytes of an earlier published message, no two share a buffer; observed by re-reading every published message after the whole scenario and by consuming late); names are invariant under the pointer depth of the value (model of name.go: FullyQualifiedStructName / StructName / NamedStruct; values sent through 0..3 pointers, generic handlers instantiated at T and *T, the name functions called directly); the marshaler call discipline (one Marshal per Send, NameFromMessage before Unmarshal, Unmarshal only on a name match into a fresh object, Handle on the decoded object). Tied to the code on every run: '
        'random scenarios drive the REAL CommandBus/EventBus and Command/Event/EventGroup processors (config and deprecated constructors, JSON, Protobuf and gogo-Protobuf marshalers with four name '
        'generators, the deprecated Facade) inside a real Router with scripted subscribers/publishers, all deliveries of a scenario in flight together; every per-delivery / per-call trace is compared with the '
        'model and judged by the proved acceptors.'),
  note=('Trusted: Coq kernel + vm_compute; encoding/json, protobuf and fmt %T names are Section variables whose behaviour the harness tabulates from the real marshaler '
        '(round-trip law = hypothesis of C15_value_equal, measured per table; proved nowhere here: C16); context.WithValue lookup and recover() as modelled; scripted collaborators, '
        'value rendering/interning, message ack/nack hook stamps; the Router\'s Ack()/Nack() return value is not observable. Handler / callback behaviours are scripts '
        '(no payload mutation between two handlers of a group).'),
  technique='Coq proof (induction over the handler list, case analysis over configurations; refinement of the closures to filter-based specification functions; composition with the C02 Router model) + differential correspondence check on real buses/processors in a real Router',
  design_ref='DESIGN.md section 7 C15'),
}
