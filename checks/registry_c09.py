CHECKS = {
 'C09': dict(
  text=('Theorems for ALL middleware snapshots, decorator lists (no length bound), inner handler functions and registration programs about the same model as C08: the wrapping loop of handler.run '
        'yields entries of exactly the router-level middlewares plus the handler\'s own in registration order, earliest outermost, exits mirrored, never another handler\'s; a handler freezes exactly '
        'what was registered before the Run/RunHandlers that starts it (router-level registrations after its AddHandler included, later ones excluded); publisher decorators act on outgoing batches '
        'and subscriber decorators on incoming messages in the order added, the latter after the Router\'s context decorator; registrations are never removed, a started handler is frozen until its own Stop, a RunHandlers in which a decorator constructor fails starts nobody and leaves nothing behind; the copy of r.middlewares in the handler goroutine is proved to be the linearisation point of a start (registered before it: in the chain, after: not) and forced on the real Router with hooks. Tied to the code on every run: ALL 1093 registration sequences up to length 6 '
        'over {router, A, B}, all decorator list lengths 0..5 x 0..5, and random programs (4 handlers, 20 registrations, variadic calls, before/after Run and RunHandlers) run on a real Router with '
        'tagging middlewares and decorators (the harness\'s wrappers and the library\'s own MessageTransform decorators, also on subscribers/publishers the application pre-decorated and shares between handlers); per-copy enter/exit/decorator traces are compared with the model and judged by the proved acceptor c09_monitor.'),
  note=('Trusted: Coq kernel + vm_compute; tagging middlewares/decorators of the harness (no defer: a panic skips the exit marks); sequential programs let each newly started handler process one message before registering further; window programs hold the goroutine before its copy of r.middlewares (C09_snapshot_linearisation). '
        'The godoc of AddPublisherDecorators ("the first decorator is the innermost") contradicts the code; the model follows the code: first added acts first.'),
  technique='Coq proof (list inductions over fold_right/fold_left wrapping loops, invariant of the registration state machine) + exhaustive and random differential correspondence check on a real Router',
  design_ref='DESIGN.md section 7 C08/C09'),
}
