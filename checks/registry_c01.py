"""Manifest entry for C01 (merged by bin/mkmanifest)."""
CHECKS = {
 'C01': dict(
  text=('Theorems for EVERY number of stages k, every handler function (any fan-out), every list of successfully published source messages, every fault script '
        '(per stage and call number: handler error, handler panic, publish error/panic after the next topic accepted the first j outputs) and every schedule of a hand-written '
        'pipeline model composed from the component specifications (Router on one delivered copy = C02\'s handleMessage model, instantiated from the real C02 lemmas; GoChannel topic = '
        'publication pending until one copy is Acked - proved to be a step-for-step refinement of the composition of the registry model Reg.v with the send-loop model Sub.v for an always-registered subscription; redelivery after a Nack is immediate; handlers are context-aware and every delivered copy - redeliveries included - has a live context): nothing arriving at the final topic is invented (lineage and path derive from a '
        'really published source message), a stage Acks a copy only after the next topic accepted every output and after Publish returned, every fault ends in a Nack and the publication '
        'stays pending, never-lost invariant, and - for scripts with finitely many faults per stage - every run is finite under every scheduler (Acc, lexicographic measure faults x remaining '
        'handler invocations), stops only when nothing is pending, and then every descendant of every source message has arrived; duplicates at the final topic are counted exactly '
        '(= what publish-side faults let through). The product of k such GoChannel topics with one Router step per delivered copy is proved to simulate the abstract pipeline (forward simulation), so nothing-invented, ack-only-after-accept and never-lost hold of the composition; liveness transfers as far as "finitely many Router steps" (partial). The topic interface (no loss before the Ack, redelivery after a Nack, one in flight) is also proved of the real composed GoChannel model Compose.v for a live subscription, whatever other subscriptions do. Bystander handlers (the empty name included) with error-swallowing / instant-ack middlewares share the Routers of the pipeline and every stage call must have entered only router-level and its own middlewares (the ownership statement of C09 as a monitor). Tied to the code on every run: real Routers (one with k handlers / k routers) over real GoChannels (plain/persistent, buffer 0/n, '
        'blocking publish on/off) with fault-injecting handler and publisher wrappers driven by the same script; every delivery attempt (call number, message as seen, Router events, '
        'accepted outputs, settlement) and the sink multiset are compared with the model replayed on the observed schedule, and the proved monitors judge the implementation.'),
  note=('Trusted: Coq kernel + vm_compute; composition through component specifications (C02 model for the Router, Sub.v for the send loop - each tied to the code by its own check); '
        'a delivery attempt is an atomic model step, attempts linearised by handler entry; the Go harness (wrappers, settlement watchers, exact quiescence by counting). '
        'Liveness on the implementation is a watchdog verdict (no event for 8 s), the theorem is about the model. D9 configurations (blocking publish with concurrent Subscribe) are excluded (C05).'),
  technique='Coq proof (invariants + well-founded lexicographic measure over an LTS built from component specifications, instantiated with the proved component models) + differential correspondence check on real Router/GoChannel pipelines with a shared fault script',
  design_ref='DESIGN.md section 7 C01'),
}
