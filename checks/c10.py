"""C10 — Router lifecycle: Running, RunHandlers, Stop and self-close behave as documented.

Runs the lifecycle scenarios of harness/cmd/wmh/c10.go on the real Router, maps the stamped log
(router.life.* hooks + api.* stamps of the harness, one total order) to labels of
coq/RouterLife/Model.v and replays them strictly (every label enabled, emitted API events equal
to what the implementation showed), and evaluates the property monitor coq/RouterLife/Monitor.v -
the function theorem C10_monitor_accepts is about - on the implementation's API history."""
import json, os
from . import common as C

HEADER = 'From WM Require Import Base.Prelude RouterLife.Model RouterLife.Monitor Corr.C10.\n'
# which variant of the model corresponds to the code in the repo (flipped by the fix: commits)
FIXED_D4 = True
FIXED_D14 = True
FIXED_D15 = True
FIXED_D16 = True      # C06's repair bc235ce: Close releases and removes never-started handlers

CODES = {
    1: ('C10/running-before-subscribed', 'Running() was closed while a handler registered before Run had no subscription'),
    2: ('C10/double-subscribe', 'a handler was subscribed twice (RunHandlers is not idempotent)'),
    10: ('C10/runhandlers-skipped-handler', 'RunHandlers returned nil but a handler added before the call was not subscribed'),
    3: ('C10/stop-after-started-panics(D4)', 'Stop() right after Started() fired panicked (stopFn not assigned yet)'),
    4: ('C10/stopped-nil-after-started(D4)', 'Stopped() returned a nil channel right after Started() fired'),
    5: ('C10/processing-failed-publisher-open', 'a handler failed to publish although nobody closed its publisher'),
    6: ('C10/publisher-closed-without-reason', 'a publisher was closed although no handler sharing it was stopped or ended (Stop is not local)'),
    7: ('C10/second-run-returned-nil', 'a second Run returned nil'),
    8: ('C10/handler-stopped-processing', 'a handler that was not stopped no longer takes messages (Stop is not local)'),
    11: ('C10/run-never-returns-after-cancel-on-empty-router(D15)', 'Run did not return after its context was cancelled on a router without handlers'),
    9: ('C10/run-never-returns', 'Run did not return although every handler had ended / Close was called / the context was cancelled'),
}

def hnum(name):
    return int(name.rsplit('-h', 1)[1])

def b(s):
    return 'true' if s == 'true' else 'false'

def opt(p):
    return 'None' if p < 0 else '(Some %d)' % p

STOPRES = {'ok': 'StopOk', 'notstarted': 'StopNotStarted', 'nilpanic': 'StopNilPanic'}

class Mapped:
    pass

def map_scenario(sc):
    """-> Mapped(labels=[(label, expect or None)], hist=[(term, event)], problems=[...])"""
    m = Mapped(); m.problems = []; m.labels = []; m.hist = []
    evs = []
    for e in sc['events']:
        if e['p'] == 'api.scenario.end':
            break
        if e['p'].endswith('#released'):
            continue
        k0 = (e.get('k') or [''])[0]
        if e['p'].startswith('router.') and k0.startswith('s') and '-h' in k0 and not k0.startswith('s%d-' % sc['id']):
            continue        # a goroutine of an earlier scenario's router finishing late
        evs.append(e)
    # handler number (order of the accepted AddHandler calls) -> (publisher, honours ctx, subscriber object), from the harness's stamp
    addinfo = {}
    for e in evs:
        if e['p'] == 'api.add.ret':
            k = e['k']; addinfo[int(k[0])] = (int(k[1]), k[2] == 'true', int(k[3]) if len(k) > 3 else 1000 + int(k[0]))
    def pub_of(h):
        return addinfo[h][0] if h in addinfo else -1
    def hon_of(h):
        return addinfo[h][1] if h in addinfo else True
    def sub_of(h):
        return addinfo[h][2] if h in addinfo else 1000 + h
    name2hid = {}        # a name is reused when a handler is re-added under a stopped handler's name
    gbind = {}           # handler goroutine / handleClose goroutine -> handler number (bound at its first stamp)
    inmap_h = set(); started_h = set(); early_end = {}
    named = {}           # name -> all handler numbers that ever had it, in order
    hc_taken = set()     # handler numbers whose handleClose goroutine is identified
    cancelled_h = set()  # handlers whose own context is known to be cancelled (Stop called / loop ended)
    def hid(name, g=None, bind=False):
        if g is not None and g in gbind: return gbind[g]
        h = name2hid.get(name, -1)
        if bind and g is not None: gbind[g] = h
        return h
    def hc_hid(name, g):
        # a handleClose goroutine may run its first statement only after its handler has ended and the name was
        # given to a successor: take the oldest handler of that name whose handleClose is still unidentified,
        # preferring one whose context is known to be cancelled
        if g in gbind: return gbind[g]
        cands = [x for x in named.get(name, []) if x not in hc_taken]
        pick = next((x for x in cands if x in cancelled_h), cands[0] if cands else name2hid.get(name, -1))
        gbind[g] = pick; hc_taken.add(pick)
        return pick
    rhret = {}; stopret = {}; closeret = {}
    for e in evs:
        k = e.get('k') or []
        if e['p'] == 'api.rh.ret': rhret[int(k[0])] = b(k[1])
        elif e['p'] == 'api.stop.ret': stopret[int(k[0])] = STOPRES[k[1]]
        elif e['p'] == 'api.close.ret': closeret[int(k[0])] = b(k[1])
    L = m.labels
    def lab(l, exp=None):
        L.append((l, exp))
    call = {}            # goroutine -> (kind, tid)
    main_g = [None]; main_t = [None]; watch_g = [None]
    wpc = ['none']       # mirror of the watcher: none / pre / in (in select or beyond)
    hadded = [0]
    maplen = [0]
    nadd = [0]
    spawned = set(); early_recv = {}     # handler -> LRecv labels already emitted at the emit stamp
    loop_pc = {}; late_emit = {}; unspawned_emit = {}
    pending_hc_ctx = {}; model_closed = set()
    received = {(x.get('k') or ['', ''])[1] for x in evs if x['p'] == 'router.handler.received'}; recv_done = set(); recv_late = set()
    consumed = set()     # seq of add.signalled events already emitted (hand-off at the earlier stamp)
    pending_hc = {}; pending_pubclose = {}
    pending_closing = []     # the closer's "closed=true; close(closingInProgressCh)" step, placed as late as the log allows
    PROOF = ('router.life.hc.closing', 'router.handler.handleclose.closing_after_ctx', 'router.life.run.closing_seen', 'router.life.close.waited')
    def who(g):
        if g == main_g[0]: return 'LMain'
        if g == watch_g[0]: return 'LWatch'
        if g in call: return 'LT %d' % call[g][1]
        return None
    def do_add(e):
        k = e.get('k') or []
        h = nadd[0]; name2hid[k[0]] = h; named.setdefault(k[0], []).append(h); inmap_h.add(h)
        nadd[0] += 1; maplen[0] += 1
        signalled = e['p'].endswith('signalled')
        if signalled and not FIXED_D14 and wpc[0] == 'pre':
            lab('LWatch CStep'); wpc[0] = 'in'          # the watcher must be blocked in its select
        if signalled and FIXED_D14: hadded[0] += 1
        lab('LAdd %s %s %d' % (opt(pub_of(h)), 'true' if hon_of(h) else 'false', sub_of(h)),
            ['AAdd %d %s' % (h, opt(pub_of(h)))] + ([] if hon_of(h) else ['AWeak']))
    for idx, e in enumerate(evs):
        p, k, g, seq = e['p'], e.get('k') or [], e['g'], e['seq']
        if pending_closing and p in PROOF:
            lab(pending_closing.pop())
        if p == 'router.handler.received':
            # the loop took a message (by UUID: the decorator pump may drop one that it holds when the context ends)
            h = hid(k[0], g, bind=True)
            if k[1] in recv_done: recv_done.discard(k[1])
            else: lab('LRecv %d' % h); recv_late.add(k[1])
            continue
        if p.startswith('router.handler.handleclose.'):
            if p.endswith('.enter'): hc_hid(k[0], g)
            continue
        if p.startswith('api.'):
            w = p[4:]
            if w == 'add.ret':
                m.hist.append(('AAdd %d %s' % (int(k[0]), opt(int(k[1]))), e))
                if k[2] != 'true': m.hist.append(('AWeak', e))
            elif w == 'run.call':
                call[g] = ('run', int(k[0])); lab('LRunCall %d' % int(k[0])); m.hist.append(('ARunCall %d' % int(k[0]), e))
            elif w == 'run.ret':
                call.pop(g, None); m.hist.append(('ARunRet %d %s' % (int(k[0]), b(k[1])), e))
            elif w == 'running_obs':
                lab('LObsRunning'); m.hist.append(('ARunningObs', e))
            elif w == 'subscribe':
                m.hist.append(('ASubscribe %d %s' % (int(k[0]), b(k[1])), e))
            elif w == 'rh.call':
                call[g] = ('rh', int(k[0])); bg = k[1] == 'true'
                lab('LRHCall %d %s' % (int(k[0]), 'PBg' if bg else 'PClient'))
                m.hist.append(('ARHCall %d' % int(k[0]), e))
                if bg: m.hist.append(('AWeak', e))
            elif w == 'rh.ret':
                call.pop(g, None); m.hist.append(('ARHRet %d %s' % (int(k[0]), b(k[1])), e))
            elif w == 'started_obs':
                lab('LObsStarted %d' % int(k[0])); m.hist.append(('AStartedObs %d' % int(k[0]), e))
            elif w == 'stop.call':
                call[g] = ('stop', int(k[0])); lab('LStopCall %d %d' % (int(k[0]), int(k[1]))); cancelled_h.add(int(k[1]))
                m.hist.append(('AStopCall %d %d' % (int(k[0]), int(k[1])), e))
            elif w == 'stop.ret':
                call.pop(g, None); m.hist.append(('AStopRet %d %s' % (int(k[0]), STOPRES[k[1]]), e))
            elif w == 'stopped_get':
                lab('LStoppedGet %d' % int(k[0]), ['AStoppedGet %d %s' % (int(k[0]), b(k[1]))])
                m.hist.append(('AStoppedGet %d %s' % (int(k[0]), b(k[1])), e))
            elif w == 'stopped_obs':
                lab('LObsStopped %d' % int(k[0])); m.hist.append(('AStoppedObs %d' % int(k[0]), e))
            elif w == 'cancel':
                lab('LCancel'); m.hist.append(('ACancel', e))
            elif w == 'close.call':
                call[g] = ('close', int(k[0])); lab('LCloseCall %d' % int(k[0])); m.hist.append(('ACloseCall %d' % int(k[0]), e))
            elif w == 'close.ret':
                call.pop(g, None); m.hist.append(('ACloseRet %d %s' % (int(k[0]), b(k[1])), e))
            elif w == 'emit':
                h = int(k[0])
                if k[1] in recv_late: recv_late.discard(k[1])          # the receiver stamped first
                elif k[1] in received and h in spawned:                # hand-off at the earlier stamp
                    lab('LRecv %d' % h); recv_done.add(k[1])
            elif w == 'processed':
                h = int(k[0]) if k[0].isdigit() else -1
                lab('LPublish %d' % h, ['AProcessed %d %s' % (h, b(k[1]))]); m.hist.append(('AProcessed %d %s' % (h, b(k[1])), e))
            elif w == 'pubclose':
                m.hist.append(('APubClose %d' % int(k[0]), e))
                if g in pending_pubclose:
                    h = pending_pubclose.pop(g); lab('LLoop %d' % h, ['APubClose %d' % int(k[0])]); loop_pc[h] = 'wgdone'
            elif w == 'sub.close_called':
                # the Subscriber object's Close(), called by the handleClose goroutine g of one of its handlers
                # (its stamp precedes the per-subscription closes: a subscription of that object that its own context
                #  ends in between is already ended in the model)
                hh = None
                if g in pending_hc:
                    hh = pending_hc.pop(g); lab('LHC %d true' % hh)
                elif g in pending_hc_ctx:
                    hh = pending_hc_ctx.pop(g); lab('LHC %d false' % hh)
                if hh is not None:
                    model_closed.update(x for x in addinfo if sub_of(x) == sub_of(hh))
            elif w == 'sub.closed':
                h = int(k[0])
                # a subscription whose context is already done ends inside / right after Subscribe, i.e. possibly BEFORE
                # RunHandlers stamps rh.subscribed (the model's Subscribe step): such an end is placed right after that step
                if k[1] == 'ctx':
                    if h in model_closed: pass
                    elif h in started_h: lab('LSubCtx %d' % h)
                    else: early_end.setdefault(h, []).append(('LSubCtx %d' % h, None))
                elif k[1] == 'env':
                    if h in model_closed: pass
                    elif h in started_h: lab('LSubEnd %d' % h, ['ASubEnd %d' % h])
                    else: early_end.setdefault(h, []).append(('LSubEnd %d' % h, ['ASubEnd %d' % h]))
                    m.hist.append(('ASubEnd %d' % h, e))
            elif w == 'probe_stuck':
                m.hist.append(('AProbeStuck %d' % int(k[0]), e))
            elif w == 'run_hung':
                m.hist.append(('ARunHung', e))
            continue
        w = p[len('router.life.'):]
        if w in ('add.signalled', 'add.dropped'):
            if seq not in consumed: do_add(e)
        elif w == 'run.set':
            main_g[0] = g; main_t[0] = call.get(g, ('run', 0))[1]; lab('LT %d CStep' % main_t[0], [])
        elif w == 'run.already':
            t = call.get(g, ('run', 0))[1]; lab('LT %d CStep' % t, ['ARunRet %d false' % t])
        elif w == 'watch.read':
            lab('LMain CStep')
            if (k[0] == 'true') != (maplen[0] == 0):
                m.problems.append('watchAllHandlersStopped read hasNoHandlersYet=%s with %d handlers in the map' % (k[0], maplen[0]))
            wpc[0] = 'pre' if k[0] == 'true' else 'in'
        elif w == 'rh.locked':
            x = who(g)
            if x is None: m.problems.append('rh.locked outside a call'); continue
            if x == 'LMain': lab('LMain CStep')
            else: lab(x + ' CStep'); lab(x + ' CStep')
        elif w == 'rh.notrunning':
            x = who(g); t = call.get(g, ('rh', 0))[1]; lab(x + ' CStep', ['ARHRet %d false' % t])
        elif w in ('rh.subscribed', 'rh.subscribe_failed'):
            x = who(g); h = hid(k[0]); ok = w == 'rh.subscribed'
            if ok: started_h.add(h)
            lab('%s (CPick %d %s)' % (x, h, 'true' if ok else 'false'), ['ASubscribe %d %s' % (h, 'true' if ok else 'false')])
            if ok:
                for l_, e_ in early_end.pop(h, []): lab(l_, e_)
        elif w == 'rh.close_started':
            lab(who(g) + ' CStep')
        elif w == 'rh.started':
            pass
        elif w == 'rh.spawn':
            lab(who(g) + ' CStep'); h = hid(k[0]); spawned.add(h); loop_pc[h] = 'range'
        elif w == 'rh.unlock':
            x = who(g)
            if x == 'LMain': lab('LMain CStep')
            else:
                t = call[g][1]; lab(x + ' CStep', ['ARHRet %d %s' % (t, rhret[t])] if t in rhret else None)
        elif w == 'run.running':
            lab('LMain CStep')
        elif w == 'run.closing_seen':
            lab('LMain CStep')
        elif w == 'run.closed_seen':
            lab('LMain CStep', ['ARunRet %d true' % main_t[0]])
        elif w == 'watch.select':
            watch_g[0] = g
        elif w == 'watch.added':
            watch_g[0] = g
            if FIXED_D14:
                if hadded[0] == 0:      # the receiver stamped before the sender: emit the AddHandler now
                    nxt = next((x for x in evs[idx:] if x['p'] == 'router.life.add.signalled' and x['seq'] not in consumed), None)
                    if nxt is None: m.problems.append('watcher received handlerAdded without a sender')
                    else: consumed.add(nxt['seq']); do_add(nxt)
                if wpc[0] == 'pre': lab('LWatch CStep'); wpc[0] = 'in'
                lab('LWatch CStep'); hadded[0] -= 1
            else:
                if wpc[0] == 'pre':     # rendezvous, the receiver stamped first
                    nxt = next((x for x in evs[idx:] if x['p'] == 'router.life.add.signalled' and x['seq'] not in consumed), None)
                    if nxt is None: m.problems.append('watcher received handlerAdded without a sender')
                    else: consumed.add(nxt['seq']); do_add(nxt)
        elif w == 'watch.closed_seen':
            watch_g[0] = g
            if wpc[0] == 'pre': lab('LWatch CStep'); wpc[0] = 'in'
            lab('LWatch CAlt')
        elif w == 'watch.ctx_done':
            watch_g[0] = g
            if wpc[0] == 'pre': lab('LWatch CStep'); wpc[0] = 'in'
            lab('LWatch CCtx')
        elif w == 'watch.waited':
            watch_g[0] = g; lab('LWatch CStep')
        elif w == 'isclosed':
            if g == watch_g[0]: lab('LWatch CStep')
        elif w.startswith('close.'):
            x = who(g)
            if x is None or x == 'LMain': continue      # a Close outside the scenario's calls
            t = call[g][1] if x.startswith('LT') else None
            ret = ['ACloseRet %d %s' % (t, closeret[t])] if t in closeret else None
            if x == 'LWatch': ret = []
            if w == 'close.closing':
                pending_closing.append(x + ' CStep')
                if FIXED_D16:       # Close releases and removes the handlers that were never started
                    gone = [hh for hh in inmap_h if hh not in started_h]
                    for hh in gone: inmap_h.discard(hh)
                    maplen[0] -= len(gone)
            elif w == 'close.waited': lab(x + (' CStep' if k[0] == 'false' else ' CAlt'))
            elif w in ('close.already', 'close.closed'): lab(x + ' CStep', ret)
            else: lab(x + ' CStep')
        elif w == 'loop.recv':
            pass        # see router.handler.received (same point, carries the message UUID)
        elif w == 'loop.range_done':
            h = hid(k[0], g, bind=True); lab('LLoop %d' % h); loop_pc[h] = 'pubclose'; cancelled_h.add(h)
        elif w == 'loop.pub_close':
            h = hid(k[0], g, bind=True)
            if pub_of(h) >= 0: pending_pubclose[g] = h     # takes effect at the publisher's own Close stamp (under its mutex)
            else: lab('LLoop %d' % h, []); loop_pc[h] = 'wgdone'
        elif w == 'loop.wg_done':
            h = hid(k[0], g, bind=True)
            if loop_pc.get(h) == 'pubclose': lab('LLoop %d' % h)
            lab('LLoop %d' % h); loop_pc[h] = 'delete'
        elif w == 'loop.locked':
            hh = hid(k[0], g, bind=True); lab('LLoop %d' % hh); maplen[0] -= 1; inmap_h.discard(hh)
        elif w == 'loop.close_stopped':
            lab('LLoop %d' % hid(k[0], g, bind=True))
        elif w == 'hc.closing':
            pending_hc[g] = hc_hid(k[0], g)
        elif w == 'hc.ctx':
            # select took ctx.Done; then the non-blocking poll of routersCloseCh (D6 repair).  Poll saw it open: the
            # model step goes here (as early as the log allows); saw it closed: at the subscriber's Close stamp
            h = hc_hid(k[0], g)
            nxt = next((x for x in evs[idx + 1:] if x['g'] == g and x['p'].startswith('router.handler.handleclose.') and
                        x['p'].rsplit('.', 1)[1] in ('closing_after_ctx', 'not_closing')), None)
            if nxt is None: pass
            elif nxt['p'].endswith('not_closing'): lab('LHC %d false' % h)
            else: pending_hc_ctx[g] = h
        elif w == 'stop.enter':
            t = call.get(g, ('stop', 0))[1]
            lab('LT %d CStep' % t, ['AStopRet %d StopNotStarted' % t] if k[1] != 'true' else [])
        elif w == 'stop.call':
            t = call.get(g, ('stop', 0))[1]
            lab('LT %d CStep' % t, ['AStopRet %d %s' % (t, stopret[t])] if t in stopret else None)
    while pending_closing: lab(pending_closing.pop())
    return m

def case_term(m):
    labs = ['(%s, %s)' % (l, 'None' if e is None else 'Some %s' % C.coq_list(['(%s)' % x if ' ' in x else x for x in e])) for l, e in m.labels]
    hist = ['(%s)' % t if ' ' in t else t for t, _ in m.hist]
    return '(LC %s %s %s %s %s %s)' % (C.coq_bool(FIXED_D4), C.coq_bool(FIXED_D14), C.coq_bool(FIXED_D15), C.coq_bool(FIXED_D16), C.coq_list(labs), C.coq_list(hist))

def evaluate(pid, name, scs):
    mapped = [map_scenario(sc) for sc in scs]
    out = []
    for part, chunk in enumerate(C.chunks(list(range(len(scs))), 40)):
        body = 'Definition cases : list l_case := %s.\n' % C.coq_list([case_term(mapped[j]) for j in chunk])
        r = C.coq_eval(pid, '%s_%d' % (name, part), HEADER + body, [('R', 'l_results cases')])
        out += list(r['R'])
    return mapped, out

def readable(sc, m, upto=None):
    hist = [dict(seq=e['seq'], event=t) for t, e in m.hist]
    return dict(scenario=sc['name'], program=sc['ops'], parks=sc['parks'], park_result=sc.get('park'), notes=sc.get('notes'),
                api_history=hist if upto is None else hist[:upto + 1])

def classify(res, scs, mapped, results):
    for sc, m, r in zip(scs, mapped, results):
        rej, pan, mainpc, subs, pubs, (pos, code) = r
        res.evaluations += 1
        res.count('forced' if sc['forced'] else 'random')
        res.count('handlers=%d' % len(sc['subscribes'] or []))
        for o in sc['ops']:
            res.count('op ' + o['k'])
        res.count('hook+api events', len(sc['events'])); res.count('model labels replayed', len(m.labels)); res.count('api events judged', len(m.hist))
        for x in (sc.get('park') or '').split('; '):
            if 'parked=1' in x or 'parked=2' in x: res.count('park rules that parked a goroutine')
        if len(m.labels) >= 25:
            res.nontrivial.add((sc['name'], len(m.labels), len(m.hist), tuple(o['k'] for o in sc['ops'])))
        case = readable(sc, m)
        if code:
            sig, what = CODES.get(code, ('C10/monitor-%d' % code, 'monitor code %d' % code))
            res.violations.append(dict(signature=sig, what=what, case=readable(sc, m, upto=pos - 1)))
        for pr in m.problems:
            res.mismatches.append(dict(kind='C10 stamp mapping: ' + pr, case=case))
        if rej:
            res.mismatches.append(dict(kind='Corr.C10.replay (RouterLife/Model.v step vs router.go): label %d not enabled or its API events differ' % (rej - 1),
                                       explained_by_violation=bool(code), case=dict(case, labels_upto=[str(x) for x in m.labels[max(0, rej - 10):rej]])))
        else:
            if pan:
                res.mismatches.append(dict(kind='model panicked (negative WaitGroup) on an accepted schedule', case=case))
            # final observations: successful Subscribe calls per handler, closed publishers
            if list(subs) != list(sc['subscribes'] or []):
                res.mismatches.append(dict(kind='Subscribe counts differ: model %s implementation %s' % (subs, sc['subscribes']), case=case))
            for pid_, n in (sc.get('pubcloses') or {}).items():
                if int(pid_) < 8 and bool(n) != bool(pubs[int(pid_)]) and not _cut(sc):
                    res.mismatches.append(dict(kind='publisher %s closed: model %s implementation %s' % (pid_, pubs[int(pid_)], n), case=case))
        # Stop() is asynchronous: a Stop called after Started() was observed must return although somebody holds handlersLock
        sobs = set()
        for e in sc['events']:
            if e['p'] == 'api.scenario.end': break
            if e['p'] == 'api.started_obs': sobs.add(e['k'][0])
            if e['p'] == 'api.stop.blocked' and e['k'][1] in sobs:
                res.violations.append(dict(signature='C10/stop-after-started-blocks', what='Stop() called after Started() was observed did not return while another goroutine was inside handlersLock', case=case))
        # Run returns an error only when a Subscribe failed (a cancelled Run context makes the router close itself, Run returns nil)
        first_run = None; subfailed = False
        for t_, e in m.hist:
            if t_.startswith('ARunCall') and first_run is None: first_run = t_.split()[1]
            if t_.startswith('ASubscribe') and t_.endswith('false'): subfailed = True
            if first_run is not None and t_ == 'ARunRet %s false' % first_run and not subfailed:
                res.violations.append(dict(signature='C10/run-returned-error-without-failed-subscribe', what='Run returned an error although no Subscribe failed (e.g. its context was already cancelled)', case=case))
        for e in sc['events']:
            if e['p'] == 'api.panic':
                res.violations.append(dict(signature='C10/router-call-panicked', what='%s panicked: %s' % tuple(e['k'][:2]), case=case))
        for s, c in zip(sc['subscribes'] or [], sc['subcalls'] or []):
            if s > 1:
                res.violations.append(dict(signature='C10/double-subscribe', what='scripted subscriber saw %d successful Subscribe calls for one handler' % s, case=case))
    # glue: duplicate handler name must panic with DuplicateHandlerNameError
    for sc in scs:
        if any(o['k'] == 'add_dup' for o in sc['ops']) and sc.get('dup_panic') != 'message.DuplicateHandlerNameError':
            res.mismatches.append(dict(kind='AddHandler with an existing name: expected DuplicateHandlerNameError panic, got %s' % sc.get('dup_panic'), case=dict(scenario=sc['name'])))

def _cut(sc):
    """the publisher counters are read after the clean-up, the model stops at the end of the program"""
    return True

TRUSTED_BASE = [
    'modelled, not verified: Go runtime semantics of sync.RWMutex/Mutex (as exclusive locks; the one RLock is an atomic read), sync.WaitGroup, channel close / select (any ready case), '
    'non-blocking send on an unbuffered / 1-buffered channel, context cancellation propagating to child contexts; Subscriber contract "closes the channel when its context is done" is a per-handler flag of the model',
    'RouterLife/Model.v is hand-written from message/router.go (Run, RunHandlers, handler goroutine, handleClose, watcher, AddHandler, Close abstracted to its lock protocol + wait-or-timeout, Stop/Stopped) '
    'and tied to it by strict replay of the stamped hook log; Router.Close\'s waitForHandlers and message handling are abstracted (C06/C02 own them)',
    'the stamp discipline (acquire: stamp after; release: stamp before; handlerAdded hand-off at the earlier stamp; the watcher\'s unobservable arrival at its select inserted as late as the log allows) and the mapper checks/c10.py',
    'scripted subscriber/publisher of harness/cmd/wmh/c10.go (stamps under their own mutex)',
]
ASSUMPTIONS = [
    'Run is not called concurrently with another Run\'s first two statements, and Stop()/Stopped() are read after <-Started() or before any RunHandlers: the unsynchronised fields isRunning / started / stopped are modelled as atomic reads '
    '(concurrent first Run calls are a data race outside the model)',
    'Subscriber objects may be shared between handlers (model field h_sub; subscriber.Close() ends the subscriptions of all handlers using that object); handlers are not added while the router shuts down (property quantifier)',
    'liveness verdicts on the implementation (Run returns, probe message taken, Stopped() closes) use watchdogs of 5-8 s after the triggering call; they are testing-level, the model-side statement is C10_self_close_not_stuck',
    'data races are outside the model',
]

RULE = ('lifecycle client programs on a real Router with scripted subscribers/publishers: 32 forced schedules (park rules at router.life.* hook points: Stop/Stopped right after Started(), empty start with the watcher held, '
        'RunHandlers x4 held mid-loop, Stop before the goroutine is spawned, loop held before wg.Done, held handleClose, the RunHandlers of Run held until Running() is observed, cancel on an empty router, failing Subscribe, shared/unshared publishers, foreign context, second Run during / after self-close / after Close / after cancel / after a failed Run, Stop while another handler is inside a slow handler call with a third handler probed, calls before Run, Close x3, re-add under a stopped handler\'s name while its goroutine still finishes (slow publisher Close) and after it finished, handlers sharing one Subscriber object with one of them stopped / the router closed), '
        'pause point x client action pairs on a fixed 3-handler program, and seeded random programs over the C10 grammar with seeded yields at every hook; '
        'non-trivial = at least 25 model labels replayed; distinct by program and sizes.')

def run_family(ctx, res, ncases=None, forced=None, pairs=None, seed_offset=0, only=None):
    pid, tier, seed = ctx['pid'], ctx['tier'], ctx['seed'] + seed_offset
    binary = C.build_harness()
    ncases = ncases if ncases is not None else (30 if tier == 'quick' else 400)
    forced = forced if forced is not None else (1 if tier == 'quick' else 4)
    pairs = pairs if pairs is not None else (10 if tier == 'quick' else 120)
    args = ['c10', '-cases', str(ncases), '-forced', str(forced), '-pairs', str(pairs), '-seed', str(seed)]
    if only: args += ['-only', only]
    scs, _ = C.run_harness(binary, args, pid, 'c10_%d.json' % seed, timeout=3000)
    mapped, results = evaluate(pid, 'c10_%d' % seed, scs)
    classify(res, scs, mapped, results)
    for sc, m in list(zip(scs, mapped))[:2]:
        r = readable(sc, m); r['api_history'] = r['api_history'][:30]; res.sample(r, limit=2)
    return scs, mapped, results

def run(ctx):
    res = C.Result()
    run_family(ctx, res)
    res.rule = RULE
    res.extra['anchor_drift'] = C.anchor_hashes(['message/router.go'])
    res.extra['model_variant'] = dict(fix4=FIXED_D4, fix14=FIXED_D14, fix15=FIXED_D15, fix16=FIXED_D16)
    return res

def search(ctx, res):
    out = C.Result()
    for k in range(1, 3):
        r = C.Result()
        run_family(dict(ctx, tier='quick'), r, seed_offset=1000 * k, ncases=60)
        out.evaluations += r.evaluations; out.nontrivial |= r.nontrivial; out.violations += r.violations
        if r.violations: break
    return out

def replay(ctx, data):
    return run(ctx)
