"""Manifest text for C18 (merged by bin/mkmanifest)."""
CHECKS = {
 'C18': dict(
  text=('Theorems about two hand-written models of components/requestreply: (1) the listener goroutine of PubSubBackend.ListenForNotifications as a thread-level transition '
        'system composed with an arbitrary caller of SendWithReplies/SendWithReply, an arbitrary stream of notifications on the shared reply topic (own, foreign, id-less, malformed) '
        'and an arbitrary schedule: only replies built from notifications carrying the caller\'s own operation id are handed over, in arrival order, with the notification\'s result and '
        'error text, nothing lost before the context ended, every notification acked, channel closed and finish hook run at most once (invariant, both code variants); once the context '
        'has ended the repaired listener is never blocked and finishes within a bounded number of its own steps with the channel closed and the hook run exactly once - refuted by a '
        'witness schedule for the pinned code (defect D10: final send blocks for ever on the full reply channel); (2) the handler side (NewCommandHandler[WithResult] -> OnCommandProcessed) '
        'composed with the C02 Router model: one reply per delivery carrying the command\'s operation id, result and error text, Ack iff the reply went out and AckCommandErrors or no error, '
        'settlement last and an Ack only after the publisher accepted the reply. (3) the caller side (SendWithReply / SendWithReplies) as its own thread composed with the listener: SendWithReply returns exactly one reply - the timeout reply or (the first) reply of its own operation id - or the context error, never a foreign reply or the zero Reply of a closed channel, and after it returned the listener finishes; the SendWithReplies channel is closed exactly once; (4) the product of N listeners on one topic is N independent single-listener systems, so replies never cross in the concurrent system; (5) all of it for any UnmarshalReply, and the operation id of the command is stamped over whatever a custom MarshalReply wrote. (6) N concurrent deliveries through one backend are N independent runs of the sequential handler-side model (each reply owns its metadata map; refuted for a shared map). (7) the error value of the handler (plain, wrapped, context sentinels, the own Err() of the handler context) and context state are inputs the handler side provably ignores: a reply is published for every handler outcome. Tied to the code on every run: concurrent requesters on one reply topic over a real Router + GoChannel, '
        'the hook-stamp schedule of every listener replayed on the model, every delivery trace compared, and the proved acceptors judging what the implementation did.'),
  note=('Trusted: Coq kernel + vm_compute; Go channel/select/context/defer semantics as modelled; encoding/json as a tabulated function; the harness (forwarding subscriber, scripted reply publisher, '
        'Backend wrapper, watchdog + goroutine dump) and the stamp->label mapping. Liveness is "never blocked + decreasing measure" (weak fairness of the Go scheduler), not a wall-clock bound. '
        'D10 is repaired by a fix: commit; the _refuted theorems keep the pinned behaviour as a regression witness.'),
  technique='Coq proof (invariant + progress/measure over a thread-level LTS, exhaustive case analysis for the handler side, refutation witness by vm_compute) + schedule-replay correspondence check + executable acceptors',
  design_ref='DESIGN.md section 7 C18'),
}
