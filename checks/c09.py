"""C09 — Middlewares nest in registration order per handler; decorators apply in order."""
from . import common as C, wiring as W

TRUSTED_BASE = W.TRUSTED_BASE
ASSUMPTIONS = W.ASSUMPTIONS
WHAT = ('the order in which subscriber decorators, middlewares (entry/exit), the handler function, publisher decorators and the publisher acted on a message is not the prescribed one '
        '(c09_monitor: subscriber decorators in the order added, then exactly the router-level middlewares and the handler\'s own registered before its start, earliest outermost, '
        'exits mirrored, then publisher decorators in the order added, then the publisher)')

def run(ctx, seed_offset=0):
    res = C.Result()
    quick = ctx['tier'] == 'quick'
    c2 = dict(ctx, seed=ctx['seed'] + seed_offset)
    progs = W.run_harness(c2, ['-random', '250' if quick else '2000', '-seqlen', '6' if quick else '7', '-maxh', '4', '-maxr', '20'], 'c09_%d' % seed_offset)
    good = W.evaluate(c2, res, progs, 'c09_lviolations', 'c09_%d' % seed_offset, 'C09', WHAT)
    seqs = [p for p in good if p['kind'] == 'sequence']
    res.extra['exhaustive'] = True
    res.extra['exhaustive_space'] = 'all %d middleware registration sequences up to length %d over {router-level, handler A, handler B}' % (len(seqs), 6 if quick else 7)
    rnd = [p for p in good if p['kind'] == 'random']
    for p in seqs[700:701] + [p for p in good if p['kind'] == 'decorators'][20:21] + rnd[3:4]:
        res.sample(W.describe(p))
    res.rule = ('ALL middleware registration sequences up to length 6 (quick) / 7 over {Router.AddMiddleware, A.AddMiddleware, B.AddMiddleware} with the two AddHandler calls and an optional extra Run '
                'at seeded positions; all (publisher, subscriber) decorator list lengths 0..5 x 0..5 in shuffled order around a handler with and one without publisher; random programs with up to 4 handlers '
                'and 20 registrations (single and variadic calls) interleaved with AddHandler / Run / RunHandlers, run on a real Router; non-trivial = at least one copy was handled; distinct by registration shape.')
    return res

def search(ctx, res):
    out = C.Result()
    for k in range(1, 3):
        r = run(dict(ctx, tier='quick'), seed_offset=1000 * k)
        out.evaluations += r.evaluations; out.nontrivial |= r.nontrivial; out.violations += r.violations
        if r.violations: break
    return out

def replay(ctx, data):
    return run(ctx)
