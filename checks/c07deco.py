"""C07, second part: GoChannel wrapped in MessageTransform subscriber decorators (message/decorator.go)."""
from . import common as C

HEADER = 'From WM Require Import Base.Prelude Decorator.Pump Corr.C07.\n'
# which variant of Decorator/Pump.v corresponds to the code in /repo (flipped by the fix: commit for D8)
FIXED_D8 = True

def msg_no(u): return int(u.split('-')[1])

def map_labels(sc):
    """one-layer scenarios: stamped log -> labels of Decorator/Pump.v (up to the verdict stamp)"""
    labs = []
    inclosed = False
    depth = 0
    for e in sc['events']:
        p, k = e['p'], e.get('k') or []
        if p == 'api.verdict': break
        if p == 'decorator.pump.recv': labs.append('LIn %d' % msg_no(k[0]))
        elif p == 'decorator.pump.sent': labs.append('LOutRecv')
        elif p == 'decorator.pump.dropped_ctx': labs.append('LSeeCtx')
        elif p == 'decorator.pump.dropped_closing': labs.append('LSeeClosing')
        elif p == 'decorator.pump.closing_out':
            labs += ['LInClose', 'LPump', 'LPump']
        elif p == 'decorator.pump.wg_done': labs.append('LPump')
        elif p == 'api.cancel': labs.append('LCancel')
        elif p == 'decorator.close.call': labs.append('LCloseCall')
        elif p == 'decorator.close.inner_closed': labs.append('LCloseStep')
        elif p == 'decorator.close.signalled': labs.append('LCloseStep')
        elif p == 'decorator.close.waited':
            if not FIXED_D8: labs.append('LCloseStep')      # CSignal -> CWait is silent in the pinned code
            labs.append('LCloseStep')
    return labs

def describe(sc):
    return {k: sc[k] for k in ('id', 'layers', 'buffer', 'n', 'read', 'action', 'drain', 'settle', 'closers', 'received', 'hung', 'panics', 'out_closed_seen')}

def run_into(ctx, res, seed_offset=0):
    pid, tier, seed = ctx['pid'], ctx['tier'], ctx['seed'] + seed_offset
    binary = C.build_harness()
    n = 16 if tier == 'quick' else 120
    scs, _ = C.run_harness(binary, ['c07deco', '-cases', str(n), '-seed', str(seed)], pid, 'c07deco_%d.json' % seed, timeout=1800)
    terms, idx = [], []
    for sc in scs:
        sc['received'] = sc.get('received') or []
        res.evaluations += 1
        res.count('decorator layers=%d' % sc['layers']); res.count('decorator action=' + sc['action']); res.count('decorator consumer ' + ('keeps reading' if sc['drain'] else 'stops reading'))
        res.nontrivial.add(('deco', sc['layers'], sc['buffer'], sc['n'], sc['read'], sc['action'], sc['drain'], sc['settle']))
        for h in sc.get('hung') or []:
            parked = sc['read'] < sc['n'] and not sc['drain']
            sig = 'C07/decorator-hang(D8):' + h if ('decorated' in h and parked) else 'C07/decorator-hang:' + h
            res.violations.append(dict(signature=sig, what='subscriber decorator: ' + h, case=describe(sc)))
        for p in sc.get('panics') or []:
            res.violations.append(dict(signature='C07/decorator-panic', what='panic: ' + p, case=describe(sc)))
        if sc.get('leaked'):
            res.violations.append(dict(signature='C07/decorator-goroutine-leak', what='%d decorator goroutine(s) alive after Close returned, the context was cancelled and the channel was drained' % sc['leaked'], case=describe(sc)))
        if not sc.get('transformed', True):
            res.violations.append(dict(signature='C07/decorator-transform', what='a received message does not carry every layer\'s transform exactly once', case=describe(sc)))
        # order through every pump: what a pump hands on is, in order, what it took (GoChannel itself
        # promises no order between Publish calls in non-blocking mode, so the reference is the pump's intake)
        per = {}
        for e in sc['events']:
            if e['p'] in ('decorator.pump.recv', 'decorator.pump.sent'):
                per.setdefault(e['g'], dict(recv=[], sent=[]))[e['p'].split('.')[-1]].append(e['k'][0])
        def subseq(a, b):
            it = iter(b)
            return all(x in it for x in a)
        for g, d in per.items():
            if not subseq(d['sent'], d['recv']) or len(set(d['sent'])) != len(d['sent']):
                res.violations.append(dict(signature='C07/decorator-order', what='a decorator pump handed on messages in another order than it took them, or twice', case=dict(describe(sc), took=d['recv'], handed_on=d['sent'])))
        if len(set(sc['received'])) != len(sc['received']):
            res.violations.append(dict(signature='C07/decorator-order', what='a message was received twice through the decorator although every delivery was acked', case=describe(sc)))
        res.count('decorator closers=%d' % sc.get('closers', 1))
        if sc['layers'] == 1 and sc.get('closers', 1) == 1:
            labs = map_labels(sc)
            close_ret = any(e['p'] == 'api.close.ret' for e in sc['events'][:next((i for i, e in enumerate(sc['events']) if e['p'] == 'api.verdict'), len(sc['events']))])
            upto = next((i for i, e in enumerate(sc['events']) if e['p'] == 'api.verdict'), len(sc['events']))
            recv = [msg_no(e['k'][0]) for e in sc['events'][:upto] if e['p'] == 'decorator.pump.sent']
            terms.append('(PC %s %s %s %s %s)' % (C.coq_bool(FIXED_D8), C.coq_list(labs), C.coq_list(map(str, recv)),
                                                 C.coq_bool(close_ret), C.coq_bool(sc['out_closed_seen'] >= 1)))
            idx.append(sc)
    for part, chunk in enumerate(C.chunks(list(zip(terms, idx)), 200)):
        r = C.coq_eval(pid, 'deco_%d_%d' % (seed, part), HEADER + 'Definition cases : list p_case := %s.\n' % C.coq_list([t for t, _ in chunk]), [('R', 'p_results cases')])
        for (code, pan, dd, dc, do), (_, sc) in zip(r['R'], chunk):
            if code:
                res.mismatches.append(dict(kind='Corr.C07.p_run (Decorator/Pump.v pstep vs messageTransformSubscriberDecorator): label %d not enabled' % (code - 1), case=dict(describe(sc), labels=map_labels(sc)[:code + 2])))
            elif dd or dc or do or pan:
                res.mismatches.append(dict(kind='Corr.C07.p_run: final state differs (delivered=%s close_returned=%s out_closed=%s model_panicked=%s)' % (dd, dc, do, pan), case=describe(sc)))
    res.rule += (' C07 additionally: GoChannel behind 1-2 MessageTransform subscriber decorators, consumer reads k of n messages then stops or keeps reading, '
                 'then Close / cancel / cancel+Close; verdicts: Close returns, every decorated channel is closed although nobody reads it, no panic, order kept; one-layer logs are replayed on Decorator/Pump.v.')
