CHECKS = {
 'C20': dict(
  text=('Theorems over ALL decorator stacks (any depth and nesting order, the same metrics decorator any number of times), all batches, PublisherConfigs, answer scripts of the '
        'wrapped publisher, call sequences over re-published objects, emit/Ack/Nack/Close sequences and handler outcome sequences of a hand-written executable model of '
        'message/decorator.go, components/delay and components/metrics: one wrapped Publish call with the same objects in order or none on a delay rejection, errors and Close pass '
        'through once, each transform once in order, settlement of the received object is the C03 machine of the wrapped object; delay precedence per branch, exactly one stamp (the Delay as built, independent of the clock at stamping time) with '
        'both keys from one Delay, For/Until agree with the clock, atomic batch, nothing published without a delay unless AllowNoDelay; exactly one publish observation per counted call, '
        'one counter increment per delivered and settled message with the winning label, one handler observation per invocation with errors and panics as failures. '
        'The subscriber and publisher acceptors the check evaluates are proved to accept every model run (list level: delivery order, trail per delivery, aggregated tables); Publish is also modelled in place on a heap (the same *Message several times in a batch) with a refinement theorem to the by-value model and transparency for arbitrary repetitions. Refuted with witnesses: handler panic and wrapped-publisher panic recorded as success (D11 and its publisher twin, both repaired by fix commits) and the handler middleware applied twice counting twice (repaired: per-invocation context mark; chain model with Retry proves any number of applications = one, Retry unaffected). '
        'Tied to the code on every run: random real decorator stacks around scripted publishers/subscribers, a private Prometheus registry gathered at quiescence, a real Router with '
        'AddPrometheusRouterMetrics 1-3 times, concurrent publishes, overlapping invocations of middleware chains forced through gates, Close called 1-3 times with different wrapped answers, Delay values built over a second before they are stamped, a wrapped subscriber that drains inside its own Close against a busy consumer, delay constructors bracketed by clock readings; every snapshot compared with the model and judged by the proved acceptors.'),
  note=('Trusted: Coq kernel + vm_compute; Prometheus as a log of label tuples, context marks as booleans, watcher goroutines firing on the first settlement, RFC 3339 / Duration string round trips; '
        'the Go harness and the two add-only export_verif.go files. Every acceptor the check evaluates (pub_monitor_full incl. trail multiplicity on repeated objects, sub_monitor, mw_monitor, chain and Router tables, agree_within) is proved to accept every model run; label values are theorems. Outside the model: metrics/http.go, histogram values. '
        'Thorough tier adds a -race run (testing).'),
  technique='Coq proof (induction over stacks, batches, call and op sequences; per-object invariant; refutation witnesses by vm_compute) + differential correspondence check on the real decorators, registry and Router',
  design_ref='DESIGN.md section 7 C20'),
}
