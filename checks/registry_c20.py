CHECKS = {
 'C20': dict(
  text=('Theorems over ALL decorator stacks (any depth and nesting order, the same metrics decorator any number of times), all batches, PublisherConfigs, answer scripts of the '
        'wrapped publisher, call sequences over re-published objects, emit/Ack/Nack/Close sequences and handler outcome sequences of a hand-written executable model of '
        'message/decorator.go, components/delay and components/metrics: one wrapped Publish call with the same objects in order or none on a delay rejection, errors and Close pass '
        'through once, each transform once in order, settlement of the received object is the C03 machine of the wrapped object; delay precedence per branch, exactly one stamp with '
        'both keys from one Delay, For/Until agree with the clock, atomic batch, nothing published without a delay unless AllowNoDelay; exactly one publish observation per counted call, '
        'one counter increment per delivered and settled message with the winning label, one handler observation per invocation with errors and panics as failures. '
        'Refuted with witnesses: panic recorded as success (D11, repaired by a fix commit) and the handler middleware applied twice counting twice (known finding). '
        'Tied to the code on every run: random real decorator stacks around scripted publishers/subscribers, a private Prometheus registry gathered at quiescence, a real Router with '
        'AddPrometheusRouterMetrics 1-3 times, concurrent publishes, delay constructors bracketed by clock readings; every snapshot compared with the model and judged by the proved acceptors.'),
  note=('Trusted: Coq kernel + vm_compute; Prometheus as a log of label tuples, context marks as booleans, watcher goroutines firing on the first settlement, RFC 3339 / Duration string round trips; '
        'the Go harness and the two add-only export_verif.go files. Partial: list-level acceptance of the subscriber acceptor by the model is evaluated per case, not proved; '
        'a panicking wrapped publisher is outside the quantifier.'),
  technique='Coq proof (induction over stacks, batches, call and op sequences; per-object invariant; refutation witnesses by vm_compute) + differential correspondence check on the real decorators, registry and Router',
  design_ref='DESIGN.md section 7 C20'),
}
