CHECKS = {
 'C20': dict(
  text='(to be completed)',
  note='',
  technique='Coq proof + differential correspondence check',
  design_ref='DESIGN.md section 7 C20'),
}
