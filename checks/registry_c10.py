CHECKS = {
 'C10': dict(
  text='(being written)',
  note='(being written)',
  technique='Coq proof (invariant over a thread-level LTS with an embedded API monitor) + schedule replay of the stamped hook log on a real Router',
  design_ref='DESIGN.md section 7 C06/C10'),
}
