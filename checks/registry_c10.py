CHECKS = {
 'C10': dict(
  text=('Theorems over ALL client programs (any number of handlers, RunHandlers/Stop/Close/Run calls and threads) and ALL schedules of a hand-written thread-level '
        'transition system of message/router.go (Run, RunHandlers in the code\'s statement order, handler goroutine, handleClose, the self-close watcher, AddHandler\'s '
        'non-blocking handlerAdded signal, the Close lock protocol, Handler.Stop/Stopped): a 22-clause state invariant (handlersLock discipline, per-handler facts, '
        'handlersWg = number of goroutines that have not passed Done) proved for every label gives Running()-closed => every handler registered at Run is subscribed and started, '
        'at most one Subscribe per handler, Started()-closed => Stop usable and Stopped non-nil (repaired code; refuted by a witness schedule for the pinned one = D4), '
        'a second Run returns an error, no negative WaitGroup; Stop is local at step level (a Stop call changes only its handler\'s cancel flag, a publisher is closed only by a handler '
        'that uses it, a subscription ends only via environment / own context / router closing); self-close: refuted for the pinned code by a reachable stuck state (D14), '
        'witness for the repaired one, D15 (cancel on a router without handlers: refuted for the pinned watcher, witness for the repaired one). Tied to the code on every run: 32 forced schedules (park rules at router.life.* hooks), '
        'pause-point x client-action pairs and seeded random lifecycle programs on a real Router with scripted subscribers/publishers; the stamped hook log is replayed label by label '
        'on the model (emitted API events compared) and the property monitor judges the implementation\'s API history.'),
  note=('Self-close stuck-freedom (C10_self_close_never_stuck) and Stop-is-local (C10_stop_is_local, one reachable-state theorem) are proved; partial: no termination measure (liveness on the '
        'implementation is a watchdog verdict), and "the monitor accepts every model history" is proved for all labels up to clause 6 when no handler is added while the router closes itself (C10_monitor_accepts: verdict 0 or 6; without that premise C10_monitor_accepts_partial: 0, 1, 6 or 10) - each monitor clause is backed by the state theorem named in notes/deliver/C10/design.md. '
        'Trusted: Coq kernel + vm_compute; Go runtime semantics of locks/WaitGroup/channels/select/context as modelled; Close\'s waitForHandlers and message handling abstracted; '
        'the stamp->label mapper and scripted collaborators; unsynchronised fields isRunning/started/stopped modelled as atomic reads (clients synchronise through Running()/Started()).'),
  technique='Coq proof (state invariant over a thread-level LTS, witness schedules by vm_compute) + schedule replay of the stamped hook log of a real Router + executable API monitor',
  design_ref='DESIGN.md section 7 C06/C10 (replaced by notes/deliver/C10/design.md)'),
}
