"""C02 — Router settles each message once: Ack iff handled and outputs published."""
from . import common as C

HEADER = 'From WM Require Import Base.Prelude Message.Model Handler.RouterHandle Corr.C02.\n'
LOOP_HEADER = 'From WM Require Import Base.Prelude Message.Model Handler.RouterHandle Handler.RouterLoop Corr.C02 Corr.C02Loop.\n'
LOOP_KIND = {1: 'the model rejects the observed schedule (an event of a message the loop did not receive, an event after the message\'s Done, a receive after the loop ended)',
             2: 'after the observed schedule some handleMessage thread of the model is unfinished or not all messages were received',
             3: 'the model run under the observed schedule produces a different interleaved log', 4: 'final settlements differ from the model'}
PK = ['PubReal', 'PubDisabled', 'PubNil', 'PubReal']      # 3: the publisher is the subscriber object itself, same topic (a real publisher for the model)
PKN = ['publisher', 'AddNoPublisherHandler', 'nil publisher', 'publisher = the subscriber object, publish topic = subscribe topic']
PB = ['PubAccept', 'PubError', 'PubPanic']
PRE = ['PreNone', 'PreAck', 'PreNack']
ST = ['Unsettled', 'Acked', 'Nacked']

TRUSTED_BASE = [
    'modelled, not verified: recover() semantics (panic(nil) is a non-nil *runtime.PanicNilError under go 1.21+ semantics), goroutine-per-message dispatch; '
    'Handler/RouterHandle.v is hand-written from message/router.go handleMessage/publishProducedMessages and tied to it by this check',
    'the return value of the Router\'s own Ack()/Nack() call is not observable and is projected out of the comparison',
]
ASSUMPTIONS = ['the run loop model (Handler/RouterLoop.v) has one atomic step per observable event of a handleMessage goroutine; the harness runs 1..8 messages in flight '
               'through one handler, compares every per-message trace AND replays the ONE interleaved log of every handler (60 messages each) on the loop model; '
               'the order of the interleaved log is the order in which the events were stamped under one mutex (each event stamped by the goroutine that performs it)']

def nlist(l):
    return C.coq_list([C.coq_N(x) for x in l])

def event_term(e):
    k = e[0]
    if k == 'call': return 'HCall'
    if k == 'pre': return '(HPreSettle %s %s)' % (C.coq_bool(e[1]), C.coq_bool(e[2]))
    if k == 'publish': return '(HPublish %s %s)' % (nlist(e[1]), ST[e[2]])
    if k == 'pubret': return '(HPublishRet %s)' % C.coq_bool(e[1])
    if k == 'pubpanic': return 'HPublishPanic'
    if k == 'settle': return '(HSettle %s true)' % C.coq_bool(e[1])
    return None

def case_term(c):
    outs = nlist(c['outs'] or [])
    out = ['(Ret %s)' % outs, '(Fail %s)' % outs, 'Panic'][c['outkind']]
    mws = C.coq_list(['MwPass' if w == 0 else '(MwAppend %s)' % C.coq_N(50 + i) for i, w in enumerate(c['mws'])])
    evs = [event_term(e) for e in c['trace']]
    return '(C02 %s %s %s %s (CR %s %s) %s %s)' % (ST[c.get('arrive', 0)], PK[c['pubkind']], PB[c['pub']], mws, PRE[c['pre']], out, C.coq_list(evs), ST[c['final']])

def chain_term(c):
    outs = nlist(c['outs'] or [])
    out = ['(Ret %s)' % outs, '(Fail %s)' % outs, 'Panic'][c['outkind']]
    mws = C.coq_list(['MwPass' if w == 0 else '(MwAppend %s)' % C.coq_N(50 + i) for i, w in enumerate(c['mws'])])
    return '(mws_apply %s (CR %s %s))' % (mws, PRE[c['pre']], out)

def loop_case(g, byid):
    """one handler's interleaved log -> (Gallina term, description) or None if it cannot be written as a model log"""
    order = [e['id'] for e in g['log'] if e['k'] == 'recv']
    if len(set(order)) != len(order) or any(i not in byid for i in order):
        return None
    num = {cid: k for k, cid in enumerate(order)}
    evs = []
    for e in g['log']:
        if e['k'] == 'close':
            evs.append('GClose'); continue
        if e['id'] not in num:
            return None
        i = num[e['id']]
        if e['k'] == 'recv': evs.append('(GRecv %d)' % i)
        elif e['k'] == 'done': evs.append('(GDone %d)' % i)
        else:
            t = event_term(e['ev'])
            if t is None:
                return None
            evs.append('(GEv %d %s)' % (i, t))
    msgs = ['(LM (arrived %s) %s %s)' % (ST[byid[i].get('arrive', 0)], PB[byid[i]['pub']], chain_term(byid[i])) for i in order]
    finals = [ST[byid[i]['final']] for i in order]
    term = '(LC %s %s %s %s)' % (PK[g['pubkind']], C.coq_list(msgs), C.coq_list(finals), C.coq_list(evs))
    return term, dict(publisher=PKN[g['pubkind']], middlewares=g['mws'], messages_in_receive_order=order,
                      interleaved_log=[[e['k'], e.get('id', '')] + (e.get('ev') or []) for e in g['log']][:400])

def max_in_flight(g):
    cur = best = 0
    for e in g['log']:
        if e['k'] == 'recv': cur += 1; best = max(best, cur)
        elif e['k'] == 'done': cur -= 1
    return best

def describe(c):
    return dict(publisher=PKN[c['pubkind']], publisher_behaviour=PB[c['pub']], middlewares=c['mws'], handler_pre_settle=PRE[c['pre']], settled_by_subscriber_before_delivery=ST[c.get('arrive', 0)],
                handler_outcome=['returns', 'fails with', 'panics'][c['outkind']], handler_outputs=c['outs'], value=(['string', 'error', 'nil', '-'][c['panicv']] if c['outkind'] == 2 else ['plain error', 'wrapped context.Canceled, message ctx alive', 'context.Canceled, message ctx cancelled', 'context.DeadlineExceeded, message ctx expired'][c['panicv']]),
                in_flight=c['flight'], observed_trace=c['trace'], final=ST[c['final']])

def run(ctx):
    pid, tier, seed = ctx['pid'], ctx['tier'], ctx['seed']
    res = C.Result()
    binary = C.build_harness()
    rounds = 1 if tier == 'quick' else 6
    for rnd in range(rounds):
        full, _ = C.run_harness(binary, ['c02', '-seed', str(seed + rnd)], pid, 'c02_%d.json' % rnd)
        data, groups = full['cases'], full.get('groups') or []
        good = []
        for c in data:
            c['trace'] = c.get('trace') or []
            res.evaluations += 1
            res.count('publisher=%s' % PKN[c['pubkind']])
            res.count('outcome=%s' % ['ret', 'fail', 'panic'][c['outkind']])
            res.count('in_flight=%d' % c['flight'])
            res.count('arrives=%s' % ST[c.get('arrive', 0)])
            if any(e[0] == 'not-run' for e in c['trace']):
                res.evaluations -= 1
                continue
            bad = [e for e in c['trace'] if event_term(e) is None]
            if bad:
                res.violations.append(dict(signature='C02/' + bad[0][0], what='unexpected observation %s (e.g. Publish called with an empty batch, message not taken)' % bad[0][0], case=describe(c)))
                continue
            if not any(e[0] == 'call' for e in c['trace']):
                res.violations.append(dict(signature='C02/chain-not-invoked', what='the Router took the message from the subscriber but never invoked the handler chain', case=describe(c)))
                continue
            if c['final'] == 0:
                res.violations.append(dict(signature='C02/unsettled', what='message was not settled within 5 s', case=describe(c)))
                continue
            good.append(c)
            if c['pre'] or c['outkind'] or (c['outs'] or c['mws']):
                res.nontrivial.add((c.get('arrive', 0), c['pubkind'], tuple(c['mws']), c['pre'], c['outkind'], tuple(c['outs'] or []), c['pub'], c['panicv']))
        for part, chunk in enumerate(C.chunks(good, 600)):
            r = C.coq_eval(pid, 'cases_%d_%d' % (rnd, part), HEADER + 'Definition cases : list c02_case := %s.\n' % C.coq_list([case_term(c) for c in chunk]),
                           [('R_mis', 'c02_mismatches cases'), ('R_vio', 'c02_violations cases')])
            for i in r['R_vio']:
                res.violations.append(dict(signature='C02/monitor', what='handleMessage trace rejected by the C02 acceptor (settles once / Ack iff handled+published / Ack after publish / no publish on error / outputs unmodified in order)',
                                           case=describe(chunk[i])))
            for i in r['R_mis']:
                res.mismatches.append(dict(kind='Corr.C02.c02_mismatch (Handler/RouterHandle.v handle vs router.go handleMessage)',
                                           explained_by_violation=i in r['R_vio'], case=describe(chunk[i])))
        # ---- the interleaved log of every handler's run loop: acceptor loop_monitor + strict replay on Handler/RouterLoop.v
        goodids = set(c['id'] for c in good)
        byid = {c['id']: c for c in data}
        loops = []
        for g in groups:
            if not g.get('ids') or any(i not in goodids for i in g['ids']):
                continue      # a message of this handler was already reported above (or not run)
            lc = loop_case(g, byid)
            if lc is None or len([e for e in g['log'] if e['k'] == 'recv']) != len(g['ids']):
                res.violations.append(dict(signature='C02/loop-log', what='the interleaved log of a handler\'s run loop is not a log of received messages (a message handled without being received by the loop, or received twice)',
                                           case=dict(publisher=PKN[g['pubkind']], log=[[e['k'], e.get('id', '')] + (e.get('ev') or []) for e in g['log']][:200])))
                continue
            loops.append((g, lc))
            res.evaluations += 1
            res.count('run loops (interleaved log replayed), max in flight=%d' % max_in_flight(g))
            if max_in_flight(g) > 1:
                res.nontrivial.add(('loop', g['pubkind'], tuple(g['mws']), tuple(lc[1]['messages_in_receive_order'])))
        for part, chunk in enumerate(C.chunks(loops, 12)):
            r = C.coq_eval(pid, 'loops_%d_%d' % (rnd, part), LOOP_HEADER + 'Definition cases : list loop_case := %s.\n' % C.coq_list([lc[0] for _, lc in chunk]),
                           [('R_mis', 'loop_mismatches cases'), ('R_vio', 'loop_violations cases')])
            for i in r['R_vio']:
                res.violations.append(dict(signature='C02/loop-monitor', what='the interleaved log of a handler\'s run loop is rejected by loop_monitor (a message not received exactly once / events outside its receive..Done bracket / '
                                           'its projection rejected by the C02 acceptor: settles once, Ack iff handled+published, one Publish call with exactly its own outputs)', case=chunk[i][1][1]))
            for i, k in r['R_mis']:
                res.mismatches.append(dict(kind='Corr.C02Loop.loop_replay (Handler/RouterLoop.v lstep vs router.go handler.run + handleMessage): ' + LOOP_KIND.get(k, str(k)),
                                           explained_by_violation=i in r['R_vio'], case=chunk[i][1][1]))
        if rnd == 0 and good:
            res.sample(describe(good[5])); res.sample(describe(good[len(good) // 2]))
            if loops:
                res.sample(dict(kind='interleaved run-loop log (first 40 entries)', **dict(loops[0][1][1], interleaved_log=loops[0][1][1]['interleaved_log'][:40])))
    res.extra['exhaustive'] = True
    res.rule = ('the full matrix handler outcome {returns 0..3 messages incl. the consumed object itself, fails with/without messages with a plain error / context.Canceled / DeadlineExceeded while the message context is alive or dead, panics with string/error/nil} '
                'x pre-settle {none, Ack, Nack} x publisher behaviour {accept, error, panic} x handler kind {publisher, AddNoPublisherHandler, nil publisher} '
                'x middleware prefix {none, pass, pass+pass, append, pass+append, append+pass}, run through a real Router with 1..8 messages in flight; '
                'non-trivial = anything but a plain successful handler without outputs; distinct by the script.')
    return res

def search(ctx, res):
    out = C.Result()
    for k in range(1, 4):
        r = run(dict(ctx, seed=ctx['seed'] + 100 * k))
        out.evaluations += r.evaluations; out.nontrivial |= r.nontrivial; out.violations += r.violations
        if r.violations: break
    return out

def replay(ctx, data):
    return run(ctx)
