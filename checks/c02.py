"""C02 — Router settles each message once: Ack iff handled and outputs published."""
from . import common as C

HEADER = 'From WM Require Import Base.Prelude Message.Model Handler.RouterHandle Corr.C02.\n'
PK = ['PubReal', 'PubDisabled', 'PubNil', 'PubReal']      # 3: the publisher is the subscriber object itself, same topic (a real publisher for the model)
PKN = ['publisher', 'AddNoPublisherHandler', 'nil publisher', 'publisher = the subscriber object, publish topic = subscribe topic']
PB = ['PubAccept', 'PubError', 'PubPanic']
PRE = ['PreNone', 'PreAck', 'PreNack']
ST = ['Unsettled', 'Acked', 'Nacked']

TRUSTED_BASE = [
    'modelled, not verified: recover() semantics (panic(nil) is a non-nil *runtime.PanicNilError under go 1.21+ semantics), goroutine-per-message dispatch; '
    'Handler/RouterHandle.v is hand-written from message/router.go handleMessage/publishProducedMessages and tied to it by this check',
    'the return value of the Router\'s own Ack()/Nack() call is not observable and is projected out of the comparison',
]
ASSUMPTIONS = ['per-message independence of handleMessage instances is structural in the model; the harness runs 1..8 messages in flight '
               'through one handler and compares every per-message trace']

def nlist(l):
    return C.coq_list([C.coq_N(x) for x in l])

def event_term(e):
    k = e[0]
    if k == 'call': return 'HCall'
    if k == 'pre': return '(HPreSettle %s %s)' % (C.coq_bool(e[1]), C.coq_bool(e[2]))
    if k == 'publish': return '(HPublish %s %s)' % (nlist(e[1]), ST[e[2]])
    if k == 'pubret': return '(HPublishRet %s)' % C.coq_bool(e[1])
    if k == 'pubpanic': return 'HPublishPanic'
    if k == 'settle': return '(HSettle %s true)' % C.coq_bool(e[1])
    return None

def case_term(c):
    outs = nlist(c['outs'] or [])
    out = ['(Ret %s)' % outs, '(Fail %s)' % outs, 'Panic'][c['outkind']]
    mws = C.coq_list(['MwPass' if w == 0 else '(MwAppend %s)' % C.coq_N(50 + i) for i, w in enumerate(c['mws'])])
    evs = [event_term(e) for e in c['trace']]
    return '(C02 %s %s %s %s (CR %s %s) %s %s)' % (ST[c.get('arrive', 0)], PK[c['pubkind']], PB[c['pub']], mws, PRE[c['pre']], out, C.coq_list(evs), ST[c['final']])

def describe(c):
    return dict(publisher=PKN[c['pubkind']], publisher_behaviour=PB[c['pub']], middlewares=c['mws'], handler_pre_settle=PRE[c['pre']], settled_by_subscriber_before_delivery=ST[c.get('arrive', 0)],
                handler_outcome=['returns', 'fails with', 'panics'][c['outkind']], handler_outputs=c['outs'], value=(['string', 'error', 'nil', '-'][c['panicv']] if c['outkind'] == 2 else ['plain error', 'wrapped context.Canceled, message ctx alive', 'context.Canceled, message ctx cancelled', 'context.DeadlineExceeded, message ctx expired'][c['panicv']]),
                in_flight=c['flight'], observed_trace=c['trace'], final=ST[c['final']])

def run(ctx):
    pid, tier, seed = ctx['pid'], ctx['tier'], ctx['seed']
    res = C.Result()
    binary = C.build_harness()
    rounds = 1 if tier == 'quick' else 6
    for rnd in range(rounds):
        data, _ = C.run_harness(binary, ['c02', '-seed', str(seed + rnd)], pid, 'c02_%d.json' % rnd)
        good = []
        for c in data:
            c['trace'] = c.get('trace') or []
            res.evaluations += 1
            res.count('publisher=%s' % PKN[c['pubkind']])
            res.count('outcome=%s' % ['ret', 'fail', 'panic'][c['outkind']])
            res.count('in_flight=%d' % c['flight'])
            res.count('arrives=%s' % ST[c.get('arrive', 0)])
            if any(e[0] == 'not-run' for e in c['trace']):
                res.evaluations -= 1
                continue
            bad = [e for e in c['trace'] if event_term(e) is None]
            if bad:
                res.violations.append(dict(signature='C02/' + bad[0][0], what='unexpected observation %s (e.g. Publish called with an empty batch, message not taken)' % bad[0][0], case=describe(c)))
                continue
            if not any(e[0] == 'call' for e in c['trace']):
                res.violations.append(dict(signature='C02/chain-not-invoked', what='the Router took the message from the subscriber but never invoked the handler chain', case=describe(c)))
                continue
            if c['final'] == 0:
                res.violations.append(dict(signature='C02/unsettled', what='message was not settled within 5 s', case=describe(c)))
                continue
            good.append(c)
            if c['pre'] or c['outkind'] or (c['outs'] or c['mws']):
                res.nontrivial.add((c.get('arrive', 0), c['pubkind'], tuple(c['mws']), c['pre'], c['outkind'], tuple(c['outs'] or []), c['pub'], c['panicv']))
        for part, chunk in enumerate(C.chunks(good, 600)):
            r = C.coq_eval(pid, 'cases_%d_%d' % (rnd, part), HEADER + 'Definition cases : list c02_case := %s.\n' % C.coq_list([case_term(c) for c in chunk]),
                           [('R_mis', 'c02_mismatches cases'), ('R_vio', 'c02_violations cases')])
            for i in r['R_vio']:
                res.violations.append(dict(signature='C02/monitor', what='handleMessage trace rejected by the C02 acceptor (settles once / Ack iff handled+published / Ack after publish / no publish on error / outputs unmodified in order)',
                                           case=describe(chunk[i])))
            for i in r['R_mis']:
                res.mismatches.append(dict(kind='Corr.C02.c02_mismatch (Handler/RouterHandle.v handle vs router.go handleMessage)',
                                           explained_by_violation=i in r['R_vio'], case=describe(chunk[i])))
        if rnd == 0 and good:
            res.sample(describe(good[5])); res.sample(describe(good[len(good) // 2]))
    res.extra['exhaustive'] = True
    res.rule = ('the full matrix handler outcome {returns 0..3 messages incl. the consumed object itself, fails with/without messages with a plain error / context.Canceled / DeadlineExceeded while the message context is alive or dead, panics with string/error/nil} '
                'x pre-settle {none, Ack, Nack} x publisher behaviour {accept, error, panic} x handler kind {publisher, AddNoPublisherHandler, nil publisher} '
                'x middleware prefix {none, pass, pass+pass, append, pass+append, append+pass}, run through a real Router with 1..8 messages in flight; '
                'non-trivial = anything but a plain successful handler without outputs; distinct by the script.')
    return res

def search(ctx, res):
    out = C.Result()
    for k in range(1, 4):
        r = run(dict(ctx, seed=ctx['seed'] + 100 * k))
        out.evaluations += r.evaluations; out.nontrivial |= r.nontrivial; out.violations += r.violations
        if r.violations: break
    return out

def replay(ctx, data):
    return run(ctx)
