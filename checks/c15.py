"""C15 — CQRS buses and processors dispatch by type name with the configured ack policy."""
from . import common as C

HEADER = 'From WM Require Import Base.Prelude Message.Model Handler.RouterHandle CQRS.Model CQRS.Reg CQRS.Calls CQRS.Names Corr.C15.\n' \
         'Definition mNF : mevent val := MNameFrom. Definition mUN : N -> N -> bool -> bool -> mevent val := MUnmarshal. Definition mHD : N -> N -> mevent val := MHandle.\n' \
         'Definition mMA : val -> mevent val := MMarshal. Definition mNA : val -> mevent val := MName.\n' \
         'Definition mNone : option (list (mevent val)) := None. Definition mSome (l : list (mevent val)) : option (list (mevent val)) := Some l.\n'
PRE = ['PreNone', 'PreAck', 'PreNack']
HRES = ['HROk', 'HRErr', 'HRPanic']
OH = ['OhNil', 'OhPass', 'OhSwallow', 'OhSkipOk', 'OhSkipErr', 'OhPanic']
ST = ['Unsettled', 'Acked', 'Nacked']
CB = ['CbOk', 'CbErr', 'CbPanic']
PB = ['PubAccept', 'PubError', 'PubPanic']
BRES = ['BOk', '(BErr EMarshal)', '(BErr ETopic)', '(BErr EHook)', '(BErr EModify)', '(BErr EPublish)', 'BPanicked']
KIND = ['command', 'event', 'group']
MARSH = ['json/default', 'json/StructName', 'json/NamedStruct(FullyQualified)', 'json/colliding', 'proto/default', 'proto/NamedStruct(StructName)', 'gogo/default(std fallback)', 'gogo/StructName,no fallback']

TRUSTED_BASE = [
    'modelled, not verified: encoding/json and google.golang.org/protobuf (Section variables enc/dec of CQRS/Model.v; the round-trip law '
    'dec (enc v) (type v) = v is a hypothesis of C15_value_equal and is measured on every tabulated marshaler by Corr.C15.tab_roundtrip); '
    'fmt %T type names behind name.go (Section variable gen_name); context.WithValue lookup (innermost value wins); recover() in the Router',
    'CQRS/Model.v is hand-written from components/cqrs/{command_bus,event_bus,command_processor,event_processor,event_processor_group,'
    'marshaler_json,marshaler_protobuf,ctx}.go and tied to them by this check; settlement of the consumed message is Handler/RouterHandle.v (C02)',
    'the harness tabulates the REAL marshaler (Name / Marshal / Unmarshal of every value, payload and handler type of a scenario) by direct calls and '
    'gives the tables to the model as its codec; Go values are identified by (type, canonical rendering of their fields), payloads by their bytes',
    'the return value of the Router\'s own Ack()/Nack() call is not observable and is projected out; Router settle calls are seen through the '
    'message.ack.locked / message.nack.locked hook stamps',
]
ASSUMPTIONS = [
    'handler behaviours are scripts: optionally settle the original message found in the context, then return nil / an error / panic; OnHandle hooks are one of '
    'pass-through / swallow / skip-ok / skip-error / panic; callbacks that receive the bus message edit metadata / payload / uuid and then return nil / an error / panic. '
    'A handler or hook that mutates the message payload between two handlers of a group is outside the script language',
    'per-message independence is structural in the model (the closures share nothing but the configuration); the harness runs all deliveries of a scenario concurrently '
    'through one Router and 1..4 concurrent Send/Publish calls through one bus and compares every per-message trace',
]

def N(x): return C.coq_N(x)
def pairs(l): return C.coq_list(['(%s, %s)' % (N(a), N(b)) for a, b in l])
def val(ty, c): return '(%s, %s)' % (N(ty), N(c))

def tab_term(t):
    return '(Tab %s %s %s %s)' % (
        C.coq_list(['(%s, %s)' % (val(a, b), N(n)) for a, b, n in t['names'] or []]),
        C.coq_list(['(%s, %s)' % (val(a, b), N(p)) for a, b, p in t['enc'] or []]),
        C.coq_list(['((%s, %s), %s)' % (N(p), N(ty), N(c)) for p, ty, c in t['dec'] or []]),
        pairs(t['zero'] or []))

def ctx_term(tag, orig):
    l = []
    if orig: l.append('(CKOrig, %s)' % N(orig))
    l.append('(CKTag, %s)' % N(tag))
    return C.coq_list(l)

def pevent_term(e):
    k = e[0]
    if k == 'handle': return '(PHandle %s %s %s %s)' % (N(e[1]), val(e[2], e[3]), N(e[4]), N(e[5]))
    if k == 'onhandle': return '(POnHandle %s %s %s %s %s)' % (N(e[1]), N(e[2]), val(e[3], e[4]), N(e[5]), N(e[6]))
    if k == 'pre': return '(PPre %s %s %s)' % (N(e[1]), C.coq_bool(e[2]), C.coq_bool(e[3]))
    return None

def delivery_term(d):
    hs = ['(Hd %s %s, HS %s %s)' % (N(h[0]), N(h[1]), PRE[s[0]], HRES[s[1]]) for h, s in zip(d['handlers'], d['scripts'])]
    if d['kind'] == 0: return '(DCommand (Hd %s %s) (HS %s %s))' % (N(d['handlers'][0][0]), N(d['handlers'][0][1]), PRE[d['scripts'][0][0]], HRES[d['scripts'][0][1]])
    if d['kind'] == 1: return '(DEvent (Hd %s %s) (HS %s %s))' % (N(d['handlers'][0][0]), N(d['handlers'][0][1]), PRE[d['scripts'][0][0]], HRES[d['scripts'][0][1]])
    return '(DGroup %s)' % C.coq_list(hs)

def case_term(d):
    cfg = '(PCfg %s %s %s)' % (C.coq_bool(d['ack_errors']), C.coq_bool(d['ack_unknown']), OH[d['onhandle']])
    msg = '(WM 1%%N %s %s %s %s)' % (N(d['uuid']), N(d['payload']), pairs(d['meta']), ctx_term(d['tag'], 2 if d['stale'] else 0))
    return '(C15 tab%d %s %s %s %s %s %s)' % (d['tab'], cfg, msg, delivery_term(d), C.coq_list([pevent_term(e) for e in d['trace']]),
                                           C.coq_list([C.coq_bool(b) for b in d['settles']]), ST[d['final']])

def snap_term(s):
    return '(WM %s %s %s %s %s)' % (N(s['obj']), N(s['uuid']), N(s['payload']), pairs(s['meta']), ctx_term(s['tag'], s['orig']))

def hook_term(h):
    if h is None: return 'None'
    es = []
    for e in h['edits']:
        es.append(['(ESetMeta %s %s)' % (N(e['k']), N(e['v'])), '(ESetPayload %s)' % N(e['v']), '(ESetUUID %s)' % N(e['v'])][e['kind']])
    return '(Some (Hook %s %s))' % (C.coq_list(es), CB[h['res']])

def bevent_term(e):
    k = e[0]
    if k == 'topic': return '(BTopicCall %s %s)' % (N(e[1]), val(e[2], e[3]))
    if k == 'hook': return '(BHookCall %s %s %s)' % (N(e[1]), val(e[2], e[3]), snap_term(e[4]))
    if k == 'modify': return '(BModifyCall %s)' % snap_term(e[1])
    if k == 'publish': return '(BPublish %s %s)' % (N(e[1]), snap_term(e[2]))
    return None

def bus_term(c):
    topic = 'TopicPanic' if c['topic'] < 0 else ('TopicErr' if c['topic'] == 0 else '(TopicOk %s)' % N(c['topic']))
    return '(BusC tab%d %s %s %s %s %s %s %s %s %s)' % (c['tab'], topic, hook_term(c['hook']), hook_term(c['modify']), PB[c['pub']], N(c['uuid']), N(c['tag']),
                                                      val(*c['val']), C.coq_list([bevent_term(e) for e in c['trace']]), BRES[c['res']])

def reg_term(c):
    tr = ['(%s %s %s)' % ('RTopic' if e[0] == 'topic' else 'RSub', N(e[1]), N(e[2])) for e in c['trace']]
    return '(RegC tab%d %s %s %s %s)' % (c['tab'], C.coq_bool(c['cmd']), C.coq_list(['(Hd %s %s)' % (N(h[0]), N(h[1])) for h in c['handlers']]),
                                       '(Some %s)' % N(c['dup']) if c['dup'] else 'None', C.coq_list(tr))

TYPES = ['', 'CmdA', 'CmdB', 'EvtC', 'Named', 'Bad', 'wrapperspb.StringValue', 'wrapperspb.Int64Value', 'durationpb.Duration', 'gogotypes.StringValue', 'gogotypes.Int64Value']
S = ['']
def sv(i):
    return S[i] if 0 <= i < len(S) else i
def rv(ty, c):
    return '%s{%s}' % (TYPES[ty] if 0 <= ty < len(TYPES) else ty, sv(c))
def rtrace(tr):
    out = []
    for e in tr:
        if e[0] == 'handle': out.append(dict(Handle=e[1], value=rv(e[2], e[3]), original_message=['nil', 'the consumed message', 'another message'][e[4]], ctx_tag=e[5]))
        elif e[0] == 'onhandle': out.append(dict(OnHandle=e[1], name=sv(e[2]), value=rv(e[3], e[4]), original_message=['nil', 'the consumed message', 'another message'][e[5]], ctx_tag=e[6]))
        elif e[0] == 'pre': out.append(dict(handler=e[1], calls='Ack' if e[2] else 'Nack', returned=e[3]))
        else: out.append(e)
    return out
def rsnap(s_):
    return dict(object=s_['obj'], uuid=sv(s_['uuid']), payload=sv(s_['payload']), metadata={sv(k): sv(v) for k, v in s_['meta']}, ctx_tag=s_['tag'])
def rbtrace(tr):
    out = []
    for e in tr:
        if e[0] == 'topic': out.append(dict(GeneratePublishTopic=sv(e[1]), value=rv(e[2], e[3])))
        elif e[0] == 'hook': out.append(dict(OnSend=sv(e[1]), value=rv(e[2], e[3]), message=rsnap(e[4])))
        elif e[0] == 'modify': out.append(dict(modify=rsnap(e[1])))
        elif e[0] == 'publish': out.append(dict(Publish=sv(e[1]), message=rsnap(e[2])))
        else: out.append(e)
    return out

RRES = {'ok': 'ROk', 'validate': 'RValidateErr', 'topic': 'RTopicErr', 'sub': 'RSubErr', 'nohandlers': 'RNoHandlers', 'groupexists': 'RGroupExists',
        'notdeprecated': 'RNotDeprecated', 'panic-dup-name': 'RPanicDupName'}
def rspec_term(x):
    return '(RS (Hd %s %s) %s %s %s %s)' % (N(x['id']), N(x['ty']), N(x['hname']), C.coq_bool(x['ptr']), '(Some %s)' % N(x['topic']) if x['topic'] else 'None', C.coq_bool(x['sub']))
def rcall_term(c):
    xs = C.coq_list([rspec_term(x) for x in c['specs'] or []])
    if c['op'] == 'handlers': return '(CH (OAddHandlers %s))' % xs
    if c['op'] == 'handler': return '(CH (OAddHandler %s))' % rspec_term(c['specs'][0])
    if c['op'] == 'torouter': return '(CH OToRouter)'
    return '(CG %s %s %s %s)' % (N(c['group']), xs, '(Some %s)' % N(c['gtopic']) if c['gtopic'] else 'None', C.coq_bool(c['gsub']))
def gevent_term(e):
    if e[0] == 'topic': return '(RegTopic %s %s)' % (N(e[1]), N(e[2]))
    if e[0] == 'sub': return '(RegSub %s %s %s)' % (N(e[1]), N(e[2]), N(e[3]))
    if e[0] == 'add' and e[2] >= 0: return '(RegAdd %s %s %s)' % (N(e[1]), N(e[2]), N(e[3]))
    return None
def rres_term(c):
    if c['res'] == 'dup': return '(RDup %s)' % N(c['resarg'])
    return RRES.get(c['res'])
def regs_ok(c):
    return all(rres_term(x) for x in c['calls']) and all(gevent_term(e) for x in c['calls'] for e in x['events']) and all(rh[1] >= 0 for rh in c['router'])
def regs_term(c):
    obs = C.coq_list(['(%s, %s)' % (C.coq_list([gevent_term(e) for e in x['events']]), rres_term(x)) for x in c['calls']])
    router = C.coq_list(['(RH %s %s %s %s)' % (N(rh[0]), N(rh[1]), N(rh[2]), C.coq_list([N(i) for i in rh[3]])) for rh in c['router']])
    return '(RegS tab%d %s %s %s %s %s %s)' % (c['tab'], C.coq_bool(c['kind'] == 1), C.coq_bool(c['depr']), C.coq_list([rcall_term(x) for x in c['calls']]), obs, router,
                                             C.coq_list([N(i) for i in c['handlers']]))
def describe_regs(c):
    return dict(processor=KIND[c['kind']], deprecated=c['depr'],
                calls=[dict(op=x['op'], group=sv(x['group']) if x['op'] == 'group' else None,
                            handlers=[dict(id=h['id'], type=TYPES[h['ty']], HandlerName=sv(h['hname']), pointer=h['ptr'], topic=sv(h['topic']) if h['topic'] else 'error', subscriber_ok=h['sub']) for h in x['specs'] or []],
                            observed=[[e[0]] + [sv(v) if i in (0,) or (e[0] == 'sub' and i == 2) or (e[0] == 'add' and i == 1) else v for i, v in enumerate(e[1:])] for e in x['events']],
                            result=x['res']) for x in c['calls']],
                router=[dict(name=sv(rh[0]), topic=sv(rh[1]) if rh[1] >= 0 else None, subscriber=rh[2], members=rh[3]) for rh in c['router']], Handlers=c['handlers'], anomalies=c.get('anomalies'))

def mevent_term(e):
    k = e[0]
    if k == 'm-marshal': return '(mMA %s)' % val(e[1], e[2])
    if k == 'm-name': return '(mNA %s)' % val(e[1], e[2])
    if k == 'm-namefrom': return 'mNF'
    if k == 'm-unmarshal': return '(mUN %s %s %s %s)' % (N(e[1]), N(e[2]), C.coq_bool(e[3]), C.coq_bool(e[4]))
    if k == 'm-handle': return '(mHD %s %s)' % (N(e[1]), N(e[2]))
    return 'mNF'
def mtrace_term(x):
    if not x.get('wrapped'): return 'mNone'
    return '(mSome %s)' % C.coq_list([mevent_term(e) for e in x.get('mtrace') or []])

NGEN = ['GFullyQualified', 'GStructName', '(GNamedStruct GFullyQualified)', '(GNamedStruct GStructName)', '(GNamedStruct (GNamedStruct GStructName))']
def chars(x): return C.coq_list([N(b) for b in x.encode('utf-8')])
def name_term(c):
    return '(NameC %s %d %s %s %s)' % (NGEN[c['gen']], c['depth'], chars(c['base']), '(Some %s)' % chars(c['own']) if c['own'] else 'None', chars(c['obs']))

def describe(d, tabs):
    return dict(readable=dict(metadata={sv(k): sv(v) for k, v in d['meta']}, payload=sv(d['payload']), sent_value=rv(*d['sent']) if d.get('sent') else None,
                              handlers=['h%d:%s' % (h[0], TYPES[h[1]]) for h in d['handlers']], observed=rtrace(d['trace'])),
                kind=KIND[d['kind']], constructor=d['ctor'], marshaler=MARSH[tabs[d['tab']]['marshaler']], AckCommandHandlingErrors=d['ack_errors'], AckOnUnknownEvent=d['ack_unknown'],
                OnHandle=OH[d['onhandle']], message=dict(source=d['source'], metadata=d['meta'], payload=d['payload'], stale_original_in_ctx=d['stale'], sent_value=d.get('sent')),
                handlers=[dict(id=h[0], type=h[1], pre=PRE[s[0]], does=HRES[s[1]]) for h, s in zip(d['handlers'], d['scripts'])],
                observed_trace=d['trace'], router_settle_calls=d['settles'], final=ST[d['final']], anomalies=d.get('anomalies'), id=d['id'])

def describe_bus(c, tabs):
    return dict(readable=dict(value=rv(*c['val']), topic_fn=sv(c['topic']) if c['topic'] > 0 else c['topic'], observed=rbtrace(c['trace'])),
                bus=['CommandBus', 'EventBus'][c['buskind']], constructor=c['ctor'], marshaler=MARSH[tabs[c['tab']]['marshaler']], value=c['val'], pointer=c['ptr'],
                topic_fn=c['topic'], OnSend=c['hook'], modify=c['modify'], publisher=PB[c['pub']], concurrent_calls=c['conc'], observed_trace=c['trace'],
                result=BRES[c['res']] if c['res'] < len(BRES) else 'other error', anomalies=c.get('anomalies'))

def sig_of(d):
    """what kind of delivery a rejected case is: names the clause of the property"""
    return 'C15/%s' % KIND[d['kind']]

def run(ctx, nscen=None, nbus=None):
    pid, tier, seed = ctx['pid'], ctx['tier'], ctx['seed']
    res = C.Result()
    binary = C.build_harness()
    rounds = 2 if tier == 'quick' else 12
    nscen = nscen or 150
    nbus = nbus or 90
    for rnd in range(rounds):
        data, _ = C.run_harness(binary, ['c15', '-seed', str(seed * 1000 + rnd), '-n', str(nscen), '-nbus', str(nbus)], pid, 'c15_%d.json' % rnd)
        tabs = data['tabs']
        S[:] = data.get('table') or ['']
        good = []
        for d in data['deliveries'] or []:
            res.evaluations += 1
            res.count('processor=%s/%s' % (KIND[d['kind']], d['ctor']))
            res.count('marshaler=%s' % MARSH[tabs[d['tab']]['marshaler']])
            res.count('source=%s' % d['source'])
            res.count('onhandle=%s' % OH[d['onhandle']])
            res.count('marshaler_wrapped=%s' % bool(d.get('wrapped')))
            for hp in d.get('hptr') or []: res.count('generic_handler_instantiated_at=%s' % ('*T' if hp else 'T'))
            res.count('flags=ackErr:%d,ackUnknown:%d' % (d['ack_errors'], d['ack_unknown']))
            res.count('handlers_in_router_handler=%d' % len(d['handlers']))
            res.count('router_handlers_on_processor=%d' % d['router_handlers'])
            res.count('in_flight=%s' % (d['flight'] if d['flight'] < 8 else '8+'))
            res.count('final=%s' % ST[d['final']])
            ncalls = sum(1 for e in d['trace'] if e[0] == 'handle')
            res.count('handler_calls=%d' % ncalls)
            if d.get('anomalies'):
                res.violations.append(dict(signature=sig_of(d) + '/anomaly', what=d['anomalies'][0], case=describe(d, tabs)))
                continue
            if d['final'] == 0:
                res.violations.append(dict(signature=sig_of(d) + '/unsettled', what='message was not settled within 30 s', case=describe(d, tabs)))
                continue
            if any(pevent_term(e) is None for e in d['trace']):
                res.violations.append(dict(signature=sig_of(d) + '/observation', what='unexpected observation', case=describe(d, tabs)))
                continue
            good.append(d)
            fails = [i for i, s in enumerate(d['scripts']) if s[1]]
            if ncalls or d['source'] != 'bus' or d['onhandle']:
                res.nontrivial.add((d['kind'], d['ctor'], tabs[d['tab']]['marshaler'], d['ack_errors'], d['ack_unknown'], d['onhandle'], tuple(h[1] for h in d['handlers']),
                                    tuple(map(tuple, d['scripts'])), d['source'], ncalls, d['final'], d['stale']))
            if d['kind'] == 2 and ncalls >= 1:
                res.count('group_calls=%d_of_%d%s' % (ncalls, len(d['handlers']), ',stopped_by_failure' if fails and ncalls and d['final'] == 2 else ''))
        busgood = []
        for c in data['bus'] or []:
            res.evaluations += 1
            res.count('bus=%s/%s' % (['command', 'event'][c['buskind']], c['ctor']))
            res.count('bus_result=%s' % (BRES[c['res']] if c['res'] < len(BRES) else 'other'))
            res.count('bus_concurrency=%d' % c['conc'])
            res.count('sent_value_pointer_depth=%d' % c.get('depth', 0))
            if c.get('anomalies') or c['res'] >= len(BRES):
                res.violations.append(dict(signature='C15/bus/anomaly', what=(c.get('anomalies') or ['unclassified'])[0], case=describe_bus(c, tabs)))
                continue
            if c.get('reread', -1) >= 0 and not c.get('reread_same', True):
                res.violations.append(dict(signature='C15/bus/ownership', what='uuid / metadata of a published message changed after it was handed to the publisher', case=describe_bus(c, tabs)))
                continue
            if any(bevent_term(e) is None for e in c['trace']):
                res.violations.append(dict(signature='C15/bus/publish-batch', what='Publish called with a number of messages other than one', case=describe_bus(c, tabs)))
                continue
            busgood.append(c)
            res.nontrivial.add(('bus', c['buskind'], c['ctor'], tabs[c['tab']]['marshaler'], c['val'][0], c['topic'] > 0, str(c['hook']), str(c['modify']), c['pub'], c['res']))
        reggood = []
        for c in data.get('regcases') or []:
            res.evaluations += 1
            res.count('registration=%s/%d handlers/%s' % ('command' if c['cmd'] else 'event', len(c['handlers']), 'duplicate-rejected' if c['dup'] else 'accepted'))
            if c['other']:
                res.violations.append(dict(signature='C15/registration', what=c['other'], case=c))
                continue
            reggood.append(c)
            res.nontrivial.add(('reg', c['cmd'], tabs[c['tab']]['marshaler'], tuple(h[1] for h in c['handlers'])))
        regsgood = []
        for c in data.get('regscripts') or []:
            res.evaluations += 1
            res.count('registration_script=%s/%s' % (KIND[c['kind']], 'deprecated' if c['depr'] else 'config'))
            for x in c['calls']:
                res.count('registration_call=%s->%s' % (x['op'], x['res'] if not x['res'].startswith('other') else 'other'))
            if c.get('anomalies') or not regs_ok(c):
                res.violations.append(dict(signature='C15/registration/anomaly', what=(c.get('anomalies') or ['unclassified error / router handler without a subscribed subscriber'])[0], case=describe_regs(c)))
                continue
            regsgood.append(c)
            res.nontrivial.add(('regs', c['kind'], c['depr'], tuple((x['op'], x['res'], tuple((h['ty'], h['ptr'], bool(h['topic']), h['sub']) for h in x['specs'] or [])) for x in c['calls'])))
        names = data.get('namecases') or []
        for c in names:
            res.evaluations += 1
            res.count('name_fn_pointer_depth=%d' % c['depth'])
        # evaluate: tables as definitions, cases refer to them
        used = sorted({d['tab'] for d in good} | {c['tab'] for c in busgood} | {c['tab'] for c in reggood} | {c['tab'] for c in regsgood})
        tabdefs = ''.join('Definition tab%d : codec_tab := %s.\n' % (i, tab_term(tabs[i])) for i in used)
        r = C.coq_eval(pid, 'cases_%d' % rnd, HEADER + tabdefs
                       + 'Definition cases : list c15_case := %s.\n' % C.coq_list([case_term(d) for d in good])
                       + 'Definition buscases : list bus_case := %s.\n' % C.coq_list([bus_term(c) for c in busgood])
                       + 'Definition mtraces : list (option (list (mevent val))) := %s.\n' % C.coq_list([mtrace_term(d) for d in good])
                       + 'Definition bmtraces : list (option (list (mevent val))) := %s.\n' % C.coq_list([mtrace_term(c) for c in busgood])
                       + 'Definition namecases : list name_case := %s.\n' % C.coq_list([name_term(c) for c in names])
                       + 'Definition sents : list (option val) := %s.\n' % C.coq_list(['(Some %s)' % val(*d['sent']) if d.get('sent') else 'None' for d in good])
                       + 'Definition rereads : list (option N) := %s.\n' % C.coq_list(['(Some %s)' % N(c['reread']) if c.get('reread', -1) >= 0 else 'None' for c in busgood])
                       + 'Definition regscases : list regs_case := %s.\n' % C.coq_list([regs_term(c) for c in regsgood])
                       + 'Definition regcases : list reg_case := %s.\n' % C.coq_list([reg_term(c) for c in reggood])
                       + 'Definition tabs : list codec_tab := %s.\n' % C.coq_list(['tab%d' % i for i in used]),
                       [('R_mis', 'c15_mismatches cases'), ('R_vio', 'c15_violations cases'),
                        ('B_mis', 'bus_mismatches buscases'), ('B_vio', 'bus_violations buscases'), ('T_rt', 'c15_tab_failures tabs'), ('G_mis', 'reg_mismatches regcases'), ('S_mis', 'regs_mismatches regscases'), ('S_vio', 'regs_violations regscases'),
                        ('M_mis', 'mc_mismatches cases mtraces'), ('M_vio', 'mc_violations cases mtraces'), ('BM_mis', 'bmc_mismatches buscases bmtraces'), ('BM_vio', 'bmc_violations buscases bmtraces'),
                        ('N_vio', 'name_violations namecases'), ('O_vio', 'own_violations buscases rereads'), ('E_vio', 'sent_violations cases sents')])
        for i in r['N_vio']:
            res.violations.append(dict(signature='C15/name', what='a name function of name.go returns a name that depends on the pointer depth of the value (or is not the type name / last segment / own Name())', case=names[i]))
        for i in r['O_vio']:
            res.violations.append(dict(signature='C15/bus/ownership', what='the payload of a published message, re-read after the later calls of the same bus, is not what its own call prescribed (value encoding / last callback edit): a later Send/Publish affected an earlier message', case=dict(describe_bus(busgood[i], tabs), reread_payload=sv(busgood[i]['reread']) if busgood[i]['reread'] >= 0 else None)))
        for i in r['E_vio']:
            res.violations.append(dict(signature=sig_of(good[i]) + '/sent-value', what='a message that came out of a real bus and is consumed after the later sends no longer carries the name and encoding of the value sent', case=describe(good[i], tabs)))
        for i in r['M_vio']:
            res.violations.append(dict(signature=sig_of(good[i]) + '/marshaler-calls', what='marshaler call discipline violated (NameFromMessage once and first / Unmarshal only on a name match into a fresh object / Handle on the decoded object / nothing after a failed Unmarshal)', case=dict(describe(good[i], tabs), marshaler_calls=good[i].get('mtrace'))))
        for i in r['M_mis']:
            res.mismatches.append(dict(kind='Corr.C15.mc_mismatch (CQRS/Calls.v proc_mcalls vs the marshaler calls of the closure)', explained_by_violation=i in r['M_vio'], case=dict(describe(good[i], tabs), marshaler_calls=good[i].get('mtrace'))))
        for i in r['BM_vio']:
            res.violations.append(dict(signature='C15/bus/marshaler-calls', what='a bus call must call Marshal exactly once, first, on the value sent (then Name iff it succeeded)', case=dict(describe_bus(busgood[i], tabs), marshaler_calls=busgood[i].get('mtrace'))))
        for i in r['BM_mis']:
            res.mismatches.append(dict(kind='Corr.C15.bmc_mismatch (CQRS/Calls.v bus_mcalls vs the marshaler calls of Send/Publish)', explained_by_violation=i in r['BM_vio'], case=dict(describe_bus(busgood[i], tabs), marshaler_calls=busgood[i].get('mtrace'))))
        for i in r['S_vio']:
            res.violations.append(dict(signature='C15/registration/monitor', what='registration script rejected by the C15 registration acceptor (router handlers = one per registrable handler of the longest good prefix, named HandlerName / group name, on the generated topic, own subscriber; callback parameters; duplicate batch / refused group changes nothing; result)', case=describe_regs(regsgood[i])))
        for i in r['S_mis']:
            res.mismatches.append(dict(kind='Corr.C15.regs_mismatch (CQRS/Reg.v reg_run vs AddHandlers/AddHandler/AddHandlersToRouter/AddHandlersGroup)', explained_by_violation=i in r['S_vio'], case=describe_regs(regsgood[i])))
        for i in r['G_mis']:
            res.mismatches.append(dict(kind='Corr.C15.reg_mismatch (CQRS/Model.v cmd_add_handlers_trace / register_handlers vs AddHandlers)', explained_by_violation=False, case=reggood[i]))
        for i in r['R_vio']:
            res.violations.append(dict(signature=sig_of(good[i]) + '/monitor',
                                       what='delivery rejected by the C15 acceptor (handlers invoked iff names match, with the decoded value, in order, stopping at the first failure / '
                                            'settlement per AckOnUnknownEvent, AckCommandHandlingErrors / original message in the context / one Router settle)',
                                       case=describe(good[i], tabs)))
        for i in r['R_mis']:
            res.mismatches.append(dict(kind='Corr.C15.c15_mismatch (CQRS/Model.v process vs the %s processor closure inside a Router)' % KIND[good[i]['kind']],
                                       explained_by_violation=i in r['R_vio'], case=describe(good[i], tabs)))
        for i in r['B_vio']:
            res.violations.append(dict(signature='C15/bus/monitor',
                                       what='bus call rejected by the C15 bus acceptor (exactly one Publish iff success, on the generated topic, carrying name + payload + caller context; nothing published on an earlier error)',
                                       case=describe_bus(busgood[i], tabs)))
        for i in r['B_mis']:
            res.mismatches.append(dict(kind='Corr.C15.bus_mismatch (CQRS/Model.v bus_send vs CommandBus.Send/SendWithModifiedMessage / EventBus.Publish)',
                                       explained_by_violation=i in r['B_vio'], case=describe_bus(busgood[i], tabs)))
        for i in r['T_rt']:
            res.mismatches.append(dict(kind='Corr.C15.tab_roundtrip (the marshaler\'s round-trip law, hypothesis of C15_value_equal, fails on the tabulated %s marshaler)' % MARSH[tabs[used[i]]['marshaler']],
                                       explained_by_violation=False, case=dict(tab=tabs[used[i]])))
        if rnd == 0:
            pick = [d for d in good if d['kind'] == 2 and sum(1 for e in d['trace'] if e[0] == 'handle') >= 2][:1] + \
                   [d for d in good if d['kind'] == 0 and d['final'] == 1 and d['scripts'][0][1] == 1 and d['trace']][:1] + \
                   [d for d in good if d['kind'] == 1 and not d['trace'] and d['final'] == 2][:1]
            for d in pick: res.sample(describe(d, tabs))
            for c in [c for c in busgood if c['res'] == 0 and c['hook'] and c['modify']][:1]: res.sample(describe_bus(c, tabs))
    res.rule = ('random scenarios from -seed: a real Router with a real Command/Event/EventGroup processor (config constructors and the deprecated NewCommandProcessor/NewEventProcessor), '
                '1..5 handlers of equal/different types incl. duplicates, 6 marshaler configurations (JSON/Protobuf x default/StructName/NamedStruct/colliding names), all flag and OnHandle '
                'combinations, 3..8 messages per scenario (sent through the real bus, or crafted with known/unknown/empty/missing name and valid/foreign/malformed/empty payload) delivered '
                'concurrently to every router handler; plus 4..9 Send/SendWithModifiedMessage/Publish calls (1..4 concurrent) per bus over scripted topic functions, OnSend/OnPublish/modify '
                'hooks and publishers. non-trivial = a delivery that calls a handler, or is not a plain bus-sent message, or uses OnHandle; every bus call; distinct by the whole script.')
    return res

def search(ctx, res):
    out = C.Result()
    for k in range(1, 4):
        r = run(dict(ctx, seed=ctx['seed'] + 7919 * k))
        out.evaluations += r.evaluations; out.nontrivial |= r.nontrivial; out.violations += r.violations
        if r.violations: break
    return out

def replay(ctx, data):
    return run(dict(ctx, seed=data.get('seed', ctx['seed'])))
