"""C05 — GoChannel: one unsettled message per subscription; blocking publish waits."""
from . import common as C, gochan as G
TRUSTED_BASE = G.TRUSTED_BASE
ASSUMPTIONS = G.ASSUMPTIONS

def classify(res, scs, reps, mons):
    G.replay_mismatches(res, scs, reps)
    for sc, rp, mo in zip(scs, reps, mons):
        for kind, text in G.liveness_verdicts(sc, rp['mapped']):
            if kind == 'blocked-publish':
                res.violations.append(dict(signature='C05/blocking-publish-does-not-return', what=text, case=G.readable(sc, mo['hist'])))
        for i, code in mo['one'] + mo['blocking']:
            sig = {1: 'C05/two-in-flight', 2: 'C05/two-in-flight-while-closing(D13)', 10: 'C05/blocking-publish-returned-before-ack', 11: 'C05/blocking-order'}[code]
            res.violations.append(dict(signature=sig, what=G.VNAME[code], case=G.readable(sc, mo['hist'], upto=i)))
        for h in sc.get('hung') or []:
            if 'Publish' in h:
                res.violations.append(dict(signature='C05/publish-never-returns', what=h, case=G.readable(sc, mo['hist'])))

def d9(ctx, res):
    """the D9 schedule (known finding): blocking Publish waiting for an Ack + pending Subscribe + the
    consumer publishing before it acks.  Three attempts; the deadlock is deterministic once the
    writer has announced itself."""
    binary = C.build_harness()
    for k in range(3):
        r, _ = C.run_harness(binary, ['gochan-d9', '-seed', str(ctx['seed'] + k)], ctx['pid'], 'd9_%d.json' % k, timeout=120)
        res.evaluations += 1; res.count('D9 schedule runs')
        case = {kk: r[kk] for kk in ('nested_publish_returned', 'outer_publish_returned', 'subscribe_returned', 'released_by_close')}
        case['schedule'] = 'Subscribe(topic-0); Publish(topic-0, m1) blocks for the Ack holding the read lock; consumer receives m1; Subscribe(topic-1) requests the write lock; consumer calls Publish(topic-1, m2) before Ack'
        for nr in r.get('nested') or []:
            res.evaluations += 1; res.count('nested publish without pending subscribe')
            if not (nr['nested_returned'] and nr['outer_returned']):
                res.violations.append(dict(signature='C05/blocking-publish-does-not-return-when-consumer-publishes-from-receive-loop',
                                           what='blocking mode (persistent=%s): the consumer publishes to another topic before acking, nothing else is going on - the Publish calls never return' % nr['persistent'], case=nr))
        if not r['nested_publish_returned']:
            res.violations.append(dict(signature='C05/blocking-publish-deadlock-consumer-publishes-before-ack-with-pending-subscribe(D9)',
                                       what='deadlock: the consumer\'s Publish, the blocked outer Publish and the pending Subscribe never return (until Close)', case=case))
            if not r['released_by_close']:
                res.violations.append(dict(signature='C05/deadlock-not-released-by-close', what='the D9 deadlock was not released by Close', case=case))
            return
    res.count('D9 schedule did not deadlock')

def run(ctx, seed_offset=0, ncases=None):
    res = C.Result()
    scs, reps, mons = G.run_family(ctx, res, seed_offset=seed_offset, ncases=ncases)
    classify(res, scs, reps, mons)
    G.samples(res, scs, mons)
    res.rule = G.RULE
    if not seed_offset:
        d9(ctx, res)
    if ctx['tier'] == 'thorough' and not seed_offset:
        r2 = C.Result()
        G.run_family(ctx, r2, ncases=150, forced_rounds=2, race=True)
        res.violations += r2.violations; res.extra.update(r2.extra)
    return res

def search(ctx, res):
    out = C.Result()
    for k in range(1, 3):
        r = run(dict(ctx, tier='quick'), seed_offset=1000 * k, ncases=80)
        out.evaluations += r.evaluations; out.nontrivial |= r.nontrivial; out.violations += r.violations
        if r.violations: break
    return out

def replay(ctx, data):
    return run(ctx)
