"""C05 — GoChannel: one unsettled message per subscription; blocking publish waits."""
from . import common as C, gochan as G
TRUSTED_BASE = G.TRUSTED_BASE
ASSUMPTIONS = G.ASSUMPTIONS

def classify(res, scs, reps, mons):
    G.replay_mismatches(res, scs, reps)
    for sc, rp, mo in zip(scs, reps, mons):
        for kind, text in G.liveness_verdicts(sc, rp['mapped']):
            if kind == 'blocked-publish':
                res.violations.append(dict(signature='C05/blocking-publish-does-not-return', what=text, case=G.readable(sc, mo['hist'])))
        for i, code in mo['one'] + mo['blocking']:
            sig = {1: 'C05/two-in-flight', 2: 'C05/two-in-flight-while-closing(D13)', 10: 'C05/blocking-publish-returned-before-ack', 11: 'C05/blocking-order'}[code]
            res.violations.append(dict(signature=sig, what=G.VNAME[code], case=G.readable(sc, mo['hist'], upto=i)))
        for h in sc.get('hung') or []:
            if 'Publish' in h:
                res.violations.append(dict(signature='C05/publish-never-returns', what=h, case=G.readable(sc, mo['hist'])))

def run(ctx, seed_offset=0, ncases=None):
    res = C.Result()
    scs, reps, mons = G.run_family(ctx, res, seed_offset=seed_offset, ncases=ncases)
    classify(res, scs, reps, mons)
    G.samples(res, scs, mons)
    res.rule = G.RULE
    if ctx['tier'] == 'thorough' and not seed_offset:
        r2 = C.Result()
        G.run_family(ctx, r2, ncases=150, forced_rounds=2, race=True)
        res.violations += r2.violations; res.extra.update(r2.extra)
    return res

def search(ctx, res):
    out = C.Result()
    for k in range(1, 3):
        r = run(dict(ctx, tier='quick'), seed_offset=1000 * k, ncases=80)
        out.evaluations += r.evaluations; out.nontrivial |= r.nontrivial; out.violations += r.violations
        if r.violations: break
    return out

def replay(ctx, data):
    return run(ctx)
