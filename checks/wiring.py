"""Shared machinery of C08 / C09: run the c0809 harness (registration programs on a real Router), turn
programs + observations into Gallina terms, evaluate model comparison and the property acceptor."""
import concurrent.futures as CF
from . import common as C

HEADER = 'From WM Require Import Base.Prelude Message.Model Handler.RouterHandle Router.Wiring Router.WiringSpec Router.Life Corr.C08 Corr.C09.\n'
PB = ['PubAccept', 'PubError', 'PubPanic']

TRUSTED_BASE = [
    'modelled, not verified: Go map iteration order in RunHandlers (irrelevant in the model: handlers are started independently), closures/defer/recover, goroutine-per-message dispatch; '
    'Router/Wiring.v is hand-written from message/router.go (AddHandler, AddNoPublisherHandler, AddMiddleware, Handler.AddMiddleware, AddPublisherDecorators, AddSubscriberDecorators, '
    'RunHandlers, handler.run, decorateHandlerPublisher, decorateHandlerSubscriber, addHandlerContext, handleMessage, publishProducedMessages) and router_context.go and tied to them by this check',
    'the subscriber environment is a scripted fan-out subscriber (every subscription of a topic on a subscriber object receives its own copy); middlewares and decorators are the harness\'s tagging wrappers '
    '(enter/exit marks, optional appended message; the tagging publisher decorator forwards Publish and Close to its inner publisher without a nil guard, as an embedding decorator does - since fix 419d219 a nil publisher is replaced by the no-publisher stand-in, so nothing is called on nil)',
    'hooks router.wiring.handler_removed (after delete(r.handlers, name)), router.wiring.before_snapshot / snapshot_taken (around the goroutine\'s copy of r.middlewares) + hookrt park rules: used only to hold a goroutine at that point while the program goes on; '
    'a rule that times out just means the window was not forced (counted in the evidence), never a verdict',
    'internal.StructName is exercised (Stringer and %T paths, empty names) but not modelled: type names enter the model as the strings the harness computed for its own collaborator types; '
    '"message.disabledPublisher" and "<nil>" are fixed constants of the model',
]
ASSUMPTIONS = [
    'linearisation point of a start (theorem C09_snapshot_linearisation, no longer an assumption): RunHandlers returns before the new handler\'s goroutine copies r.middlewares; the copy under middlewaresLock is the point P: '
    'registered before P = in the chain, after P = not. Sequential programs use OStart = "the copy follows at once" (C09_start_is_async_then_snap): there the harness lets every newly started handler process one message '
    'before it registers anything else; the "window" programs hold the goroutines before P with hook router.wiring.before_snapshot, register in the window and release them one by one (startasync / snap ops). '
    'That the registration calls and the copy are atomic with respect to each other rests on middlewaresLock (Handler.AddMiddleware always took it; Router.AddMiddleware takes it since fix b87685c: before, -race reported the data race '
    'and a variadic batch could be copied in part); mutexes are not modelled below that',
    'RunHandlers walks r.handlers in Go map order; the model takes registration order. Since a failed attempt leaves nothing behind (fix 29438e7, C09_retry_leaves_no_residue) the order is not observable. '
    'A failing Subscribe (RunHandlers aborts after decorating; repaired by fix 7669437: both undecorated objects are put back; reproduced and checked by a scratch Go test, red before / green after) is NOT a program step of the model and is not generated. A failing constructor at the very first Run is not generated (Run cannot be retried: "router is already running"); Handler.Stop of a handler whose copy is still pending and deliveries to it are not generated / not modelled',
    'as coded (stated by theorem, not repaired): r.middlewares entries are never removed, so a handler added again under the name of a stopped one inherits that name\'s handler-level middlewares (C09_registrations_never_removed)',
    'per-copy independence: the copies of concurrently delivered messages are handled by independent handleMessage instances; the harness runs 1..4 deliveries x fan-out copies in flight behind a barrier and compares every per-copy trace',
]


def n(x):
    return C.coq_N(x)

def nl(l):
    return C.coq_list([n(x) for x in l])

def ctx_term(c):
    return '(CX %s %s %s %s %s)' % tuple(n(x) for x in c)

def ev_term(e):
    k = e[0]
    if k == 'sub': return '(ESubDec %s %s)' % (n(e[1]), ctx_term(e[2]))
    if k == 'enter': return '(EEnter %s)' % n(e[1])
    if k == 'exit': return '(EExit %s)' % n(e[1])
    if k == 'fn': return '(EFn %s %s)' % (n(e[1]), ctx_term(e[2]))
    if k == 'pubdec': return '(EPubDec %s %s %s)' % (n(e[1]), n(e[2]), nl(e[3]))
    if k == 'publish': return '(EPublish %s %s %s)' % (n(e[1] + 1), n(e[2]), C.coq_list(['(%s, %s, (%s, %s))' % (n(o[0]), ctx_term(o[1]), n(o[2]), C.coq_bool(o[3])) for o in e[3]]))
    if k == 'settle': return '(ESettle %s)' % C.coq_bool(e[1])
    return None

def op_term(p, o):
    ids = p['nameids']
    k = o['k']
    if k == 'addhandler':
        h = o['h']
        pub = ['(PReal %s %s)' % (n(h['pub'] + 1), n(ids[p['pubty'][h['pub']]])) if h['pubkind'] == 0 else None, 'PDisabled', 'PNil'][h['pubkind']]
        return '(OAddHandler (HC %s %s %s %s %s %s %s))' % (n(ids[h['name']]), n(h['sub'] + 1), n(ids[p['subty'][h['sub']]]), n(ids[h['subtopic']]),
                                                          pub, n(ids[h['pubtopic']]), n(h['fn']))
    app = lambda o: '(Some %s)' % n(100 + o['id']) if o.get('app') else 'None'
    if k == 'addmw': return '(OAddMw %s %s)' % (n(o['id']), app(o))
    if k == 'addhmw': return '(OAddHMw %s %s %s)' % (n(ids[o.get('name', '')]), n(o['id']), app(o))
    if k == 'addpubdec': return '(OAddPubDec %s %d%%nat)' % (n(o['id']), o.get('fails', 0))
    if k == 'addsubdec': return '(OAddSubDec %s %d%%nat)' % (n(o['id']), o.get('fails', 0))
    if k == 'stop': return '(OStop %s)' % n(ids[o.get('name', '')])
    if k == 'start': return 'OStart'
    if k == 'startasync': return 'OStartAsync'
    if k == 'snap': return '(OSnap %s)' % n(ids[o.get('name', '')])
    if k == 'deliver':
        d = o['d']
        outs = nl(d.get('outs') or [])
        out = ['(Ret %s)' % outs, '(Fail %s)' % outs, 'Panic'][d['outkind']]
        return '(ODeliver (DL %s %s %s (%s, %s) %s %s))' % (n(d['sub'] + 1), n(ids[d['topic']]), ctx_term(d.get('ctx') or [0] * 5), n(d.get('utag', 0)), C.coq_bool(d.get('ucancel', False)), out, PB[d['pb']])
    raise C.CheckError('unknown op ' + k)

def case_term(p):
    """a Router program (plugins, Handlers() calls, Wiring operations) + its observations in program order"""
    ids = p['nameids']
    pops = []; obs = []
    dels = iter(p['obs']); views = iter(p.get('views') or [])
    first_start = True
    for o in p['ops']:
        k = o['k']
        if k == 'addplugin':
            pops.append('(PAddPlugin %s %s)' % (n(o['id']), C.coq_bool(bool(o.get('fails')))))
        elif k == 'view':
            pops.append('PView')
            v = next(views, None)
            if v is not None:
                obs.append('(PNames %s)' % nl([ids.get(x, 999999) for x in v]))
        else:
            pops.append('(PCore %s)' % op_term(p, o))
            if k == 'deliver':
                ob = next(dels, None)
                if ob is not None:
                    obs.append('(PDel %s)' % C.coq_list(['(%s, %s)' % (n(ids[c['owner']]), C.coq_list([ev_term(e) for e in c['trace']])) for c in ob]))
            elif k in ('start', 'startasync') and first_start:
                first_start = False
                if p.get('plugran'):
                    obs.append('(PPlug %s %s)' % (nl(p.get('plug') or []), C.coq_bool(bool(p.get('plugok')))))
    return '(LC %s %s)' % (C.coq_list(pops), C.coq_list(obs))

def describe(p, tab=None):
    ops = []
    for o in p['ops']:
        k = o['k']
        if k == 'addhandler': ops.append(('[in window] ' if o.get('win') else '') + ('AddHandler' if o['h']['pubkind'] != 1 else 'AddNoPublisherHandler') + ('(DUPLICATE NAME: panics)' if o.get('dup') else '') + ' ' + str(o['h']))
        elif k == 'deliver': ops.append(('[was already waiting when the preceding start subscribed] ' if o.get('backlog') else '') + 'deliver %s' % {kk: v for kk, v in o['d'].items()} + (' [concurrent batch %d]' % o['grp'] if o.get('grp') else ''))
        elif k == 'addhmw': ops.append(('[in window] ' if o.get('win') else '') + 'Handler(%r).AddMiddleware(mw%d%s)' % (o.get('name', ''), o['id'], ' appends msg %d' % (100 + o['id']) if o.get('app') else ''))
        elif k == 'addmw': ops.append('Router.AddMiddleware(mw%d%s)' % (o['id'], ' appends msg %d' % (100 + o['id']) if o.get('app') else ''))
        elif k == 'start': ops.append('Run / RunHandlers' + (' (a decorator constructor fails: returns an error)' if o.get('fail') else ''))
        elif k == 'addplugin': ops.append('AddPlugin(plugin%d%s)' % (o['id'], ' RETURNS AN ERROR' if o.get('fails') else ''))
        elif k == 'view': ops.append('Handlers()')
        elif k == 'startasync': ops.append('Run / RunHandlers returns; the goroutines of %s are held before their copy of r.middlewares' % o.get('names'))
        elif k == 'snap': ops.append('handler %r copies r.middlewares now' % o.get('name', ''))
        elif k == 'stop': ops.append('Handler(%r).Stop()%s' % (o.get('name', ''), ' — the following [in window] ops run as soon as the name is free, before Stopped() closes' if o.get('early') else ', wait for Stopped()'))
        else: ops.append('%s(%d)%s%s' % (k, o['id'], ' [the library MessageTransform decorator]' if o.get('lib') else '', ' constructor fails %d time(s)' % o['fails'] if o.get('fails') else ''))
    return dict(kind=p['kind'], subscriber_types=p['subty'], publisher_types=p['pubty'], program=ops,
                observed=[[dict(handler=c['owner'], trace=c['trace']) for c in ob] for ob in p['obs']], anomalies=p['anomaly'],
                plugins_called=p.get('plug'), run_ok=p.get('plugok'), handlers_views=p.get('views'),
                interned={v: k for k, v in p['nameids'].items()})

def stats(res, p):
    hs = [o['h'] for o in p['ops'] if o['k'] == 'addhandler' and not o.get('dup')]
    res.count('programs=%s' % p['kind'])
    res.count('handlers=%d' % len(hs))
    res.count('starts=%d' % sum(1 for o in p['ops'] if o['k'] in ('start', 'startasync')))
    regs = sum(1 for o in p['ops'] if o['k'] in ('addmw', 'addhmw'))
    res.count('middleware_registrations=%s' % (regs if regs < 7 else '7-12' if regs < 13 else '13+'))
    res.count('pub_decorators=%d' % min(5, sum(1 for o in p['ops'] if o['k'] == 'addpubdec')))
    res.count('sub_decorators=%d' % min(5, sum(1 for o in p['ops'] if o['k'] == 'addsubdec')))
    if any(o.get('dup') for o in p['ops']): res.count('duplicate_handler_name_attempts')
    if any(p.get('slowsub') or []): res.count('programs_with_a_subscriber_whose_String()_is_slow')
    if any(o.get('lib') for o in p['ops']): res.count('programs_registering_the_library_MessageTransform_decorators')
    subs_pre = [i for i, t in enumerate(p['subty']) if t == 'message.messageTransformSubscriberDecorator']
    if subs_pre: res.count('programs_with_application_pre-decorated_subscribers')
    if any(sum(1 for h in hs if h['sub'] == i) > 1 for i in subs_pre): res.count('programs_with_a_pre-decorated_subscriber_shared_by_handlers')
    if 'message.messageTransformPublisherDecorator' in p['pubty']: res.count('programs_with_application_pre-decorated_publishers')
    if any(o['k'] == 'addplugin' for o in p['ops']): res.count('programs_with_plugins')
    if any(o['k'] == 'addplugin' and o.get('fails') for o in p['ops']): res.count('programs_whose_Run_is_aborted_by_a_plugin_error')
    if p.get('views'): res.count('Handlers()_calls', len(p['views']))
    if p.get('snaps'): res.count('programs_registering_between_RunHandlers_return_and_the_copy_of_r.middlewares'); res.count('handler_goroutines_really_held_before_their_copy', p['snaps'])
    nstop = sum(1 for o in p['ops'] if o['k'] == 'stop')
    if nstop: res.count('programs_with_Handler.Stop'); res.count('handler_stops', nstop)
    if any(o.get('win') and o['k'] == 'addhandler' for o in p['ops']): res.count('names_re-added_inside_the_teardown_window(generated)')
    if p.get('windows'): res.count('teardown_windows_really_forced(old goroutine parked at the hook)', p['windows'])
    if any(o['k'] == 'stop' for o in p['ops']) and any(o['k'] == 'addhandler' and not o.get('dup') and o['h']['name'] in [x.get('name') for x in p['ops'] if x['k'] == 'stop'] for o in p['ops']): res.count('programs_re-adding_a_stopped_name')
    nf = sum(1 for o in p['ops'] if o['k'] == 'start' and o.get('fail'))
    if nf: res.count('programs_with_failing_decorator_constructors'); res.count('RunHandlers_calls_that_returned_an_error', nf)
    if any(o.get('fails') and o['k'] == 'addsubdec' for o in p['ops']): res.count('programs_with_failing_SUBSCRIBER_decorator(publisher decorators stay applied)')
    keys = [(h['sub'], h['subtopic']) for h in hs]
    if len(set(keys)) < len(keys): res.count('programs_with_handlers_sharing_a_subscription_topic')
    pubs = [h['pub'] for h in hs if h['pubkind'] == 0]
    if len(set(pubs)) < len(pubs): res.count('programs_with_handlers_sharing_a_publisher')
    started = False; late = False
    for o in p['ops']:
        if o['k'] == 'start': started = True
        elif started and o['k'] in ('addmw', 'addhmw', 'addpubdec', 'addsubdec', 'addhandler'): late = True
    if late: res.count('programs_registering_after_Run')
    for o, ob in zip([o for o in p['ops'] if o['k'] == 'deliver'], p['obs']):
        d = o['d']
        res.count('deliveries')
        res.count('copies_per_delivery=%d' % len(ob))
        res.count('outcome=%s' % ['ret', 'fail', 'panic'][d['outkind']])
        if d.get('chain'): res.count('deliveries_of_an_object_published_earlier(ctx keys present)')
        if o.get('backlog'): res.count('deliveries_already_waiting_when_the_handler_subscribes(handed over inside Subscribe)')
        if d.get('utag') or d.get('ucancel'): res.count('deliveries_whose_context_carries_user_value_or_cancellation')
        if d['outkind'] == 0 and len(set(d.get('outs') or [])) > 1: res.count('deliveries_returning_>=2_messages_with_different_own_contexts')
        for c in ob:
            tr = c['trace']
            ne = sum(1 for e in tr if e[0] == 'enter')
            res.count('chain_depth=%s' % (ne if ne < 6 else '6+'))
            if any(e[0] == 'publish' for e in tr): res.count('copies_published')
            if any(e[0] == 'pubdec' for e in tr) and not any(e[0] == 'publish' for e in tr): res.count('copies_with_output_but_no_publisher')

def shape(p):
    """hashable description of a program's wiring for the distinct-non-trivial count"""
    s = []
    for o in p['ops']:
        k = o['k']
        if k == 'addhandler': s.append(('H', o['h']['name'], o['h']['sub'], o['h']['subtopic'], o['h']['pubkind'], o['h']['pub'], o['h']['pubtopic']))
        elif k == 'addmw': s.append('R' + ('+' if o.get('app') else ''))
        elif k == 'addhmw': s.append('M' + o.get('name', '') + ('+' if o.get('app') else ''))
        elif k == 'addpubdec': s.append('P%d' % o.get('fails', 0))
        elif k == 'addsubdec': s.append('S%d' % o.get('fails', 0))
        elif k == 'start': s.append('!x' if o.get('fail') else '!')
        elif k == 'startasync': s.append('!~')
        elif k == 'addplugin': s.append('G%d' % (1 if o.get('fails') else 0))
        elif k == 'view': s.append('V')
        elif k == 'snap': s.append('~' + o.get('name', ''))
        elif k == 'stop': s.append(('Z' if o.get('early') else 'z') + o.get('name', ''))
    return tuple(s)

def fold_pubdec(tr):
    """the library's MessageTransformPublisherDecorator calls its transform once per message: consecutive marks of one
    decorator are the batch it saw"""
    out = []
    for e in tr:
        if e[0] == 'pubdecmsg':
            if out and out[-1][0] == 'pubdec' and out[-1][1] == e[1] and out[-1][4:] == ['lib']:
                out[-1][3].append(e[3])
            else:
                out.append(['pubdec', e[1], e[2], [e[3]], 'lib'])
        else:
            out.append(e)
    return [e[:4] if e[0] == 'pubdec' else e for e in out]

def run_harness(ctx, args, tag):
    binary = C.build_harness()
    data, _ = C.run_harness(binary, ['c0809', '-seed', str(ctx['seed'])] + args, ctx['pid'], 'c0809_%s.json' % tag)
    for p in data['programs']:
        for ob in p['obs']:
            for c in ob:
                c['trace'] = fold_pubdec(c['trace'])
    return data['programs']

def evaluate(ctx, res, progs, vio_name, tag, sig_prefix, what):
    """fills res.violations / res.mismatches; returns the programs that were evaluated"""
    pid = ctx['pid']
    good = []
    for p in progs:
        if p.get('skipped'):
            res.count('programs_skipped_after_gross_misbehaviour')
            continue
        res.evaluations += 1
        stats(res, p)
        bad = [e for ob in p['obs'] for c in ob for e in c['trace'] if ev_term(e) is None]
        ndel = sum(1 for o in p['ops'] if o['k'] == 'deliver')
        seen_names = set(); dupbad = None
        for o in p['ops']:
            if o['k'] == 'stop':
                seen_names.discard(o.get('name', ''))
            if o['k'] == 'addhandler':
                if bool(o.get('dup')) != (o['h']['name'] in seen_names):
                    dupbad = o['h']['name']
                seen_names.add(o['h']['name'])
        if dupbad is not None:
            res.violations.append(dict(signature=sig_prefix + '/duplicate-handler-name', what='AddHandler with handler name %r: a DuplicateHandlerNameError panic is expected exactly for a name that was added before' % dupbad, case=describe(p)))
            continue
        if p['anomaly'] or bad or ndel != len(p['obs']):
            res.violations.append(dict(signature=sig_prefix + '/anomaly', what='the router did not handle a delivered message as any handler should: %s' % (p['anomaly'] or bad)[:3], case=describe(p)))
            continue
        good.append(p)
        if any(c['trace'] for ob in p['obs'] for c in ob):
            res.nontrivial.add(shape(p))
    chunks = list(C.chunks(good, 120))
    def ev(i):
        chunk = chunks[i]
        return C.coq_eval(pid, 'cases_%s_%d' % (tag, i), HEADER + 'Definition cases : list lcase := %s.\n' % C.coq_list([case_term(p) for p in chunk]),
                          [('R_mis', 'l_mismatches cases'), ('R_vio', '%s cases' % vio_name)])
    with CF.ThreadPoolExecutor(max_workers=6) as ex:
        results = list(ex.map(ev, range(len(chunks))))
    fb = vio_name.replace('lviolations', 'first_bad')
    nloc = 0
    for ci, (chunk, r) in enumerate(zip(chunks, results)):
        badidx = sorted(set(r['R_vio']) | set(r['R_mis']))
        loc = {}
        if badidx and nloc < 3:
            # locate the first rejected / differing delivery of (a few of) the bad programs for the replay file
            sel = badidx[:3]; nloc += len(sel)
            lr = C.coq_eval(pid, 'locate_%s_%d' % (tag, ci), HEADER + 'Definition cases : list wcase := map lc_wc %s.\n' % C.coq_list([case_term(chunk[i]) for i in sel]),
                            [('R_fb', 'map %s cases' % fb), ('R_fd', 'map w_first_diff cases')])
            loc = {i: (lr['R_fb'][j], lr['R_fd'][j]) for j, i in enumerate(sel)}
        def focus(i, which):
            d = describe(chunk[i])
            if i in loc:
                k = loc[i][which]
                dels = [o for o in chunk[i]['ops'] if o['k'] == 'deliver']
                if k < len(dels):
                    d = dict(first_bad_delivery=dict(number=k, delivery=dels[k]['d'], observed=d['observed'][k] if k < len(d['observed']) else None), **d)
            return d
        for i in r['R_vio']:
            res.violations.append(dict(signature=sig_prefix + '/monitor', what=what, case=focus(i, 0)))
        for i in r['R_mis']:
            res.mismatches.append(dict(kind='Corr.C08.w_mismatch (Router/Wiring.v run vs the real Router)', explained_by_violation=i in r['R_vio'], case=focus(i, 1)))
    return good
