"""C01 — end-to-end at-least-once through Router pipelines under faults."""
from . import common as C

HEADER = 'From WM Require Import Base.Prelude Message.Model Handler.RouterHandle Pipeline.Model Pipeline.ImmModel Pipeline.CtxModel Corr.C01.\nFrom WM Require Router.Wiring.\n'
ST = ['Unsettled', 'Acked', 'Nacked']
FK = ['none', 'handler error', 'handler panic', 'publish error after j', 'publish panic after j']

TRUSTED_BASE = [
    'the pipeline model (Pipeline/Model.v) composes the component SPECIFICATIONS: the Router on one delivered copy = C02\'s model Handler/RouterHandle.v '
    '(instantiated from the real C02 lemmas; tied to router.go by C02\'s check and, here, by comparing every per-delivery event trace); a GoChannel topic = '
    '"publication pending until one copy is Acked, fresh copy per attempt, one in flight, immediate redelivery" - PROVED to be what the composition of the registry model '
    'GoChannel/Reg.v with the send-loop model GoChannel/Sub.v does for an always-registered subscription (Pipeline/TopicRefine.v: step-for-step refinement); '
    'the same topic interface is proved of the full composed GoChannel model GoChannel/Compose.v (Pipeline/ComposeRefine.v) for a subscription that is not cancelled while the Pub/Sub is open',
    'the product of k such topics with one Router step per delivered copy is PROVED to simulate Pipeline/Model.v (Pipeline/ProductProofs.v; safety transfers, liveness only as far as "finitely many Router steps"); the Router step is a macro step there (Publish of the outputs + settle atomic); Reg.v / Sub.v are tied to pubsub.go by the C04/C05/C07 schedule replay',
    'a delivery attempt is one atomic step of the model; the implementation\'s attempts are linearised by the order of handler entry (sound: the outputs of an attempt are '
    'accepted by the next topic after its handler was entered, and the next attempt of a stage starts after the previous copy was settled)',
    'the harness (fault-injecting handler and publisher wrappers, settlement watcher goroutines, exact quiescence detection by counting accepted/acked publications); '
    'liveness on the implementation is a watchdog verdict (no event for 8 s) - the theorem is about the model',
    'Go runtime: recover() in handleMessage, goroutine per message, channels/select/mutex as modelled in Sub.v',
]
ASSUMPTIONS = [
    'fairness hypothesis of the at-least-once theorems: eventually_clean k sc (finitely many faults per stage); satisfied by every finite script (C01_finite_scripts_are_fair)',
    'configurations exclude D9 (blocking publish + Subscribe/unsubscribe while a consumer publishes before acking): all subscriptions are made before the first blocking Publish and torn down after quiescence',
    'non-persistent GoChannel: source messages are published after every subscription exists (a message published to a topic without subscribers is dropped by design)',
]


def cm(m):
    return '(%s, %s)' % (C.coq_N(m['lin']), C.coq_list([C.coq_N(x) for x in m['path']]))


def fault_term(f):
    k = f['kind']
    if k == 0: return 'FNone'
    if k == 1: return 'FErr'
    if k == 2: return 'FPanic'
    return '(FPub %d %s)' % (f['j'], C.coq_bool(k == 4))


def event_term(e):
    k = e[0]
    if k == 'call': return 'HCall'
    if k == 'publish': return '(HPublish %s %s)' % (C.coq_list([cm(m) for m in e[1]]), ST[e[2]])
    if k == 'pubret': return '(HPublishRet %s)' % C.coq_bool(e[1])
    if k == 'pubpanic': return 'HPublishPanic'
    if k == 'settle': return '(HSettle %s true)' % C.coq_bool(e[1])
    return None


def delivery_term(d):
    return '(D %d %d %s %s %s %s %s)' % (d['stage'], d['call'], cm(d['msg']), fault_term(d['fault']),
                                         C.coq_list([event_term(e) for e in d['events']]),
                                         C.coq_list([cm(m) for m in d['fwd']]), ST[d['final']])


def case_term(c):
    fans = C.coq_list([C.coq_list([str(x) for x in row]) for row in c['fans']])
    scr = C.coq_list([C.coq_list([fault_term(f) for f in row]) for row in c['script']])
    srcs = C.coq_list([cm(dict(lin=l, path=[])) for l in c['srcs']])
    ctx = [[] for _ in range(c['k'])]
    for d in sorted(c['log'], key=lambda d: d['call']):
        row = ctx[d['stage']]
        while len(row) < d['call']: row.append(True)
        row.append(bool(d.get('ctx_live', True)))
    ctxt = C.coq_list([C.coq_list([C.coq_bool(b) for b in row]) for row in ctx])
    names = {'': 0}
    def nid(n):
        if n not in names: names[n] = len(names)
        return names[n]
    def regs_term(ri):
        regs = (c.get('regs') or [])
        row = regs[ri] if ri < len(regs) else []
        return C.coq_list(['(Wiring.MR %s %s %s None)' % (C.coq_bool(r['router_level']), C.coq_N(nid(r['hname'])), C.coq_N(r['id'])) for r in row])
    mws = C.coq_list(['(%s, %s, %s)' % (regs_term(d.get('router', 0)), C.coq_N(nid(d.get('hname', ''))), C.coq_list([C.coq_N(i) for i in (d.get('mws') or [])]))
                      for d in c['log']])
    return '(C01 %d %s %s %s %s %s %s %s %s)' % (c['k'], fans, scr, srcs, C.coq_list([delivery_term(d) for d in c['log']]),
                                                 C.coq_list([cm(m) for m in c['sink']]), C.coq_bool(c['quiet']), ctxt, mws)


def config(c):
    return dict(id=c['id'], kind=c['kind'], stages=c['k'], fan_out=c['fans'], sources=c['nsrc'], failing_source_publishes=c['failsrc'],
                concurrent_source_publishers=c['publishers'], published_before_start=c['early'], persistent=c['persistent'],
                output_buffer=c['buffer'], block_publish_until_ack=c['blocking'], one_router=c['one_router'], shared_gochannel=c['shared_pubsub'],
                perturb=c['perturb'], panic_value=['string', 'error', 'nil'][c['panicval']],
                script=[[[FK[f['kind']], f['j']] for f in row] for row in c['script']])


def describe(c, full=False):
    d = config(c)
    d.update(successfully_published=c['srcs'], sink=[(m['lin'], m['path']) for m in c['sink']], quiescent=c['quiet'], notes=c['notes'],
             deliveries=len(c['log']))
    log = c['log'] if full else c['log'][:12]
    d['log'] = [dict(stage=x['stage'], call=x['call'], msg=(x['msg']['lin'], x['msg']['path']), fault=[FK[x['fault']['kind']], x['fault']['j']],
                     context_live_at_entry=x.get('ctx_live', True), handler=x.get('hname'), middlewares_entered=x.get('mws'), events=x['events'], accepted_by_next_topic=[(m['lin'], m['path']) for m in x['fwd']], final=ST[x['final']]) for x in log]
    return d


def shape(c):
    """hashable description of a distinct non-trivial case"""
    return (c['k'], tuple(tuple(r) for r in c['fans']), tuple(tuple((f['kind'], f['j']) for f in r) for r in c['script']), c['nsrc'],
            c['persistent'], c['buffer'], c['blocking'], c['one_router'], c['shared_pubsub'], tuple(c['failsrc']))


def harness_args(tier, seed, rnd):
    if tier == 'quick':
        return ['c01', '-seed', str(seed + rnd), '-n', '140']
    a = ['c01', '-seed', str(seed + rnd), '-n', '300', '-big']
    if rnd == 0:
        a.append('-doubles')
    return a


def evaluate(pid, tag, data, res):
    good = []
    for c in data:
        if c['not_run']:
            continue
        res.evaluations += 1
        res.count('stages=%d' % c['k'])
        res.count('sources=%s' % ('1' if c['nsrc'] == 1 else '2-5' if c['nsrc'] <= 5 else '6-12' if c['nsrc'] <= 12 else '13-20'))
        res.count('kind=%s' % c['kind'])
        res.count('gochannel=%s%s buffer=%s' % ('persistent' if c['persistent'] else 'plain', '+blocking' if c['blocking'] else '', '0' if c['buffer'] == 0 else 'n'))
        res.count('routers=%s' % ('one' if c['one_router'] else 'k'))
        if c.get('bystanders'): res.count('with bystander handlers on the Router (empty name%s), own error-swallowing / instant-ack middlewares, registered %s the stages' % (' + a named one' if c['bystanders'] > 1 else '', 'before' if c.get('by_first') else 'after'))
        if c.get('late_on_closed'): res.count('source publishes on the live topic-0 Pub/Sub after its Close (messages in flight downstream)', c['late_on_closed'])
        if c.get('bystander', -1) >= 0 and not c['blocking']: res.count('with a bystander subscription on a pipeline topic (nacks once, cancels itself mid-run); it received %s' % ('0' if not c.get('bystander_got') else '1+'))
        if any(9 in row for row in c['fans']): res.count('with a passthrough handler (returns the consumed object)')
        nf = 0
        for d in c['log']:
            res.count('attempt: %s' % FK[d['fault']['kind']])
            if d['fault']['kind']: nf += 1
            if d['fault']['kind'] >= 3 and 0 < d['fault']['j'] < len(d['events'][1][1] if len(d['events']) > 1 and d['events'][1][0] == 'publish' else []):
                res.count('attempt: partial batch accepted')
        res.count('faults hit per case=%s' % ('0' if nf == 0 else '1' if nf == 1 else '2-5' if nf <= 5 else '6+'))
        ndup = len(c['sink']) - len({(m['lin'], tuple(m['path'])) for m in c['sink']})
        res.count('duplicates at the sink=%s' % ('0' if ndup == 0 else '1+'))
        bad = [e for d in c['log'] for e in d['events'] if event_term(e) is None]
        if bad or any('Publish with' in n or 'rejected' in n or 'source publish failed' in n or 'closed Pub/Sub returned nil' in n for n in c['notes']):
            res.violations.append(dict(signature='C01/unexpected-observation', what='unexpected observation: %s %s' % (bad[:1], c['notes'][:2]), case=describe(c, True)))
            continue
        if any(('teardown hung' in n or 'router close' in n or 'Run did not return' in n) for n in c['notes']):
            # shutdown anomalies are outside C01 (Router.Close / GoChannel.Close termination = C06 / C07): recorded, not judged
            res.count('shutdown anomaly after quiescence (not judged here): ' + ';'.join(sorted(c['notes']))[:80])
            res.extra.setdefault('shutdown_anomalies', []).append(dict(case=config(c), notes=c['notes'], goroutines=(c.get('dump') or '')[:20000]))
        if nf:
            res.nontrivial.add(shape(c))
        good.append(c)
    for part, chunk in enumerate(C.chunks(good, 60)):
        r = C.coq_eval(pid, 'cases_%s_%d' % (tag, part), HEADER + 'Definition cases : list c01_case := %s.\n' % C.coq_list([case_term(c) for c in chunk]),
                       [('R_mis', 'c01_mismatches cases'), ('R_log', 'c01_log_violations cases'),
                        ('R_inv', 'c01_invented_violations cases'), ('R_lost', 'c01_lost_violations cases'),
                        ('R_red', 'c01_redelivery_violations cases'), ('R_imm', 'c01_immediate_violations cases'), ('R_ctx', 'c01_dead_ctx_violations cases'), ('R_mw', 'c01_foreign_mw_violations cases')])
        vio = set()
        for i in r['R_log']:
            vio.add(i)
            res.violations.append(dict(signature='C01/delivery-monitor',
                what='a delivery attempt is rejected by the monitor (Router: one call, one settle as the last event, Ack iff no fault and outputs accepted, Ack only after Publish returned nil, copy unsettled inside Publish, outputs as returned; stage: given up only after the next topic accepted every output)',
                case=describe(chunk[i], True)))
        for i in r['R_inv']:
            vio.add(i)
            res.violations.append(dict(signature='C01/invented', what='a message arrived at the final topic that does not descend from a successfully published source message (lineage/path not derivable)', case=describe(chunk[i], True)))
        for i in r['R_mw']:
            vio.add(i)
            res.violations.append(dict(signature='C01/foreign-middleware', what='a stage\'s call ran a middleware that is neither router-level nor the stage\'s own (or not in registration order): another handler\'s error-swallowing / instant-ack middleware decides about the stage\'s message', case=describe(chunk[i], True)))
        for i in r['R_ctx']:
            vio.add(i)
            res.violations.append(dict(signature='C01/dead-delivery-context', what='a copy was delivered with an already-done context (GoChannel must hand out every copy, redeliveries included, with a live context); the context-aware handler fails on it, so the fault never stops and the message does not move on', case=describe(chunk[i], True)))
        for i in r['R_imm']:
            vio.add(i)
            res.violations.append(dict(signature='C01/redelivery-not-immediate', what='after a Nack another message was delivered to the stage before the Nacked one was redelivered (the Sender must keep the sending lock: one in flight)', case=describe(chunk[i], True)))
        for i in r['R_red']:
            vio.add(i)
            res.violations.append(dict(signature='C01/not-redelivered', what='a delivery attempt ended in a Nack and the same message was never attempted again at that stage although nothing is pending', case=describe(chunk[i], True)))
        for i in r['R_lost']:
            vio.add(i)
            c = chunk[i]
            res.violations.append(dict(signature='C01/lost' if c['quiet'] else 'C01/stuck',
                what=('quiescent, but a descendant of a successfully published source message never arrived at the final topic' if c['quiet'] else
                      'the pipeline did not become quiescent although the faults stopped (nothing happened for 8 s): a message is neither redelivered nor delivered; ' + '; '.join(c['notes'][:2])),
                case=describe(c, True)))
        kinds = {1: 'an observed delivery is not enabled in the model', 2: 'delivery logs differ', 3: 'final topic differs (multiset)', 4: 'quiescence differs'}
        for i, code in r['R_mis']:
            res.mismatches.append(dict(kind='Corr.C01.c01_mismatch: %s (Pipeline/Model.v vs real Router + GoChannel pipeline)' % kinds.get(code, code),
                                       explained_by_violation=i in vio, case=describe(chunk[i], True)))
    return good


def run(ctx):
    pid, tier, seed = ctx['pid'], ctx['tier'], ctx['seed']
    res = C.Result()
    binary = C.build_harness()
    rounds = 1 if tier == 'quick' else 4
    for rnd in range(rounds):
        data, _ = C.run_harness(binary, harness_args(tier, seed, rnd), pid, 'c01_%d.json' % rnd)
        good = evaluate(pid, str(rnd), data, res)
        notrun = sum(1 for c in data if c['not_run'])
        if notrun:
            res.extra['not_run_after_stall'] = res.extra.get('not_run_after_stall', 0) + notrun
        if rnd == 0 and good:
            for c in sorted(good, key=lambda c: -sum(1 for d in c['log'] if d['fault']['kind']))[:1] + good[3:4]:
                res.sample(describe(c))
    res.rule = ('real message.Router(s) (one router with k handlers / k routers) over real GoChannel topics (plain/persistent, buffer 0/n, blocking publish on/off, one shared or one '
                'GoChannel per topic), k = 1..4 stages, 1..20 source messages from 1..3 concurrent publishers, fan-out 0..3 per stage and lineage, some source publishes failing; '
                'fault-injecting handler/publisher wrappers driven by the same script as the model: all single-fault placements on four small pipelines, random scripts of density 0..0.6, '
                '(thorough: all double placements on 2 stages x 2 messages). Non-trivial = at least one fault was hit; distinct by (shape, script, configuration).')
    return res


def search(ctx, res):
    out = C.Result()
    for k in range(1, 3):
        r = run(dict(ctx, seed=ctx['seed'] + 1000 * k))
        out.evaluations += r.evaluations; out.nontrivial |= r.nontrivial; out.violations += r.violations
        if r.violations: break
    return out


def replay(ctx, data):
    return run(dict(ctx, seed=data.get('seed', ctx['seed']), tier=data.get('tier', ctx['tier'])))
