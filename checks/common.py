"""Shared machinery of /verif/bin/check: build, Coq evaluation, evidence, reporting."""
import ast, fcntl, hashlib, json, os, re, shutil, subprocess, sys, time

VERIF = os.path.dirname(os.path.dirname(os.path.abspath(__file__)))
COQ = os.path.join(VERIF, 'coq')
HARNESS = os.path.join(VERIF, 'harness')
BUILD = os.path.join(VERIF, 'build')
OUT = os.path.join(VERIF, 'out')
def _repo_path():
    # development of checks in a private clone: VERIF_REPO or a one-line file .verif_repo in the clone's root
    # name a scratch git worktree of /repo; the registered checks always run against /repo itself
    if os.environ.get('VERIF_REPO'):
        return os.environ['VERIF_REPO']
    f = os.path.join(VERIF, '.verif_repo')
    if os.path.exists(f):
        return open(f).read().strip()
    return '/repo'
REPO = _repo_path()
GOENV = dict(os.environ, GOFLAGS='-mod=mod', GOPROXY='off', GOSUMDB='off', GOTOOLCHAIN='local',
             CGO_ENABLED=os.environ.get('CGO_ENABLED', '0'))

FORBIDDEN = re.compile(r'\b(Admitted|admit|Axiom|Axioms|Parameter|Parameters|Conjecture|Hypothesis|Variable)\b|Unset Guard|bypass_check|type-in-type|impredicative-set|Admit Obligations')
# Variable/Hypothesis are allowed inside Sections only; checked separately.

# axioms of the standard library that a theorem may depend on (must be named in the trusted base)
STDLIB_AXIOMS = {
    'functional_extensionality_dep', 'FunctionalExtensionality.functional_extensionality_dep',
    'classic', 'Classical_Prop.classic', 'proof_irrelevance', 'JMeq_eq', 'JMeq.JMeq_eq',
    'Eqdep.Eq_rect_eq.eq_rect_eq', 'eq_rect_eq', 'propositional_extensionality',
    # the real-number axioms of the standard library (loaded with Lra/Psatz; coqchk -o lists them for the whole closure)
    'Coq.Reals.ClassicalDedekindReals.sig_forall_dec', 'sig_forall_dec', 'Coq.Reals.ClassicalDedekindReals.sig_not_dec', 'sig_not_dec',
    'Coq.Logic.FunctionalExtensionality.functional_extensionality_dep', 'Coq.Logic.Classical_Prop.classic',
}

class CheckError(Exception):
    pass

def log(*a):
    print('[check]', *a, file=sys.stderr, flush=True)

def sh(cmd, cwd=None, env=None, timeout=None, check=True, capture=True):
    p = subprocess.run(cmd, cwd=cwd, env=env, timeout=timeout, shell=isinstance(cmd, str),
                       stdout=subprocess.PIPE if capture else None,
                       stderr=subprocess.STDOUT if capture else None, text=True)
    if check and p.returncode != 0:
        raise CheckError('command failed (%s): %s\n%s' % (p.returncode, cmd, (p.stdout or '')[-4000:]))
    return p

class Lock:
    def __init__(self, name):
        os.makedirs(BUILD, exist_ok=True)
        self.path = os.path.join(BUILD, '.' + name + '.lock')
    def __enter__(self):
        self.f = open(self.path, 'w')
        fcntl.flock(self.f, fcntl.LOCK_EX)
    def __exit__(self, *a):
        fcntl.flock(self.f, fcntl.LOCK_UN)
        self.f.close()

# ---------------------------------------------------------------- Coq project

def coq_sources():
    res = []
    for d, _, fs in os.walk(COQ):
        for f in fs:
            if f.endswith('.v'):
                res.append(os.path.relpath(os.path.join(d, f), COQ))
    return sorted(res)

def ensure_coq_built():
    """full .vo build of the whole development (no-op when up to date)"""
    with Lock('coq'):
        srcs = coq_sources()
        proj = open(os.path.join(COQ, '_CoqProject.in')).read() + '\n'.join(srcs) + '\n'
        pp = os.path.join(COQ, '_CoqProject')
        if not os.path.exists(pp) or open(pp).read() != proj or not os.path.exists(os.path.join(COQ, 'Makefile')):
            open(pp, 'w').write(proj)
            sh(['coq_makefile', '-f', '_CoqProject', '-o', 'Makefile'], cwd=COQ)
        t0 = time.time()
        p = sh('timeout 3000 make -j16 2>&1', cwd=COQ, check=False)
        if p.returncode != 0:
            raise CheckError('Coq build failed:\n' + p.stdout[-6000:])
        return time.time() - t0

def forbidden_hits():
    """Admitted & co anywhere in the development (comments stripped).  Variable/Hypothesis are
    permitted only between Section ... End."""
    hits = []
    for rel in coq_sources():
        txt = open(os.path.join(COQ, rel)).read()
        txt = strip_coq_comments(txt)
        depth = 0
        for ln, line in enumerate(txt.split('\n'), 1):
            if re.match(r'\s*Section\b', line): depth += 1
            if re.match(r'\s*End\b', line) and depth > 0: depth -= 1
            for m in FORBIDDEN.finditer(line):
                w = m.group(0)
                if w in ('Variable', 'Hypothesis', 'Variables', 'Hypotheses') and depth > 0:
                    continue
                if w in ('Parameter', 'Parameters') and False:
                    continue
                hits.append('%s:%d: %s' % (rel, ln, w))
    return hits

def strip_coq_comments(txt):
    out = []; i = 0; depth = 0; n = len(txt)
    while i < n:
        if txt.startswith('(*', i): depth += 1; i += 2; continue
        if txt.startswith('*)', i) and depth > 0: depth -= 1; i += 2; continue
        if depth == 0: out.append(txt[i])
        elif txt[i] == '\n': out.append('\n')
        i += 1
    return ''.join(out)

def check_props(pid):
    """re-check Props/<pid>.v with coqc and parse Print Assumptions.
    returns dict(theorems=[...], axioms={thm: [...]}, obligations, discharged, problems=[...])"""
    rel = 'Props/%s.v' % pid
    src = strip_coq_comments(open(os.path.join(COQ, rel)).read())
    thms = re.findall(r'^\s*(?:Theorem|Lemma|Corollary)\s+(\w+)', src, re.M)
    examples = re.findall(r'^\s*Example\s+(\w+)', src, re.M)
    prints = re.findall(r'Print Assumptions\s+(\w+)', src)
    problems = []
    for t in thms:
        if t not in prints:
            problems.append('theorem %s has no Print Assumptions' % t)
    work = workdir(pid)
    os.makedirs(os.path.join(work, 'props'), exist_ok=True)
    vo = os.path.join(work, 'props', '%s.vo' % pid)
    p = sh(['timeout', '1200', 'coqc', '-Q', COQ, 'WM', '-o', vo, os.path.join(COQ, rel)], check=False)
    if p.returncode != 0:
        problems.append('coqc %s failed: %s' % (rel, p.stdout[-2000:]))
        return dict(theorems=thms, examples=examples, axioms={}, obligations=len(thms) + 1, discharged=0, problems=problems)
    # split output per Print Assumptions (in order)
    blocks = re.split(r'(?=Closed under the global context|Axioms:)', p.stdout)
    blocks = [b for b in blocks if b.startswith('Closed') or b.startswith('Axioms:')]
    axioms = {}
    if len(blocks) != len(prints):
        problems.append('expected %d Print Assumptions outputs, got %d' % (len(prints), len(blocks)))
    for t, b in zip(prints, blocks):
        if b.startswith('Closed'):
            axioms[t] = []
        else:
            names = re.findall(r'^([\w.\']+)\s*:', b, re.M)
            axioms[t] = names
            for a in names:
                if a.split('.')[-1] not in {x.split('.')[-1] for x in STDLIB_AXIOMS}:
                    problems.append('theorem %s depends on non-stdlib axiom %s' % (t, a))
    hits = forbidden_hits()
    for h in hits:
        problems.append('forbidden construct: ' + h)
    obligations = len(thms) + 1           # + the "no Admitted/Axiom anywhere" obligation
    discharged = sum(1 for t in thms if t in axioms and not any(t in pr for pr in problems)) + (0 if hits else 1)
    return dict(theorems=thms, examples=examples, axioms=axioms, obligations=obligations,
                discharged=discharged, problems=problems)

def coqchk(pid):
    """thorough tier: re-check Props/<pid>.vo and everything it depends on with the independent
    checker, list the axioms of the whole closure.  Cached by the hash of all .v sources (one run
    takes 1-15 minutes and is deterministic)."""
    h = hashlib.sha1()
    for rel in coq_sources():
        h.update(rel.encode()); h.update(open(os.path.join(COQ, rel), 'rb').read())
    key = pid + ':' + h.hexdigest()
    cache_p = os.path.join(BUILD, 'coqchk_cache.json')
    cache = json.load(open(cache_p)) if os.path.exists(cache_p) else {}
    if key in cache:
        return dict(cache[key], cached=True)
    t0 = time.time()
    p = sh(['timeout', '3000', 'coqchk', '-silent', '-o', '-Q', COQ, 'WM', 'WM.Props.' + pid], check=False)
    out = p.stdout or ''
    m = re.search(r'\* Axioms:(.*?)\n\s*\n\* Constants', out, re.S)
    axioms = [a.strip() for a in (m.group(1).split('\n') if m else []) if a.strip() and a.strip() != '<none>']
    res = dict(ok=(p.returncode == 0 and m is not None), axioms=axioms, seconds=round(time.time() - t0, 1),
               summary=out[-600:] if p.returncode else 'CONTEXT SUMMARY: axioms %s; no type-in-type, no unsafe fixpoints, no assumed positivity' % (axioms or '<none>'))
    if p.returncode == 0 and ('type-in-type: <none>' not in out or 'unsafe (co)fixpoints: <none>' not in out or 'positivity is assumed: <none>' not in out):
        res['ok'] = False; res['summary'] = out[-800:]
    cache[key] = res
    json.dump(cache, open(cache_p, 'w'))
    return res

def workdir(pid):
    d = os.path.join(BUILD, 'work', pid)
    os.makedirs(d, exist_ok=True)
    return d

# ---------------------------------------------------------------- Coq evaluation of cases

def parse_coq_value(txt):
    """parse a printed Gallina value made of lists, tuples, numbers, booleans"""
    t = re.sub(r'%\w+', '', txt)
    t = t.replace(';', ',').replace('true', 'True').replace('false', 'False')
    t = re.sub(r'\s+', ' ', t).strip()
    return ast.literal_eval(t)

def coq_eval(pid, name, header, defs, timeout=1500):
    """defs: list of (result_name, gallina_term).  Writes <name>.v, runs coqc, returns
    {result_name: python value}."""
    work = workdir(pid)
    path = os.path.join(work, name + '.v')
    with open(path, 'w') as f:
        f.write(header + '\n')
        for rn, term in defs:
            f.write('Definition %s := Eval vm_compute in (%s).\nPrint %s.\n' % (rn, term, rn))
    # large printed values (the C03 sweep prints ~90 000 numbers) need more than the default 8 MB stack
    p = sh('ulimit -s unlimited 2>/dev/null || ulimit -s 4000000 2>/dev/null; exec timeout %d coqc -Q "%s" WM -o "%so" "%s"' % (timeout, COQ, path, path), check=False)
    if p.returncode != 0:
        raise CheckError('coqc failed on %s:\n%s' % (path, p.stdout[-3000:]))
    res = {}
    for rn, _ in defs:
        m = re.search(r'^%s\s*=\s*(.*?)\n\s*:\s' % re.escape(rn), p.stdout, re.S | re.M)
        if not m:
            raise CheckError('no value printed for %s in %s:\n%s' % (rn, path, p.stdout[-2000:]))
        res[rn] = parse_coq_value(m.group(1))
    return res

def coq_list(items):
    return '[' + '; '.join(items) + ']'

def coq_N(n):
    return '%d%%N' % n
def coq_Z(n):
    return '(%d)%%Z' % n
def coq_bool(b):
    return 'true' if b else 'false'

def chunks(l, n):
    for i in range(0, len(l), n):
        yield l[i:i + n]

# ---------------------------------------------------------------- harness

def build_harness(race=False):
    """rebuild the harness binary against /repo's CURRENT working tree, hooks on"""
    with Lock('harness'):
        # the module file is generated into build/ on every build (harness/go.mod with the replace
        # pointing at the repo tree under test; go.sum = the repo's own), so nothing tracked changes
        os.makedirs(BUILD, exist_ok=True)
        mod = open(os.path.join(HARNESS, 'go.mod')).read().replace('=> /repo', '=> ' + REPO)
        modfile = os.path.join(BUILD, 'harness.mod')
        open(modfile, 'w').write(mod)
        shutil.copyfile(os.path.join(REPO, 'go.sum'), os.path.join(BUILD, 'harness.sum'))
        out = os.path.join(BUILD, 'wmh-race' if race else 'wmh')
        env = dict(GOENV)
        cmd = ['go', 'build', '-modfile=' + modfile, '-tags', 'verif']
        if race:
            cmd.append('-race'); env['CGO_ENABLED'] = '1'
        cmd += ['-o', out, './cmd/wmh']
        p = sh(cmd, cwd=HARNESS, env=env, check=False, timeout=1200)
        if p.returncode != 0:
            raise CheckError('harness build failed (against the current /repo tree):\n' + p.stdout[-4000:])
        return out

def run_harness(binary, args, pid, outname, timeout=900):
    work = workdir(pid)
    out = os.path.join(work, outname)
    p = sh([binary] + args + ['-out', out], check=False, timeout=timeout, env=GOENV)
    if p.returncode != 0:
        txt = p.stdout or ''
        i = txt.find('panic: ')
        if i >= 0 and 'goroutine ' in txt[i:]:
            # the process was brought down by a panic in a goroutine nobody can recover from;
            # when the panicking goroutine is the library's own, that run is a concrete failing input
            trace = txt[i:i + 6000]
            first = trace.split('\n\n')[1] if '\n\n' in trace else trace
            frames = [l for l in first.split('\n') if l and not l.startswith('\t') and '(' in l]
            lib = [f for f in frames if 'ThreeDotsLabs/watermill' in f]
            own = [f for f in frames if 'wmverif' in f and not f.startswith('panic(')]
            if lib and (not own or frames.index(lib[0]) < frames.index(own[0])):
                raise ProcessCrash('harness %s: the implementation panicked in its own goroutine' % args[0], [binary] + args, trace)
        raise CheckError('harness %s failed (rc %d):\n%s' % (args[0], p.returncode, (p.stdout or '')[-4000:]))
    return json.load(open(out)), p.stdout

# ---------------------------------------------------------------- results

class ProcessCrash(CheckError):
    def __init__(self, msg, cmd, trace):
        CheckError.__init__(self, msg + '\n' + trace)
        self.cmd, self.trace = cmd, trace

class Result:
    def __init__(self):
        self.evaluations = 0
        self.nontrivial = set()       # hashable descriptions of distinct non-trivial cases
        self.samples = []
        self.mismatches = []          # dict(kind, detail, case)
        self.violations = []          # dict(signature, what, case)
        self.extra = {}               # extra coverage keys
        self.rule = ''
        self.assumptions = []
    def sample(self, s, limit=4):
        if len(self.samples) < limit:
            self.samples.append(s)
    def count(self, key, n=1):
        d = self.extra.setdefault('input_distribution', {})
        d[key] = d.get(key, 0) + n

def load_known():
    p = os.path.join(VERIF, 'known_findings.json')
    if not os.path.exists(p):
        return []
    return json.load(open(p)).get('findings', [])

def write_replay(pid, tag, data):
    d = os.path.join(OUT, 'replays')
    os.makedirs(d, exist_ok=True)
    h = hashlib.sha1(json.dumps(data, sort_keys=True, default=str).encode()).hexdigest()[:10]
    path = os.path.join(d, '%s_%s_%s.json' % (pid, tag, h))
    json.dump(data, open(path, 'w'), indent=1, default=str)
    return path

def anchor_hashes(files):
    res = {}
    for f in files:
        p = os.path.join(REPO, f)
        if os.path.exists(p):
            res[f] = hashlib.sha1(open(p, 'rb').read()).hexdigest()[:12]
    return res
