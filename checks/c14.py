"""C14 — Deduplicator lets exactly one message per key through per window."""
import json, os, re
from . import common as C

HEADER = 'From WM Require Import Base.Prelude Dedup.Model Corr.C14.\n'

# which variant of the decorator the tree under test is expected to be (see design.md: the
# repair "fix: deduplicating publisher ..." hashes the whole batch before asking the repository)
FIXED = True

TRUSTED_BASE = [
    'modelled, not verified: sync.Mutex (mutual exclusion: Lock enabled only when free), the Go memory model, '
    'map reads/writes/deletes under the mutex as atomic steps, time.Now() and the ticker as a monotone clock oracle '
    '(a tick carries a time that is not in the future; how soon ticks arrive is NOT modelled: re-acceptance is stated '
    'relative to a sweep having run), time.Time.Add/Before on monotonic readings as integer arithmetic',
    'hash/adler32 and crypto/sha256 are a Section variable H (digest of a byte string); SHA-256 injectivity is a NAMED '
    'HYPOTHESIS of C14_sha256_distinguishes_within_limit (false of any real hash function, believed infeasible to refute); '
    'io.CopyN + bytes.Reader feed exactly the first min(n, len) bytes (compared on every run against an oracle table of the '
    'stdlib digest of every prefix of every generated payload); hash.Hash streaming = one-shot digest',
    'Dedup/Model.v is hand-written from message/router/middleware/deduplicator.go and tied to it by this check: schedule '
    'replay of the stamped hook log through Model.step (every label must be enabled, answers, events, final map size equal), '
    'mw_run/dec_run against observed outcomes with real and scripted collaborators, hash_key against the real hashers',
    'hook stamps carry readings of Go\'s monotonic clock taken from time.Time.String() (" m=+s.ns"): the same values '
    'Before() compares; the stamp->label mapping (checks/c14.py map_conc) and harness/c14rt are trusted',
    'context.WithTimeout / Deduplicator.Timeout clamp and the nil-field defaults are compared as plain observations (glue), not modelled',
]
ASSUMPTIONS = [
    'real-time claims are theorems over the clock oracle; on the implementation the window is 40..100 ms, lower bounds '
    '(no deletion before insertion + window) are checked exactly on monotonic clock readings without slack, the only '
    'upper bound (the map empties itself) has 15 s of slack',
    'data races are outside the model; the thorough tier runs the concurrent family under -race (testing)',
    'goroutines leaked by NewMapExpiringKeyRepository (context.Background(), never stopped) are not judged',
]

def N(x): return C.coq_N(x)
def Z(x): return C.coq_Z(x)
def nlist(l): return '([' + '; '.join(str(x if isinstance(x, str) or x >= 0 else 999999) for x in l) + '])%N'   # -1 = an object the harness does not know
def enc(bs): return hex(int.from_bytes(bytes([1] + list(bs)), 'big'))
def tab(t): return '([' + '; '.join('(%d, %s)' % (e['n'], enc(e['d'])) for e in t) + '])%N'

def parse_mono(s):
    m = re.search(r' m=([+-])(\d+)\.(\d{9})$', s)
    if not m:
        return None
    v = int(m.group(2)) * 10**9 + int(m.group(3))
    return -v if m.group(1) == '-' else v

# ---------------------------------------------------------------- hashers

def hash_terms(cases):
    hs, ms = [], []
    for c in cases:
        if c['kind'] == 'meta':
            ms.append((c, '(MC %s %s %s %s %s)' % (N(c['field']), N(c['uuid']),
                      C.coq_list(['(%s, %s)' % (N(a), N(b)) for a, b in c['meta']]),
                      'None' if c['mkey'] < 0 else '(Some %s)' % N(c['mkey']),
                      C.coq_bool(c['merr_names'] and c['mkey_empty']))))
        else:
            k = lambda key, e: 'None' if e else '(Some %s)' % nlist([enc(key)])
            hs.append((c, '(HC %s %s %s %s %s %s %s %s)' % (C.coq_bool(c['kind'] == 'sha'), Z(c['limit']), nlist(c['p1']), nlist(c['p2']),
                      k(c['k1'], c['e1']), k(c['k2'], c['e2']),
                      tab(c['tab1']), tab(c['tab2']))))
    return hs, ms

def eff(limit): return max(limit, 64)

def check_hash(pid, data, res):
    hs, ms = hash_terms(data)
    for part, chunk in enumerate(C.chunks(hs, 400)):
        r = C.coq_eval(pid, 'hash_%d' % part, HEADER + 'Definition cases : list hash_case := %s.\n' % C.coq_list([t for _, t in chunk]),
                       [('R_mis', 'hash_mismatches cases'), ('R_vio', 'hash_violations cases')])
        for i in r['R_vio']:
            c = chunk[i][0]
            res.violations.append(dict(signature='C14/hasher-law', what=('built-in hasher: two payloads that differ within the read limit got one key (SHA-256 must separate them)' if c['k1'] == c['k2'] and not c['e1'] else 'built-in hasher: keys of two payloads contradict "equal up to the read limit => equal keys; SHA-256: different within it => different keys"'),
                                       case={k: c[k] for k in ('kind', 'limit', 'shape', 'p1', 'p2', 'k1', 'k2', 'e1', 'e2')}))
        for i in r['R_mis']:
            c = chunk[i][0]
            res.mismatches.append(dict(kind='Corr.C14.hash_mismatch (Model.hash_key over the stdlib-digest oracle vs the real hasher)',
                                       explained_by_violation=i in r['R_vio'], case={k: c[k] for k in ('kind', 'limit', 'shape', 'p1', 'p2', 'k1', 'k2')}))
    if ms:
        r = C.coq_eval(pid, 'meta', HEADER + 'Definition cases : list meta_case := %s.\n' % C.coq_list([t for _, t in ms]),
                       [('R_mis', 'meta_mismatches cases')])
        for i in r['R_mis']:
            c = ms[i][0]
            res.violations.append(dict(signature='C14/metadata-hasher', what='metadata-field hasher: key is not the field value / a missing field is not an error naming message and field',
                                       case={k: c[k] for k in ('field', 'uuid', 'meta', 'mkey', 'merr_names', 'mkey_empty')}))
    for c in data:
        res.evaluations += 1
        if c['kind'] == 'meta':
            res.count('hash: metadata field %s' % ('present' if c['mkey'] >= 0 else 'absent'))
            res.nontrivial.add(('meta', c['mkey'] >= 0, len(c['meta'])))
        else:
            res.count('hash: %s %s' % (c['kind'], c['shape']))
            e = eff(c['limit'])
            same = c['p1'][:e] == c['p2'][:e]
            if c['p1'] != c['p2']:
                res.nontrivial.add(('hash', c['kind'], c['shape'], min(c['limit'], 200), same, len(c['p1']), len(c['p2'])))
    if hs:
        c = hs[0][0]
        res.sample(dict(kind='hasher', hasher=c['kind'], limit=c['limit'], shape=c['shape'], len1=len(c['p1']), len2=len(c['p2']), keys_equal=c['k1'] == c['k2']))

# ---------------------------------------------------------------- scripted glue

def item_term(key, err):
    return '(IErr %s)' % N(err) if key < 0 else '(IKey %s)' % N(key)

def obs_mw(handler, settle, ret, ret_err):
    r = {'dropped': '(Some MDropped)', 'pass': '(Some MPass)', 'err': '(Some (MErr %s))' % N(ret_err)}.get(ret, 'None')
    return '(ObsMW %s %s %s)' % (nlist(handler), N(settle), r)

def obs_dec(settle, inner, ret, ret_err):
    r = {'inner': '(Some DInner)', 'err': '(Some (DErr %s))' % N(ret_err)}.get(ret, 'None')
    return '(ObsDEC %s %s %s)' % (nlist(settle), C.coq_list([nlist(i) for i in inner]), r)

def check_seq(pid, data, res):
    terms = []; windows = []; timeouts = []
    for c in data:
        res.evaluations += 1
        if c['kind'] == 'window':
            res.count('glue: NewMapExpiringKeyRepository window validation')
            windows.append(c)
            res.nontrivial.add(('window', c['window_ns'] >= 1000000))
            continue
        if c['kind'] in ('defaults-mw', 'defaults-dec', 'nil-publisher'):
            res.count('glue: ' + c['kind'])
            if c['ret'] != c['detail']:
                res.mismatches.append(dict(kind='C14 glue: documented defaults (nil KeyFactory = Adler-32 of the whole payload, nil Repository = map repository, nil receiver, nil publisher refused)',
                                           case=dict(kind=c['kind'], observed=c['ret'], expected=c['detail'])))
            continue
        res.count('glue: %s with scripted hasher/repository' % c['kind'])
        if not (c['deadline_lo'] and c['deadline_hi'] and c['ctx_seen']) or c.get('detail'):
            res.mismatches.append(dict(kind='C14 glue: repository context (deadline = now + max(Timeout, 5 ms), derived from the message context) / topic',
                                       case=dict(timeout_ns=c['timeout_ns'], deadline_lo=c['deadline_lo'], deadline_hi=c['deadline_hi'], ctx_seen=c['ctx_seen'], detail=c.get('detail'))))
        if c.get('repo_calls', 0) != 0:
            timeouts.append(c)
        ans = {0: 'RNew', 1: 'RDup'}
        msgs = C.coq_list(['(%s, %s, %s)' % (N(m['id']), item_term(m['key'], m['err']),
                                           '(RFail %s)' % N(m['aerr']) if m['ans'] == 2 else ans[m['ans']]) for m in c['msgs']])
        if c['kind'] == 'mw':
            o = obs_mw(c['handler'], c['settle'][0], c['ret'], c['ret_err'])
        else:
            o = obs_dec(c['settle'], c['inner'], c['ret'], c['ret_err'])
        terms.append((c, '(SC %s %s %s %s %s)' % (C.coq_bool(c['kind'] == 'dec'), C.coq_bool(FIXED), msgs, nlist(c['repo_keys']), o)))
        fails = sum(1 for m in c['msgs'] if m['key'] < 0 or m['ans'] == 2)
        res.nontrivial.add(('seq', c['kind'], len(c['msgs']), fails, sum(1 for m in c['msgs'] if m['ans'] == 1), c['ret']))
    for part, chunk in enumerate(C.chunks(terms, 400)):
        r = C.coq_eval(pid, 'seq_%d' % part, HEADER + 'Definition cases : list seq_case := %s.\n' % C.coq_list([t for _, t in chunk]),
                       [('R_mis', 'seq_mismatches cases')])
        for i in r['R_mis']:
            c = chunk[i][0]
            sig = 'C14/decorator-outcome' if c['kind'] == 'dec' else 'C14/middleware-outcome'
            res.violations.append(dict(signature=sig, what='with scripted hasher/repository the %s does not do what the property says (duplicates dropped as successes without invoking, everything else passed through unchanged, errors returned)' % ('publisher decorator' if c['kind'] == 'dec' else 'middleware'),
                                       case={k: c[k] for k in ('kind', 'msgs', 'repo_keys', 'handler', 'ret', 'ret_err', 'settle', 'inner')}))
    if timeouts or windows:
        r = C.coq_eval(pid, 'glue', HEADER + 'Definition tcs : list timeout_case := %s.\nDefinition wcs : list (Z * bool) := %s.\n' % (
                C.coq_list(['(TC %s %s %s %s)' % (Z(c['timeout_ns']), C.coq_bool(c['has_deadline'] and c['repo_calls'] > 0), Z(c['dl_lo_ns']), Z(c['dl_hi_ns'])) for c in timeouts]),
                C.coq_list(['(%s, %s)' % (Z(c['window_ns']), C.coq_bool(c['window_err'])) for c in windows])),
            [('R_t', 'timeout_mismatches tcs'), ('R_w', 'window_mismatches wcs')])
        for i in r['R_t']:
            c = timeouts[i]
            res.mismatches.append(dict(kind='Corr.C14.timeout_mismatch (Glue.eff_timeout vs the deadline the repository was given)',
                                       case={k: c[k] for k in ('kind', 'timeout_ns', 'repo_calls', 'has_deadline', 'dl_lo_ns', 'dl_hi_ns')}))
        for i in r['R_w']:
            c = windows[i]
            res.mismatches.append(dict(kind='Corr.C14.window_mismatch (Glue.window_ok vs NewMapExpiringKeyRepository)',
                                       case=dict(window_ns=c['window_ns'], returned_error=c['window_err'])))
        res.extra['glue_model'] = dict(timeout_cases=len(timeouts), window_cases=len(windows))
    if terms:
        c = terms[0][0]
        res.sample(dict(kind='glue', call=c['kind'], msgs=c['msgs'], repo_keys=c['repo_keys'], ret=c['ret'], settle=c['settle'], inner=c['inner']))

# ---------------------------------------------------------------- concurrent

def map_conc(case):
    """stamped log -> (model labels, linearisation events, per-thread answers, problems)"""
    G = len(case['threads'])
    w = case['w_ns']
    labels, events, problems = [], [], []
    answers = [[] for _ in range(G)]
    # "enter" stamps precede Lock(): they carry no label and may fall anywhere, also inside another
    # goroutine's critical section — which is how lock contention is measured
    contended = 0; holder = None; hkey = None; waiting = {}; samekey = 0
    for e in case['log']:
        p = e['p']
        if p.endswith('.enter'):
            contended += 1 if holder is not None and holder != e['tid'] else 0
            waiting[e['tid']] = e['k'][0]
        elif p.endswith('.locked'):
            holder = e['tid'] if e['tid'] >= 0 else G
            waiting.pop(e['tid'], None)
        elif p.endswith('.inserted'):
            # a fresh key is being recorded while others are already queued at Lock() with the same key
            samekey += sum(1 for t, k in waiting.items() if k == e['k'][0])
        elif p.endswith('.unlock'):
            holder = None
    case['_samekey'] = samekey
    log = [e for e in case['log'] if not e['p'].endswith('.enter')]
    clock = case['t0_ns']
    def adv(t):
        nonlocal clock
        labels.append('(LAdv %s)' % Z(t))
        clock = max(clock, t)
    i = 0
    stats = dict(ins=0, dup=0, removed=0, sweeps=0)
    while i < len(log):
        e = log[i]; p = e['p']; t = e['tid']; k = e.get('k') or []
        if p.startswith('dedup.isduplicate.'):
            if t < 0 or t >= G:
                problems.append('IsDuplicate stamp from an unregistered goroutine'); i += 1; continue
            key = int(k[0])
            if p.endswith('.locked'):
                labels.append('(LThr %d)' % t)
            elif p.endswith('.lookup'):
                adv(e['ns']); labels.append('(LThr %d)' % t)
                if k[1] == 'true':
                    events.append('(EDup %d 0%%N %s %s)' % (t, N(key), Z(clock))); stats['dup'] += 1
            elif p.endswith('.inserted'):
                exp = parse_mono(k[1])
                if exp is None:
                    problems.append('expiry without monotonic reading: ' + k[1]); i += 1; continue
                now = exp - w
                if now < clock:
                    problems.append('clock oracle not monotone: time.Now() = %d read after a stamp at %d' % (now, clock))
                if now > log[i]['ns']:
                    problems.append('time.Now() = %d later than the following stamp at %d' % (now, log[i]['ns']))
                adv(now); labels.append('(LThr %d)' % t)
                events.append('(EIns %d 0%%N %s %s)' % (t, N(key), Z(clock))); stats['ins'] += 1
            elif p.endswith('.unlock'):
                labels.append('(LThr %d)' % t)
                answers[t].append(k[1] == 'dup')
        elif p == 'dedup.cleanout.ticked':
            # taken before Lock(), i.e. concurrently with a client's critical section: its position
            # in the log says nothing about the client's time.Now().  The model receives the tick
            # right before the cleaner's Lock (the tick step only moves the cleaner's own pc).
            pass
        elif p == 'dedup.cleanout.locked':
            # the whole critical section of the sweep, if its end was logged
            j = i + 1; removed = []
            while j < len(log) and log[j]['p'] == 'dedup.cleanout.removed':
                removed.append(int(log[j]['k'][0])); j += 1
            if j < len(log) and log[j]['p'] == 'dedup.cleanout.unlock':
                T = parse_mono(k[0])
                if T is None or T > e['ns']:
                    problems.append('tick time %s is later than the stamp taken after receiving it (%d)' % (k[0], e['ns']))
                else:
                    if e['ns'] < clock:
                        problems.append('clock oracle not monotone: sweep stamped at %d after a stamp at %d' % (e['ns'], clock))
                    adv(e['ns'])
                    labels.append('(LTick %d %s)' % (G, Z(T)))
                    labels.append('(LThr %d)' % G); labels.append('(LThr %d)' % G); labels.append('(LThr %d)' % G)
                    events.append('(ESweep %d %s %s %s)' % (G, Z(T), Z(clock), nlist(removed)))
                    stats['removed'] += len(removed); stats['sweeps'] += 1
                i = j + 1; continue
            elif j < len(log):
                problems.append('a stamp of another goroutine inside the sweep\'s critical section: ' + log[j]['p'])
            i = j; continue
        i += 1
    return labels, events, answers, problems, contended, stats

def op_terms(th):
    ops, obs = [], []
    for op in th['ops']:
        if op['kind'] == 'mw':
            m = op['msgs'][0]
            ops.append('(OpMW %s %s)' % (N(m['id']), item_term(m['key'], m['err'])))
            obs.append(obs_mw(op['handler'] or [], (op['settle'] or [9])[0], op['ret'], op['ret_err']))
        elif op['kind'] == 'dec':
            ops.append('(OpDEC %s)' % C.coq_list(['(%s, %s)' % (N(m['id']), item_term(m['key'], m['err'])) for m in (op.get('msgs') or [])]))
            ret = op['ret'] if op['inner_topic'] else 'other'
            obs.append(obs_dec(op['settle'] or [], op['inner'] or [], ret, op['ret_err']))
    return C.coq_list(ops), C.coq_list(obs)

# slack of the verdict "accepted again after it expired": a duplicate whose every possible cause ended this many
# windows before it started is a violation (clean-up is promised within 1.5 windows; steady streams last 12)
STALE_WINDOWS = 8

def api_calls(case):
    """the history as seen from outside: (key, start, end, duplicate?) per message the repository
    was asked about, read off the outcomes and the harness's own clock readings — no hooks"""
    calls = []
    for th in case['threads']:
        for op in th['ops']:
            if op['kind'] == 'mw':
                m = op['msgs'][0]
                if m['key'] < 0 or op['ret'] not in ('dropped', 'pass'):
                    continue
                calls.append((m['key'], op['start'], op['end'], op['ret'] == 'dropped'))
            elif op['kind'] == 'dec':
                if op['ret'] != 'inner' or len(op.get('inner') or []) != 1:
                    continue
                left = list(op['inner'][0])
                for m in op.get('msgs') or []:
                    if m['key'] < 0:
                        continue
                    new = m['id'] in left
                    if new:
                        left.remove(m['id'])
                    calls.append((m['key'], op['start'], op['end'], not new))
    return calls

def describe_conc(case, stats=None):
    d = dict(mode=case['mode'], hasher=case['hasher'], limit=case['limit'], window_ms=case['w_ns'] / 1e6, goroutines=len(case['threads']),
             seed=case['seed'], drained=case['drained'], len_end=case['len_end'],
             threads=[dict(tid=t['tid'], ops=[{k: op.get(k) for k in ('kind', 'msgs', 'sleep_ns', 'handler', 'ret', 'ret_err', 'settle', 'inner', 'start', 'end') if op.get(k) not in (None, [], 0, '')}
                                               for op in t['ops']][:40]) for t in case['threads']][:12])
    if stats:
        d['stamped'] = stats
    return d

CODES = {1: 'the model rejects the recorded schedule (a label was not enabled: e.g. two threads between Lock and Unlock)',
         2: 'a client thread is left unfinished in the model', 3: 'the answers of IsDuplicate differ from the model run',
         4: 'the model\'s linearisation events differ from the stamped ones (time, key, or the set of deleted keys)',
         5: 'an observed outcome (handler calls, acks, inner Publish, return value) differs from mw_run / dec_run',
         6: 'the number of IsDuplicate calls of a thread does not fit what the model expects', 7: 'thread counts differ',
         8: 'Len() of the repository at the end differs from the model\'s map',
         9: 'Clients.compile differs from the program of IsDuplicate calls the replay expects',
         10: 'the messages given to the handler / inner publisher differ from Clients.delivered on the observed answers'}

def check_conc(pid, name, cases, res):
    mapped = []
    for case in cases:
        res.evaluations += 1
        res.count('conc: %s, %s hasher' % (case['mode'], case['hasher']))
        res.count('conc: goroutines %s' % ('1' if len(case['threads']) == 1 else '2-8' if len(case['threads']) <= 8 else '9-32'))
        if case.get('forced'):
            res.extra.setdefault('forced_overlaps', {}).setdefault('second lookup of a key while the first caller sits between its lookup and its insert', dict(achieved=0, infeasible=0, unused=0))[case['forced']] += 1
        if case.get('panicked'):
            res.violations.append(dict(signature='C14/panic', what='a call into the deduplicator panicked: ' + case['panicked'], case=describe_conc(case)))
            continue
        if (case['mode'] == 'expiry' and not case['drained']) or (case['mode'] in ('expiry', 'steady') and case['len_end'] != 0):
            res.violations.append(dict(signature='C14/never-expires', what='keys are still remembered 15 s after the last call (window %.0f ms): an expired key is never accepted again' % (case['w_ns'] / 1e6),
                                       case=describe_conc(case)))
        labels, events, answers, problems, contended, stats = map_conc(case)
        # a mapping problem (e.g. clock readings out of order) makes the schedule replay meaningless, but
        # never masks a verdict: the acceptors still judge the stamped events of such a case
        prob_recs = [dict(kind='C14 stamp mapping: ' + pr, case=describe_conc(case, stats)) for pr in problems]
        res.mismatches += prob_recs
        case['_problems'] = (problems, prob_recs)
        thr = [op_terms(t) for t in case['threads']]
        term = '(CC %s %s %s %s %s %s %s %s %d)' % (
            Z(case['w_ns']), Z(case['t0_ns']), C.coq_bool(FIXED), C.coq_list([a for a, _ in thr]), C.coq_list(labels),
            C.coq_list([C.coq_list([C.coq_bool(b) for b in a]) for a in answers]), C.coq_list(events),
            C.coq_list([b for _, b in thr]), case['len_end'])
        mapped.append((case, term, contended, stats))
    searched = []
    for part, chunk in enumerate(C.chunks(mapped, 12)):
        r = C.coq_eval(pid, '%s_%d' % (name, part), HEADER + 'Definition cases : list conc_case := %s.\n' % C.coq_list([t for _, t, _, _ in chunk]),
                       [('R_mis', 'conc_mismatches cases'), ('R_vio', 'conc_violations cases'), ('R_stat', 'map conc_stats cases')])
        vio = dict(r['R_vio']); mis = dict(r['R_mis'])
        for i, (case, _, contended, stats) in enumerate(chunk):
            reacc, dups, removed = r['R_stat'][i]
            st = dict(stats, contended_lock_acquisitions=contended, keys_accepted_again_after_deletion=reacc, racers_queued_behind_a_fresh_insert_of_their_key=case.get('_samekey', 0))
            if len(case['threads']) > 1 and dups > 0:
                res.nontrivial.add(('conc', case['mode'], case['hasher'], len(case['threads']), dups, reacc, removed, contended > 0))
            res.extra.setdefault('concurrent', dict(cases=0, replayed=0, contended_cases=0, cases_with_racers_queued_behind_a_fresh_insert_of_their_key=0, duplicate_answers=0, keys_deleted=0, reaccepted_keys=0, sweeps=0))
            cc = res.extra['concurrent']
            cc['cases'] += 1; cc['replayed'] += 0 if (i in mis and 1 in mis[i]) or case.get('_problems', ([], []))[0] else 1
            cc['contended_cases'] += 1 if contended else 0; cc['cases_with_racers_queued_behind_a_fresh_insert_of_their_key'] += 1 if case.get('_samekey') else 0; cc['duplicate_answers'] += dups
            cc['keys_deleted'] += removed; cc['reaccepted_keys'] += reacc; cc['sweeps'] += stats['sweeps']
            codes = vio.get(i, [])
            problems, prob_recs = case.get('_problems', ([], []))
            if problems:
                st = dict(st, stamp_mapping_problems=problems[:5])
                for pr in prob_recs:
                    pr['explained_by_violation'] = bool(codes)
            if 22 in codes:
                res.violations.append(dict(signature='C14/expired-key-never-reaccepted', what='the stamped history contains a "duplicate" answered more than 7 windows after the expiry of the entry it hit (C14_timely_trace_fresh bounds this by p + 3d; documented: half a window)',
                                           case=describe_conc(case, st)))
            if 20 in codes:
                res.violations.append(dict(signature='C14/timed-set-rejected', what='the stamped history of IsDuplicate answers and deletions is rejected by the timed-set specification (two "new" answers for one key inside a window, a duplicate without cause, a deletion before expiry, or an expired key left behind by a sweep)',
                                           case=describe_conc(case, st)))
            if 21 in codes:
                res.violations.append(dict(signature='C14/recorded-but-not-delivered', what='a message whose key was recorded as new did not reach the handler / the inner publisher (or a duplicate did): later messages with that key are dropped although none got through',
                                           case=describe_conc(case, st)))
            if i in mis and problems:
                mis[i] = [k for k in mis[i] if k in (1, 5)]   # with clock problems only a rejected label and the outcomes still mean something
                if not mis[i]:
                    del mis[i]
            if i in mis:
                if 5 in mis[i] and not codes:
                    res.violations.append(dict(signature='C14/outcome-differs', what='a middleware / decorator call did not do what the property says with the repository\'s answer (duplicates dropped as successes without invoking, everything else passed through unchanged)',
                                               case=describe_conc(case, st)))
                rec = dict(kind='Corr.C14.conc_replay (Dedup/Model.v vs deduplicator.go): ' + '; '.join(CODES.get(k, str(k)) for k in mis[i]),
                           explained_by_violation=bool(codes) or 5 in mis[i], case=describe_conc(case, st))
                if 1 in mis[i] and (not codes or os.environ.get('C14_SEARCH_ALWAYS')) and len(searched) < 3:
                    # the implementation made a step the model does not have and no acceptor objects:
                    # search the model (with that liberty) for the shortest continuation that violates the property
                    searched.append(1)
                    try:
                        sr = C.coq_eval(pid, '%s_search_%d_%d' % (name, part, i), HEADER + 'Definition c : conc_case := %s.\n' % chunk[i][1],
                                        [('R_s', 'conc_search 8 c')], timeout=300)['R_s']
                        idx, thr1, cont = sr
                        rec['model_side_search'] = dict(
                            rejected_label_index=idx, rejected_thread=thr1 - 1 if thr1 else None, depth=8,
                            shortest_violating_continuation=[('thread %d steps' % t) for t in cont] or None,
                            note=('from the last state on which model and implementation agree, letting the rejected step happen (mutex forced free), this '
                                  'continuation makes the timed-set specification reject the trace: a prediction of how the deviation breaks the property, not a failing input')
                                 if cont else 'no continuation of at most 8 steps of the threads involved violates the specification')
                    except Exception as e:
                        rec['model_side_search'] = dict(error=str(e)[-300:])
                res.mismatches.append(rec)
    # the API-level history of every case (also of those whose stamps could not be mapped)
    apic = [c for c in cases if not c.get('panicked')]
    for part, chunk in enumerate(C.chunks(apic, 30)):
        terms = ['(%s, %s)' % (Z(c['w_ns']), C.coq_list(['(AC %s %s %s %s)' % (N(k), Z(s0), Z(e0), C.coq_bool(d)) for k, s0, e0, d in api_calls(c)])) for c in chunk]
        r = C.coq_eval(pid, '%s_api_%d' % (name, part), HEADER + 'Definition cases : list (Z * list acall) := %s.\n' % C.coq_list(terms),
                       [('R_vio', 'api_violations cases'), ('R_stale', 'api_stale %d cases' % STALE_WINDOWS)])
        res.extra.setdefault('api_histories', dict(histories=0, calls=0))
        res.extra['api_histories']['histories'] += len(chunk)
        res.extra['api_histories']['calls'] += sum(len(api_calls(c)) for c in chunk)
        for i in r['R_vio']:
            case = chunk[i]
            res.violations.append(dict(signature='C14/api-history-rejected', what='seen from outside (call intervals and outcomes only): two messages with one key got through within one window, or a message was dropped as a duplicate although no message with its key had got through',
                                       case=dict(describe_conc(case), calls=[dict(key=k, start=s0, end=e0, duplicate=d) for k, s0, e0, d in api_calls(case)][:60])))
        for i, keys in r['R_stale']:
            case = chunk[i]; w = case['w_ns']; t0 = case['t0_ns']; calls = api_calls(case)
            per_key = {}
            for k in keys:
                mine = [c for c in calls if c[0] == k]
                per_key[str(k)] = dict(accepted_at_windows=[round((c[1] - t0) / w, 2) for c in mine if not c[3]],
                                       calls=len(mine), first_call_at_windows=round((min(c[1] for c in mine) - t0) / w, 2),
                                       last_call_at_windows=round((max(c[2] for c in mine) - t0) / w, 2))
            res.violations.append(dict(signature='C14/expired-key-never-reaccepted',
                                       what='a key that keeps arriving is still dropped as a duplicate %d windows after the last message with it got through (window %.0f ms; the documentation promises expiry within 1.5 windows): it is not accepted again after it expired'
                                            % (STALE_WINDOWS, w / 1e6),
                                       case=dict(describe_conc(case), stale_keys=per_key)))
        for case in chunk:
            if case['mode'] != 'steady':
                continue
            calls = api_calls(case); w = case['w_ns']
            keys = sorted({c[0] for c in calls})
            acc = {k: sum(1 for c in calls if c[0] == k and not c[3]) for k in keys}
            span = {k: (max(c[1] for c in calls if c[0] == k) - min(c[2] for c in calls if c[0] == k and not c[3])) / w for k in keys if acc[k]}
            st = res.extra.setdefault('steady_streams', dict(cases=0, keys=0, calls=0, min_accepts_per_key=None, min_observed_span_windows=None))
            st['cases'] += 1; st['keys'] += len(keys); st['calls'] += len(calls)
            if acc:
                st['min_accepts_per_key'] = min(acc.values()) if st['min_accepts_per_key'] is None else min(st['min_accepts_per_key'], min(acc.values()))
            if span:
                st['min_observed_span_windows'] = round(min(span.values()) if st['min_observed_span_windows'] is None else min(st['min_observed_span_windows'], min(span.values())), 1)
            if acc and min(acc.values()) >= 2:
                res.nontrivial.add(('steady', case['hasher'], len(case['threads']), tuple(sorted(acc.values()))))
    if mapped:
        case, _, contended, stats = max(mapped, key=lambda m: (m[0]['mode'] == 'expiry', m[3]['dup']))
        d = describe_conc(case, dict(stats, contended=contended)); d['threads'] = d['threads'][:3]
        res.sample(dict(kind='concurrent', **d), limit=4)
    return mapped

def harness_conc(binary, pid, outname, args, res):
    """runs c14conc; a crash of the runtime (concurrent map access) is a violation, not an error"""
    out = os.path.join(C.workdir(pid), outname)
    p = C.sh([binary, 'c14conc'] + args + ['-out', out], check=False, timeout=900, env=C.GOENV)
    if p.returncode != 0:
        txt = p.stdout or ''
        if 'concurrent map' in txt or 'fatal error' in txt or 'DATA RACE' in txt:
            res.violations.append(dict(signature='C14/runtime-crash', what='the Go runtime aborted the concurrent scenario: ' + (re.search(r'fatal error: .*', txt) or re.search(r'.+', txt)).group(0)[:200],
                                       case=dict(args=args, output=txt[:3000])))
            return []
        raise C.CheckError('harness c14conc failed (rc %d):\n%s' % (p.returncode, txt[-4000:]))
    return json.load(open(out))

def run(ctx, seed_offset=0, scale=1):
    pid, tier, seed = ctx['pid'], ctx['tier'], ctx['seed'] + seed_offset
    res = C.Result()
    binary = C.build_harness()
    big = tier == 'thorough'
    hdata, _ = C.run_harness(binary, ['c14hash', '-cases', str((1500 if big else 360) * scale), '-seed', str(seed)], pid, 'c14hash.json')
    check_hash(pid, hdata, res)
    sdata, _ = C.run_harness(binary, ['c14seq', '-cases', str((3000 if big else 500) * scale), '-seed', str(seed)], pid, 'c14seq.json')
    check_seq(pid, sdata, res)
    cdata = harness_conc(binary, pid, 'c14conc.json', ['-race', str((300 if big else 48) * scale), '-expiry', str((60 if big else 10) * scale), '-steady', str((12 if big else 3) * scale), '-seed', str(seed)], res)
    check_conc(pid, 'conc', cdata, res)
    if big:
        rb = C.build_harness(race=True)
        p = C.sh([rb, 'c14conc', '-race', '150', '-expiry', '20', '-steady', '0', '-seed', str(seed + 7), '-out', C.workdir(pid) + '/c14race.json'],
                 check=False, env=dict(C.GOENV, GORACE='halt_on_error=0'), timeout=1500)
        races = (p.stdout or '').count('WARNING: DATA RACE')
        res.extra['race_detector'] = dict(cases=170, races_reported=races, note='testing, not proof')
        if races:
            res.violations.append(dict(signature='C14/data-race', what='race detector reports a data race in the deduplicator under concurrent use', case=dict(report=p.stdout[:3000])))
    res.rule = ('hashers: generated payload pairs (same prefix/different tails, limit vs limit+k, differing at limit-1 / at limit, limit-1 vs limit, short, identical; adversarial pairs built from the hashers\' own outputs: the raw digest of the other payload\'s prefix at the read limit / of the whole payload / the key the hasher under test returned, as a payload) x limits '
                '{MinInt64,-1,0,1,63..66,80,100,127..129,MaxInt64} x {Adler-32, SHA-256}, metadata hasher on present/absent/empty fields; non-trivial = the two payloads differ. '
                'glue: scripted hasher/repository (errors at every position, duplicates, cancelled context, ten timeouts) through Middleware and PublisherDecorator; '
                'concurrent: 1..32 goroutines, each 1..3 middleware calls / decorator batches (0..4 messages, same object twice) on 1..4 keys through ONE Deduplicator with the real map repository, '
                'seeded yields at every stamp; steady cases: 1..3 keys sent once and then every w/8..w/4 for 12 windows by 1..3 goroutines, nothing else, nobody calling Len() (a duplicate %d windows after its last possible cause is a violation); race cases with a 1 h window,' % STALE_WINDOWS + ' expiry cases with a 40..100 ms window, scripted sleeps of 0.1..2.2 windows and a final probe of every key after the map emptied itself; '
                'non-trivial = at least two goroutines and at least one duplicate answer; distinct by (mode, hasher, goroutines, duplicates, re-accepted keys, deleted keys, lock contention seen).')
    return res

def search(ctx, res):
    out = C.Result()
    for k in range(1, 4):
        r = run(dict(ctx, tier='quick'), seed_offset=1000 * k, scale=2)
        out.evaluations += r.evaluations; out.nontrivial |= r.nontrivial; out.violations += r.violations
        if r.violations:
            break
    return out

def replay(ctx, data):
    C.log('replay: re-running the scenario families with the recorded seed')
    return run(dict(ctx, seed=data.get('seed', ctx['seed'])))
