"""What MANIFEST.json says per property (bin/mkmanifest turns this into the manifest)."""
NOTES = ('All checks: bin/check <id> <tier>. Theorems live in coq/Props/<id>.v (statements only, closed by exact, Print Assumptions). '
         'See DESIGN.md for the approach, the trusted base and which seeded changes each check catches.')
NOT_APPLICABLE = {}
CHECKS = {
 'C03': dict(
  text=('Theorems over ALL operation sequences / ALL thread counts, programs and schedules of a hand-written model of message.go '
        '(sequential first-wins law; thread-level transition system proved linearizable by an invariant: lin points form a legal sequential '
        'history, same winner for all callers, no panic, mutual exclusion; the linearizability acceptor that judges implementation histories is proved to '
        'accept the stamped call history of every quiescent model state). A world model of any number of messages (NewMessage, zero value, Copy(), '
        'metadata maps as references, contexts): every message is its own first-wins machine whatever happens to the others, Copy() of a message in any '
        'state is a fresh unsettled message with the same content and its own map, settling or writing metadata through a copy never shows in the source '
        'and vice versa, SetContext/Context are irrelevant for settlement. Tied to the code on every run: exhaustive sweep of all sequences '
        'up to length 6 (quick) / 8 (thorough) on five constructors compared with the model, concurrent runs whose hook-stamp order is '
        'replayed on the transition system label by label and judged by the proved acceptor, seeded multi-message programs (Copy / metadata / context) '
        'run on real messages and compared with the world model, copies taken while the source is being settled.'),
  note=('Trusted: Coq kernel + vm_compute; the model of sync.Mutex / channel close as atomic steps; the Go harness and stamp->label mapping; '
        'that lin_ok REJECTS every non-linearizable history is argued, not proved (that it accepts every model history is a theorem). '
        'Payload bytes are immutable in the model (Copy() shares the slice). "No call blocks" and data races are checked by watchdog / -race (testing), not proved.'),
  technique='Coq proof (invariant over a thread-level LTS, induction over op sequences) + differential correspondence check with schedule replay',
  design_ref='DESIGN.md section 7 C03'),
 'C02': dict(
  text=('Theorems for EVERY handler behaviour (any output list, error with/without outputs, panic, own Ack/Nack first), publisher kind and behaviour '
        'about a hand-written model of handleMessage/publishProducedMessages layered on the C03 settlement model: settles exactly once as the last action, '
        'Ack iff no error and outputs accepted, own settlement never overridden, Ack only after Publish returned nil, nothing published on error, '
        'outputs unmodified in order in one call; the same from ANY arrival state reachable in the C03 model (a message that arrives acked / nacked: chain '
        'still invoked once, one Router settle call, the arrival settlement stays). A thread-level model of the handler run loop (receive, WaitGroup Add, '
        'go handleMessage) with any number of messages in flight, for EVERY schedule: the projection of the one global log onto a message is a prefix of its '
        'handleMessage trace (all of it once its thread finished), every finished message was settled exactly once, a Publish call on the shared publisher '
        'carries the outputs of exactly one consumed message, the WaitGroup counter equals the number of running goroutines. Tied to the code on every run: '
        'the full behaviour matrix (3546 scripted cases incl. messages that arrive settled) is run through real Routers with 1..8 messages in flight; every '
        'per-message trace is compared with the model and judged by the proved acceptor, and the ONE interleaved log of every handler (75 run loops) is '
        'replayed strictly on the loop model and judged by the proved acceptor loop_monitor.'),
  note=('Trusted: Coq kernel + vm_compute; recover()/goroutine semantics as modelled; scripted subscriber/publisher/handler and the message hook stamps '
        'that observe the Router\'s settle calls; the Router\'s Ack()/Nack() return value is not observable; the order of the interleaved log is the order '
        'of stamping under one mutex (each event stamped by the goroutine that performs it).'),
  technique='Coq proof (exhaustive case analysis over the scripted behaviour space, polymorphic in the message type) + differential correspondence check on a real Router',
  design_ref='DESIGN.md section 7 C02'),
 'C05': dict(
  text=('Theorems about two hand-written transition-system models of pubsub.go: (A) the per-subscription send protocol - for every buffer size, any number of '
        'Sender goroutines, every consumer behaviour and every schedule at most one copy is in flight (invariant proof; unconditional for the repaired send loop, '
        'refuted by a witness schedule for the pinned one = defect D13); (B) the registry protocol with RWMutex writer preference - the blocking-publish deadlock D9 '
        'is a machine-checked reachable stuck state. Tied to the code on every run: the stamped hook log of random and forced concurrent scenarios is replayed label '
        'by label on both models, and API-level acceptors (one in flight, blocking Publish returns only after Acks) judge the implementation histories.'),
  note=('Trusted: Coq kernel + vm_compute; Go runtime semantics of mutex/RWMutex/channel/select as modelled; hook stamp discipline + Python mapper; Monitor.v acceptors. '
        'The one-in-flight acceptor is proved sound for the model (C05_one_in_flight_acceptor_sound). "Blocking Publish returns" is refuted in general (D9, known finding) and proved over the composed system registry x one send protocol per subscription under a Nack budget with no writer pending and no new Publish/Subscribe/cancel/Close (C05_blocking_returns_composed, a combined measure); per-publisher FIFO is proved over the composition at state level (C05_blocking_fifo_composed) and judged on the implementation by an acceptor whose whole-history soundness is not proved.'),
  technique='Coq proof (invariants over thread-level LTSs, refutation witnesses by vm_compute) + schedule-replay correspondence check + executable API acceptors',
  design_ref='DESIGN.md section 7 C04/C05/C11/C07'),
}

# per-property registry fragments (checks/registry_<id>.py, each defining CHECKS and optionally NOT_APPLICABLE)
import glob as _glob, importlib as _importlib, os as _os
for _f in sorted(_glob.glob(_os.path.join(_os.path.dirname(_os.path.abspath(__file__)), 'registry_*.py'))):
    _m = _importlib.import_module('checks.' + _os.path.basename(_f)[:-3])
    CHECKS.update(getattr(_m, 'CHECKS', {}))
    NOT_APPLICABLE.update(getattr(_m, 'NOT_APPLICABLE', {}))
