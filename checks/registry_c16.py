"""Manifest fragment for C16 (merged by bin/mkmanifest)."""
CHECKS = {
 'C16': dict(
  text=('wip'),
  note=('wip'),
  technique='Coq proof + differential correspondence check',
  design_ref='DESIGN.md section 7 C16'),
}
